"""C02 — Distinct resources never share a cache entry."""

def stages(tier):
    return [
        {"name": "unit", "cmd": "unit", "args": ["-prop", "C02"], "check": "Check.Key.check_key",
         "timeout": 300, "timeout_thorough": 1800},
        {"name": "e2e", "cmd": "e2e02", "args": [], "check": "Check.KeyE2E.check_served",
         "timeout": 300, "timeout_thorough": 1800},
        {"name": "concurrent", "cmd": "keyconc", "args": [], "check": "keys computed by 16 goroutines at once (INFO and DEBUG log level, parking log sink) equal the keys computed alone (direct)",
         "timeout": 300, "timeout_thorough": 900},
    ]

TRUSTED = [
    "model: Model/Key.v mirrors cache/cache_key.go (MakeFromRequest, normalizePath); the pre-hash string is captured from MakeFromRequest's own debug record through the verif hook cache.VerifKeyString and compared with key_string on every generated request",
    "library contract: Go's path.Clean = clean_go (segment-level model), compared on every string over {/,.,a,|} up to length 7 (quick) / 8 (thorough) and on random longer paths on every run",
    "requests are built by the real http.ReadRequest from raw request lines, so the Path/RawQuery split and percent-decoding are net/http's own",
    "e2e stage (harness/cmd/e2e02): pairs of GETs through the real proxy, A stored then B; 'B was answered with A's body without an origin contact' is the observable of sharing an entry",
]
ASSUMPTIONS = [
    "BLAKE2b-256 is collision-free on the key strings that occur: the theorems are about the pre-hash string, the harness compares Hex values",
    "hosts are ASCII (Go's strings.ToLower is Unicode-aware, the model folds ASCII letters only); r.URL.Path is empty, '*' or starts with '/' (what net/http delivers)",
    "the 'path' of the statement is the path as it is sent upstream, r.URL.EscapedPath() (so /a%2Fb and /a/b are different resources, as they are for the origin), and the query is r.URL.RawQuery; percent-encoded dots are data, only literal dot-segments are removed",
    "e2e stage: the origin identifies request-targets exactly up to literal dot-segments and duplicate slashes (a realistic server), and echoes what it identified",
    "dot-segment removal follows RFC 3986 5.2.4 (a final '/.' or '/..' leaves a trailing '/'), applied after dropping empty segments",
]
