"""C08 — Relayed traffic is faithful in both directions."""


def stages(tier):
    return [
        {"name": "unit", "cmd": "unit", "args": ["-prop", "C08"], "check": "Check.Relay.check_unit",
         "timeout": 300, "timeout_thorough": 1800},
        {"name": "e2e", "cmd": "relay", "args": ["-prop", "C08"], "check": "Check.Relay.check_e2e",
         "timeout": 300, "timeout_thorough": 1800},
        {"name": "multistep", "cmd": "relayx", "args": ["-prop", "C08x"], "check": "multi-step relay scenarios: 416 retry consistency, failed-revalidation fallback (direct)",
         "timeout": 300, "timeout_thorough": 1200},
    ]


TRUSTED = [
    "model: Model/Relay.v mirrors proxy/requests.go (removeHopByHopHeaders, changeRequestToTarget), the SetHeader/AddHeader/SetHeaders methods of both responders, the responder calls of processRequest / handleRangeRequest / finalizeAndRespond / addCacheHeaders, and as finite byte tables textproto.CanonicalMIMEHeaderKey, strings.TrimSpace and net/url's encodePath escaping (unescape, escape, validEncoded, setPath, EscapedPath, RequestURI); each library table is compared with the real function on every run",
    "transport oracle: net/http's client and server (request/response parsing and framing, redirect following, default User-Agent / Accept-Encoding, Date and sniffed Content-Type added by the server) are not modelled; the fields they add on their own hop are projected out",
    "branch oracle: which branch of processRequest answered (relayed / stored miss / stored hit / 206 / 416 / 502) and the clock-dependent strings (Cache-Status ttl, Age, formatted Last-Modified) are read off the observed response and given to the model as inputs",
]
ASSUMPTIONS = [
    "header maps handed to the modelled functions come from net/http (keys canonical and unique), the hypothesis wf_hdrs of the theorems",
    "conditional request fields (If-Match, If-None-Match, If-Modified-Since, If-Unmodified-Since) are consumed by the cache layer and excluded from request faithfulness; on the stored path ETag and Last-Modified are re-emitted by the cache from its own record (first ETag value, IMF-fixdate form)",
    "request faithfulness of the path is stated for RFC 3986 paths (pchar / pct-encoded / '/'); an empty query with a bare '?' is identified with no query",
]
