"""C08 — Relayed traffic is faithful in both directions."""

def stages(tier):
    return [
        {"name": "unit", "cmd": "unit", "args": ["-prop", "C08"], "check": "Check.Relay.check_unit",
         "timeout": 300, "timeout_thorough": 1800},
    ]

TRUSTED = []
ASSUMPTIONS = []
