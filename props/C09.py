"""C09 — Cache-side trouble never turns a good origin answer into an error."""


def stages(tier):
    return [
        {"name": "faults", "cmd": "reval", "args": ["-prop", "C09"], "check": "Check.Proxy.check_reval_c09",
         "timeout": 300, "timeout_thorough": 1800, "search_budget": 60},
        {"name": "unremovable", "cmd": "relayx", "args": ["-prop", "C09x"], "check": "eviction victims that cannot be removed from the cache directory: every request to a healthy origin is still answered promptly (direct)",
         "timeout": 300, "timeout_thorough": 600},
    ]


TRUSTED = [
    "model: Model/Proxy.v (proxy_step with an origin oracle and a cache-fault oracle) mirrors the non-Range request path of proxy/proxy.go and proxy/fetcher.go (see C06); compared end to end on every run with a real in-process proxy whose cache is made to fail for real (harness cmd/reval)",
    "fault injection of the harness: memory backend with lock_shards=1 and a 10-byte limit (nothing evictable while the storing caller holds the only shard lock); file backend with empty bodies, with setrlimit(RLIMIT_FSIZE) + ignored SIGXFSZ (write error after n bytes), with the cache directory replaced by a regular file (create / open errors), with the entry's data file removed between requests or while the proxy waits for the origin; the origin handler deleting the entry (VerifDeleteKey) while the proxy waits for its answer; every client request under socket deadlines (watchdog)",
    "the fault oracle handed to the model is what the harness arranged and measured (byte size against limit before the request, presence and readability of the data file), not what the proxy reports",
    "time: ageing hook (*Proxy).VerifAge as for C06",
]
ASSUMPTIONS = [
    "Model/Proxy.v strips the client's regular conditionals on every method; the code (since fix bd24877) does so on GET and HEAD only and passes a write's preconditions on (C08_write_preconditions). For methods other than GET/HEAD the model describes the code on requests without regular conditionals, and cmd/reval generates only those",
    "sequential requests without a Range field; the coalesced hand-over (a follower whose re-read of the entry fails, a leader that hangs up) is proved over Model/Coalesce.v and forced by harness cmd/coalesce (C05): after this property's repair no shared fetch ends in an error for cache reasons",
    "the fault 'entry removed between UpdateMetadata and Get inside handleUpstream304' (f_reget = RgGone) is covered by the theorem but cannot be forced from outside; its sibling RgError (data file removed, file backend) is forced",
    "a transport failure towards the origin (no answer at all) is not a good origin answer: the 502 is then the proxy's honest answer",
]
