"""C19 — Components follow the latest setting; unsubscribing is safe in any order."""
import glob
import os
import re

# switches the request path must consult at use (never cached in a field)
LIVE_SWITCHES = ["IgnoreCacheControl", "DefaultMaxAge", "ForceDefaultMaxAge",
                 "RetryOnRange416", "RetryOnInvalidRange", "UpstreamDefaultHttps"]


def stages(tier):
    return [
        {"name": "event", "cmd": "conf", "args": ["-prop", "C19"], "check": "Check.Event.check_ev",
         "timeout": 300, "timeout_thorough": 1800},
        {"name": "stress", "cmd": "conf", "args": ["-prop", "C19stress"], "check": "back-to-back changes by volume: no stranded notification (direct)",
         "timeout": 300, "timeout_thorough": 1200},
    ]


def pre(ctx):
    """Source obligation for the live-read clause: every policy/retry switch is consulted with
    .Read() somewhere in the request path (package proxy, non-test, non-hook files)."""
    repo = os.environ.get("VERIF_REPO", "/repo")
    src = ""
    for fp in sorted(glob.glob(os.path.join(repo, "proxy", "*.go"))):
        base = os.path.basename(fp)
        if base.endswith("_test.go") or base.startswith("zz_verif"):
            continue
        with open(fp, encoding="utf-8", errors="replace") as f:
            txt = f.read()
        txt = re.sub(r"//[^\n]*", "", txt)
        src += txt
    missing = [s for s in LIVE_SWITCHES if not re.search(r"\.%s\.Read\(\)" % s, src)]
    ctx.notes.append("live-read obligation: %d/%d switches consulted with Read() in package proxy" % (
        len(LIVE_SWITCHES) - len(missing), len(LIVE_SWITCHES)))
    if missing:
        ctx.violation({"kind": "obligation", "stage": "live-reads",
                       "broken": "setting(s) %s are never consulted by the request path (package proxy): changing them has no effect, "
                                 "so the component does not follow the latest value (C19_live_reads no longer transfers to the code)" % missing,
                       "case": {"case": "LR-source", "switches_not_read": missing}},
                      "replay_live_reads.json", no_input=True)


TRUSTED = [
    "model: Model/Event.v mirrors utils/event/event.go (Subscribe and its Unsubscribe closure, Fire, deliver) as a labelled transition system whose actions are the critical sections of Event.mu and the call/return of a listener; compared with the real package through the verif hooks VerifLen/VerifLast/VerifSubState/VerifPosition",
    "the harness waits for quiescence with the hooks (no delivery goroutine alive outside a listener call the harness itself holds) instead of sleeping; listener call logs are recorded by the harness' own listener functions",
    "sync.Mutex gives mutual exclusion of the critical sections; a goroutine started with `go` eventually runs (fairness), which is what makes the quiescent state of C19_latest_wins reachable (C19_progress shows every step towards it is enabled)",
    "live-read clause: the proxy reads the cache-policy and retry switches with ConfigProp.Read() on every request (source obligation in props/C19.py pre() + the live-read cases through a real proxy for retry_on_range_416); what Read() returns after every history is C19_live_reads / C17_override_wins_not_saved",
]
ASSUMPTIONS = [
    "changes of one setting are fired one after another (Fire calls on one Event are ordered by Event.mu; two API updates racing each other have no defined 'latest')",
    "a listener function returns eventually (a listener blocked forever keeps its later values queued; the janitor's interval channel is drained by the janitor loop)",
]
