"""C11 — Every tunnel gets a valid host-specific certificate from the configured CA."""

def stages(tier):
    return [
        {"name": "certs", "cmd": "certs", "args": [], "check": "Check.Certs.check_certs",
         "timeout": 300, "timeout_thorough": 1800},
        {"name": "tunnels", "cmd": "tunnelcert", "args": [], "check": "certificate actually presented inside CONNECT tunnels whose set-ups overlap, verified by crypto/tls for the tunnel's own host (direct)",
         "timeout": 300, "timeout_thorough": 900},
    ]

TRUSTED = [
    "tunnels stage (harness/cmd/tunnelcert): the real proxy's CONNECT handling end to end; verdict = crypto/tls verification (chain to the configured CA, server name, validity now) of what the client is presented, under a forced overlap of two tunnel set-ups and under concurrent bursts",
    "model: Model/Certs.v mirrors proxy/certs/private_ca.go (GetCertForHost cache logic, SAN classification of createCert) over utils/syncmap (Get/Set/Delete atomic); compared on every run with the real PrivateCA.GetCertForHost (CA loaded by the real NewPrivateCA) on generated histories",
    "crypto oracle (not modelled, not proved): crypto/x509 Verify of the presented leaf against the CA pool for the target host, real validity period and server-auth usage; ECDSA public-key equality of leaf and private key",
    "library contracts as model inputs: net.SplitHostPort = split_host_port (compared on every generated target, including a malformed stream); netip.ParseAddr as the parse_ip oracle recorded per host",
    "ageing hook certs.VerifShiftExpiry moves NotBefore/NotAfter of the cached parsed leaves (the only instants GetCertForHost reads) into the past: indistinguishable from the clock advancing",
]
ASSUMPTIONS = [
    "the wall clock never runs backwards (advances are Z.max 0 d)",
    "every syncmap operation is atomic (RWMutex); the LTS interleaves Get / Delete / createCert / Set of any number of callers",
    "a certificate is judged valid at the instant it is chosen (cache lookup resp. creation); a fresh certificate has 240 h left (C11_fresh_lifetime)",
    "cryptographic validity (signature, chain, key match) is observed by Go's verifier on the sampled hosts: the claim is partial",
]
