"""C03 — A stored response is reused only while fresh; expiry forces an origin contact."""

def stages(tier):
    return [
        {"name": "unit", "cmd": "unit", "args": ["-prop", "C03"], "check": "Check.Freshness.check_fresh_c03",
         "timeout": 300, "timeout_thorough": 1800},
        {"name": "label", "cmd": "unit", "args": ["-prop", "C03label"], "check": "Check.Freshness.check_label",
         "timeout": 300, "timeout_thorough": 1800},
        {"name": "e2e", "cmd": "fresh", "args": ["-prop", "C03"], "check": "Check.FreshHistory.check_hist_c03",
         "timeout": 300, "timeout_thorough": 1800},
    ]

TRUSTED = []
ASSUMPTIONS = []
