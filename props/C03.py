"""C03 — A stored response is reused only while fresh; expiry forces an origin contact."""

def stages(tier):
    return [
        {"name": "unit", "cmd": "unit", "args": ["-prop", "C03"], "check": "Check.Freshness.check_fresh_c03",
         "timeout": 300, "timeout_thorough": 1800},
        {"name": "label", "cmd": "unit", "args": ["-prop", "C03label"], "check": "Check.Freshness.check_label",
         "timeout": 300, "timeout_thorough": 1800},
        {"name": "e2e", "cmd": "fresh", "args": ["-prop", "C03"], "check": "Check.FreshHistory.check_hist_c03",
         "timeout": 300, "timeout_thorough": 1800},
        {"name": "lockwait", "cmd": "cachesched", "args": ["-prop", "C03"], "check": "a lookup that waits for the entry's lock past the entry's expiry reports it stale (forced schedule at the cache API, direct)",
         "timeout": 120, "timeout_thorough": 300},
    ]

TRUSTED = [
    "model: Model/Freshness.v mirrors proxy/headers/cache_control.go (parseCacheControl), header_directives.go (ParseHeaderDirective for Cache-Control/Expires, ShouldCache, GetExpiresOrDefault), fetcher.shouldResponseBeCached and cache_status_headers.go; compared on every run through the verif hooks VerifDecideFresh / VerifShouldResponseBeCached / VerifCacheLabels / VerifCurrentAge",
    "model: Model/FreshHistory.v mirrors the sequential GET/non-GET paths of proxy/fetcher.go (dedupFetch, getFromCacheOrFetch, fetchUpstream, handleUpstream200/304, fetchDirectlyFromUpstream), cache.Get's staleness test and processRequest's response assembly; compared end to end against a real proxy.NewProxy + scripted origin (harness cmd/fresh)",
    "reference predicates Model/FreshnessSpec.v (marked_uncacheable, may_store, must_store, lifetime_upper/lower) are a hand-written reading of the property statements (interpretations listed in design.d/C03.md)",
    "time: clock advances are realised by the ageing hook cache.VerifAge (all stored instants moved into the past); thorough additionally replays histories with real sleeps and no hook",
    "strings.TrimSpace / strings.ToLower on non-ASCII bytes are modelled by their effect on comparisons with ASCII constants (the 25 Unicode space encodings; U+0130 and U+212A lower to ASCII letters), http.ParseTime is an oracle: the harness builds date strings from known instants in the three HTTP-date forms",
]
ASSUMPTIONS = [
    "sequential requests for one resource, no Range and no client conditionals (coalescing, Range and conditional requests are C05/C07/C06); the cache neither evicts nor fails during the history (C09/C13)",
    "instants are after year 1 (zero_time < now); lifetime statements in reference terms assume ASCII Cache-Control lines or a forced default (non-ASCII bytes are compared with the model only)",
    "the e2e harness keeps every generated clock advance >= 2.5 s away from every candidate expiry instant and compares Age/ttl with tolerance 1 s",
]
