"""C05 — Concurrent identical requests share one origin fetch; each gets a full answer."""


def stages(tier):
    return [
        {"name": "coalesce", "cmd": "coalesce", "args": [], "check": "Check.Coalesce.check_coalesce",
         "timeout": 300, "timeout_thorough": 1500, "search_budget": 60},
        {"name": "otherfs", "cmd": "relayx", "args": ["-prop", "C05x"], "check": "file cache directory on another filesystem than the system temp directory: one origin fetch for simultaneous identical GETs, answer stored (direct)",
         "timeout": 120, "timeout_thorough": 300},
    ]


TRUSTED = [
    "model: Model/Coalesce.v mirrors proxy/fetcher.go dedupFetch / getFromCacheOrFetch (and the cached/direct branches of processRequest) as a per-key labelled transition system; golang.org/x/sync/singleflight enters by its documented contract only (one execution per key at a time, value and error shared with every caller that arrived during it, shared=true for all of them)",
    "harness cmd/coalesce: real proxy.Proxy in-process behind httptest, gated origin, raw-socket clients; schedules are forced with the origin's head/body gates, the fetch.afterDo yield hook, connection closes (waiting until the server has cancelled the request context) and a goroutine-stack count of callers parked in singleflight.Do; the decoder of the self-describing bodies",
    "the callers' internal steps after Do returned (private cache lookup, write of the response) cannot be observed and are resolved by the model's own enabledness in Check/Coalesce.v (run_lenient, settle)",
]
ASSUMPTIONS = [
    "partial: singleflight's contract is assumed, not proved; which real goroutines overlap a running call is the Go scheduler's choice - the theorems cover every choice, the harness forces the overlapping ones with the gate and does not compare X-Cache of followers",
    "the stored entry stays fresh for the duration of one episode (milliseconds against max-age=3600); staleness before the episode is produced with the ageing hook VerifAge",
    "a disconnected caller's own upstream fetch is never sent (net/http refuses a request whose context is already cancelled); the harness waits for the cancellation before it lets the schedule continue",
    "abort-mid-body schedules and a 304 for an entry evicted meanwhile follow the store-failure path as repaired for C09: the shared fetch ends in ErrNotCacheable and every caller fetches for itself (no 502); Properties/C09.v C09_coalesced_never_error states this over the same transition system",
]
