"""C04 — Exactly the storable responses are stored."""

def stages(tier):
    return [
        {"name": "unit", "cmd": "unit", "args": ["-prop", "C04"], "check": "Check.Freshness.check_fresh_c04",
         "timeout": 300, "timeout_thorough": 1800},
        {"name": "e2e", "cmd": "fresh", "args": ["-prop", "C04"], "check": "Check.FreshHistory.check_hist_c04",
         "timeout": 300, "timeout_thorough": 1800},
    ]

TRUSTED = []
ASSUMPTIONS = []
