"""C10 — Each exchange on a CONNECT tunnel is isolated and equals plain proxying."""


def stages(tier):
    return [
        {"name": "raw", "cmd": "unit", "args": ["-prop", "C10"], "check": "Check.Tunnel.check_raw",
         # this stage only validates the responder model (its propfail is constantly false): when it
         # breaks, the concrete failing input is looked for by the end-to-end stage, not by a search here
         "search_budget": 0,
         "timeout": 300, "timeout_thorough": 1800},
        {"name": "e2e", "cmd": "relay", "args": ["-prop", "C10"], "check": "Check.Tunnel.check_tunnel",
         "timeout": 300, "timeout_thorough": 1800},
        {"name": "pipelined", "cmd": "relayx", "args": ["-prop", "C10x"], "check": "pipelined requests on one tunnel answered in order as on their own tunnels (direct)",
         "timeout": 300, "timeout_thorough": 1200},
    ]


TRUSTED = [
    "model: Model/Tunnel.v mirrors RawHTTPResponder (state: StatusCode, Header, ContentLength, TransferEncoding; Write / WriteError / writeResponse and net/http's Response.Write framing rules) and the request loop of handleCONNECT threading that state; HTTPResponder over net/http's per-request ResponseWriter; the responder calls of one request come from Model/Relay.v",
    "the raw responder model is compared with the real RawHTTPResponder on random call sequences (shared and fresh responder) on every run; the loop is compared end to end over one kept-alive tunnel, one tunnel per request and plain proxying",
    "branch oracle and transport oracle as for C08",
]
ASSUMPTIONS = [
    "the three proxies of a history start with equal (empty) cache state and see the same request sequence",
    "a declared Content-Length of 0 comes with an empty body and statuses without body (1xx/204/304) come with an empty body (guaranteed by net/http's client for upstream responses)",
]
