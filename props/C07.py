"""C07 — Range answers are exact slices or explicit refusals."""

def stages(tier):
    return [
        {"name": "unit", "cmd": "unit", "args": ["-prop", "C07"], "check": "Check.Range.check_unit",
         "timeout": 300, "timeout_thorough": 1800},
        {"name": "e2e", "cmd": "e2e07", "args": [], "check": "Check.Range.check_e2e",
         "timeout": 300, "timeout_thorough": 1800},
    ]

TRUSTED = [
    "model: Model/Range.v mirrors proxy/headers/range_header.go (parseRangeNumber, parseRangeHeader, SliceSize, validateRange) and the Range branch of proxy/proxy.go (handleRangeRequest, processRequest); compared through the verif hooks VerifParseRange/VerifSliceSize and end to end through a real proxy",
]
ASSUMPTIONS = [
    "Go ranges over runes while the model ranges over bytes: equal because every byte consumed before the loop stops is ASCII (stated in Model/Range.v, exercised by the non-ASCII cases of the generator)",
    "representation sizes are non-negative int64 values",
]
