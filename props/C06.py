"""C06 — Revalidation uses the stored validators; 304 and 200 update the entry correctly."""


def stages(tier):
    return [
        {"name": "reval", "cmd": "reval", "args": ["-prop", "C06"], "check": "Check.Proxy.check_reval_c06",
         "timeout": 300, "timeout_thorough": 1800, "search_budget": 60},
        {"name": "rangecond", "cmd": "relayx", "args": ["-prop", "C06x"], "check": "client validators on Range requests never reach the origin and never renew an older stored entry (direct)",
         "timeout": 300, "timeout_thorough": 600},
        {"name": "updatestore", "cmd": "cachesched", "args": ["-prop", "C06"], "check": "a metadata update issued while a full store of the same key is downloading applies to the new entry (forced schedule at the cache API, direct)",
         "timeout": 120, "timeout_thorough": 300},
    ]


TRUSTED = [
    "model: Model/Proxy.v (proxy_step) mirrors proxy/proxy.go handleHTTP/processRequest (non-Range path), headers.StripRegularConditionals and proxy/fetcher.go dedupFetch (a request alone in its flight) / getFromCacheOrFetch / fetchUpstream / handleUpstream200/304/416 / the ErrNotCacheable -> fetchDirectlyFromUpstream route, with the storability decision and lifetime of Model/Freshness.v; compared end to end on every run with a real proxy.NewProxy behind httptest and a raw scripted origin (harness cmd/reval on harness/e2elib)",
    "reference checker Check/Proxy.v pc_propfail_c06: a hand-written reading of the statement as a tracker of 'what the store holds' built from the origin's answers and the reference predicates must_store / may_store / lifetime_lower / lifetime_upper of Model/FreshnessSpec.v (interpretations in design.d/C06.md)",
    "time: clock advances are realised by the ageing hook (*Proxy).VerifAge (cache.VerifAge plus the saved Last-Modified validators); absolute dates are translated to the aged clock by the harness; field dates are compared with a tolerance of 2 s",
    "the harness runs with time.Local set to a zone that is not UTC",
]
ASSUMPTIONS = [
    "Model/Proxy.v strips the client's regular conditionals on every method; the code (since fix bd24877) does so on GET and HEAD only and passes a write's preconditions on (C08_write_preconditions). For methods other than GET/HEAD the model describes the code on requests without regular conditionals, and cmd/reval generates only those",
    "sequential requests for one resource without a Range field; a request that joins another request's flight is C05 (Model/Coalesce.v), Range answers are C07",
    "If-Range is not counted among the conditionals that must not be forwarded: it is passed on untouched (it modifies a Range request)",
    "when the origin sends no (parseable) Last-Modified the saved validator is the instant the response was stored (the code's fallback); the checker accepts exactly that instant",
    "the harness keeps every generated clock advance >= 2.5 s away from every candidate expiry instant",
]
