"""C14 — No interleaving deadlocks the cache or a request.

Tie = translator: harness/cmd/skel regenerates the synchronisation skeleton of package
cache from $VERIF_REPO on every run; the obligations over the regenerated term
(entries_ok, stop_ok, evict_ok and the instantiated deadlock-freedom theorem) are
re-checked by coqc.  The forced-scenario harness (cmd/sync) validates the translator
and is the search for a concrete hanging schedule when an obligation breaks."""
import json
import os
import re
import shutil
import sys

sys.path.insert(0, os.path.join(os.path.dirname(os.path.abspath(__file__)), "..", "lib"))
import vlib  # noqa: E402


def stages(tier):
    return [
        {"name": "scenarios", "cmd": "sync", "args": [], "check": "watchdog over forced concurrency scenarios (direct)",
         "timeout": 600, "timeout_thorough": 1800},
    ]


def _coqc(path, cwd):
    return vlib.sh(["coqc", "-Q", vlib.THEORIES, "Reservoir", "-w", "none", path], cwd=cwd, timeout=600)


def pre(ctx):
    gen = os.path.join(ctx.work, "gen")
    shutil.rmtree(gen, ignore_errors=True)
    os.makedirs(gen, exist_ok=True)
    ctx.c14_broken = None
    ctx.obligations += 4
    binpath, bout = vlib.go_build(ctx.work, "skel")
    if binpath is None:
        ctx.c14_broken = {"stage": "translator build", "output": bout[-3000:]}
        return
    rc, out = vlib.sh([binpath, "-dir", os.path.join(vlib.REPO, "cache"), "-out", gen, "-name", "SkeletonRun"], timeout=120)
    if rc != 0:
        ctx.c14_broken = {"stage": "translator run", "output": out[-3000:]}
        return
    with open(os.path.join(gen, "skeleton.json")) as f:
        sk = json.load(f)
    names = [e["name"] for e in sk["entries"]]
    ctx.notes.append("skeleton regenerated from %s: %d entries (%s); external calls assumed to return: %s; assumed: %s" % (
        sk["dir"], len(names), ", ".join(names), "; ".join(sk["external_calls"]), "; ".join(sk["assumed"])))
    ctx.c14_entries = names
    rc, out = _coqc("SkeletonRun.v", gen)
    if rc == 0 and "Closed under the global context" in out:
        ctx.discharged += 4
        for t in ("entries_ok", "stop_ok", "evict_ok", "cache_deadlock_free_now"):
            ctx.theorems["regenerated:" + t] = "Closed under the global context"
        _other_packages(ctx, binpath, gen)
        return
    # which obligation / entry fails?
    with open(os.path.join(gen, "SkeletonRun.v")) as f:
        src = f.read()
    defs = src.split("From Reservoir Require Import Proofs.Sync.")[0]
    defs += ("Eval vm_compute in (map entry_ok entries).\nEval vm_compute in (map waitfree_skel stop_entries).\n"
             "Eval vm_compute in (map no_shard_acq evict_entries).\n")
    with open(os.path.join(gen, "Diag.v"), "w") as f:
        f.write(defs)
    rc2, out2 = _coqc("Diag.v", gen)
    flat = re.sub(r"\s+", " ", out2)
    lists = re.findall(r"= \[(.*?)\] : list bool", flat)
    bad = {"entry_ok": [], "waitfree_skel(stop)": [], "no_shard_acq(evict)": []}
    if len(lists) >= 1:
        vals = [v.strip() for v in lists[0].split(";")]
        bad["entry_ok"] = [names[i] for i, v in enumerate(vals) if v == "false" and i < len(names)]
    stops = [e["name"] for e in sk["entries"] if e.get("stop")]
    evs = [e["name"] for e in sk["entries"] if ".evict[" in e["name"]]
    if len(lists) >= 2:
        vals = [v.strip() for v in lists[1].split(";")]
        bad["waitfree_skel(stop)"] = [stops[i] for i, v in enumerate(vals) if v == "false" and i < len(stops)]
    if len(lists) >= 3:
        vals = [v.strip() for v in lists[2].split(";")]
        bad["no_shard_acq(evict)"] = [evs[i] for i, v in enumerate(vals) if v == "false" and i < len(evs)]
    unknowns = {e["name"]: e["unknowns"] for e in sk["entries"] if e.get("unknowns")}
    ctx.c14_broken = {"stage": "obligation", "failing": bad, "unclassified_constructs": unknowns, "output": out[-2000:],
                      "skeletons": {e["name"]: e["skel"][:3000] for e in sk["entries"] if e["name"] in sum(bad.values(), [])}}


OTHER_PACKAGES = [("SkelEvent", "utils/event"), ("SkelSyncMap", "utils/syncmap")]


def _other_packages(ctx, binpath, gen):
    """The packages whose locks requests and listeners take besides the cache's: every function/method/returned closure
    is an entry; their mutex (field mu) plays the role of the map lock, nothing is acquired while it is held."""
    for name, pkg in OTHER_PACKAGES:
        ctx.obligations += 1
        sub = os.path.join(gen, name)
        os.makedirs(sub, exist_ok=True)
        rc, out = vlib.sh([binpath, "-dir", os.path.join(vlib.REPO, pkg), "-out", sub, "-name", name, "-allfuncs"], timeout=120)
        if rc != 0:
            ctx.c14_broken = {"stage": "translator run", "package": pkg, "output": out[-2000:]}
            return
        rc, out = _coqc(name + ".v", sub)
        if rc == 0 and "Closed under the global context" in out:
            ctx.discharged += 1
            ctx.theorems["regenerated:%s.entries_ok" % name] = "Closed under the global context"
            with open(os.path.join(sub, "skeleton.json")) as f:
                ctx.notes.append("skeleton of package %s: %d entries, all pass the lock discipline" % (pkg, len(json.load(f)["entries"])))
        else:
            with open(os.path.join(sub, "skeleton.json")) as f:
                sk = json.load(f)
            ctx.c14_broken = {"stage": "obligation", "package": pkg, "failing": {"entry_ok": [e["name"] for e in sk["entries"]]},
                              "unclassified_constructs": {e["name"]: e["unknowns"] for e in sk["entries"] if e.get("unknowns")}, "output": out[-1500:]}
            return


def post(ctx):
    br = getattr(ctx, "c14_broken", None)
    if not br:
        return
    if ctx.violations:
        # the scenario stage already produced a concrete hanging schedule; attach the broken obligation to it
        path = ctx.violations[0][0]
        try:
            with open(path) as f:
                rep = json.load(f)
            rep["broken_obligation"] = br
            vlib.write_json(path, rep)
        except Exception:
            pass
        return
    ctx.violation({"kind": "obligation",
                   "broken": "regenerated skeleton of package cache no longer satisfies the lock discipline "
                             "(Properties/C14.v: C14_checked_entries_deadlock_free / C14_stop_never_waits / "
                             "C14_evict_never_awaits_shard do not apply to the current source)",
                   "detail": br}, "replay_skeleton_obligation.json", no_input=True)


TRUSTED = [
    "translator harness/cmd/skel (go/parser + go/ast, purely syntactic): lock classification (getLock result => shard lock variable, field mu => map lock, other sync.Mutex/RWMutex fields => leaf locks), defer/return/branch handling, inlining of intra-package calls and of function-typed struct fields bound in the constructors, entries for goroutines and callbacks; validated by the forced-scenario harness cmd/sync and by mutation (TryLock->Lock is rejected and hangs)",
    "sync.RWMutex read locks modelled as exclusive (sound for deadlock under the rank discipline); Go runtime mutex/channel semantics as in Model/Sync.v",
    "calls into other packages (listed in the evidence notes) are assumed to return and not to re-enter the cache; the modifier callback of UpdateMetadata likewise",
]
ASSUMPTIONS = [
    "request-level liveness additionally needs the origin to answer and net/http to make progress (outside the model)",
    "janitor and listener goroutines are covered through every finite unrolling of their loops (every reachable state of the real system is reachable in a sufficiently unrolled one)",
]
