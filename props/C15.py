"""C15 — Shared proxy state is free of data races.

Three ties:
 1. regenerated lockset tables: harness/cmd/skel walks packages cache, utils/syncmap and utils/event of
    $VERIF_REPO on every run and records, for every access to a lock-guarded struct field, the locks (with
    mode) held on that code path; the obligation `forallb (access_ok guard) accesses = true` is re-checked
    by coqc on the regenerated term (work/C15/gen/Acc*.v);
 2. the hand-written access table of Model/RaceTable.v with the theorem C15_table_race_free;
 3. the Go race detector over the concurrent drivers of harness/cmd/race (a -race build): every reported
    pair of reservoir functions is a concrete racy schedule."""
import json
import os
import shutil
import sys

sys.path.insert(0, os.path.join(os.path.dirname(os.path.abspath(__file__)), "..", "lib"))
import vlib  # noqa: E402

PACKAGES = [
    # (module name, package dir, guard spec, extra flags)
    ("AccCache", "cache", "entries=mu,entriesMetadata=mu,memoryCap=mu", []),
    ("AccSyncMap", "utils/syncmap", "ma=mu", ["-allfuncs"]),
    ("AccEvent", "utils/event", "subscribers=mu,pending=mu,running=mu,active=mu", ["-allfuncs"]),
]


def stages(tier):
    return [
        {"name": "race", "cmd": "race", "args": [], "race": True, "check": "Go race detector over concurrent drivers (direct)",
         "timeout": 900, "timeout_thorough": 2400},
    ]


def pre(ctx):
    gen = os.path.join(ctx.work, "gen")
    shutil.rmtree(gen, ignore_errors=True)
    os.makedirs(gen, exist_ok=True)
    ctx.c15_broken = []
    binpath, bout = vlib.go_build(ctx.work, "skel")
    ctx.obligations += len(PACKAGES)
    if binpath is None:
        ctx.c15_broken.append({"stage": "translator build", "output": bout[-2000:]})
        return
    for name, pkg, guard, extra in PACKAGES:
        rc, out = vlib.sh([binpath, "-dir", os.path.join(vlib.REPO, pkg), "-out", gen, "-name", name, "-accessonly", "-guard", guard] + extra, timeout=120)
        if rc != 0:
            ctx.c15_broken.append({"stage": "translator run", "package": pkg, "output": out[-2000:]})
            continue
        with open(os.path.join(gen, name + ".json")) as f:
            acc = json.load(f)["accesses"]
        if not acc:
            ctx.c15_broken.append({"stage": "obligation", "package": pkg,
                                   "what": "no access to the guarded fields %s found any more (fields renamed or moved: the lockset table no longer describes the code)" % guard})
            continue
        rc, out = vlib.sh(["coqc", "-Q", vlib.THEORIES, "Reservoir", "-w", "none", name + ".v"], cwd=gen, timeout=300)
        if rc == 0 and "Closed under the global context" in out:
            ctx.discharged += 1
            ctx.theorems["regenerated:%s.accesses_ok" % name] = "Closed under the global context"
            ctx.notes.append("lockset table of package %s: %d accesses to guarded fields (%s), all under their guard" % (pkg, len(acc), guard))
            continue
        # which accesses break the discipline?
        bad = []
        for a in acc:
            ok = any(h.startswith("SMu:") and (not a["write"] or h.endswith(":W")) for h in a["held"])
            if not ok:
                bad.append({"field": a["field"], "write": a["write"], "held": a["held"], "where": a["where"], "pos": a["pos"]})
        ctx.c15_broken.append({"stage": "obligation", "package": pkg, "unguarded_accesses": bad[:20], "output": out[-1500:]})
    _source_obligations(ctx, binpath, gen)


def _source_obligations(ctx, binpath, gen):
    """Two assumptions of the access table that are checked on the source on every run:
    (a) cacheJanitor.interval is confined to the janitor goroutine (no lock guards it);
    (b) the header map stored with an entry is never written after the store (callers get shallow snapshots)."""
    import glob
    import re
    # (a) confinement
    rc, out = vlib.sh([binpath, "-dir", os.path.join(vlib.REPO, "cache"), "-out", gen, "-name", "AccJanitor", "-accessonly", "-guard", "interval=mu"], timeout=120)
    ctx.obligations += 2
    if rc == 0:
        with open(os.path.join(gen, "AccJanitor.json")) as f:
            acc = json.load(f)["accesses"]
        owners = sorted({a["where"] for a in acc if not a["where"].startswith("New")})
        roots = sorted({re.sub(r"^(cacheJanitor\.start/go@[^/]*).*$", r"\1", w) for w in owners})
        if len(roots) <= 1:
            ctx.discharged += 1
            ctx.theorems["source:janitor_interval_confined"] = "checked on the regenerated access records (%d accesses, owner %s)" % (len(acc), roots)
        else:
            ctx.c15_broken.append({"stage": "obligation", "package": "cache",
                                   "what": "cacheJanitor.interval is no lock-guarded field and must stay confined to the janitor goroutine, but it is accessed from several goroutines' entries",
                                   "entries": roots, "accesses": [a for a in acc if not a["where"].startswith("New")][:10]})
    else:
        ctx.c15_broken.append({"stage": "translator run", "package": "cache(interval)", "output": out[-1500:]})
    # (b) stored header map is read-only
    bad = []
    for fp in sorted(glob.glob(os.path.join(vlib.REPO, "proxy", "*.go")) + glob.glob(os.path.join(vlib.REPO, "cache", "*.go"))):
        base = os.path.basename(fp)
        if base.endswith("_test.go") or base.startswith("zz_verif"):
            continue
        with open(fp, encoding="utf-8", errors="replace") as f:
            for n, line in enumerate(f, 1):
                code = line.split("//")[0]
                if re.search(r"Object\.Header\s*(\.(Set|Add|Del)\(|\[[^\]]*\]\s*=[^=])", code) or re.search(r"\bdelete\([^,]*Object\.Header", code):
                    bad.append("%s:%d: %s" % (base, n, line.strip()[:160]))
    if not bad:
        ctx.discharged += 1
        ctx.theorems["source:stored_header_read_only"] = "no write to a stored entry's header map in packages proxy and cache"
    else:
        ctx.c15_broken.append({"stage": "obligation", "package": "proxy",
                               "what": "the header map stored with an entry is written after the store; the metadata snapshots handed to in-flight responses share that map",
                               "sites": bad[:10]})


def post(ctx):
    br = getattr(ctx, "c15_broken", None)
    if not br:
        return
    if ctx.violations:
        path = ctx.violations[0][0]
        try:
            with open(path) as f:
                rep = json.load(f)
            rep["broken_obligation"] = br
            vlib.write_json(path, rep)
        except Exception:
            pass
        return
    ctx.violation({"kind": "obligation",
                   "broken": "regenerated lockset table: an access to a lock-guarded field happens without its guard "
                             "(Properties/C15.v: the access table of Model/RaceTable.v no longer describes the code)",
                   "detail": br}, "replay_lockset_obligation.json", no_input=True)


TRUSTED = [
    "hand-written access table Model/RaceTable.v (which locations an operation touches, under which locks); tied to the code by the regenerated lockset tables for the map / memoryCap / SyncMap / Event fields, and by the race detector for everything else (entry metadata, sessions, certificates): the weakest tie of the twenty",
    "translator harness/cmd/skel: field accesses are recognised by field NAME, writes syntactically (assignment target, ++/--, delete), held locks by walking the code paths with the same control-flow translation as for C14",
    "Go race detector (ThreadSanitizer) as the oracle of the dynamic stage; it only sees the schedules the drivers happen to produce",
    "operational race definition (two threads simultaneously about to access one location, one writing) in place of the happens-before definition of the Go memory model; equivalence for lock-synchronised programs is the classical lockset argument, cited not proved",
]
ASSUMPTIONS = [
    "atomics (byteSize, maxCacheSize, metrics, config values) are not plain accesses; metadata handed to callers and to the janitor is a private snapshot; session records are immutable once published",
    "the key an operation's lock was derived from is the key of the entry it touches (getLock(c.locks, key) and entries[key] use the same key expression)",
]
