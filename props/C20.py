"""C20 — Dashboard API needs a live session obtained with the right password."""


def stages(tier):
    return [
        {"name": "phc", "cmd": "unit", "args": ["-prop", "C16phc"], "check": "Check.Phc.check_phc",
         "timeout": 300, "timeout_thorough": 1800},
    ]


TRUSTED = []
ASSUMPTIONS = []
