"""C20 — Dashboard API needs a live session obtained with the right password."""
import json
import os
import shutil
import sys

sys.path.insert(0, os.path.join(os.path.dirname(os.path.abspath(__file__)), "..", "lib"))
import vlib  # noqa: E402


def stages(tier):
    return [
        {"name": "web", "cmd": "web", "args": [], "check": "Check.Auth.check_web",
         "timeout": 400, "timeout_thorough": 2400, "search_budget": 20},
        {"name": "phc", "cmd": "unit", "args": ["-prop", "C16phc"], "check": "Check.Phc.check_phc",
         "timeout": 300, "timeout_thorough": 1800},
        {"name": "sessrace", "cmd": "sessrace", "args": [], "check": "logout interleaved with lookup/extension of the same session (direct)",
         "timeout": 120, "timeout_thorough": 300},
    ]


# the session GC loop of webserver/auth/session.go as restated by the hook auth.VerifRunGC
GC_EXPECTED = {"range": "item := range sessionStore.Items()", "cond": "item.ExpiresAt.Before(now)",
               "then": "sessionStore.Delete(item.ID)", "now": "time.Now()"}


def pre(ctx):
    """Regenerate the route table from the SOURCE of $VERIF_REPO (go/ast, harness/cmd/routes) into
    work/C20/gen/RoutesRun.v and let coqc re-check the obligation routes_guarded table = true and the
    instantiated theorem.  Nothing under coq/gen is touched (coq/gen/Routes.v is a committed snapshot)."""
    ctx.obligations += 1
    gen = os.path.join(ctx.work, "gen")
    shutil.rmtree(gen, ignore_errors=True)
    os.makedirs(gen, exist_ok=True)
    binpath, bout = vlib.go_build(ctx.work, "routes")
    if binpath is None:
        ctx.violation({"kind": "build", "stage": "routes", "broken": "route extractor does not build", "output": bout[-4000:]},
                      "replay_routes_build.json", no_input=True)
        return
    rc, out = vlib.sh([binpath, "-repo", vlib.REPO, "-out", gen], cwd=gen, env=vlib.go_env(), timeout=120)
    info = {"stage": "routes (regeneration)", "cmd": "routes", "output": out.strip()[-400:]}
    ctx.stage_info.append(info)
    if rc != 0:
        ctx.violation({"kind": "obligation", "stage": "routes",
                       "broken": "the route table can no longer be extracted from webserver/api/api.go and the endpoint packages "
                                 "(registration no longer goes through WrapHandler+EnsureAllowed with literal EndpointMethods)",
                       "output": out[-4000:]}, "replay_routes_extract.json", no_input=True)
        return
    with open(os.path.join(gen, "routes.json")) as f:
        src = json.load(f)
    ctx.c20_source_routes = src["routes"]
    info["routes"] = len(src["routes"])
    vlog = os.path.join(gen, "RoutesRun.v")
    with vlib.CoqLock():
        rc, out = vlib.sh(["coqc", "-Q", vlib.THEORIES, "Reservoir", "-w", "none", vlog], cwd=gen, timeout=600)
    closed = "Closed under the global context" in out
    ctx.theorems["routes_guarded_here (regenerated table)"] = "Closed under the global context" if (rc == 0 and closed) else "FAILED"
    if rc == 0 and closed:
        ctx.discharged += 1
    else:
        unguarded = [r for r in src["routes"] if not r["requires_auth"] and not (r["method"] == "POST" and r["path"] == "/api/auth/login")]
        # the web stage that follows drives every registered route without a cookie: it will show the
        # concrete unauthenticated request; if there is a culprit in the table name it here as well
        ctx.violation({"kind": "obligation" if not unguarded else "propfail", "stage": "routes",
                       "broken": "regenerated obligation routes_guarded table = true no longer holds (Properties/C20.v C20_routes_guarded does not apply to this tree)",
                       "case": {"unguarded_routes": unguarded, "request": [
                           {"method": r["method"], "path": r["path"], "cookie": None, "expected": 401} for r in unguarded]},
                       "output": out[-3000:]}, "replay_routes_obligation.json", no_input=not unguarded)
    gc = src.get("gc", {})
    if gc != GC_EXPECTED:
        ctx.violation({"kind": "correspondence", "stage": "routes",
                       "broken": "the session GC loop in webserver/auth/session.go is no longer the one the hook auth.VerifRunGC restates "
                                 "(Model.Auth.sess_gc / the GC steps of the web stage no longer describe the code)",
                       "case": {"found": gc, "expected": GC_EXPECTED}}, "replay_gc_text.json", no_input=True)


BRANCHES = (["refused by Harden", "no such path (404)", "path without that method (405)"] +
            ["%s / cookie %s" % (k, c) for k in ("login", "logout", "change-password", "config PATCH", "other route")
             for c in ("absent", "unknown", "expired", "live near expiry (extended)", "live")] +
            ["GC pass", "stored hash edited"])


def decode_tags(ctx):
    """Check.Auth.wc_tag is the bit set of model branches a history reached: turn the histogram of
    bit sets into the number of histories that reached each branch."""
    raw = ctx.tags.get("web")
    if not raw:
        return
    out = {}
    for k, n in raw.items():
        bits = int(k)
        for bit, name in enumerate(BRANCHES):
            if bits >> bit & 1:
                out[name] = out.get(name, 0) + n
    ctx.tags["web"] = out


def post(ctx):
    """The table extracted from the source must be the table the running code registered."""
    decode_tags(ctx)
    src = getattr(ctx, "c20_source_routes", None)
    path = os.path.join(ctx.work, "web", "routes_runtime.json")
    if src is None or not os.path.exists(path):
        return
    with open(path) as f:
        rt = json.load(f)["routes"]
    a = sorted((r["method"], r["path"], bool(r["requires_auth"])) for r in src)
    b = sorted((r["Method"], r["Path"], bool(r["Auth"])) for r in rt)
    if a != b:
        ctx.violation({"kind": "correspondence", "stage": "routes",
                       "broken": "route table extracted from the source differs from what api.RegisterHandlers registers at run time",
                       "case": {"source_only": [x for x in a if x not in b], "runtime_only": [x for x in b if x not in a]}},
                      "replay_routes_runtime.json", no_input=True)


TRUSTED = [
    "model: Model/Auth.v mirrors webserver/middleware/harden.go, the ServeMux method patterns built by api.RegisterHandlers, api.WrapHandler/EnsureAllowed, apitypes.CreateContext, auth/session.go (GetSession, CreateSession, Destroy, GC), auth/creds.go and the login / logout / change-password / config-PATCH endpoints; all other endpoints are opaque (status taken from the observation, no effect on sessions, passwords or configuration -- any such effect is a mismatch)",
    "model: Model/Phc.v mirrors utils/phc/phc.go ParsePHC down to bytes, including strings.TrimSpace (Unicode white space), strconv.Atoi/ParseUint and encoding/base64 RawStdEncoding.Decode into a caller buffer (validated differentially, DC cases)",
    "go/ast extractor harness/cmd/routes (route table, registration shape, text of the GC loop); cross-checked against api.VerifRoutes() and against the real mux by driving every route x method",
    "hooks webserver/auth/zz_verif.go (session table snapshot, ageing, reset; VerifRunGC restates the GC loop body, its text is compared with session.go on every run) and webserver/api/zz_verif.go (VerifRoutes)",
    "go build -overlay supplies a stub for the generated dashboard CSP constant (webserver/dashboard/csp/hashes_gen.go) that this checkout cannot generate; used only while the repository has no such file",
    "password hashing instance used on case files: a well-formed stored hash is named by the password it was generated from (argon2id assumed to verify exactly its own password); the theorems hold for every (H, verify, mkhash)",
    "Coq primitive 63-bit integers are used only to write byte strings compactly in case files (Base/Packed.v)",
]
ASSUMPTIONS = [
    "ageing hook = clock advance: VerifShiftSessions(d) moves every stored ExpiresAt d into the past; the model's state is (now, table) and only differences ExpiresAt - now are ever inspected; every generated instant keeps >= 5 s from each expiry boundary (0 and the 10 min extension threshold), instants are compared with 3 s tolerance",
    "session ids drawn by crypto/rand.Text are fresh (the model takes the drawn id as an input of the login event; the lifecycle theorem itself holds for any choice)",
    "interpretation of cross-site fixed in DESIGN.md 5 C20: Origin set and Sec-Fetch-Site present and not same-origin/same-site/none, or OPTIONS with Origin; the code also refuses Origin + Sec-Fetch-Site: none (accepted by the checker as a 403 without effect)",
    "paths are driven in canonical form; the mux's path cleaning / escaping cannot bypass WrapHandler since the session check is inside every registered handler",
    "resource exhaustion by a stored hash with absurd argon2 parameters (m up to 4 TiB, t up to 2^32) is outside the statement (no panic in the parser; the cost is in argon2 itself)",
]
