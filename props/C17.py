"""C17 — Saved config reads back identically; CLI overrides win but are not saved."""

def stages(tier):
    return [
        {"name": "unit", "cmd": "unit", "args": ["-prop", "C17"], "check": "Check.ByteSize.check_bs",
         "timeout": 300, "timeout_thorough": 1800},
    ]

TRUSTED = []
ASSUMPTIONS = []
