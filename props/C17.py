"""C17 — Saved config reads back identically; CLI overrides win but are not saved."""

import os, shutil
import vlib


def pre(ctx):
    """Obligation flags_fit_now: the documented flag table (Model/Flags.v) against the configuration's field table
    regenerated from $VERIF_REPO by reflection (the extractor C18 uses)."""
    gen = os.path.join(ctx.work, "gen")
    shutil.rmtree(gen, ignore_errors=True)
    os.makedirs(gen, exist_ok=True)
    ctx.c17_broken = None
    ctx.obligations += 1
    binpath, bout = vlib.go_build(ctx.work, "conf")
    if binpath is None:
        ctx.c17_broken = {"stage": "extractor build", "output": bout[-3000:]}
        return
    rc, out = vlib.run_harness(binpath, ["-prop", "C18", "-stage", "fields", "-out", gen], ctx.work, 120)
    run_v = os.path.join(gen, "ConfigFieldsRun.v")
    if rc != 0 or not os.path.exists(run_v):
        ctx.c17_broken = {"stage": "extractor run", "output": out[-3000:]}
        return
    with open(run_v) as f:
        defs = f.read().split("(* obligations")[0]
    with open(os.path.join(gen, "FlagsFit.v"), "w") as f:
        f.write(defs + "From Reservoir Require Import Model.Flags Check.Flags.\n"
                "Eval vm_compute in (flags_unfit cfg_table).\n"
                "Example flags_fit_now : flags_fit cfg_table = true.\nProof. vm_compute. reflexivity. Qed.\n"
                "Print Assumptions flags_fit_now.\n")
    rc, out = vlib.sh(["coqc", "-Q", vlib.THEORIES, "Reservoir", "-w", "none", "FlagsFit.v"], cwd=gen, timeout=600)
    if rc == 0 and "Closed under the global context" in out:
        ctx.discharged += 1
        ctx.theorems["regenerated:flags_fit_now"] = "Closed under the global context"
        ctx.notes.append("flag table checked against the field table regenerated from %s/config: every documented flag addresses an existing setting of its kind" % vlib.REPO)
        return
    ctx.c17_broken = {"stage": "obligation", "output": out[-3000:]}


def post(ctx):
    br = getattr(ctx, "c17_broken", None)
    if not br or ctx.violations:
        return
    ctx.violation({"kind": "obligation",
                   "broken": "flags_fit_now: a flag of the documented table (Model/Flags.v) addresses no setting of the field table "
                             "regenerated from the source, or a setting of another kind (renamed, removed or retyped setting): the "
                             "theorems of Properties/C17.v about flags do not speak about the configuration the code has now",
                   "detail": br}, "replay_flags_fit.json", no_input=True)


def stages(tier):
    return [
        {"name": "unit", "cmd": "unit", "args": ["-prop", "C17"], "check": "Check.ByteSize.check_bs",
         "timeout": 300, "timeout_thorough": 1800},
        {"name": "cfg", "cmd": "conf", "args": ["-prop", "C17"], "check": "Check.ConfigProp.check_cfg",
         "timeout": 300, "timeout_thorough": 1800},
        {"name": "flags", "cmd": "conf", "args": ["-prop", "C17f"], "check": "Check.Flags.check_flags",
         "timeout": 300, "timeout_thorough": 1800},
    ]

TRUSTED = [
    "model: Model/ByteSize.v mirrors utils/bytesize/bytesize.go (Parse, FindLargestFittingUnit, ToString, String); Model/ConfigProp.v mirrors config/config_prop.go, overwritable.go, commitable.go (Read, Overwrite, Stage, CommitStaged, MarshalJSON, what is handed to onChange.Fire) and the field-level shape of persist/load in config/config.go",
    "encoding/json (object framing, string quoting, integers, booleans), time.Duration.String/time.ParseDuration and slog.Level text marshalling are library oracles: parameters of the save/load theorems with their round-trip law as a hypothesis, validated on every run by the RT cases of the cfg stage (reference check saved = loaded on every property of every generated configuration)",
    "harness cmd/conf finds the properties of config.Config by reflection (every struct field with Read/Stage methods), so a property added to reservoir is covered without a harness change; a property of an unknown value type makes the harness abort (reported as a violation)",
]
ASSUMPTIONS = [
    "Go ranges over runes in bytesize.Parse while the model ranges over bytes: equal because every byte consumed before the loop stops is ASCII (stated in Model/ByteSize.v, exercised by the non-ASCII cases of the generator)",
    "a valid configuration holds sizes in [0, 2^63), strings that are valid UTF-8 (base values only ever come from JSON decoding) and passes config.verify",
    "command-line overrides are applied by OverrideFromFlags at start-up, not between the staging and the commit of one API update (the fine-grained theorem C17_fine_refines states this hypothesis; the history theorem over Override/Update needs none)",
]
