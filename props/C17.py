"""C17 — Saved config reads back identically; CLI overrides win but are not saved."""

def stages(tier):
    return [
        {"name": "unit", "cmd": "unit", "args": ["-prop", "C17"], "check": "Check.ByteSize.check_bs",
         "timeout": 300, "timeout_thorough": 1800},
        {"name": "cfg", "cmd": "conf", "args": ["-prop", "C17"], "check": "Check.ConfigProp.check_cfg",
         "timeout": 300, "timeout_thorough": 1800},
        {"name": "flags", "cmd": "conf", "args": ["-prop", "C17f"], "check": "Check.Flags.check_flags",
         "timeout": 300, "timeout_thorough": 1800},
    ]

TRUSTED = [
    "model: Model/ByteSize.v mirrors utils/bytesize/bytesize.go (Parse, FindLargestFittingUnit, ToString, String); Model/ConfigProp.v mirrors config/config_prop.go, overwritable.go, commitable.go (Read, Overwrite, Stage, CommitStaged, MarshalJSON, what is handed to onChange.Fire) and the field-level shape of persist/load in config/config.go",
    "encoding/json (object framing, string quoting, integers, booleans), time.Duration.String/time.ParseDuration and slog.Level text marshalling are library oracles: parameters of the save/load theorems with their round-trip law as a hypothesis, validated on every run by the RT cases of the cfg stage (reference check saved = loaded on every property of every generated configuration)",
    "harness cmd/conf finds the properties of config.Config by reflection (every struct field with Read/Stage methods), so a property added to reservoir is covered without a harness change; a property of an unknown value type makes the harness abort (reported as a violation)",
]
ASSUMPTIONS = [
    "Go ranges over runes in bytesize.Parse while the model ranges over bytes: equal because every byte consumed before the loop stops is ASCII (stated in Model/ByteSize.v, exercised by the non-ASCII cases of the generator)",
    "a valid configuration holds sizes in [0, 2^63), strings that are valid UTF-8 (base values only ever come from JSON decoding) and passes config.verify",
    "command-line overrides are applied by OverrideFromFlags at start-up, not between the staging and the commit of one API update (the fine-grained theorem C17_fine_refines states this hypothesis; the history theorem over Override/Update needs none)",
]
