"""C16 — No input makes the proxy panic or leave a request unanswered.

Aggregates the Panic-aware models of C07 (Range), C17 (size strings), C20 (stored password hashes) and C18
(configuration documents): their unit stages run the real parsers under recover() and compare them with the
models; plus the raw-socket stage harness/cmd/fuzz16 which sends mutated requests (plain, CONNECT targets, inside
TLS tunnels) and hostile origin answers through the real proxy and demands a well-formed response for each."""


def stages(tier):
    return [
        {"name": "range", "cmd": "unit", "args": ["-prop", "C07"], "check": "Check.Range.check_unit",
         "timeout": 300, "timeout_thorough": 1800},
        {"name": "size", "cmd": "unit", "args": ["-prop", "C17"], "check": "Check.ByteSize.check_bs",
         "timeout": 300, "timeout_thorough": 1800},
        {"name": "phc", "cmd": "unit", "args": ["-prop", "C16phc"], "check": "Check.Phc.check_phc",
         "timeout": 300, "timeout_thorough": 1800},
        {"name": "config", "cmd": "conf", "args": ["-prop", "C18"], "check": "Check.ConfigTxn.check_txn",
         "timeout": 600, "timeout_thorough": 2400},
        {"name": "raw", "cmd": "fuzz16", "args": [], "check": "every raw request gets a well-formed HTTP response (direct)",
         "timeout": 600, "timeout_thorough": 2400},
    ]


TRUSTED = [
    "models Model/Range.v, Model/ByteSize.v, Model/Phc.v, Model/ConfigTxn.v with an explicit Panic outcome for every Go operation that can panic; tied to the code by the unit stages (real parsers under recover(), compared case by case) of C07, C17, C20 and C18",
    "raw-socket stage (harness/cmd/fuzz16, decided by the harness): request-line / Host / Range / If-Range / Cache-Control / conditional / Connection mutations over plain proxying and inside CONNECT tunnels, CONNECT target mutations, hostile origin status + header sets on fresh, stored and stale entries, both backends, both retry settings; a response must arrive within 8 s, parse as HTTP and carry a body consistent with its framing; origin status codes 000..1000 and malformed ones",
    "parsers without panicking operations (Cache-Control/Expires, cache key, CONNECT target split) are total Gallina functions whose agreement with the code under recover() is checked by C03/C04, C02, C11",
]
ASSUMPTIONS = [
    "a panic in a request handler surfaces as a dropped connection (net/http recovers it), a panic in any other goroutine as the death of the harness process: both are reported",
    "well-formed = status line parses, status in 100..599, body readable to the end its framing announces; error statuses are well-formed answers",
]


def post(ctx):
    """Thorough tier only, once per tree: re-check every compiled property file and everything it depends on with the
    independent checker coqchk and record the axioms it reports."""
    if ctx.tier != "thorough":
        return
    import glob
    import os
    import re
    import sys
    sys.path.insert(0, os.path.join(os.path.dirname(os.path.abspath(__file__)), "..", "lib"))
    import vlib
    mods = sorted("Reservoir.Properties." + os.path.basename(p)[:-2] for p in glob.glob(os.path.join(vlib.THEORIES, "Properties", "*.v")))
    ctx.obligations += 1
    with vlib.CoqLock():
        rc, out = vlib.sh(["coqchk", "-silent", "-o", "-Q", "theories", "Reservoir", "-Q", "gen", "ReservoirGen"] + mods, cwd=vlib.COQ, timeout=2400)
    m = re.search(r"\* Axioms:(.*?)\n\s*\n\* Constants/Inductives relying on type-in-type:(.*?)\n\s*\n\* Constants/Inductives relying on unsafe \(co\)fixpoints:(.*?)\n\s*\n\* Inductives whose positivity is assumed:(.*?)\n", out + "\n\n", flags=re.S)
    summary = " | ".join(" ".join(x.split()) for x in m.groups()) if m else out[-400:]
    ok = rc == 0 and m is not None and all("<none>" in g for g in m.groups())
    ctx.notes.append("coqchk -o over %d property modules: axioms / type-in-type / unsafe fixpoints / assumed positivity = %s" % (len(mods), summary))
    if ok:
        ctx.discharged += 1
        ctx.theorems["coqchk:all_property_modules"] = "coqchk: Axioms: <none>"
    else:
        ctx.violation({"kind": "obligation", "broken": "coqchk does not accept the compiled development or reports axioms / disabled checks",
                       "output": out[-3000:]}, "replay_coqchk.json", no_input=True)
