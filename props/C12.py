"""C12 — Reported cache size and entry count equal what is actually stored."""

def stages(tier):
    return [
        {"name": "cache", "cmd": "cache", "args": ["-prop", "C12"], "check": "Check.Store.check_c12",
         "timeout": 300, "timeout_thorough": 1800},
        {"name": "concurrent", "cmd": "cacheconc", "args": [], "check": "forced janitor cycle between the two counter updates of a store: bytes metric = byteSize at quiescence (direct; also runs the C01 overlap/stress scenarios)",
         "timeout": 300, "timeout_thorough": 1200},
        {"name": "evictoverwrite", "cmd": "cachesched", "args": ["-prop", "C12"], "check": "an eviction candidate overwritten with another length between the eviction's scan and its removal: byte counter and metric equal what is stored (forced schedule at the cache API, direct)",
         "timeout": 120, "timeout_thorough": 300},
    ]

TRUSTED = [
    "model: Model/Store.v mirrors cache/memory_cache.go and cache/file_cache.go (Cache, Get, Delete, UpdateMetadata, deleteInternal, ensureRemove, ensureRemoveFile), cache/helpers.go (counter helpers) and the removal/republish part of the janitor; compared on every run, step by step, with the real MemoryCache and FileCache driven by harness/cmd/cache",
    "POSIX semantics of create/write/rename/unlink with open descriptors on a local filesystem (the file backend's model is an explicit name->inode, inode->bytes fragment)",
    "the eviction ORDER is an input of the model (the set an eviction removed is observed), it is the subject of C13",
]
ASSUMPTIONS = [
    "atomicity of Get/Delete/UpdateMetadata and of each store phase under the key's shard lock (C14/C15's obligation); the model interleaves at that granularity plus the lock-free reads of open handles between source chunks",
    "a restart is a new process: metrics start from zero, descriptors of the old process are gone (the harness replaces metrics.Global and closes its handles on Reopen)",
    "ageing hook VerifAge(d) is indistinguishable from the clock advancing by d; generated expiry offsets keep 5 s distance from every boundary",
    "the two halves of addCacheSize (byteSize, then the metric) are one step of the model; the janitor publishing byteSize between them is below the model's granularity (see design.d/C12.md)",
]
