"""C18 — Only workable configurations are accepted; a rejected update changes nothing.
(also carries the configuration slice of C16: no document makes the update path panic)

pre(): the field table of config.Config (json path, value kind, restart flag, default of every
property) is regenerated from $VERIF_REPO by reflection into work/C18/gen/ConfigFieldsRun.v and the
obligations over it (fields_covered: every setting has a counterpart in the hand-written verify /
consumer model and the table is well-formed; the defaults load) are re-checked by coqc.  The
committed snapshot coq/gen/ConfigFields.v is never written at check time."""
import os
import re
import shutil
import sys

sys.path.insert(0, os.path.join(os.path.dirname(os.path.abspath(__file__)), "..", "lib"))
import vlib  # noqa: E402


def stages(tier):
    return [
        {"name": "txn", "cmd": "conf", "args": ["-prop", "C18"], "check": "Check.ConfigTxn.check_txn",
         "timeout": 600, "timeout_thorough": 2400},
    ]


def _table_text(path):
    try:
        with open(path) as f:
            src = f.read()
    except OSError:
        return None
    m = re.search(r"Definition cfg_table : table :=(.*?)\]\.\n", src, flags=re.S)
    return re.sub(r"\s+", " ", m.group(1)) if m else None


def pre(ctx):
    gen = os.path.join(ctx.work, "gen")
    shutil.rmtree(gen, ignore_errors=True)
    os.makedirs(gen, exist_ok=True)
    ctx.c18_broken = None
    ctx.obligations += 2
    binpath, bout = vlib.go_build(ctx.work, "conf")
    if binpath is None:
        ctx.c18_broken = {"stage": "extractor build", "output": bout[-3000:]}
        return
    rc, out = vlib.run_harness(binpath, ["-prop", "C18", "-stage", "fields", "-out", gen], ctx.work, 120)
    run_v = os.path.join(gen, "ConfigFieldsRun.v")
    if rc != 0 or not os.path.exists(run_v):
        ctx.c18_broken = {"stage": "extractor run", "output": out[-3000:]}
        return
    rc, out = vlib.sh(["coqc", "-Q", vlib.THEORIES, "Reservoir", "-w", "none", "ConfigFieldsRun.v"], cwd=gen, timeout=600)
    closed = out.count("Closed under the global context")
    snap = _table_text(os.path.join(vlib.COQ, "gen", "ConfigFields.v"))
    now = _table_text(run_v)
    nrows = now.count("f_path") if now else 0
    ctx.notes.append("field table regenerated from %s/config by reflection: %d properties; %s the committed snapshot coq/gen/ConfigFields.v" % (
        vlib.REPO, nrows, "identical to" if (snap is not None and snap == now) else "DIFFERS from"))
    if rc == 0 and closed >= 2:
        ctx.discharged += 2
        ctx.theorems["regenerated:cfg_fields_covered"] = "Closed under the global context"
        ctx.theorems["regenerated:cfg_defaults_load"] = "Closed under the global context"
        return
    # which rows have no counterpart?
    diag = ""
    try:
        with open(run_v) as f:
            src = f.read()
        defs = src.split("(* obligations")[0]
        defs += ("Eval vm_compute in (map (fun f => (f_path f, existsb (fun m => path_eqb (fst m) (f_path f) && fkind_eqb (snd m) (f_kind f)) model_fields)) cfg_table).\n"
                 "Eval vm_compute in (table_ok cfg_table).\n")
        with open(os.path.join(gen, "Diag.v"), "w") as f:
            f.write(defs)
        _, diag = vlib.sh(["coqc", "-Q", vlib.THEORIES, "Reservoir", "-w", "none", "Diag.v"], cwd=gen, timeout=600)
    except Exception as e:  # pragma: no cover
        diag = str(e)
    fields = ""
    try:
        with open(os.path.join(gen, "fields.json")) as f:
            fields = f.read()
    except OSError:
        pass
    ctx.c18_broken = {"stage": "obligation", "output": out[-2500:], "rows_with_model_counterpart": diag[-4000:], "fields": fields[-4000:]}


def post(ctx):
    br = getattr(ctx, "c18_broken", None)
    if not br:
        return
    if ctx.violations:
        path = ctx.violations[0][0]
        try:
            import json
            with open(path) as f:
                rep = json.load(f)
            rep["broken_obligation"] = br
            vlib.write_json(path, rep)
        except Exception:
            pass
        return
    ctx.violation({"kind": "obligation",
                   "broken": "the configuration field table regenerated from the source no longer satisfies fields_covered / "
                             "cfg_defaults_load: a setting was added, removed, renamed or retyped without a counterpart in "
                             "Model/ConfigTxn.v (verify, consumers), so the theorems of Properties/C18.v do not speak about the "
                             "configuration the code has now",
                   "detail": br}, "replay_fields_obligation.json", no_input=True)


TRUSTED = [
    "model: Model/ConfigTxn.v mirrors config/update.go (setPropsFromMapRecursive, UpdatePartialFromConfig), config/verify.go and the per-section verify(view) methods, persist/load/LoadOrDefault at value level (the text level is C17's), and -- written from the consuming code, not from verify -- main.go startProxy/startWebServer, proxy.NewProxy, the cache constructors' make([]sync.RWMutex, n), cache.getLock, the janitor's NewTicker/Reset; one property is Model/ConfigProp.v (shared with C17)",
    "library oracles, parameters of every theorem and recorded per case by the harness from the real library: time.ParseDuration, slog.Level JSON decoding, and 'net.SplitHostPort succeeds and net.LookupPort knows the port' for listen addresses; encoding/json turning the request body into map[string]any and back into the bytes handed to UnmarshalJSONStaged (numbers: float64 and its shortest decimal form) is reproduced by the harness, not modelled",
    "the field table is extracted by reflection over config.NewDefault() (harness cmd/conf -stage fields: every struct field with Read/Stage methods, its json path, value type, VerifRequiresRestart, default); the extractor is trusted to enumerate the settings, the obligation fields_covered ties the enumeration to the hand-written names of the model",
    "file-write faults are injected with RLIMIT_FSIZE (SIGXFSZ ignored) inside the child process that runs the history; the length the complete file would have is measured by applying the same document to a copy of the saved configuration that writes to another file",
    "liveness is observed as the survival of a child process that runs the real listeners (proxy.NewProxy: memory cache and janitor); the harness waits for quiescence through the event hooks and for the janitor through its 'ticker reset' log record, never by sleeping",
    "environment-dependent start-up failures (address in use, host name that does not resolve, CA files or cache directory that cannot be opened) are outside can_run: they cannot be decided from the configuration values",
]
ASSUMPTIONS = [
    "one update at a time (two API updates racing each other are not modelled; C19 states the same)",
    "between updates nothing is staged (Stage/CommitStaged are only called by UpdatePartialFromConfig): the theorems about accepted updates assume a settled state and prove that every reachable state is settled",
    "a Go map has no duplicate keys (wf_jmap) -- the refused-update theorem needs no such hypothesis",
    "the rename of the temporary file over var/config.json is atomic (POSIX rename on one file system); a failure of the rename itself is treated like a failed write",
]
