"""C13 — Size limit enforced by LRU eviction; cleanup removes exactly the expired."""

def stages(tier):
    return [
        {"name": "hist", "cmd": "evict", "args": ["-stage", "hist"], "check": "Check.Evict.check_evict",
         "timeout": 300, "timeout_thorough": 1800},
        {"name": "interval", "cmd": "evict", "args": ["-stage", "interval"], "check": "Check.Evict.check_interval",
         "timeout": 300, "timeout_thorough": 1800},
        {"name": "overwritewindow", "cmd": "cachesched", "args": ["-prop", "C13"], "check": "a store of another key between the two counter updates of an overwriting store (cache below its limit throughout) evicts nothing (forced schedule at the cache API, direct)",
         "timeout": 120, "timeout_thorough": 300},
    ]

TRUSTED = [
    "model: Model/Evict.v mirrors cache/cache_janitor.go (evict, ensureCacheSize, cleanExpiredEntries, ticker loop) and the store-triggered eviction of cache/memory_cache.go (cacheInternal) and cache/file_cache.go (Cache); compared on every run with the real MemoryCache and FileCache through the verif hooks (VerifEvict, VerifCleanupCycle, VerifCleanExpired, VerifLockShard, VerifSetLastAccess, VerifAge, the janitor.afterScan yield point) and config.UpdatePartialFromConfig",
    "IEEE binary64 multiplication is Coq's own executable specification Coq.Floats.SpecFloat.SFmul (no axioms); int64(float64(max)*0.8) is computed with it inside the model",
]
ASSUMPTIONS = [
    "time: instants are whole milliseconds relative to one base instant per history; the elapsed real time adds the same constant to every eviction priority (evict_loop_shift) and every expiry offset keeps >= 5 s distance from now",
    "TryLock outcomes, lock-shard indices and map/sort tie resolution are inputs of the model recorded from the implementation (held shard locks; surviving key set)",
    "limit changes: at most one change is in flight when the next store happens (the harness waits for the listener); overtaking deliveries are the event package's business (C19)",
    "byte counter after an overwrite of an existing key is not compared (C12 owns the accounting of overwrites)",
]
