"""Shared machinery of ./check: Coq build + property files, Go harness build/run,
case-file evaluation inside Coq, verdict, known findings, evidence."""
import concurrent.futures as cf
import fcntl
import glob
import json
import os
import re
import shutil
import subprocess
import sys
import time

VERIF = os.path.dirname(os.path.dirname(os.path.abspath(__file__)))
REPO = os.environ.get("VERIF_REPO", "/repo")
COQ = os.path.join(VERIF, "coq")
THEORIES = os.path.join(COQ, "theories")
HARNESS = os.path.join(VERIF, "harness")
WORK = os.environ.get("VERIF_WORK") or os.path.join(VERIF, "work")
EVID = os.environ.get("VERIF_EVID") or os.path.join(VERIF, "evidence")
JOBS = int(os.environ.get("VERIF_JOBS", "16"))

FORBIDDEN = re.compile(
    r"\b(Admitted|admit|Axiom|Axioms|Parameter|Parameters|Conjecture|Conjectures)\b|Admit Obligations|Unset Guard Checking|"
    r"Unset Positivity Checking|Unset Universe Checking|bypass_check|type-in-type|impredicative-set|native_compute")

BASE_TRUSTED = [
    "Coq 8.16.1 kernel (coqc) including its bytecode VM: vm_compute evaluates the models on the case files and closes finite-table lemmas; native_compute is not used",
    "Print Assumptions output of every theorem in the property file is re-read on every run (expected: Closed under the global context)",
    "hand-written Gallina model of the Go code, tied to /repo on every run by differential correspondence (Go harness rebuilt with -tags verif from the working tree, observations evaluated against the model by vm_compute inside Coq)",
    "Go harness, Gallina printer (harness/emit) and this Python driver (verdict logic, known-findings matching)",
    "no extraction is used: the term compared with the implementation is the term the theorems are about",
]


def log(*a):
    print(*a, flush=True)


def go_env():
    env = dict(os.environ)
    env["GOFLAGS"] = "-mod=mod"
    env["GOPROXY"] = "off"
    # /repo needs go 1.26; the default `go` resolves it from the local module cache.
    env["GOTOOLCHAIN"] = "auto"
    env.pop("GOSUMDB", None)
    return env


def sh(cmd, cwd=None, timeout=None, env=None, stdin=None):
    """Run a command, return (rc, combined output). rc=124 on timeout."""
    try:
        p = subprocess.run(cmd, cwd=cwd, env=env, stdout=subprocess.PIPE, stderr=subprocess.STDOUT,
                           timeout=timeout, input=stdin)
        return p.returncode, p.stdout.decode("utf-8", "replace")
    except subprocess.TimeoutExpired as e:
        out = (e.stdout or b"").decode("utf-8", "replace")
        return 124, out + "\n[timeout after %ss]" % timeout


# --------------------------------------------------------------------------
# Coq

class CoqLock:
    def __enter__(self):
        os.makedirs(WORK, exist_ok=True)
        self.f = open(os.path.join(WORK, ".coq.lock"), "w")
        fcntl.flock(self.f, fcntl.LOCK_EX)
        return self

    def __exit__(self, *a):
        fcntl.flock(self.f, fcntl.LOCK_UN)
        self.f.close()


def grep_gate():
    bad = []
    for path in glob.glob(os.path.join(COQ, "**", "*.v"), recursive=True):
        with open(path, encoding="utf-8", errors="replace") as f:
            src = f.read()
        # strip comments (non-nested is enough for our sources; nested handled by loop)
        prev = None
        while prev != src:
            prev = src
            src = re.sub(r"\(\*[^(*]*?(?:\*(?!\))[^(*]*?|\((?!\*)[^(*]*?)*\*\)", " ", src, flags=re.S)
        for m in FORBIDDEN.finditer(src):
            bad.append("%s: %s" % (os.path.relpath(path, VERIF), m.group(0)))
    return bad


def gen_coqproject():
    """_CoqProject is generated: every .v file under coq/theories and coq/gen."""
    files = sorted(glob.glob(os.path.join(COQ, "theories", "**", "*.v"), recursive=True) +
                   glob.glob(os.path.join(COQ, "gen", "*.v")))
    txt = "-Q theories Reservoir\n-Q gen ReservoirGen\n-arg -w -arg none\n" + "".join(
        os.path.relpath(f, COQ) + "\n" for f in files)
    proj = os.path.join(COQ, "_CoqProject")
    old = open(proj).read() if os.path.exists(proj) else ""
    if old != txt:
        with open(proj, "w") as f:
            f.write(txt)


def coq_make(clean=False):
    """Full .vo build of the development (incremental unless clean)."""
    with CoqLock():
        os.makedirs(os.path.join(COQ, "gen"), exist_ok=True)
        gen_coqproject()
        mk = os.path.join(COQ, "Makefile")
        proj = os.path.join(COQ, "_CoqProject")
        if clean and os.path.exists(mk):
            sh(["make", "-f", "Makefile", "clean"], cwd=COQ, timeout=300)
        if (not os.path.exists(mk)) or os.path.getmtime(mk) < os.path.getmtime(proj):
            rc, out = sh(["coq_makefile", "-f", "_CoqProject", "-o", "Makefile"], cwd=COQ, timeout=120)
            if rc != 0:
                return False, out
        rc, out = sh(["make", "-j%d" % JOBS], cwd=COQ, timeout=3000)
        return rc == 0, out


def coq_property_file(pid):
    """Compile Properties/<pid>.v on its own and read back the assumptions of every theorem.
    Returns (ok, theorems: {name: assumptions}, raw output)."""
    src_path = os.path.join(THEORIES, "Properties", pid + ".v")
    with open(src_path) as f:
        src = f.read()
    theorems = re.findall(r"^\s*Theorem\s+(\w+)", src, flags=re.M)
    printed = re.findall(r"^\s*Print Assumptions\s+(\w+)\s*\.", src, flags=re.M)
    with CoqLock():
        rc, out = sh(["coqc", "-Q", "theories", "Reservoir", "-Q", "gen", "ReservoirGen", "-w", "none",
                      os.path.join("theories", "Properties", pid + ".v")], cwd=COQ, timeout=1200)
    if rc != 0:
        return False, {}, out
    # Split the output into one block per Print Assumptions, in order.
    blocks = re.split(r"(?m)^(?=Closed under the global context|Axioms:|Section Variables:)", out)
    blocks = [b.strip() for b in blocks if b.strip().startswith(("Closed under", "Axioms:", "Section Variables:"))]
    res = {}
    for i, name in enumerate(printed):
        res[name] = blocks[i] if i < len(blocks) else "MISSING"
    for t in theorems:
        if t not in res:
            res[t] = "NOT PRINTED"
    return True, res, out


ALLOWED_AXIOMS = {
    # standard-library axioms that may appear; each is named in the evidence when it does
    "functional_extensionality_dep", "propositional_extensionality", "proof_irrelevance",
    "classic", "JMeq_eq", "eq_rect_eq", "Eq_rect_eq.eq_rect_eq", "FunctionalExtensionality.functional_extensionality_dep",
}


def assumptions_ok(text):
    if text.startswith("Closed under the global context"):
        return True
    if text.startswith("Axioms:"):
        names = re.findall(r"(?m)^([\w.']+)\s*:", text[len("Axioms:"):])
        return all(n in ALLOWED_AXIOMS or n.split(".")[-1] in ALLOWED_AXIOMS for n in names) and bool(names)
    return False


# --------------------------------------------------------------------------
# Go harness

def prepare_modfile(workdir):
    os.makedirs(workdir, exist_ok=True)
    mod = os.path.join(workdir, "go.mod")
    with open(os.path.join(HARNESS, "go.mod")) as f:
        txt = f.read()
    txt = re.sub(r"replace reservoir => \S+", "replace reservoir => " + REPO, txt)
    with open(mod, "w") as f:
        f.write(txt)
    shutil.copyfile(os.path.join(REPO, "go.sum"), os.path.join(workdir, "go.sum"))
    return mod


def build_overlay(workdir, cmdname):
    """Optional harness/cmd/<cmd>/overlay.json: {"<path below the repo>": "<stub file below harness/>"}.
    Generated sources this checkout cannot produce offline (the dashboard's CSP constant) are supplied to
    `go build -overlay` from the harness side.  An entry is used only while the repo lacks that file;
    nothing is ever written into the repo."""
    spec = os.path.join(HARNESS, "cmd", cmdname, "overlay.json")
    if not os.path.exists(spec):
        return None
    with open(spec) as f:
        entries = json.load(f)
    repl = {}
    for target, stub in entries.items():
        dst = os.path.join(os.path.realpath(REPO), target)
        if not os.path.exists(dst):
            repl[dst] = os.path.join(HARNESS, stub)
    if not repl:
        return None
    path = os.path.join(workdir, "overlay_%s.json" % cmdname)
    write_json(path, {"Replace": repl})
    return path


def go_build(workdir, cmdname, race=False, tags="verif", timeout=900):
    mod = prepare_modfile(workdir)
    out_bin = os.path.join(workdir, "bin_" + cmdname + ("_race" if race else ""))
    cmd = ["go", "build", "-tags", tags, "-modfile=" + mod, "-o", out_bin]
    overlay = build_overlay(workdir, cmdname)
    if overlay:
        cmd.append("-overlay=" + overlay)
    if race:
        cmd.append("-race")
    cmd.append("./cmd/" + cmdname)
    rc, out = sh(cmd, cwd=HARNESS, env=go_env(), timeout=timeout)
    if rc != 0:
        return None, out
    return out_bin, out


def run_harness(binpath, args, workdir, timeout):
    cwd = os.path.join(workdir, "cwd")
    os.makedirs(cwd, exist_ok=True)
    env = go_env()
    env["VERIF_REPO"] = REPO
    env["VERIF_DIR"] = VERIF
    rc, out = sh([binpath] + args, cwd=cwd, env=env, timeout=timeout)
    return rc, out


# --------------------------------------------------------------------------
# Case evaluation inside Coq

def _parse_list_z(txt):
    return [int(x) for x in re.findall(r"-?\d+", txt)]


def _eval_one(path):
    t0 = time.time()
    rc, out = sh(["coqc", "-Q", THEORIES, "Reservoir", "-Q", os.path.join(COQ, "gen"), "ReservoirGen", "-w", "none", path],
                 cwd=os.path.dirname(path), timeout=3000)
    dt = time.time() - t0
    if rc != 0:
        return {"file": path, "error": out[-3000:], "secs": dt}
    # four "= value : type" answers, possibly wrapped over several lines
    flat = re.sub(r"\s+", " ", out)
    answers = re.findall(r"= (.*?) : (?:Z|list Z|list \(Z \* Z\))", flat)
    if len(answers) < 4:
        return {"file": path, "error": "unparseable coqc output: " + out[-2000:], "secs": dt}
    total = _parse_list_z(answers[0])[0]
    mism = _parse_list_z(answers[1])
    propf = _parse_list_z(answers[2])
    tagnums = _parse_list_z(answers[3])
    tags = {str(tagnums[i]): tagnums[i + 1] for i in range(0, len(tagnums) - 1, 2)}
    for ext in (".vo", ".vok", ".vos", ".glob"):
        try:
            os.remove(path[:-2] + ext)
        except OSError:
            pass
    return {"file": path, "total": total, "mismatch": mism, "propfail": propf, "tags": tags, "secs": dt}


def eval_cases(outdir, files):
    paths = [os.path.join(outdir, f) for f in files]
    with cf.ThreadPoolExecutor(max_workers=JOBS) as ex:
        return list(ex.map(_eval_one, paths))


# --------------------------------------------------------------------------
# Known findings

def load_known(pid):
    path = os.path.join(VERIF, "known_findings.json")
    if not os.path.exists(path):
        return []
    with open(path) as f:
        data = json.load(f)
    return [e for e in data.get("findings", []) if e.get("property") == pid]


def matches(finding, readable):
    """A finding matches a failing case when every key of finding['match'] is
    present in the case description with an equal value (lists: subset)."""
    m = finding.get("match") or {}
    if not m or not isinstance(readable, dict):
        return False
    for k, v in m.items():
        if k not in readable:
            return False
        rv = readable[k]
        if isinstance(v, list) and isinstance(rv, list):
            if any(x not in rv for x in v):
                return False
        elif rv != v:
            return False
    return True


# --------------------------------------------------------------------------
# Evidence / replay files

def write_json(path, obj):
    os.makedirs(os.path.dirname(path), exist_ok=True)
    tmp = path + ".tmp"
    with open(tmp, "w") as f:
        json.dump(obj, f, indent=1, sort_keys=False, default=str)
        f.write("\n")
    os.replace(tmp, path)


def validate_evidence(path):
    schema = "/root/.vp/EVIDENCE.schema.json"
    if not os.path.exists(schema):
        return None
    try:
        import jsonschema  # noqa
    except Exception:
        # try the tooling venv
        rc, out = sh(["python3-vt", "-c",
                      "import json,jsonschema,sys;jsonschema.validate(json.load(open(sys.argv[1])),json.load(open(sys.argv[2])))",
                      path, schema], timeout=60)
        return None if rc == 0 else out[-500:]
    with open(path) as f, open(schema) as g:
        try:
            jsonschema.validate(json.load(f), json.load(g))
        except Exception as e:  # pragma: no cover
            return str(e)[:500]
    return None


class Ctx:
    """Everything one run of one property accumulates."""

    def __init__(self, pid, mod, tier, seed):
        self.pid, self.mod, self.tier, self.seed = pid, mod, tier, seed
        self.work = os.path.join(WORK, pid)
        self.t0 = time.time()
        self.violations = []      # list of (replay_path, tail)
        self.known_lines = []
        self.stage_info = []
        self.evaluations = 0
        self.distinct_nontrivial = 0
        self.samples = []
        self.distribution = {}
        self.tags = {}
        self.rules = []
        self.theorems = {}
        self.obligations = 0
        self.discharged = 0
        self.notes = []
        self.keep_work = False
        self.exhaustive = False

    def replay_path(self, name):
        d = os.path.join(self.work, "replay")
        os.makedirs(d, exist_ok=True)
        return os.path.join(d, name)

    def violation(self, replay_obj, name, no_input=False):
        replay_obj.setdefault("property", self.pid)
        replay_obj.setdefault("seed", self.seed)
        replay_obj.setdefault("tier", self.tier)
        replay_obj["no_failing_input_found"] = bool(no_input)
        path = self.replay_path(name)
        write_json(path, replay_obj)
        self.violations.append((path, " no-failing-input-found" if no_input else ""))
        self.keep_work = True


def run_stage(ctx, stage, seed=None, tier=None, record=True, tagdir=None):
    """Build + run one harness stage and evaluate its case files.
    Returns dict(ok, build_error, harness_error, results, meta, outdir)."""
    seed = ctx.seed if seed is None else seed
    tier = ctx.tier if tier is None else tier
    name = stage["name"]
    outdir = os.path.join(ctx.work, tagdir or name)
    shutil.rmtree(outdir, ignore_errors=True)
    os.makedirs(outdir, exist_ok=True)
    race = bool(stage.get("race"))
    binpath, bout = go_build(ctx.work, stage["cmd"], race=race)
    if binpath is None:
        return {"ok": False, "build_error": bout, "outdir": outdir}
    args = list(stage.get("args", [])) + ["-seed", str(seed), "-tier", tier, "-out", outdir]
    tmo = stage.get("timeout_thorough", 3000) if tier == "thorough" else stage.get("timeout", 600)
    rc, hout = run_harness(binpath, args, ctx.work, tmo)
    with open(os.path.join(outdir, "harness.log"), "w") as f:
        f.write(hout)
    meta_path = os.path.join(outdir, "meta.json")
    if rc != 0 or not os.path.exists(meta_path):
        return {"ok": False, "harness_error": "exit %d\n%s" % (rc, hout[-6000:]), "outdir": outdir}
    with open(meta_path) as f:
        meta = json.load(f)
    results = eval_cases(outdir, meta.get("files", []))
    return {"ok": True, "results": results, "meta": meta, "outdir": outdir, "harness_out": hout}


def failing_cases(sr, kind):
    """Global case indices (shard-major) of kind 'mismatch'|'propfail' with their readable forms."""
    out = []
    base = 0
    readable = sr["meta"].get("readable", [])
    # "direct" observations: decided by the harness itself (watchdog expiry, race report,
    # process death ...), not by evaluating a model; listed with their readable form.
    direct = sr["meta"].get("direct") or {}
    for i, rd in enumerate(direct.get("failures" if kind == "propfail" else "mismatches") or []):
        out.append((10 ** 9 + i, rd))
    for r in sr["results"]:
        if "error" in r:
            continue
        for i in r[kind]:
            g = base + i
            out.append((g, readable[g] if g < len(readable) else None))
        base += r["total"]
    return out


def default_search(ctx, stage, budget_s):
    """Search for a concrete property failure: thorough generator, fresh seeds, until the budget is spent."""
    t0 = time.time()
    k = 0
    while time.time() - t0 < budget_s and k < 6:
        k += 1
        sr = run_stage(ctx, stage, seed=ctx.seed * 1000 + k, tier="thorough" if k > 1 else ctx.tier,
                       tagdir=stage["name"] + "_search")
        if not sr.get("ok"):
            return None
        pf = failing_cases(sr, "propfail")
        known = load_known(ctx.pid)
        pf = [(g, rd) for g, rd in pf if not any(e.get("kind") == "finding" and matches(e, rd) for e in known)]
        if pf:
            return {"seed": ctx.seed * 1000 + k, "tier": "thorough" if k > 1 else ctx.tier, "cases": pf[:5]}
    return None


def size_of(rd):
    try:
        return len(json.dumps(rd))
    except Exception:
        return 10 ** 9


def process_stage(ctx, stage):
    pid = ctx.pid
    sr = run_stage(ctx, stage)
    name = stage["name"]
    info = {"stage": name, "cmd": stage["cmd"], "args": stage.get("args", [])}
    ctx.stage_info.append(info)
    if not sr.get("ok"):
        if "build_error" in sr:
            info["build_error"] = sr["build_error"][-1500:]
            ctx.violation({"kind": "build", "stage": name,
                           "broken": "harness %s no longer builds against the tree (a hook or API the correspondence relies on changed)" % stage["cmd"],
                           "output": sr["build_error"][-6000:]}, "replay_%s_build.json" % name, no_input=True)
        else:
            info["harness_error"] = sr["harness_error"][-1500:]
            ctx.violation({"kind": "harness", "stage": name,
                           "broken": "harness %s crashed, hung or aborted while driving the implementation" % stage["cmd"],
                           "output": sr["harness_error"]}, "replay_%s_harness.json" % name, no_input=True)
        return
    meta = sr["meta"]
    results = sr["results"]
    errs = [r for r in results if "error" in r]
    info["files"] = len(results)
    info["coq_secs"] = round(sum(r.get("secs", 0) for r in results), 1)
    total = sum(r.get("total", 0) for r in results) + int((meta.get("direct") or {}).get("total", 0))
    ctx.evaluations += total
    ctx.distinct_nontrivial += int(meta.get("distinct_nontrivial", 0))
    if meta.get("rule"):
        ctx.rules.append("%s: %s" % (name, meta["rule"]))
    ctx.samples.extend(meta.get("samples", [])[:6])
    ctx.distribution[name] = meta.get("distribution", {})
    if meta.get("extra"):
        info["extra"] = meta["extra"]
    tags = {}
    for r in results:
        for k, v in r.get("tags", {}).items():
            tags[k] = tags.get(k, 0) + v
    ctx.tags[name] = tags
    info["cases"] = total
    if meta.get("exhaustive"):
        ctx.exhaustive = True
    if errs:
        ctx.violation({"kind": "evaluation", "stage": name,
                       "broken": "case file could not be evaluated by coqc (observation outside the model's vocabulary)",
                       "output": errs[0]["error"]}, "replay_%s_eval.json" % name, no_input=True)
        return
    known = load_known(pid)
    pf = failing_cases(sr, "propfail")
    mm = failing_cases(sr, "mismatch")
    info["propfail"] = len(pf)
    info["mismatch"] = len(mm)
    unknown_pf = []
    hit = {}
    for g, rd in pf:
        e = next((e for e in known if e.get("kind") == "finding" and matches(e, rd)), None)
        if e is not None:
            hit.setdefault(e["id"], (e, g, rd))
        else:
            unknown_pf.append((g, rd))
    for fid, (e, g, rd) in hit.items():
        line = "KNOWN-FINDING: property=%s %s %s" % (pid, fid, e.get("what", ""))
        if line not in ctx.known_lines:
            ctx.known_lines.append(line)
    known_idx = {g for (_, g, _) in hit.values()} | {g for g, rd in pf if any(e.get("kind") == "finding" and matches(e, rd) for e in known)}
    if unknown_pf:
        unknown_pf.sort(key=lambda x: size_of(x[1]))
        g, rd = unknown_pf[0]
        ctx.violation({"kind": "propfail", "stage": name, "harness": stage["cmd"], "args": stage.get("args", []),
                       "broken": "the implementation's own observation violates the property checker (%s)" % meta.get("check", stage.get("check", "")),
                       "case_index": g, "case": rd, "other_failing": [r for _, r in unknown_pf[1:6]],
                       "failing_count": len(unknown_pf)}, "replay_%s_propfail.json" % name)
        ctx.found_input = ctx.violations[-1][0]
        return
    mm = [(g, rd) for g, rd in mm if g not in known_idx]
    if mm and getattr(ctx, "found_input", None):
        # a concrete failing input was already found by an earlier stage of this run: no second search,
        # the broken correspondence of this stage is attached to that replay
        mm.sort(key=lambda x: size_of(x[1]))
        try:
            with open(ctx.found_input) as f:
                rep0 = json.load(f)
            rep0.setdefault("other_stage_mismatches", []).append({"stage": name, "count": len(mm), "first": mm[0][1]})
            write_json(ctx.found_input, rep0)
        except Exception:
            pass
        return
    if mm:
        mm.sort(key=lambda x: size_of(x[1]))
        # correspondence broken: search for a concrete failing input
        searcher = getattr(ctx.mod, "search", None)
        found = None
        budget = stage.get("search_budget", 120 if ctx.tier == "quick" else 600)
        if searcher:
            found = searcher(ctx, stage, mm, budget)
        if found is None:
            found = default_search(ctx, stage, budget)
        rep = {"kind": "correspondence", "stage": name, "harness": stage["cmd"], "args": stage.get("args", []),
               "broken": "model/implementation correspondence %s (theorems of Properties/%s.v no longer transfer to the code)" % (
                   meta.get("check", stage.get("check", "")), pid),
               "case_index": mm[0][0], "case": mm[0][1], "other_mismatching": [r for _, r in mm[1:6]],
               "mismatch_count": len(mm)}
        if found:
            rep["kind"] = "propfail"
            rep["found_by_search"] = found
            ctx.violation(rep, "replay_%s_search.json" % name)
        else:
            ctx.violation(rep, "replay_%s_corr.json" % name, no_input=True)


def run_property(pid, mod, tier, seed):
    ctx = Ctx(pid, mod, tier, seed)
    shutil.rmtree(os.path.join(ctx.work, "replay"), ignore_errors=True)
    os.makedirs(ctx.work, exist_ok=True)
    log("== %s (%s, seed %d) against %s" % (pid, tier, seed, REPO))

    # 1. proof step
    bad = grep_gate()
    ok, out = coq_make()
    proof_ok = ok and not bad
    thm = {}
    if ok:
        ok2, thm, pout = coq_property_file(pid)
        proof_ok = proof_ok and ok2
        if not ok2:
            out = pout
    ctx.theorems = thm
    ctx.obligations = max(len(thm), 1)
    ctx.discharged = sum(1 for t in thm.values() if assumptions_ok(t))
    if bad:
        ctx.notes.append("grep gate: " + "; ".join(bad[:5]))
    if not proof_ok or ctx.discharged != len(thm) or not thm:
        ctx.violation({"kind": "obligation",
                       "broken": "Coq development does not build or a theorem of Properties/%s.v is not closed: %s" % (
                           pid, [k for k, v in thm.items() if not assumptions_ok(v)] or "build failure"),
                       "grep_gate": bad, "output": out[-6000:]}, "replay_proof.json", no_input=True)
    log("   proof step: %d/%d theorems closed" % (ctx.discharged, len(thm)))

    # 2. optional pre-stage hook of the property (regeneration etc.)
    pre = getattr(mod, "pre", None)
    if pre:
        pre(ctx)

    # 3. correspondence stages
    stages = mod.stages(tier) if hasattr(mod, "stages") else getattr(mod, "STAGES", [])
    for st in stages:
        t1 = time.time()
        process_stage(ctx, st)
        ctx.stage_info[-1]["secs"] = round(time.time() - t1, 1)
        log("   stage %s: %s" % (st["name"], {k: v for k, v in ctx.stage_info[-1].items() if k in ("cases", "mismatch", "propfail", "secs", "build_error", "harness_error")}))

    post = getattr(mod, "post", None)
    if post:
        post(ctx)

    # 4. verdict + evidence
    wall = time.time() - ctx.t0
    ev = {
        "property_id": pid, "tier": tier, "seed": seed, "level": "proof", "wall_s": round(wall, 2),
        "violations": len(ctx.violations),
        "coverage": {
            "obligations": ctx.obligations, "discharged": ctx.discharged,
            "checker_cmd": "make -C coq (coq_makefile, full .vo build) && coqc -Q coq/theories Reservoir coq/theories/Properties/%s.v && coqc <work/%s/*/cases_*.v>" % (pid, pid),
            "trusted_base": BASE_TRUSTED + list(getattr(mod, "TRUSTED", [])),
            "theorems": ctx.theorems,
            "evaluations": ctx.evaluations,
            "distinct_nontrivial": ctx.distinct_nontrivial,
            "traces_validated_against_impl": ctx.evaluations,
            "rule": " || ".join(ctx.rules),
            "distribution": ctx.distribution,
            "model_branches_hit": ctx.tags,
            "samples": ctx.samples[:12] if ctx.samples else [{"note": "no harness stage produced cases"}],
            "stages": ctx.stage_info,
            "exhaustive": ctx.exhaustive,
            "known_findings_reported": ctx.known_lines,
            "notes": ctx.notes,
            "repo": REPO,
        },
        "assumptions": list(getattr(mod, "ASSUMPTIONS", [])),
    }
    evpath = os.path.join(EVID, pid + ".json")
    write_json(evpath, ev)
    err = validate_evidence(evpath)
    if err:
        log("   WARNING: evidence does not validate: " + err)
    for line in ctx.known_lines:
        log(line)
    if ctx.violations:
        for path, tail in ctx.violations:
            log("VIOLATION property=%s replay=%s%s" % (pid, path, tail))
        return 1
    if not ctx.keep_work:
        for d in os.listdir(ctx.work):
            p = os.path.join(ctx.work, d)
            if os.path.isdir(p) and d not in ("replay",):
                shutil.rmtree(p, ignore_errors=True)
    log("   OK %s: %d cases, %.1fs" % (pid, ctx.evaluations, wall))
    return 0


# --------------------------------------------------------------------------

def setup():
    t0 = time.time()
    bad = grep_gate()
    if bad:
        log("grep gate:", bad)
        return 1
    ok, out = coq_make(clean=True)
    if not ok:
        log(out[-4000:])
        return 1
    log("coq build ok (%.0fs)" % (time.time() - t0))
    # warm the Go build cache
    w = os.path.join(WORK, "_setup")
    for d in sorted(os.listdir(os.path.join(HARNESS, "cmd"))):
        b, o = go_build(w, d)
        if b is None:
            log("harness %s does not build:\n%s" % (d, o[-3000:]))
            return 1
    shutil.rmtree(w, ignore_errors=True)
    log("setup ok (%.0fs)" % (time.time() - t0))
    return 0


def replay(path, load_prop):
    with open(path) as f:
        rep = json.load(f)
    pid = rep["property"]
    mod = load_prop(pid)
    log("replaying %s: kind=%s stage=%s" % (path, rep.get("kind"), rep.get("stage")))
    log("recorded case: " + json.dumps(rep.get("case"))[:2000])
    if rep.get("kind") in ("obligation", "build", "harness", "evaluation") and not rep.get("stage"):
        log(rep.get("broken", ""))
        log(rep.get("output", "")[-3000:])
    seed = rep.get("found_by_search", {}).get("seed", rep.get("seed", 1))
    tier = rep.get("found_by_search", {}).get("tier", rep.get("tier", "quick"))
    return run_property(pid, mod, tier, int(seed))
