module verifharness

go 1.26

require reservoir v0.0.0

require (
	github.com/dustin/go-humanize v1.0.1 // indirect
	github.com/google/uuid v1.6.0 // indirect
	github.com/jmoiron/sqlx v1.4.0 // indirect
	github.com/remyoudompheng/bigfft v0.0.0-20230129092748-24d4a6f8daec // indirect
	github.com/shirou/gopsutil/v4 v4.26.1 // indirect
	golang.org/x/crypto v0.48.0 // indirect
	golang.org/x/exp v0.0.0-20260212183809-81e46e3db34a // indirect
	golang.org/x/sync v0.19.0 // indirect
	golang.org/x/sys v0.41.0 // indirect
	modernc.org/libc v1.67.7 // indirect
	modernc.org/mathutil v1.7.1 // indirect
	modernc.org/memory v1.11.0 // indirect
	modernc.org/sqlite v1.45.0 // indirect
)

replace reservoir => /repo
