module verifharness

go 1.26

require reservoir v0.0.0

require (
	github.com/shirou/gopsutil/v4 v4.26.1 // indirect
	golang.org/x/crypto v0.48.0 // indirect
	golang.org/x/sync v0.19.0 // indirect
	golang.org/x/sys v0.41.0 // indirect
)

replace reservoir => /repo
