module verifharness

go 1.26

require reservoir v0.0.0

replace reservoir => /repo
