// Package freshlib holds what the unit-level and the end-to-end harness of C03/C04
// share: generators of Cache-Control / Expires header forms and cache policies,
// their Gallina printing (Model/Freshness.v vocabulary), and the parser of the
// Cache-Status field reservoir emits.
package freshlib

import (
	"fmt"
	"math/big"
	"net/http"
	"strconv"
	"strings"
	"time"

	"verifharness/emit"
)

// ---------- policies ----------

type Policy struct {
	Ignore  bool
	Force   bool
	Default time.Duration
}

func (p Policy) Coq() string {
	return fmt.Sprintf("(Build_policy %s %s %s)", emit.Bool(p.Ignore), emit.Bool(p.Force), emit.Z(int64(p.Default)))
}

func (p Policy) Readable() map[string]any {
	return map[string]any{"ignore_cache_control": p.Ignore, "force_default_max_age": p.Force, "default_max_age": p.Default.String()}
}

var Defaults = []time.Duration{time.Hour, 90 * time.Second, time.Second, 0, -time.Second, 30 * 24 * time.Hour}

func RandPolicy(r *emit.Rand) Policy {
	p := Policy{Default: emit.Pick(r, Defaults)}
	switch r.Intn(8) {
	case 0, 1, 2, 3: // the interesting one: origin directives honoured
	case 4, 5:
		p.Ignore = true
	case 6:
		p.Force = true
	default:
		p.Ignore, p.Force = true, true
	}
	return p
}

// ---------- Expires forms ----------

type ExpiresKind int

const (
	ExpAbsent ExpiresKind = iota
	ExpUnparseable
	ExpAt
)

// Expires is one Expires field line together with what a conforming HTTP-date
// parser must make of it (known by construction, not by calling the parser).
type Expires struct {
	Kind   ExpiresKind
	Line   string
	At     time.Time // second-aligned, for ExpAt
	Form   string    // imf | rfc850 | asctime | bad:<what> | absent
	Offset time.Duration
}

func (e Expires) Coq() string {
	switch e.Kind {
	case ExpAbsent:
		return "ExpAbsent"
	case ExpUnparseable:
		return "ExpUnparseable"
	}
	return "(ExpAt " + NanosZ(e.At) + ")"
}

// malformed HTTP-dates (none is an IMF-fixdate, RFC 850 date or asctime date)
var BadDates = []string{
	"0", "-1", "", "now", "tomorrow", "Thu, 32 Jan 2030 00:00:00 GMT", "Tue, 01 Jan 2030 00:00:00 UTC",
	"Tue, 01 Jan 2030 00:00:00 gmt", " Tue, 01 Jan 2030 00:00:00 GMT", "Tue, 01 Jan 2030 00:00:00 GMT ",
	"Tue, 1 Jan 2030 00:00:00 GMT", "Tue, 01 Jan 2030 24:00:00 GMT", "Tue, 01 Jan 2030 00:00:00 +0000",
	"2030-01-01T00:00:00Z", "1893456000", "Tue, 01 Jan 2030", "01 Jan 2030 00:00:00 GMT", "Tue, 01 Foo 2030 00:00:00 GMT",
	"Tue, 01 Jan 2030 00:00 GMT", "\x00", "Tue, 01 Jan 2030 00:00:00 GMT\xff",
}

// offsets keep >= 2 s away from "now"; the two-digit year of RFC 850 dates limits the span to +-40 years
var expOffsets = []time.Duration{
	2 * time.Second, 3 * time.Second, 10 * time.Second, 60 * time.Second, 61 * time.Second, time.Hour, 24 * time.Hour,
	365 * 24 * time.Hour, 40 * 365 * 24 * time.Hour,
}

func DateLine(t time.Time, form string) string {
	t = t.UTC()
	switch form {
	case "rfc850":
		return t.Format("Monday, 02-Jan-06 15:04:05") + " GMT"
	case "asctime":
		return t.Format(time.ANSIC)
	default:
		return t.Format(http.TimeFormat)
	}
}

// RandExpires picks an Expires form relative to now. maxOff bounds the offsets (0 = any).
func RandExpires(r *emit.Rand, now time.Time, maxOff time.Duration) Expires {
	k := r.Intn(100)
	switch {
	case k < 40:
		return Expires{Kind: ExpAbsent, Form: "absent"}
	case k < 55:
		line := emit.Pick(r, BadDates)
		return Expires{Kind: ExpUnparseable, Line: line, Form: "bad"}
	}
	off := emit.Pick(r, expOffsets)
	for maxOff > 0 && off > maxOff {
		off = emit.Pick(r, expOffsets)
	}
	if r.Chance(45) {
		off = -off
	}
	form := emit.Pick(r, []string{"imf", "imf", "imf", "rfc850", "asctime"})
	at := now.Add(off).Truncate(time.Second)
	if off > 0 {
		at = at.Add(time.Second) // keep the full distance after truncation
	}
	if r.Chance(3) {
		at = time.Unix(0, 0)
		off = at.Sub(now)
	}
	if r.Chance(8) {
		// the current second ("Expires: <same as Date>", the usual way of saying "already expired"): in the past by less
		// than a second — and it stays in the past, time only moves on
		at = now.Truncate(time.Second)
		off = at.Sub(now)
		form = "imf"
	}
	return Expires{Kind: ExpAt, Line: DateLine(at, form), At: at, Form: form, Offset: off}
}

// ---------- Cache-Control forms ----------

var maxAgeValues = []string{
	"0", "1", "2", "5", "60", "61", "3600", "86400", "31536000", "2147483647", "2147483648", "4294967296",
	"9223372035", "9223372036", "9223372037", "18446744073", "9223372036854775807", "9223372036854775808",
	"18446744073709551615", "18446744073709551616", "99999999999999999999", "123456789012345678901234567890",
	"-1", "-0", "+0", "+5", "-5", "-9223372036854775808", "-9223372036854775809", "00", "007", "0000000000000000000000060",
	"abc", "", "1.5", "1e3", "5x", "x5", " 5", "5 ", "\"5\"", "0x10", "5_0", "+", "-", "\u0665", "5\xff", "5\u212a",
}

var plainDirectives = []string{
	"no-store", "no-cache", "private", "public", "must-revalidate", "proxy-revalidate", "no-transform", "immutable",
	"s-maxage=5", "stale-while-revalidate=30", "no-cache=\"set-cookie\"", "private=\"x\"", "", "max-age", "maxage=5",
	"max-age =5", "max_age=5", "x-max-age=5", "no-storex", "nostore", "no store", "xno-cache", "privat", "private-ish",
	"community=\"UCI\"", "pr\u0130vate", "no-\u212aache", "no-\u017ftore", "max-age=5\u212a",
}

func recase(r *emit.Rand, s string) string {
	switch r.Intn(8) {
	case 0:
		return strings.ToUpper(s)
	case 1:
		if len(s) > 0 && s[0] < 0x80 {
			return strings.ToUpper(s[:1]) + s[1:]
		}
		return s
	case 2:
		b := []byte(s)
		for i, c := range b {
			if c >= 'a' && c <= 'z' && r.Bool() {
				b[i] = c - 32
			}
		}
		return string(b)
	default:
		return s
	}
}

var pads = []string{"", "", "", "", " ", " ", "  ", "\t", " \t ", "\v", "\f", "\u00a0", "\u0085", "\u2003", "\u3000", "\xa0", "\u200b"}

func pad(r *emit.Rand) string { return emit.Pick(r, pads) }

// RandDirective returns one directive (unpadded) and a coarse class for the histogram.
func RandDirective(r *emit.Rand) (string, string) {
	switch k := r.Intn(100); {
	case k < 40:
		v := emit.Pick(r, maxAgeValues)
		if r.Chance(35) {
			v = strconv.Itoa([]int{1, 2, 5, 30, 60, 600, 3600}[r.Intn(7)])
		}
		return recase(r, "max-age=") + v, "max-age"
	case k < 52:
		return recase(r, "no-store"), "no-store"
	case k < 62:
		return recase(r, "no-cache"), "no-cache"
	case k < 72:
		return recase(r, "private"), "private"
	default:
		return recase(r, emit.Pick(r, plainDirectives)), "other"
	}
}

// RandCCLine builds one Cache-Control field line of n directives.
func RandCCLine(r *emit.Rand, n int, count func(string)) string {
	var sb strings.Builder
	for i := 0; i < n; i++ {
		if i > 0 {
			if r.Chance(4) {
				sb.WriteString(";") // wrong separator
			} else {
				sb.WriteString(",")
			}
			if r.Chance(60) {
				sb.WriteString(" ")
			}
		}
		d, cls := RandDirective(r)
		if count != nil {
			count(cls)
		}
		sb.WriteString(pad(r))
		sb.WriteString(d)
		sb.WriteString(pad(r))
	}
	return sb.String()
}

// RandCCLines builds the Cache-Control lines of a response (possibly none).
func RandCCLines(r *emit.Rand, count func(string)) []string {
	nl := 1
	switch k := r.Intn(100); {
	case k < 15:
		nl = 0
	case k < 80:
		nl = 1
	case k < 95:
		nl = 2
	default:
		nl = 3
	}
	lines := make([]string, 0, nl)
	for i := 0; i < nl; i++ {
		nd := 1 + r.Intn(3)
		if r.Chance(5) {
			nd = 0
		}
		lines = append(lines, RandCCLine(r, nd, count))
	}
	return lines
}

// ---------- header views ----------

type HView struct {
	CC        []string
	Exp       Expires
	RespRange bool   // a Range field parseRangeHeader accepts
	RangeLine string // "" = no Range field
}

func (h HView) Coq() string {
	ls := make([]string, len(h.CC))
	for i, l := range h.CC {
		ls[i] = emit.Str(l)
	}
	return fmt.Sprintf("(Build_hview %s %s %s)", emit.List(ls), h.Exp.Coq(), emit.Bool(h.RespRange))
}

func (h HView) Header() http.Header {
	hd := http.Header{}
	for _, l := range h.CC {
		hd.Add("Cache-Control", l)
	}
	if h.Exp.Kind != ExpAbsent {
		hd.Add("Expires", h.Exp.Line)
	}
	if h.RangeLine != "" {
		hd.Add("Range", h.RangeLine)
	}
	// a quarter of the views that HAVE a Cache-Control field also carry the HTTP/1.0 field "Pragma: no-cache": beside
	// Cache-Control it has no meaning (RFC 9111 5.4) and the decision is unchanged. Without any Cache-Control field it
	// IS the origin's no-cache mark — net/http itself rewrites it into "Cache-Control: no-cache" when it reads the
	// response — so that combination is not generated under the views' own expectation.
	if k := h.Key(); len(h.CC) > 0 && len(k)%4 == 1 {
		hd.Add("Pragma", "no-cache")
	}
	return hd
}

func (h HView) Readable() map[string]any {
	m := map[string]any{"cache_control": append([]string{}, h.CC...)}
	if h.Exp.Kind != ExpAbsent {
		m["expires"] = h.Exp.Line
		m["expires_form"] = h.Exp.Form
	}
	if h.RangeLine != "" {
		m["range"] = h.RangeLine
	}
	return m
}

func (h HView) Key() string {
	return strings.Join(h.CC, "\x01") + "\x02" + h.Exp.Line + "\x02" + strconv.Itoa(int(h.Exp.Kind)) + "\x02" + h.RangeLine
}

// ---------- printing instants ----------

// NanosZ prints t as nanoseconds since the Unix epoch (arbitrary precision: the
// year-1 zero time and now+292 years do not fit an int64).
func NanosZ(t time.Time) string {
	v := new(big.Int).Mul(big.NewInt(t.Unix()), big.NewInt(1000000000))
	v.Add(v, big.NewInt(int64(t.Nanosecond())))
	if v.Sign() < 0 {
		return "(" + v.String() + ")"
	}
	return v.String()
}

// ---------- Cache-Status ----------

// CacheStatus is the parsed form of "reservoir; hit; detail=..; fwd=..; fwd-status=N; stored; ttl=N".
type CacheStatus struct {
	OK        bool
	Hit       int // 0 miss, 1 revalidated, 2 hit
	FwdStale  bool
	FwdOther  string
	FwdStatus *int64
	Stored    bool
	TTL       *int64
}

func ParseCacheStatus(s string) CacheStatus {
	cs := CacheStatus{}
	parts := strings.Split(s, "; ")
	if len(parts) < 2 || parts[0] != "reservoir" {
		return cs
	}
	seenHit, seenMiss, reval := false, false, false
	for _, p := range parts[1:] {
		switch {
		case p == "hit":
			seenHit = true
		case p == "miss":
			seenMiss = true
		case p == "detail=\"revalidated\"":
			reval = true
		case p == "fwd=stale":
			cs.FwdStale = true
		case strings.HasPrefix(p, "fwd="):
			cs.FwdOther = p
		case strings.HasPrefix(p, "fwd-status="):
			n, err := strconv.ParseInt(p[len("fwd-status="):], 10, 64)
			if err != nil {
				return CacheStatus{}
			}
			cs.FwdStatus = &n
		case p == "stored":
			cs.Stored = true
		case strings.HasPrefix(p, "ttl="):
			n, err := strconv.ParseInt(p[len("ttl="):], 10, 64)
			if err != nil {
				return CacheStatus{}
			}
			cs.TTL = &n
		default:
			return CacheStatus{}
		}
	}
	switch {
	case seenHit && !seenMiss && reval:
		cs.Hit = 1
	case seenHit && !seenMiss:
		cs.Hit = 2
	case seenMiss && !seenHit && !reval:
		cs.Hit = 0
	default:
		return CacheStatus{}
	}
	cs.OK = cs.FwdOther == ""
	return cs
}

func optZ(p *int64) string {
	if p == nil {
		return "None"
	}
	return "(Some " + emit.Z(*p) + ")"
}

var hsNames = []string{"HsMiss", "HsRevalidated", "HsHit"}

// Coq prints the status as a Model.Freshness.cache_status (only valid when OK).
func (c CacheStatus) Coq() string {
	return fmt.Sprintf("(Build_cache_status %s %s %s %s %s)", hsNames[c.Hit], emit.Bool(c.FwdStale), optZ(c.FwdStatus), emit.Bool(c.Stored), optZ(c.TTL))
}

func XCacheCode(s string) int64 {
	switch s {
	case "MISS":
		return 0
	case "REVALIDATED":
		return 1
	case "HIT":
		return 2
	}
	return -1
}

// ---------- what survives an HTTP/1.1 hop ----------

func wireClean(s string) (string, bool) {
	b := []byte(s)
	changed := false
	for i, c := range b {
		if (c < 0x20 && c != '\t') || c == 0x7f {
			b[i] = ' '
			changed = true
		}
	}
	t := strings.Trim(string(b), " \t")
	return t, changed || t != s
}

// WireSafe returns the header view a recipient sees after the field lines have crossed
// an HTTP/1.1 connection between two net/http endpoints: control characters cannot be
// sent (the receiving parser rejects the whole message), leading and trailing blanks
// and tabs are not part of a field value. Malformed dates that would change under this
// are replaced by the malformed date "0".
func WireSafe(h HView) HView {
	out := h
	out.CC = make([]string, len(h.CC))
	for i, l := range h.CC {
		out.CC[i], _ = wireClean(l)
	}
	if h.Exp.Kind == ExpUnparseable {
		if _, changed := wireClean(h.Exp.Line); changed {
			out.Exp.Line = "0"
		}
	}
	return out
}
