// certs: correspondence harness for proxy/certs (C11). It drives the REAL PrivateCA.GetCertForHost
// on generated CONNECT targets, sequentially (histories with clock advances realised by the
// VerifShiftExpiry ageing hook) and with 16 concurrent first requests, and emits what happened as
// Gallina case files for Check/Certs.v.
// Usage: certs -seed N -tier quick|thorough -out DIR
package main

import (
	"crypto/ecdsa"
	"crypto/elliptic"
	"crypto/rand"
	"crypto/sha256"
	"crypto/tls"
	"crypto/x509"
	"crypto/x509/pkix"
	"encoding/pem"
	"flag"
	"fmt"
	"log/slog"
	"math/big"
	"net"
	"net/netip"
	"os"
	"path/filepath"
	"strings"
	"time"

	"reservoir/proxy/certs"
	"verifharness/emit"
)

var (
	flagSeed  = flag.Int64("seed", 1, "PRNG seed")
	flagTier  = flag.String("tier", "quick", "quick|thorough")
	flagOut   = flag.String("out", ".", "output directory")
	flagProbe = flag.String("probe", "", "print what GetCertForHost does for one host:port and exit")
)

const lifetime = 240 * 3600 // seconds, createCert(…, 240)

type env struct {
	dir    string
	caCert *x509.Certificate
	pool   *x509.CertPool
	n      int
}

func newEnv(dir string) *env {
	key, err := ecdsa.GenerateKey(elliptic.P256(), rand.Reader)
	must(err)
	tmpl := &x509.Certificate{
		SerialNumber:          big.NewInt(1),
		Subject:               pkix.Name{CommonName: "verif test CA"},
		NotBefore:             time.Now().Add(-time.Hour),
		NotAfter:              time.Now().Add(10 * 365 * 24 * time.Hour),
		KeyUsage:              x509.KeyUsageCertSign | x509.KeyUsageDigitalSignature,
		BasicConstraintsValid: true,
		IsCA:                  true,
	}
	der, err := x509.CreateCertificate(rand.Reader, tmpl, tmpl, &key.PublicKey, key)
	must(err)
	caCert, err := x509.ParseCertificate(der)
	must(err)
	kb, err := x509.MarshalPKCS8PrivateKey(key)
	must(err)
	must(os.WriteFile(filepath.Join(dir, "ca.pem"), pem.EncodeToMemory(&pem.Block{Type: "CERTIFICATE", Bytes: der}), 0600))
	must(os.WriteFile(filepath.Join(dir, "ca.key"), pem.EncodeToMemory(&pem.Block{Type: "PRIVATE KEY", Bytes: kb}), 0600))
	pool := x509.NewCertPool()
	pool.AddCert(caCert)
	return &env{dir: dir, caCert: caCert, pool: pool}
}

// newCA loads a fresh PrivateCA (empty certificate cache) through the real constructor.
func (e *env) newCA() *certs.PrivateCA {
	ca, err := certs.NewPrivateCA(filepath.Join(e.dir, "ca.pem"), filepath.Join(e.dir, "ca.key"))
	must(err)
	return ca
}

func must(err error) {
	if err != nil {
		panic(err)
	}
}

// ---------- reference classification of a CONNECT target (own parser, net/netip; never net.SplitHostPort / net.ParseIP) ----------

type ref struct {
	kind  string // "dns" | "ip" | "other"
	host  string // host text of the target
	canon string // canonical address text for kind ip
}

func isDigits(s string) bool {
	if s == "" || len(s) > 5 {
		return false
	}
	for i := 0; i < len(s); i++ {
		if s[i] < '0' || s[i] > '9' {
			return false
		}
	}
	return true
}

func isDNSName(h string) bool {
	h = strings.TrimSuffix(h, ".")
	if h == "" || len(h) > 253 {
		return false
	}
	for _, l := range strings.Split(h, ".") {
		if l == "" || len(l) > 63 || l[0] == '-' || l[len(l)-1] == '-' {
			return false
		}
		for i := 0; i < len(l); i++ {
			c := l[i]
			if !(c >= 'a' && c <= 'z' || c >= 'A' && c <= 'Z' || c >= '0' && c <= '9' || c == '-' || c == '_') {
				return false
			}
		}
	}
	return true
}

func classify(hp string) ref {
	i := strings.LastIndexByte(hp, ':')
	if i < 0 || !isDigits(hp[i+1:]) {
		return ref{kind: "other"}
	}
	h := hp[:i]
	if strings.HasPrefix(h, "[") {
		if !strings.HasSuffix(h, "]") {
			return ref{kind: "other"}
		}
		in := h[1 : len(h)-1]
		a, err := netip.ParseAddr(in)
		if err != nil || !a.Is6() || a.Zone() != "" {
			// A zone identifier is not part of RFC 3986's IP-literal (the authority-form of CONNECT);
			// such targets are generated and compared with the model, but the property is not demanded of them.
			return ref{kind: "other"}
		}
		return ref{kind: "ip", host: in, canon: a.Unmap().String()}
	}
	if strings.ContainsAny(h, ":[]") {
		return ref{kind: "other"}
	}
	if a, err := netip.ParseAddr(h); err == nil {
		if a.Is4() {
			return ref{kind: "ip", host: h, canon: a.String()}
		}
		return ref{kind: "other"}
	}
	if isDNSName(h) {
		return ref{kind: "dns", host: h}
	}
	return ref{kind: "other"}
}

func (r ref) gallina() string {
	switch r.kind {
	case "dns":
		return "(RDns " + emit.Str(r.host) + ")"
	case "ip":
		return "(RIp " + emit.Str(r.host) + " " + emit.Str(r.canon) + ")"
	}
	return "ROther"
}

// ---------- observation of one GetCertForHost result ----------

type obs struct {
	err    string
	id     int
	dns    []string
	ips    []string
	nb, na int64 // seconds on the model clock
	verify bool
	verr   string
	keyOK  bool
	ptr    *tls.Certificate
}

// history-local state of the harness
type hist struct {
	e       *env
	ca      *certs.PrivateCA
	t0      time.Time
	adv     int64 // total model-clock advance so far, seconds
	ids     map[*tls.Certificate]int
	prints  map[*tls.Certificate]string
	nextID  int
	oracle  map[string]string // host -> "" (not an IP for net.ParseIP) or canonical text
	oracleK []string
}

// chainPrint fingerprints what a client would be sent for this certificate (every DER block, in order).
func chainPrint(c *tls.Certificate) string {
	hsh := sha256.New()
	for _, der := range c.Certificate {
		fmt.Fprintf(hsh, "%d:", len(der))
		hsh.Write(der)
	}
	return fmt.Sprintf("%d/%x", len(c.Certificate), hsh.Sum(nil)[:8])
}

// idOf: "the same certificate" = the same object presenting the same chain. An object whose chain changed
// between two hand-outs is a different certificate for the client, hence gets a new id.
func (h *hist) idOf(c *tls.Certificate) int {
	fp := chainPrint(c)
	if id, ok := h.ids[c]; ok && h.prints[c] == fp {
		return id
	}
	if h.prints == nil {
		h.prints = map[*tls.Certificate]string{}
	}
	h.ids[c] = h.nextID
	h.prints[c] = fp
	h.nextID++
	return h.nextID - 1
}

// noteOracle records what the library functions the code calls say about hp (inputs of the model).
func (h *hist) noteOracle(hp string) {
	host, _, err := net.SplitHostPort(hp)
	if err != nil {
		return
	}
	if _, ok := h.oracle[host]; ok {
		return
	}
	h.oracle[host] = parseIPCanon(host)
	h.oracleK = append(h.oracleK, host)
}

func (h *hist) observe(c *tls.Certificate, err error, r ref) obs {
	if err != nil {
		return obs{err: err.Error()}
	}
	o := obs{ptr: c}
	leaf, perr := x509.ParseCertificate(c.Certificate[0]) // what the client is presented
	must(perr)
	o.dns = append(o.dns, leaf.DNSNames...)
	for _, ip := range leaf.IPAddresses {
		o.ips = append(o.ips, ip.String())
	}
	for _, x := range leaf.EmailAddresses {
		o.dns = append(o.dns, "email:"+x)
	}
	for _, x := range leaf.URIs {
		o.dns = append(o.dns, "uri:"+x.String())
	}
	if leaf.Subject.CommonName != "" {
		o.dns = append(o.dns, "cn:"+leaf.Subject.CommonName)
	}
	// validity as GetCertForHost sees it (the aged parsed leaf), on the model clock
	o.nb = int64(c.Leaf.NotBefore.Sub(h.t0)/time.Second) + h.adv
	o.na = int64(c.Leaf.NotAfter.Sub(h.t0)/time.Second) + h.adv
	// crypto oracle: chain to the CA, name, (real) validity period, server-auth usage
	name := r.host
	if r.kind == "other" {
		name = ""
	}
	inter := x509.NewCertPool()
	for _, der := range c.Certificate[1:] {
		if ic, e := x509.ParseCertificate(der); e == nil {
			inter.AddCert(ic)
		}
	}
	_, verr := leaf.Verify(x509.VerifyOptions{Roots: h.e.pool, Intermediates: inter, DNSName: name, CurrentTime: time.Now()})
	o.verify = verr == nil
	if verr != nil {
		o.verr = verr.Error()
	}
	if priv, ok := c.PrivateKey.(*ecdsa.PrivateKey); ok {
		if pub, ok := leaf.PublicKey.(*ecdsa.PublicKey); ok {
			o.keyOK = priv.PublicKey.Equal(pub)
		}
	}
	return o
}

func (o obs) gallina(id int) string {
	if o.err != "" {
		return "OErr"
	}
	var dns, ips []string
	for _, d := range o.dns {
		dns = append(dns, emit.Str(d))
	}
	for _, d := range o.ips {
		ips = append(ips, emit.Str(d))
	}
	return fmt.Sprintf("(OCert %d %s %s %s %s %s %s)", id, emit.List(dns), emit.List(ips), emit.Z(o.nb), emit.Z(o.na), emit.Bool(o.verify), emit.Bool(o.keyOK))
}

func (o obs) readable(id int) map[string]any {
	if o.err != "" {
		return map[string]any{"error": o.err}
	}
	return map[string]any{"id": id, "dns": o.dns, "ips": o.ips, "not_before": o.nb, "not_after": o.na, "verify": o.verify, "verify_error": o.verr, "key_match": o.keyOK}
}

func main() {
	flag.Parse()
	slog.SetDefault(slog.New(slog.NewTextHandler(os.Stderr, &slog.HandlerOptions{Level: slog.LevelError + 4})))
	must(os.MkdirAll(*flagOut, 0755))
	e := newEnv(*flagOut)
	if *flagProbe != "" {
		h := &hist{e: e, ca: e.newCA(), t0: time.Now(), ids: map[*tls.Certificate]int{}, oracle: map[string]string{}}
		r := classify(*flagProbe)
		c, err := h.ca.GetCertForHost(*flagProbe)
		o := h.observe(c, err, r)
		fmt.Printf("ref=%+v\nobs=%+v\n", r, o.readable(0))
		return
	}
	run(e)
}
