package main

import (
	"crypto/tls"
	"fmt"
	"net"
	"strings"
	"sync"
	"time"

	"verifharness/emit"
)

// ---------- target generators ----------

var labelPool = []string{"example", "com", "www", "a", "b", "x1", "api-v2", "xn--bcher-kva", "xn--80ak6aa92e", "localhost", "internal",
	"_srv", "0", "123", "a-b-c", "EXAMPLE", "Www", "CoM"}

func randLabel(r *emit.Rand, n int) string {
	const al = "abcdefghijklmnopqrstuvwxyz0123456789"
	b := make([]byte, n)
	for i := range b {
		b[i] = al[r.Intn(len(al))]
	}
	return string(b)
}

func genDNS(r *emit.Rand) (string, string) {
	switch r.Intn(12) {
	case 0: // 63-byte label
		return randLabel(r, 63) + ".example", "dns-label63"
	case 1: // 253 bytes in total
		var parts []string
		total := 0
		for total < 253 {
			n := 63
			if 253-total < 64 {
				n = 253 - total
			}
			parts = append(parts, randLabel(r, n))
			total += n + 1
		}
		s := strings.Join(parts, ".")
		return s[:253-0], "dns-len253"
	case 2:
		return emit.Pick(r, labelPool) + "." + emit.Pick(r, labelPool) + ".", "dns-trailing-dot"
	case 3:
		return strings.ToUpper(emit.Pick(r, labelPool) + "." + emit.Pick(r, labelPool)), "dns-upper"
	case 4:
		return "xn--" + randLabel(r, 3+r.Intn(8)) + "." + emit.Pick(r, []string{"example", "xn--p1ai", "de"}), "dns-punycode"
	case 5:
		return emit.Pick(r, []string{"localhost", "intranet", "a", "Z"}), "dns-single-label"
	case 6:
		return fmt.Sprintf("%d.%d.%d", r.Intn(300), r.Intn(300), r.Intn(300)), "dns-numeric-3"
	case 7:
		return fmt.Sprintf("0%d.%d.%d.%d", r.Intn(9), r.Intn(256), r.Intn(256), r.Intn(256)), "dns-leading-zero-quad"
	default:
		n := 2 + r.Intn(3)
		var parts []string
		for i := 0; i < n; i++ {
			parts = append(parts, emit.Pick(r, labelPool))
		}
		return strings.Join(parts, "."), "dns-plain"
	}
}

func genV4(r *emit.Rand) (string, string) {
	switch r.Intn(5) {
	case 0:
		return emit.Pick(r, []string{"0.0.0.0", "255.255.255.255", "127.0.0.1", "10.0.0.1", "192.168.1.1"}), "v4-boundary"
	default:
		return fmt.Sprintf("%d.%d.%d.%d", r.Intn(256), r.Intn(256), r.Intn(256), r.Intn(256)), "v4-random"
	}
}

func genV6(r *emit.Rand) (string, string) {
	switch r.Intn(8) {
	case 0:
		return emit.Pick(r, []string{"::1", "::", "2001:db8::1", "fe80::1", "ff02::2"}), "v6-compressed"
	case 1:
		return fmt.Sprintf("2001:db8:%x:%x:%x:%x:%x:%x", r.Intn(65536), r.Intn(65536), r.Intn(65536), r.Intn(65536), r.Intn(65536), r.Intn(65536)), "v6-full"
	case 2:
		return strings.ToUpper(fmt.Sprintf("2001:db8::%x:%x", r.Intn(65536), r.Intn(65536))), "v6-upper"
	case 3:
		return fmt.Sprintf("::ffff:%d.%d.%d.%d", r.Intn(256), r.Intn(256), r.Intn(256), r.Intn(256)), "v6-v4mapped"
	case 4:
		return "fe80::" + fmt.Sprintf("%x", 1+r.Intn(65535)) + "%" + emit.Pick(r, []string{"eth0", "1", "en0", "wlan-1"}), "v6-zone"
	case 5:
		return "0:0:0:0:0:0:0:1", "v6-uncompressed"
	case 6:
		return fmt.Sprintf("2001:0db8:0000:0000:0000:0000:0000:%04x", r.Intn(65536)), "v6-leading-zeros"
	default:
		return fmt.Sprintf("%x::%x", 0x2000+r.Intn(0x1000), r.Intn(65536)), "v6-random"
	}
}

func genPort(r *emit.Rand) string {
	switch r.Intn(8) {
	case 0:
		return emit.Pick(r, []string{"0", "1", "65535", "80", "8443"})
	case 1:
		return fmt.Sprintf("%d", r.Intn(65536))
	default:
		return "443"
	}
}

var malformed = []string{"example.com", "[::1]", "[::1", "::1]:443", "::1:443", "a:b:c", "[a]:1:2", ":443", "", "[]:443", "ex ample.com:443",
	"b\xc3\xbccher.example:443", "*.example.com:443", "example.com:", "example.com:https", "[1.2.3.4]:5", "a..b:1", "-a.b:1", "[::1]x:1", "[[::1]]:1",
	"a[b:1", "a]b:1", "[::1]:", "[fe80::1%]:1", "1.2.3.4%eth0:1", "\xff\xfe:1", "a\x00b:1", ":", "::", "[:]:1", "example.com:99999"}

// a target: host text (as it appears in host:port), whether it needs brackets
type target struct {
	hp   string
	kind string
}

func genTarget(r *emit.Rand) target {
	switch x := r.Intn(20); {
	case x < 9:
		h, k := genDNS(r)
		return target{h + ":" + genPort(r), k}
	case x < 12:
		h, k := genV4(r)
		return target{h + ":" + genPort(r), k}
	case x < 17:
		h, k := genV6(r)
		return target{"[" + h + "]:" + genPort(r), k}
	default:
		return target{emit.Pick(r, malformed), "malformed"}
	}
}

// same host, possibly another port (certificates are per host)
func otherPort(r *emit.Rand, hp string) string {
	i := strings.LastIndexByte(hp, ':')
	if i < 0 || strings.HasSuffix(hp[:i], ":") {
		return hp
	}
	return hp[:i+1] + genPort(r)
}

// ---------- running one history against a fresh PrivateCA ----------

type opRec struct {
	gallina  string
	readable map[string]any
}

func (h *hist) get(hp string) (opRec, obs) {
	h.noteOracle(hp)
	r := classify(hp)
	c, err := h.ca.GetCertForHost(hp)
	o := h.observe(c, err, r)
	id := -1
	if o.err == "" {
		id = h.idOf(c)
		o.id = id
	}
	return opRec{
		gallina:  fmt.Sprintf("CGet %s %s %s", emit.Str(hp), r.gallina(), o.gallina(id)),
		readable: map[string]any{"op": "get", "target": hp, "ref": r.kind, "result": o.readable(id)},
	}, o
}

func (h *hist) advance(d int64) opRec {
	h.ca.VerifShiftExpiry("", time.Duration(d)*time.Second)
	h.adv += d
	return opRec{gallina: "CAdv " + emit.Z(d), readable: map[string]any{"op": "advance", "seconds": d}}
}

func (h *hist) par(hp string, k int) (opRec, []obs) {
	h.noteOracle(hp)
	r := classify(hp)
	type res struct {
		c   *tls.Certificate
		err error
	}
	out := make([]res, k)
	var wg sync.WaitGroup
	start := make(chan struct{})
	for i := 0; i < k; i++ {
		wg.Add(1)
		go func(i int) {
			defer wg.Done()
			<-start
			c, err := h.ca.GetCertForHost(hp)
			out[i] = res{c, err}
		}(i)
	}
	close(start)
	wg.Wait()
	var gs []string
	var rs []any
	var os []obs
	for i := range out {
		o := h.observe(out[i].c, out[i].err, r)
		id := -1
		if o.err == "" {
			id = h.idOf(out[i].c)
			o.id = id
		}
		os = append(os, o)
		gs = append(gs, o.gallina(id))
		rs = append(rs, o.readable(id))
	}
	final := "None"
	var finalR any
	if host, _, err := net.SplitHostPort(hp); err == nil {
		if c, ok := h.ca.VerifCached(host); ok {
			id, known := h.ids[c]
			if !known {
				id = h.idOf(c) // a certificate nobody was handed: gets a new identity, which the checkers reject
			}
			final = fmt.Sprintf("(Some %d)", id)
			finalR = id
		}
	}
	return opRec{
		gallina:  fmt.Sprintf("CPar %s %s %s %s", emit.Str(hp), r.gallina(), emit.List(gs), final),
		readable: map[string]any{"op": "concurrent", "target": hp, "ref": r.kind, "callers": k, "results": rs, "cached_after": finalR},
	}, os
}

func (h *hist) oracleGallina() string {
	var items []string
	for _, host := range h.oracleK {
		v := "None"
		if h.oracle[host] != "" {
			v = "(Some " + emit.Str(h.oracle[host]) + ")"
		}
		items = append(items, emit.Pair(emit.Str(host), v))
	}
	return emit.List(items)
}

// noteOracle (see main.go) records the library function createCert itself calls.
func parseIPCanon(host string) string {
	if ip := net.ParseIP(host); ip != nil {
		return ip.String()
	}
	return ""
}

var advances = []int64{0, 1, 10, 3600, 100 * 3600, 239 * 3600, lifetime - 60, lifetime - 20, lifetime + 20, lifetime + 60, 241 * 3600, 300 * 3600, 1000 * 3600}

func run(e *env) {
	r := emit.NewRand(*flagSeed)
	meta := emit.NewMeta("certs/C11", *flagSeed, *flagTier)
	w := &emit.Writer{Dir: *flagOut, Prefix: "certs", ShardSize: 50,
		Imports:  "From Reservoir Require Import Base.Prelude Model.Certs Check.Certs.",
		CaseType: "cert_case", CheckFn: "check_certs"}
	meta.Rule = "one case = one history of 2..12 operations against a fresh PrivateCA loaded by the real NewPrivateCA: get(target) | advance(d) realised by VerifShiftExpiry | 2..16 concurrent get(target). " +
		"Targets: DNS names (plain, upper case, trailing dot, punycode, 63-byte label, 253 bytes, single label, numeric), IPv4, bracketed IPv6 (compressed, full, upper case, v4-mapped, zone id, leading zeros), ports (443, boundary, random), " +
		"and a malformed stream (no port, empty host, stray brackets/colons, non-ASCII, wildcard, empty/named port). Advances keep >= 15 s from every NotAfter handed out. " +
		"distinct by the printed history; non-trivial = at least one certificate returned and at least two operations"

	nRandom := 400
	if *flagTier == "thorough" {
		nRandom = 6000
	}
	histNo := 0
	runHist := func(kind string, script func(h *hist, add func(opRec))) {
		histNo++
		h := &hist{e: e, ca: e.newCA(), t0: time.Now(), ids: map[*tls.Certificate]int{}, oracle: map[string]string{}}
		var gs []string
		var rs []any
		certsSeen := 0
		add := func(o opRec) {
			gs = append(gs, o.gallina)
			rs = append(rs, o.readable)
		}
		script(h, add)
		certsSeen = h.nextID
		elapsed := time.Since(h.t0)
		if elapsed > 2*time.Second {
			meta.Count("dropped", "history-took-too-long")
			return
		}
		g := fmt.Sprintf("CH %s\n   %s", h.oracleGallina(), emit.List(gs))
		w.Add(g)
		meta.Count("history", kind)
		meta.Record(g, certsSeen > 0 && len(gs) >= 2, map[string]any{"kind": kind, "ops": rs})
	}

	// how far is model instant t from every NotAfter handed out so far?
	safe := func(nas []int64, t int64) bool {
		for _, na := range nas {
			d := t - na
			if d < 0 {
				d = -d
			}
			if d < 15 {
				return false
			}
		}
		return true
	}

	// directed histories: every branch, for every kind of target
	directed := []string{"example.com:443", "EXAMPLE.com:443", "example.com.:443", "xn--bcher-kva.example:443", "127.0.0.1:8080", "[::1]:443",
		"[2001:db8::1]:443", "[fe80::1%eth0]:443", "[::ffff:10.1.2.3]:443", "localhost:1"}
	for _, hp := range directed {
		hp := hp
		runHist("directed-reuse-expire", func(h *hist, add func(opRec)) {
			o, _ := h.get(hp)
			add(o)
			o, _ = h.get(otherPort(r, hp))
			add(o)
			add(h.advance(lifetime - 60))
			o, _ = h.get(hp)
			add(o)
			add(h.advance(120))
			o, _ = h.get(hp)
			add(o)
			o, _ = h.get(hp)
			add(o)
		})
		runHist("directed-concurrent", func(h *hist, add func(opRec)) {
			o, _ := h.par(hp, 16)
			add(o)
			o2, _ := h.get(hp)
			add(o2)
			add(h.advance(lifetime + 3600))
			o, _ = h.par(hp, 16)
			add(o)
			o2, _ = h.get(hp)
			add(o2)
		})
	}
	runHist("directed-malformed", func(h *hist, add func(opRec)) {
		for _, hp := range malformed[:12] {
			o, _ := h.get(hp)
			add(o)
		}
	})
	runHist("directed-malformed", func(h *hist, add func(opRec)) {
		for _, hp := range malformed[12:24] {
			o, _ := h.get(hp)
			add(o)
		}
	})
	runHist("directed-malformed", func(h *hist, add func(opRec)) {
		for _, hp := range malformed[24:] {
			o, _ := h.get(hp)
			add(o)
		}
		o, _ := h.par("example.com", 4)
		add(o)
		o, _ = h.par("b\xc3\xbccher.example:443", 4)
		add(o)
	})

	for i := 0; i < nRandom; i++ {
		runHist("random", func(h *hist, add func(opRec)) {
			nt := 1 + r.Intn(3)
			ts := make([]target, nt)
			for j := range ts {
				ts[j] = genTarget(r)
				meta.Count("target", ts[j].kind)
			}
			var nas []int64
			nops := 2 + r.Intn(11)
			for j := 0; j < nops; j++ {
				t := emit.Pick(r, ts)
				hp := t.hp
				if r.Chance(25) {
					hp = otherPort(r, hp)
				}
				switch x := r.Intn(10); {
				case x < 5:
					o, ob := h.get(hp)
					add(o)
					if ob.err == "" {
						nas = append(nas, ob.na)
					}
					meta.Count("op", "get")
				case x < 8:
					for try := 0; try < 20; try++ {
						d := emit.Pick(r, advances)
						if r.Chance(30) {
							d = int64(r.Intn(2 * lifetime))
						}
						if safe(nas, h.adv+d) {
							add(h.advance(d))
							meta.Count("op", "advance")
							break
						}
					}
				default:
					k := 16
					if r.Chance(40) {
						k = 2 + r.Intn(7)
					}
					o, obl := h.par(hp, k)
					add(o)
					for _, ob := range obl {
						if ob.err == "" {
							nas = append(nas, ob.na)
						}
					}
					meta.Count("op", "concurrent")
				}
			}
		})
	}

	w.Flush()
	meta.Write(*flagOut, w.Files)
	fmt.Printf("certs/C11: %d histories in %d files\n", w.Total, len(w.Files))
}
