// relayx: multi-step relay scenarios through the REAL proxy that the per-exchange relay harness
// does not generate (decided by the harness itself, "direct" stages):
//
//	-prop C08x  (a) Range request, origin answers 416, retry_on_range_416 on/off, retried answer
//	                storable or not: status, headers and body delivered must come from ONE origin answer;
//	            (b) stored entry gone stale, revalidation answered 5xx/404/no-store, direct fallback:
//	                the relayed request carries no conditional the client did not send, and an
//	                unconditional GET is never answered 304.
//	-prop C10x  pipelined requests on one CONNECT tunnel (several requests in one write): every
//	            request is answered, in order, with what the same request gets on its own tunnel.
//
// Usage: relayx -prop C08x|C10x -seed N -tier quick|thorough -out DIR
package main

import (
	"bytes"
	"encoding/json"
	"flag"
	"fmt"
	"net"
	"net/http"
	"os"
	"path/filepath"
	"strings"
	"sync"
	"sync/atomic"
	"syscall"
	"time"

	"reservoir/config"
	"reservoir/utils/bytesize"
	"verifharness/e2elib"
	"verifharness/emit"
)

var (
	flagProp = flag.String("prop", "C08x", "C04x|C06x|C08x|C09x|C10x")
	flagSeed = flag.Int64("seed", 1, "PRNG seed")
	flagTier = flag.String("tier", "quick", "quick|thorough")
	flagOut  = flag.String("out", ".", "output directory")
)

type failure struct {
	Scenario string `json:"scenario"`
	Detail   any    `json:"detail"`
	What     string `json:"what"`
}

var failures = []failure{}
var total = 0
var dist = map[string]int{}

func fail(sc string, detail any, what string) {
	if len(failures) < 30 {
		failures = append(failures, failure{sc, detail, what})
	}
}

// every origin answer carries an id in a header and in its body, so that the pieces of a client
// response can be traced to the origin answer they came from
func answer(id string, status int, extra ...string) e2elib.Answer {
	lines := append([]string{"X-Answer-Id: " + id}, extra...)
	return e2elib.NewAnswer(status, []byte("answer="+id+";"+strings.Repeat("b", 40)), lines...)
}

func bodyID(b []byte) string {
	s := string(b)
	if !strings.HasPrefix(s, "answer=") {
		return ""
	}
	if i := strings.IndexByte(s, ';'); i > 0 {
		return s[7:i]
	}
	return ""
}

// slowBody: an origin answer whose body takes well over half a minute (11 pieces, 3 s apart; thorough: 25 pieces) is relayed
// completely, on the direct path (not storable, chunked) and on the store path (storable, sized). Runs in the background
// of the other scenarios; the stage waits for it at the end.
func slowBody(done chan<- struct{}) {
	defer close(done)
	pieces := 11
	if *flagTier == "thorough" {
		pieces = 25
	}
	dir := filepath.Join(*flagOut, "envslow")
	env, err := e2elib.Start(e2elib.Options{Backend: "memory", Dir: dir})
	if err != nil {
		panic(err)
	}
	body := []byte(strings.Repeat("slow-body-0123456789;", 500))
	env.Origin.SetHandler(func(req e2elib.OriginRequest, k int) e2elib.Answer {
		a := e2elib.NewAnswer(200, body, "Cache-Control: max-age=600")
		if strings.Contains(req.Target, "direct") {
			a.Lines[0] = "Cache-Control: no-store"
			a.Chunked = true
		}
		a.Pieces, a.PieceDelay = pieces, 3*time.Second
		return a
	})
	var wg sync.WaitGroup
	for _, path := range []string{"/slow-direct", "/slow-stored"} {
		wg.Add(1)
		go func(path string) {
			defer wg.Done()
			t0 := time.Now()
			resp, err := env.DoPlain(env.PlainRequest("GET", path, nil, nil), "GET", time.Duration(pieces*3+30)*time.Second)
			det := map[string]any{"request": path, "origin_body_duration_s": pieces * 3, "elapsed_s": int(time.Since(t0).Seconds())}
			switch {
			case err != nil:
				fail("slow-body", det, "a slow but healthy origin answer got no response: "+err.Error())
			case resp.Status != 200 || resp.BodyErr != "" || string(resp.Body) != string(body):
				det["status"], det["body_bytes"], det["body_error"], det["want_bytes"] = resp.Status, len(resp.Body), resp.BodyErr, len(body)
				fail("slow-body", det, "the body of a slow origin answer was not relayed completely")
			}
		}(path)
	}
	wg.Wait()
	total += 2
	dist["slow-body"] += 2
	env.Close()
	os.RemoveAll(dir)
}

// authorityVsHost: a tunnel is opened to origin A (CONNECT A) but the request inside names origin B in its Host field.
// The request is B's: it is sent to B with Host B, answered by B, and what is stored is B's resource — a later ordinary
// client of B gets B's content, one of A gets A's.
func authorityVsHost() {
	dir := filepath.Join(*flagOut, "envavh")
	env, err := e2elib.Start(e2elib.Options{Backend: "memory", Dir: dir, TLS: true, PlainUpstream: true})
	if err != nil {
		panic(err)
	}
	env.Origin.SetHandler(func(req e2elib.OriginRequest, k int) e2elib.Answer { // origin A
		return e2elib.NewAnswer(200, []byte("origin=A;host="+req.Host+";target="+req.Target), "Cache-Control: max-age=600", "X-Origin: A")
	})
	lnB, err := net.Listen("tcp", "127.0.0.1:0")
	if err != nil {
		panic(err)
	}
	var sawB []string
	var muB sync.Mutex
	srvB := &http.Server{Handler: http.HandlerFunc(func(w http.ResponseWriter, rq *http.Request) {
		muB.Lock()
		sawB = append(sawB, rq.Host)
		muB.Unlock()
		w.Header().Set("Cache-Control", "max-age=600")
		w.Header().Set("X-Origin", "B")
		fmt.Fprintf(w, "origin=B;host=%s;target=%s", rq.Host, rq.URL.RequestURI())
	})}
	go srvB.Serve(lnB)
	defer srvB.Close()
	addrA, addrB := env.Origin.Addr, lnB.Addr().String()
	get := func(connectTo, host, path string) (*e2elib.Response, error) {
		c, _, err := env.DialTunnel(connectTo, "127.0.0.1", 8*time.Second)
		if err != nil {
			return nil, err
		}
		defer c.Close()
		c.Send([]byte("GET "+path+" HTTP/1.1\r\nHost: "+host+"\r\n\r\n"), 5*time.Second)
		return c.Read("GET", 6*time.Second)
	}
	for i := 0; i < 3; i++ {
		path := fmt.Sprintf("/avh%d", i)
		total++
		dist["tunnel-authority-vs-inner-host"]++
		det := map[string]any{"tunnel_opened_to": "origin A", "inner_host": "origin B", "path": path}
		env.Origin.ResetLog()
		r1, err := get(addrA, addrB, path)
		if err != nil {
			fail("tunnel-authority-vs-inner-host", det, "no response: "+err.Error())
			continue
		}
		want := "origin=B;host=" + addrB + ";target=" + path
		if string(r1.Body) != want {
			det["got"], det["origin_a_received"] = trunc(string(r1.Body)), len(env.Origin.Log())
			fail("tunnel-authority-vs-inner-host", det, "a tunnelled request naming origin B in its Host field was not relayed to B with that Host")
			continue
		}
		r2, err2 := get(addrB, addrB, path) // an ordinary client of B
		r3, err3 := get(addrA, addrA, path) // an ordinary client of A
		if err2 != nil || string(r2.Body) != want {
			fail("tunnel-authority-vs-inner-host", det, "an ordinary client of origin B did not get B's content afterwards")
		}
		if err3 != nil || !strings.HasPrefix(string(r3.Body), "origin=A;host="+addrA+";") {
			fail("tunnel-authority-vs-inner-host", det, "an ordinary client of origin A did not get A's content afterwards")
		}
	}
	env.Close()
	os.RemoveAll(dir)
}

// redirectsAndWrites: (1) a redirect is the origin's answer: status, Location, further headers and body reach the client
// and the origin is not asked for the target on the client's behalf (a POST is not re-issued as a GET); (2) a write that
// carries a precondition (If-Match, If-None-Match: *, If-Unmodified-Since) reaches the origin WITH it.
func redirectsAndWrites() {
	for _, tlsOn := range []bool{false, true} {
		dir := filepath.Join(*flagOut, fmt.Sprintf("envrw-%v", tlsOn))
		env, err := e2elib.Start(e2elib.Options{Backend: "memory", Dir: dir, TLS: tlsOn})
		if err != nil {
			panic(err)
		}
		env.Origin.SetHandler(func(req e2elib.OriginRequest, k int) e2elib.Answer {
			if strings.HasPrefix(req.Target, "/moved/") {
				var st int
				fmt.Sscanf(strings.TrimPrefix(req.Target, "/moved/"), "%d", &st)
				loc := "/target/" + strings.TrimPrefix(req.Target, "/moved/")
				if st%2 == 0 {
					loc = "http://" + env.Origin.Addr + loc
				}
				return e2elib.NewAnswer(st, []byte("moved, see "+loc), "Location: "+loc, "X-Origin-Note: redirect-"+fmt.Sprint(st), "Cache-Control: max-age=60")
			}
			if strings.HasPrefix(req.Target, "/doc/") {
				if im := req.Header.Get("If-Match"); im != "" && im != "\"v2\"" {
					return e2elib.NewAnswer(412, []byte("precondition failed"))
				}
				if req.Header.Get("If-None-Match") == "*" || req.Header.Get("If-Unmodified-Since") != "" {
					return e2elib.NewAnswer(412, []byte("precondition failed"))
				}
				return e2elib.NewAnswer(204, nil, "ETag: \"v3\"")
			}
			return e2elib.NewAnswer(200, []byte("T="+req.Target), "Cache-Control: max-age=60")
		})
		do := func(method, path string, hs []string, body []byte) (*e2elib.Response, error) {
			if tlsOn {
				c, _, err := env.DialTunnel(env.Origin.Addr, "127.0.0.1", 8*time.Second)
				if err != nil {
					return nil, err
				}
				defer c.Close()
				c.Send(env.TunnelRequest(method, path, hs, body), 5*time.Second)
				return c.Read(method, 6*time.Second)
			}
			return env.DoPlain(env.PlainRequest(method, path, hs, body), method, 6*time.Second)
		}
		for _, st := range []int{301, 302, 303, 307, 308} {
			for _, method := range []string{"GET", "POST", "GET"} {
				path := fmt.Sprintf("/moved/%d", st)
				var body []byte
				var hs []string
				if method == "POST" {
					body = []byte("form=data")
					hs = []string{"Content-Length: 9"}
				}
				env.Origin.ResetLog()
				resp, err := do(method, path, hs, body)
				total++
				dist["redirect-relayed"]++
				det := map[string]any{"request": method + " " + path, "origin_answer": fmt.Sprintf("%d with Location, X-Origin-Note and a body", st), "tls": tlsOn}
				var saw []string
				askedTarget := false
				for _, lr := range env.Origin.Log() {
					saw = append(saw, lr.Method+" "+lr.Target)
					if strings.HasPrefix(lr.Target, "/target/") {
						askedTarget = true
					}
				}
				det["origin_saw"] = saw
				switch {
				case err != nil:
					fail("redirect-relayed", det, "no response: "+err.Error())
				case resp.Status != st || resp.Header.Get("Location") == "" || resp.Header.Get("X-Origin-Note") != "redirect-"+fmt.Sprint(st) || !strings.HasPrefix(string(resp.Body), "moved, see "):
					det["status"], det["location"], det["x_origin_note"], det["body"] = resp.Status, resp.Header.Get("Location"), resp.Header.Get("X-Origin-Note"), trunc(string(resp.Body))
					fail("redirect-relayed", det, "the origin answered with a redirect; the client did not receive that answer (status, Location, headers, body)")
				case askedTarget:
					fail("redirect-relayed", det, "the origin received a request for the redirect target that the client never sent")
				}
			}
		}
		for i, pre := range [][]string{{"If-Match: \"v1\""}, {"If-None-Match: *"}, {"If-Unmodified-Since: Mon, 01 Jan 2024 00:00:00 GMT"}, {"If-Match: \"v2\""}} {
			for _, method := range []string{"PUT", "DELETE", "PATCH", "POST"} {
				path := fmt.Sprintf("/doc/%d-%s", i, method)
				body := []byte("new content")
				resp, err := do(method, path, append([]string{"Content-Length: 11"}, pre...), body)
				total++
				dist["write-precondition"]++
				want := 412
				if i == 3 {
					want = 204
				}
				det := map[string]any{"request": method + " " + path + " with " + pre[0], "tls": tlsOn, "origin_would_answer": want}
				if err != nil {
					fail("write-precondition", det, "no response: "+err.Error())
				} else if resp.Status != want {
					det["status"] = resp.Status
					fail("write-precondition", det, "a write carrying a precondition did not reach the origin with it: the origin applied (or refused) the write the client had made conditional")
				}
			}
		}
		env.Close()
		os.RemoveAll(dir)
	}
}

func runC08x(r *emit.Rand) {
	authorityVsHost()
	redirectsAndWrites()
	n := 40
	if *flagTier == "thorough" {
		n = 400
	}
	slowDone := make(chan struct{})
	go slowBody(slowDone)
	defer func() { <-slowDone }()
	for i := 0; i < n; i++ {
		backend := emit.Pick(r, []string{"memory", "file"})
		tlsOn := r.Chance(30)
		retry := r.Bool()
		dir := filepath.Join(*flagOut, fmt.Sprintf("env%d", i))
		env, err := e2elib.Start(e2elib.Options{Backend: backend, Dir: dir, TLS: tlsOn, Tune: func(cfg *config.Config) {
			cfg.Proxy.RetryOnRange416.Overwrite(retry)
		}})
		if err != nil {
			panic(err)
		}
		do := func(path string, hs []string) (*e2elib.Response, error) {
			if tlsOn {
				c, _, err := env.DialTunnel(env.Origin.Addr, "127.0.0.1", 8*time.Second)
				if err != nil {
					return nil, err
				}
				defer c.Close()
				c.Send(env.TunnelRequest("GET", path, hs, nil), 5*time.Second)
				return c.Read("GET", 8*time.Second)
			}
			return env.DoPlain(env.PlainRequest("GET", path, hs, nil), "GET", 8*time.Second)
		}
		// (a) 416 then retry
		secondStorable := r.Bool()
		secondStatus := emit.Pick(r, []int{200, 200, 200, 404, 503})
		env.Origin.SetHandler(func(req e2elib.OriginRequest, k int) e2elib.Answer {
			if req.Header.Get("Range") != "" {
				return answer("first-416", 416, "Content-Range: bytes */47")
			}
			cc := "Cache-Control: no-store"
			if secondStorable {
				cc = "Cache-Control: max-age=60"
			}
			return answer("second", secondStatus, cc)
		})
		resp, err := do(fmt.Sprintf("/r416-%d", i), []string{"Range: bytes=1000-2000"})
		total++
		dist["416-retry"]++
		det := map[string]any{"backend": backend, "tls": tlsOn, "retry_on_range_416": retry, "second_storable": secondStorable, "second_status": secondStatus}
		if err != nil {
			fail("416-retry", det, "no response: "+err.Error())
		} else {
			det["got_status"], det["got_answer_header"], det["got_body_answer"] = resp.Status, resp.Header.Get("X-Answer-Id"), bodyID(resp.Body)
			hid, bid := resp.Header.Get("X-Answer-Id"), bodyID(resp.Body)
			want := map[string]int{"first-416": 416, "second": secondStatus}
			switch {
			case resp.Status == 416 && bid == "" && hid == "":
				// a 416 built by the proxy itself from a stored entry (retry stored the full answer, range unsatisfiable): fine
			case bid != "" && hid != "" && hid != bid:
				fail("416-retry", det, "headers of one origin answer delivered with the body of another")
			case hid != "" && want[hid] != resp.Status && resp.Status != 206:
				fail("416-retry", det, fmt.Sprintf("status %d delivered with the headers/body of the origin answer %q whose status was %d", resp.Status, hid, want[hid]))
			}
		}
		// (b) stale entry, revalidation not answered 304/200-storable, direct fallback
		bad := emit.Pick(r, []int{503, 404, 500, 429})
		step := 0
		env.Origin.ResetLog()
		env.Origin.SetHandler(func(req e2elib.OriginRequest, k int) e2elib.Answer {
			step++
			cond := req.Header.Get("If-None-Match") != "" || req.Header.Get("If-Modified-Since") != ""
			if step == 1 {
				return answer("v1", 200, "Cache-Control: max-age=60", `ETag: "v1"`, "Last-Modified: Mon, 02 Jan 2006 15:04:05 GMT")
			}
			if step == 2 {
				return answer("bad", bad)
			}
			if cond {
				return e2elib.NewAnswer(304, nil, `ETag: "v1"`, "X-Answer-Id: nm")
			}
			return answer("v1again", 200, "Cache-Control: max-age=60", `ETag: "v1"`)
		})
		path := fmt.Sprintf("/reval-%d", i)
		if _, err := do(path, nil); err == nil {
			env.Proxy.VerifCache().VerifAge(2 * time.Hour)
			before := env.Origin.Count()
			resp, err := do(path, nil)
			total++
			dist["failed-revalidation-fallback"]++
			det := map[string]any{"backend": backend, "tls": tlsOn, "revalidation_answer": bad}
			if err != nil {
				fail("failed-revalidation-fallback", det, "no response: "+err.Error())
			} else {
				det["got_status"], det["got_answer"] = resp.Status, resp.Header.Get("X-Answer-Id")
				if resp.Status == 304 {
					fail("failed-revalidation-fallback", det, "an unconditional GET was answered 304 Not Modified")
				}
				log := env.Origin.Log()
				for j := before + 1; j < len(log); j++ { // requests after the proxy's own conditional revalidation
					if log[j].Header.Get("If-None-Match") != "" || log[j].Header.Get("If-Modified-Since") != "" {
						det["upstream_request_no"] = j - before + 1
						det["if_none_match"] = log[j].Header.Get("If-None-Match")
						fail("failed-revalidation-fallback", det, "the relayed fallback request carries conditional headers the client never sent")
						break
					}
				}
			}
		}
		// (c) a stored answer, a Range request answered from the store, then a plain GET: the full answer is still the
		// origin's own (status, entity headers, body) — what the part answer needed must not stick to the stored one
		env.Origin.SetHandler(func(req e2elib.OriginRequest, k int) e2elib.Answer {
			return answer("full", 200, "Cache-Control: max-age=600", `ETag: "f1"`, "Content-Type: text/x-relay", "X-Origin-Note: keep")
		})
		p3 := fmt.Sprintf("/part-then-full-%d", i)
		if first, err := do(p3, nil); err == nil && first.Status == 200 {
			spec := emit.Pick(r, []string{"bytes=0-4", "bytes=3-", "bytes=-5", "bytes=2-2"})
			_, _ = do(p3, []string{"Range: " + spec})
			resp, err := do(p3, nil)
			total++
			dist["part-then-full"]++
			det := map[string]any{"backend": backend, "tls": tlsOn, "range": spec}
			if err != nil || resp.BodyErr != "" {
				e := resp != nil && resp.BodyErr != ""
				fail("part-then-full", det, fmt.Sprintf("the plain GET after a Range request got no complete response (err=%v body_error=%v)", err, e))
			} else {
				det["got_status"], det["content_range"], det["content_length"] = resp.Status, resp.Header.Get("Content-Range"), resp.Header.Get("Content-Length")
				switch {
				case resp.Status != 200 || string(resp.Body) != string(first.Body):
					fail("part-then-full", det, "the plain GET after a Range request was not answered with the full stored answer")
				case resp.Header.Get("Content-Range") != "":
					fail("part-then-full", det, "a full 200 answer carries the Content-Range of an earlier part answer")
				case resp.Header.Get("Content-Type") != first.Header.Get("Content-Type") || resp.Header.Get("X-Origin-Note") != "keep" || resp.Header.Get("ETag") != `"f1"`:
					fail("part-then-full", det, "the full answer no longer carries the origin's own entity headers")
				}
			}
		}
		env.Close()
		os.RemoveAll(dir)
	}
}

func runC10x(r *emit.Rand) {
	n := 30
	if *flagTier == "thorough" {
		n = 300
	}
	dir := filepath.Join(*flagOut, "env")
	env, err := e2elib.Start(e2elib.Options{Backend: "memory", Dir: dir, TLS: true})
	if err != nil {
		panic(err)
	}
	env.Origin.SetHandler(func(req e2elib.OriginRequest, k int) e2elib.Answer {
		a := e2elib.NewAnswer(200, []byte("target="+req.Target+";"+strings.Repeat("p", len(req.Target)*3)), "Cache-Control: max-age=60", "X-Target: "+req.Target)
		if strings.Contains(req.Target, "chunked") {
			a.Chunked = true
		}
		if strings.Contains(req.Target, "nostore") {
			a.Lines[0] = "Cache-Control: no-store"
		}
		if strings.Contains(req.Target, "cut-short") { // declares 100 body bytes, sends 40, closes
			a = e2elib.NewAnswer(200, []byte(strings.Repeat("z", 100)), "Cache-Control: max-age=60", "X-Target: "+req.Target)
			if strings.Contains(req.Target, "false") {
				a.Lines[0] = "Cache-Control: no-store"
			}
			a.AbortAfter = 40
		}
		return a
	})
	// opened now, used at the very end of the stage (see old-tunnel below)
	oldTunnelAt := time.Now()
	oldTunnel, _, err := env.DialTunnel(env.Origin.Addr, "127.0.0.1", 8*time.Second)
	if err == nil {
		oldTunnel.Send(env.TunnelRequest("GET", "/old-tunnel/a0", nil, nil), 5*time.Second)
		if _, err := oldTunnel.Read("GET", 6*time.Second); err != nil {
			oldTunnel.Close()
			oldTunnel = nil
		}
	} else {
		oldTunnel = nil
	}
	for i := 0; i < n; i++ {
		k := 2 + r.Intn(5)
		type rq struct {
			method, path string
			hs           []string
		}
		var reqs []rq
		for j := 0; j < k; j++ {
			p := fmt.Sprintf("/pipe%d/%s%d", i, emit.Pick(r, []string{"a", "chunked", "nostore", "b"}), r.Intn(3))
			m := emit.Pick(r, []string{"GET", "GET", "GET", "HEAD"})
			var hs []string
			if m == "GET" && r.Chance(25) {
				hs = []string{"Range: bytes=2-9"}
			}
			reqs = append(reqs, rq{m, p, hs})
		}
		// reference: each request on its own tunnel
		type ans struct {
			status int
			body   string
			target string
		}
		var ref []ans
		for _, q := range reqs {
			c, _, err := env.DialTunnel(env.Origin.Addr, "127.0.0.1", 8*time.Second)
			if err != nil {
				panic(err)
			}
			c.Send(env.TunnelRequest(q.method, q.path, q.hs, nil), 5*time.Second)
			resp, err := c.Read(q.method, 8*time.Second)
			c.Close()
			if err != nil {
				ref = append(ref, ans{-1, "", ""})
			} else {
				ref = append(ref, ans{resp.Status, string(resp.Body), resp.Header.Get("X-Target")})
			}
		}
		// pipelined: all requests in one write
		c, _, err := env.DialTunnel(env.Origin.Addr, "127.0.0.1", 8*time.Second)
		if err != nil {
			panic(err)
		}
		var all bytes.Buffer
		var desc []string
		for _, q := range reqs {
			all.Write(env.TunnelRequest(q.method, q.path, q.hs, nil))
			desc = append(desc, q.method+" "+q.path+" "+strings.Join(q.hs, ","))
		}
		c.Send(all.Bytes(), 5*time.Second)
		total++
		dist[fmt.Sprintf("pipelined-%d", k)]++
		for j, q := range reqs {
			resp, err := c.Read(q.method, 6*time.Second)
			det := map[string]any{"requests_in_one_write": desc, "position": j}
			if err != nil {
				fail("pipelined-tunnel", det, fmt.Sprintf("request %d of %d sent ahead on the tunnel got no response: %v", j+1, k, err))
				break
			}
			if resp.Status != ref[j].status || string(resp.Body) != ref[j].body || resp.Header.Get("X-Target") != ref[j].target {
				det["got"] = map[string]any{"status": resp.Status, "x_target": resp.Header.Get("X-Target"), "body": trunc(string(resp.Body))}
				det["alone"] = map[string]any{"status": ref[j].status, "x_target": ref[j].target, "body": trunc(ref[j].body)}
				fail("pipelined-tunnel", det, fmt.Sprintf("response %d on the pipelined tunnel differs from what the same request gets on its own tunnel", j+1))
				break
			}
		}
		c.Close()
	}
	// an HTTP/1.0 keep-alive client inside a tunnel asking for a resource of unknown length, then a second request
	for i := 0; i < 6; i++ {
		c, _, err := env.DialTunnel(env.Origin.Addr, "127.0.0.1", 8*time.Second)
		if err != nil {
			panic(err)
		}
		p1 := fmt.Sprintf("/h10-%d/chunked1", i)
		p2 := fmt.Sprintf("/h10-%d/a2", i)
		c.Send([]byte("GET "+p1+" HTTP/1.0\r\nHost: "+env.Origin.Addr+"\r\nConnection: keep-alive\r\n\r\n"), 5*time.Second)
		r1, err1 := c.Read("GET", 4*time.Second)
		total++
		dist["http10-keepalive"]++
		det := map[string]any{"first": "GET " + p1 + " HTTP/1.0 keep-alive (unknown-length answer)", "second": "GET " + p2 + " HTTP/1.1"}
		if err1 != nil || r1.BodyErr != "" || !strings.HasPrefix(string(r1.Body), "target="+p1+";") || strings.Contains(string(r1.Body), "HTTP/1.") {
			if r1 != nil {
				det["first_body"] = trunc(string(r1.Body))
				det["first_framing"] = r1.Framing
			}
			fail("http10-keepalive", det, "the answer to an HTTP/1.0 keep-alive request on a tunnel has no usable framing (body never ends or swallows the next response)")
			c.Close()
			continue
		}
		if !r1.Close && r1.Framing != "close" {
			c.Send(env.TunnelRequest("GET", p2, nil, nil), 5*time.Second)
			r2, err2 := c.Read("GET", 4*time.Second)
			if err2 != nil || !strings.HasPrefix(string(r2.Body), "target="+p2+";") {
				fail("http10-keepalive", det, "the exchange after an HTTP/1.0 keep-alive request on the same tunnel did not get its own answer")
			}
		}
		c.Close()
	}
	// however many requests a tunnel carries: 130 exchanges on one kept-alive tunnel, the last ones a POST and a GET
	{
		c, _, err := env.DialTunnel(env.Origin.Addr, "127.0.0.1", 8*time.Second)
		if err != nil {
			panic(err)
		}
		total++
		dist["many-requests-one-tunnel"]++
		for k := 1; k <= 130; k++ {
			p := fmt.Sprintf("/many/a%d", k%7)
			m := "GET"
			var bodyBytes []byte
			if k%50 == 1 || k == 130 {
				m, bodyBytes = "POST", []byte("payload")
			}
			c.Send(env.TunnelRequest(m, p, nil, bodyBytes), 5*time.Second)
			rr, err := c.Read(m, 5*time.Second)
			det := map[string]any{"exchange_no": k, "request": m + " " + p}
			if err != nil {
				fail("many-requests-one-tunnel", det, fmt.Sprintf("exchange %d on a kept-alive tunnel got no answer: %v", k, err))
				break
			}
			if !strings.HasPrefix(string(rr.Body), "target="+p+";") {
				det["status"] = rr.Status
				fail("many-requests-one-tunnel", det, fmt.Sprintf("exchange %d on a kept-alive tunnel did not get its own answer", k))
				break
			}
			if rr.Close && k < 130 {
				// an announced close is legal; then the client opens a new tunnel
				c.Close()
				c, _, err = env.DialTunnel(env.Origin.Addr, "127.0.0.1", 8*time.Second)
				if err != nil {
					panic(err)
				}
			}
		}
		c.Close()
	}
	// a request WITH A BODY that is answered from the store (nothing is sent upstream, so nobody else reads the body): the
	// body is payload of that exchange — the next request on the tunnel gets its own answer, the origin sees nothing new
	for i, chunkedBody := range []bool{false, true} {
		warm := fmt.Sprintf("/hit-with-body-%d/a1", i)
		next := fmt.Sprintf("/hit-with-body-%d/b2", i)
		smug := fmt.Sprintf("/smuggled-by-hit-%d", i)
		if c0, _, err := env.DialTunnel(env.Origin.Addr, "127.0.0.1", 8*time.Second); err == nil {
			c0.Send(env.TunnelRequest("GET", warm, nil, nil), 5*time.Second) // store it
			c0.Read("GET", 6*time.Second)
			c0.Close()
		}
		c, _, err := env.DialTunnel(env.Origin.Addr, "127.0.0.1", 8*time.Second)
		if err != nil {
			panic(err)
		}
		inner := "GET " + smug + " HTTP/1.1\r\nHost: " + env.Origin.Addr + "\r\n\r\n"
		first := "GET " + warm + " HTTP/1.1\r\nHost: " + env.Origin.Addr + "\r\n"
		if chunkedBody {
			first += "Transfer-Encoding: chunked\r\n\r\n" + fmt.Sprintf("%x\r\n%s\r\n0\r\n\r\n", len(inner), inner)
		} else {
			first += fmt.Sprintf("Content-Length: %d\r\n\r\n%s", len(inner), inner)
		}
		env.Origin.ResetLog()
		c.Send([]byte(first), 5*time.Second)
		total++
		dist["hit-with-body-then-next"]++
		det := map[string]any{"first": "GET " + warm + " (stored) carrying a body that looks like GET " + smug, "chunked_body": chunkedBody, "second": "GET " + next}
		r1, err1 := c.Read("GET", 5*time.Second)
		if err1 == nil {
			det["first_status"], det["first_x_cache"] = r1.Status, r1.Header.Get("X-Cache")
			if !r1.Close {
				c.Send(env.TunnelRequest("GET", next, nil, nil), 5*time.Second)
				r2, err2 := c.Read("GET", 5*time.Second)
				if err2 != nil {
					fail("hit-with-body-then-next", det, fmt.Sprintf("the exchange after a request with a body that was answered from the store got no response: %v", err2))
				} else if r2.Header.Get("X-Target") != next {
					det["second_status"], det["second_x_target"] = r2.Status, r2.Header.Get("X-Target")
					fail("hit-with-body-then-next", det, "the exchange after a request with a body that was answered from the store did not get its own answer (the body was read as a request)")
				}
			}
		}
		c.Close()
		for _, lr := range env.Origin.Log() {
			if strings.Contains(lr.Target, "smuggled") {
				det["origin_saw"] = lr.Method + " " + lr.Target
				fail("hit-with-body-then-next", det, "the origin received a request the client never sent: the body of a request answered from the store was parsed as the next request of the tunnel")
				break
			}
		}
	}
	// an upload well beyond any header budget (1.2 MiB, sized and chunked), then another exchange on the same tunnel
	for i, chunkedUp := range []bool{false, true} {
		c, _, err := env.DialTunnel(env.Origin.Addr, "127.0.0.1", 8*time.Second)
		if err != nil {
			panic(err)
		}
		payload := bytes.Repeat([]byte("upload-0123456789;"), 70000) // 1.26 MB
		p1 := fmt.Sprintf("/bigput-%d/a1", i)
		p2 := fmt.Sprintf("/bigput-%d/b2", i)
		var raw bytes.Buffer
		if chunkedUp {
			fmt.Fprintf(&raw, "PUT %s HTTP/1.1\r\nHost: %s\r\nTransfer-Encoding: chunked\r\n\r\n", p1, env.Origin.Addr)
			for off := 0; off < len(payload); off += 60000 {
				end := off + 60000
				if end > len(payload) {
					end = len(payload)
				}
				fmt.Fprintf(&raw, "%x\r\n", end-off)
				raw.Write(payload[off:end])
				raw.WriteString("\r\n")
			}
			raw.WriteString("0\r\n\r\n")
		} else {
			fmt.Fprintf(&raw, "PUT %s HTTP/1.1\r\nHost: %s\r\nContent-Length: %d\r\n\r\n", p1, env.Origin.Addr, len(payload))
			raw.Write(payload)
		}
		env.Origin.ResetLog()
		c.Send(raw.Bytes(), 10*time.Second)
		total++
		dist["large-upload-then-next"]++
		det := map[string]any{"first": fmt.Sprintf("PUT %s with a %d-byte body", p1, len(payload)), "chunked_upload": chunkedUp, "second": "GET " + p2}
		r1, err1 := c.Read("PUT", 10*time.Second)
		got := -1
		for _, lr := range env.Origin.Log() {
			if lr.Method == "PUT" {
				got = len(lr.Body)
			}
		}
		det["origin_received_body_bytes"] = got
		switch {
		case err1 != nil:
			fail("large-upload-then-next", det, "a large upload inside a tunnel got no response: "+err1.Error())
		case r1.Status != 200 || got != len(payload):
			det["status"] = r1.Status
			fail("large-upload-then-next", det, "a large upload inside a tunnel did not reach the origin completely")
		case !r1.Close:
			c.Send(env.TunnelRequest("GET", p2, nil, nil), 5*time.Second)
			r2, err2 := c.Read("GET", 5*time.Second)
			if err2 != nil || !strings.HasPrefix(string(r2.Body), "target="+p2+";") {
				fail("large-upload-then-next", det, "the exchange after a large upload on the same tunnel did not get its own answer")
			}
		}
		c.Close()
	}
	// Expect: 100-continue with a body, answered with a body of unknown length, then another exchange on the same tunnel
	for i, chunkedAnswer := range []bool{true, false} {
		c, _, err := env.DialTunnel(env.Origin.Addr, "127.0.0.1", 8*time.Second)
		if err != nil {
			panic(err)
		}
		p1 := fmt.Sprintf("/expect-%d/a1", i)
		if chunkedAnswer {
			p1 = fmt.Sprintf("/expect-%d/chunked1", i)
		}
		p2 := fmt.Sprintf("/expect-%d/b2", i)
		payload := strings.Repeat("u", 200)
		c.Send([]byte(fmt.Sprintf("POST %s HTTP/1.1\r\nHost: %s\r\nExpect: 100-continue\r\nContent-Length: %d\r\n\r\n%s", p1, env.Origin.Addr, len(payload), payload)), 5*time.Second)
		total++
		dist["expect-continue-then-next"]++
		det := map[string]any{"first": "POST " + p1 + " with Expect: 100-continue and a 200-byte body", "origin_answer_chunked": chunkedAnswer, "second": "GET " + p2}
		r1, err1 := c.Read("POST", 5*time.Second)
		for err1 == nil && r1.Status == 100 { // an interim response is legal; the final one follows
			r1, err1 = c.Read("POST", 5*time.Second)
		}
		if err1 != nil || r1.BodyErr != "" || !strings.HasPrefix(string(r1.Body), "target="+p1+";") || strings.Contains(string(r1.Body), "HTTP/1.") {
			if r1 != nil {
				det["first_status"], det["first_framing"], det["first_body"] = r1.Status, r1.Framing, trunc(string(r1.Body))
			}
			fail("expect-continue-then-next", det, "the answer to a request with Expect: 100-continue on a tunnel is not delivered with usable framing")
			c.Close()
			continue
		}
		if !r1.Close && r1.Framing != "close" {
			c.Send(env.TunnelRequest("GET", p2, nil, nil), 5*time.Second)
			r2, err2 := c.Read("GET", 5*time.Second)
			if err2 != nil || !strings.HasPrefix(string(r2.Body), "target="+p2+";") {
				fail("expect-continue-then-next", det, "the exchange after a request with Expect: 100-continue on the same tunnel did not get its own answer")
			}
		}
		c.Close()
	}
	// a tunnel that has been open for a while (kept-alive, > 12 s) still carries exchanges
	if oldTunnel != nil {
		if wait := 12*time.Second - time.Since(oldTunnelAt); wait > 0 {
			time.Sleep(wait)
		}
		p := "/old-tunnel/a9"
		oldTunnel.Send(env.TunnelRequest("GET", p, nil, nil), 5*time.Second)
		rr, err := oldTunnel.Read("GET", 6*time.Second)
		total++
		dist["old-tunnel"]++
		det := map[string]any{"tunnel_age_s": int(time.Since(oldTunnelAt).Seconds()), "request": "GET " + p}
		if err != nil {
			fail("old-tunnel", det, "an exchange on a tunnel that had been open for a while got no response: "+err.Error())
		} else if !strings.HasPrefix(string(rr.Body), "target="+p+";") {
			det["status"] = rr.Status
			fail("old-tunnel", det, "an exchange on a tunnel that had been open for a while did not get its own answer")
		}
		oldTunnel.Close()
	}
	// an HTTP/1.0 client: an answer of unknown length (the origin streams it) is delimited by the end of the connection on a
	// plain proxied connection; inside a tunnel it must be framed in a way an HTTP/1.0 client can read, too (not chunked)
	{
		raw10 := func(target string) []byte {
			return []byte("GET " + target + " HTTP/1.0\r\nHost: " + env.Origin.Addr + "\r\n\r\n")
		}
		plainFraming, tunnelFraming := "?", "?"
		if pc, err := env.DialPlain(5 * time.Second); err == nil {
			pc.Send(raw10("http://"+env.Origin.Addr+"/http10/chunked-plain"), 5*time.Second)
			if rp, err := pc.Read("GET", 6*time.Second); err == nil {
				plainFraming = rp.Proto + " " + rp.Framing
			} else {
				plainFraming = "error: " + err.Error()
			}
			pc.Close()
		}
		if tc, _, err := env.DialTunnel(env.Origin.Addr, "127.0.0.1", 8*time.Second); err == nil {
			tc.Send(raw10("/http10/chunked-tunnel"), 5*time.Second)
			if rt, err := tc.Read("GET", 6*time.Second); err == nil {
				tunnelFraming = rt.Proto + " " + rt.Framing
			} else {
				tunnelFraming = "error: " + err.Error()
			}
			tc.Close()
		}
		total++
		dist["http10-in-tunnel-unknown-length"]++
		if strings.Contains(tunnelFraming, "chunked") && !strings.Contains(plainFraming, "chunked") {
			fail("http10-in-tunnel-unknown-length", map[string]any{"request": "GET ... HTTP/1.0, the origin streams the answer without a length", "plain_answer": plainFraming, "tunnel_answer": tunnelFraming},
				"an HTTP/1.0 request inside a tunnel was answered with chunked framing (which HTTP/1.0 does not have) on a tunnel that stays open; on the plain connection the same answer is delimited by the close")
		}
	}
	// the origin breaks off in the middle of a declared body: on a plain proxied connection the client learns it from the
	// connection ending; inside a tunnel it must learn it the same way, not wait for bytes that will never come
	for _, storable := range []bool{true, false} {
		cut := fmt.Sprintf("/cut-short-%v", storable)
		var plainMs, tunnelMs int64
		var plainErr, tunnelErr string
		t0 := time.Now()
		if rp, err := env.DoPlain(env.PlainRequest("GET", cut+"-plain", nil, nil), "GET", 6*time.Second); err != nil {
			plainErr = err.Error()
		} else {
			plainErr = rp.BodyErr
		}
		plainMs = time.Since(t0).Milliseconds()
		c, _, derr := env.DialTunnel(env.Origin.Addr, "127.0.0.1", 8*time.Second)
		if derr != nil {
			panic(derr)
		}
		t0 = time.Now()
		c.Send(env.TunnelRequest("GET", cut+"-tunnel", nil, nil), 5*time.Second)
		complete := ""
		if rt, err := c.Read("GET", 6*time.Second); err != nil {
			tunnelErr = err.Error()
		} else {
			tunnelErr = rt.BodyErr
			if rt.BodyErr == "" {
				complete = string(rt.Body)
			}
		}
		tunnelMs = time.Since(t0).Milliseconds()
		c.Close()
		total++
		dist["origin-breaks-off-mid-body"]++
		if complete != "" {
			fail("origin-breaks-off-mid-body", map[string]any{"origin": "declares 100 body bytes, sends 40, closes", "storable": storable, "client_received_as_complete_body": trunc(complete)},
				"the origin broke off after 40 of 100 body bytes; the client in the tunnel received a complete-looking body of the announced length — bytes the origin never sent")
		}
		det := map[string]any{"origin": "declares 100 body bytes, sends 40, closes", "storable": storable, "plain_ms": plainMs, "plain_outcome": plainErr, "tunnel_ms": tunnelMs, "tunnel_outcome": tunnelErr}
		if plainMs < 3000 && (tunnelMs >= 5000 || strings.Contains(tunnelErr, "timeout")) {
			fail("origin-breaks-off-mid-body", det, "the origin broke off in the middle of a body: on the plain connection the client saw the connection end at once, inside the tunnel it was left waiting for the missing bytes")
		}
	}
	// an exchange the proxy has to refuse (Host that cannot be turned into a target) whose BODY looks like a request,
	// followed by a real exchange: the body is payload of the first exchange and of nothing else
	for i, badHost := range []string{"host:abc", "[::1", "exa mple.test", "h%zz", "<no Host field at all>", ""} {
		for _, chunked := range []bool{false, true} {
			c, _, err := env.DialTunnel(env.Origin.Addr, "127.0.0.1", 8*time.Second)
			if err != nil {
				panic(err)
			}
			smug := fmt.Sprintf("/smuggled-%d-%v", i, chunked)
			real := fmt.Sprintf("/real-%d-%v/a1", i, chunked)
			inner := "GET " + smug + " HTTP/1.1\r\nHost: " + env.Origin.Addr + "\r\n\r\n"
			first := "POST /upload HTTP/1.1\r\nHost: " + badHost + "\r\n"
			if strings.HasPrefix(badHost, "<no Host") {
				first = "POST /upload HTTP/1.1\r\n"
			}
			if chunked {
				first += "Transfer-Encoding: chunked\r\n\r\n" + fmt.Sprintf("%x\r\n%s\r\n0\r\n\r\n", len(inner), inner)
			} else {
				first += fmt.Sprintf("Content-Length: %d\r\n\r\n%s", len(inner), inner)
			}
			env.Origin.ResetLog()
			c.Send([]byte(first), 5*time.Second)
			total++
			dist["refused-with-body-then-next"]++
			det := map[string]any{"first": "POST /upload with Host: " + badHost + " and a body that looks like GET " + smug, "chunked_body": chunked, "second": "GET " + real}
			r1, err1 := c.Read("POST", 5*time.Second)
			if err1 != nil {
				// the proxy may close the tunnel instead of answering; then nothing may follow
				c.Close()
			} else {
				det["first_status"] = r1.Status
				if !r1.Close {
					c.Send(env.TunnelRequest("GET", real, nil, nil), 5*time.Second)
					r2, err2 := c.Read("GET", 5*time.Second)
					if err2 != nil {
						fail("refused-with-body-then-next", det, fmt.Sprintf("the exchange after a refused request on the same tunnel got no response: %v", err2))
					} else if r2.Header.Get("X-Target") != real {
						det["second_status"] = r2.Status
						det["second_x_target"] = r2.Header.Get("X-Target")
						det["second_body"] = trunc(string(r2.Body))
						fail("refused-with-body-then-next", det, "the exchange after a refused request was not answered with its own response (the refused request's body was read as a request)")
					}
				}
				c.Close()
			}
			for _, lr := range env.Origin.Log() {
				if strings.Contains(lr.Target, "smuggled") {
					det["origin_saw"] = lr.Method + " " + lr.Target
					fail("refused-with-body-then-next", det, "the origin received a request the client never sent: the body of a refused request was parsed as the next request of the tunnel")
					break
				}
			}
		}
	}
	env.Close()
	os.RemoveAll(dir)
}

// C04x: a Range request answered 416 is retried without Range (retry_on_range_416); the retried 200 is
// marked not storable by the origin. Whatever the first answer's headers were, a later plain GET of the same
// URL must reach the origin again (the marked response is never reused).
func runC04x(r *emit.Rand) {
	marks := []string{"Cache-Control: private", "Cache-Control: no-store", "Cache-Control: max-age=0", "Cache-Control: no-cache", "Expires: Thu, 01 Jan 1970 00:00:00 GMT", "Cache-Control: No-Store, max-age=60"}
	n := 0
	for _, backend := range []string{"memory", "file"} {
		for _, mark := range marks {
			for _, firstCC := range []string{"", "Cache-Control: max-age=600"} {
				n++
				dir := filepath.Join(*flagOut, fmt.Sprintf("env4-%d", n))
				env, err := e2elib.Start(e2elib.Options{Backend: backend, Dir: dir, Tune: func(cfg *config.Config) {
					cfg.Proxy.RetryOnRange416.Overwrite(true)
				}})
				if err != nil {
					panic(err)
				}
				env.Origin.SetHandler(func(req e2elib.OriginRequest, k int) e2elib.Answer {
					if req.Header.Get("Range") != "" {
						lines := []string{"Content-Range: bytes */47"}
						if firstCC != "" {
							lines = append(lines, firstCC)
						}
						return answer("first-416", 416, lines...)
					}
					return answer(fmt.Sprintf("full-%d", k), 200, mark)
				})
				path := fmt.Sprintf("/c04x-%d", n)
				get := func(hs []string) (*e2elib.Response, error) {
					return env.DoPlain(env.PlainRequest("GET", path, hs, nil), "GET", 6*time.Second)
				}
				get([]string{"Range: bytes=1000-2000"})
				before := env.Origin.Count()
				resp, err := get(nil)
				total++
				dist["416-retry-then-plain/"+backend]++
				det := map[string]any{"backend": backend, "retried_answer_marked": mark, "416_carried": firstCC}
				if err != nil {
					fail("416-retry-then-plain", det, "no response: "+err.Error())
				} else if env.Origin.Count() == before {
					det["x_cache"], det["body_answer"] = resp.Header.Get("X-Cache"), bodyID(resp.Body)
					fail("416-retry-then-plain", det, "a 200 the origin marked not storable was reused from the store for a later plain GET (no origin contact)")
				}
				env.Close()
				os.RemoveAll(dir)
			}
		}
	}
	// a POST answered by a redirect to a storable GET target (the upstream client follows it): whatever that leaves in
	// the store, the NEXT POST of the same URL and a GET of it must reach the origin again
	for _, backend := range []string{"memory", "file"} {
		for _, code := range []int{301, 302, 303} {
			n++
			dir := filepath.Join(*flagOut, fmt.Sprintf("env4r-%d", n))
			env, err := e2elib.Start(e2elib.Options{Backend: backend, Dir: dir})
			if err != nil {
				panic(err)
			}
			env.Origin.SetHandler(func(req e2elib.OriginRequest, k int) e2elib.Answer {
				if strings.HasPrefix(req.Target, "/order") {
					if req.Method == "POST" {
						return e2elib.NewAnswer(code, nil, "Location: /thanks", "Content-Length: 0")
					}
					return answer("order-form", 200, "Cache-Control: max-age=600")
				}
				return answer("thanks", 200, "Cache-Control: max-age=600")
			})
			post := func() (*e2elib.Response, error) {
				return env.DoPlain(env.PlainRequest("POST", "/order", []string{"Content-Type: text/plain"}, []byte("item=1")), "POST", 6*time.Second)
			}
			count := func(method, prefix string) int {
				c := 0
				for _, lr := range env.Origin.Log() {
					if lr.Method == method && strings.HasPrefix(lr.Target, prefix) {
						c++
					}
				}
				return c
			}
			post()
			post()
			total++
			dist["post-redirect-then-again/"+backend]++
			det := map[string]any{"backend": backend, "redirect_status": code, "origin_saw_posts": count("POST", "/order")}
			if count("POST", "/order") < 2 {
				fail("post-redirect-then-again", det, "the second POST of a URL whose first POST was redirected to a storable GET target never reached the origin (answered from the store)")
			}
			resp, err := env.DoPlain(env.PlainRequest("GET", "/order", nil, nil), "GET", 6*time.Second)
			if err == nil && count("GET", "/order") == 0 {
				det["get_x_cache"], det["get_body"] = resp.Header.Get("X-Cache"), bodyID(resp.Body)
				fail("post-redirect-then-again", det, "a GET of the URL was answered from what a redirected POST had left in the store, without origin contact")
			}
			env.Close()
			os.RemoveAll(dir)
		}
	}
}

// C06x: the proxy holds version 1 of a resource, the origin has moved to version 2; a client that already
// has version 2 sends a Range request with If-None-Match "v2" / If-Modified-Since. The client's validators
// must not reach the origin in place of the stored ones, and the old entry must not be renewed by the
// origin's answer to them.
func runC06x(r *emit.Rand) {
	n := 0
	for _, backend := range []string{"memory", "file"} {
		for _, tlsOn := range []bool{false, true} {
			for _, cond := range []string{"If-None-Match: \"v2\"", "If-Modified-Since: Tue, 03 Jan 2006 15:04:05 GMT", "If-None-Match: W/\"v2\""} {
				for _, stale := range []bool{false, true} {
					n++
					dir := filepath.Join(*flagOut, fmt.Sprintf("env6-%d", n))
					env, err := e2elib.Start(e2elib.Options{Backend: backend, Dir: dir, TLS: tlsOn})
					if err != nil {
						panic(err)
					}
					ver := 1
					env.Origin.SetHandler(func(req e2elib.OriginRequest, k int) e2elib.Answer {
						etag := fmt.Sprintf("\"v%d\"", ver)
						lm := "Mon, 02 Jan 2006 15:04:05 GMT"
						if ver == 2 {
							lm = "Tue, 03 Jan 2006 15:04:05 GMT"
						}
						inm := strings.TrimPrefix(req.Header.Get("If-None-Match"), "W/")
						if inm == etag || (inm == "" && req.Header.Get("If-Modified-Since") == lm) {
							return e2elib.NewAnswer(304, nil, "ETag: "+etag, "X-Answer-Id: nm")
						}
						return answer(fmt.Sprintf("v%d", ver), 200, "Cache-Control: max-age=60", "ETag: "+etag, "Last-Modified: "+lm)
					})
					path := fmt.Sprintf("/c06x-%d", n)
					do := func(hs []string) (*e2elib.Response, error) {
						if tlsOn {
							c, _, err := env.DialTunnel(env.Origin.Addr, "127.0.0.1", 8*time.Second)
							if err != nil {
								return nil, err
							}
							defer c.Close()
							c.Send(env.TunnelRequest("GET", path, hs, nil), 5*time.Second)
							return c.Read("GET", 8*time.Second)
						}
						return env.DoPlain(env.PlainRequest("GET", path, hs, nil), "GET", 8*time.Second)
					}
					do(nil) // version 1 stored
					ver = 2
					if stale {
						env.Proxy.VerifCache().VerifAge(2 * time.Hour)
					}
					before := env.Origin.Count()
					resp, err := do([]string{"Range: bytes=0-9", cond})
					total++
					dist["client-validators-on-range"]++
					det := map[string]any{"backend": backend, "tls": tlsOn, "client_conditional": cond, "entry_stale": stale}
					if err == nil {
						det["range_answer_status"] = resp.Status
					}
					log := env.Origin.Log()
					name, val, _ := strings.Cut(cond, ": ")
					for j := before; j < len(log); j++ {
						if log[j].Header.Get(name) == val {
							det["upstream_request"] = map[string]any{"no": j - before + 1, name: val}
							fail("client-validators-on-range", det, "a conditional header value sent by the client reached the origin (the stored validators are those of version 1)")
							break
						}
					}
					// afterwards the proxy must not serve version 1 as a fresh hit
					resp2, err2 := do(nil)
					if err2 == nil && resp2.Status == 200 && bodyID(resp2.Body) == "v1" && strings.Contains(resp2.Header.Get("X-Cache"), "HIT") {
						det["later_plain_get"] = map[string]any{"body": "v1", "x_cache": resp2.Header.Get("X-Cache")}
						fail("client-validators-on-range", det, "after the origin was contacted about version 2, version 1 is served as a fresh hit")
					}
					env.Close()
					os.RemoveAll(dir)
				}
			}
		}
	}
}

// C09x: the cache directory refuses the removal of eviction victims (the victim's file is turned into a
// non-empty directory, which makes os.Remove fail also for root) while the cache is at its size limit.
// The origin is healthy all the time: every request must be answered with the origin's 200, promptly.
// hangup: the client whose fetch is in flight hangs up while the (healthy, slow) origin is answering; a second client
// that asked for the same resource meanwhile, and a third one asking afterwards, must get the origin's 200.
func hangupC09x() {
	for _, backend := range []string{"memory", "file"} {
		for _, stale := range []bool{false, true} {
			dir := filepath.Join(*flagOut, fmt.Sprintf("envh-%s-%v", backend, stale))
			env, err := e2elib.Start(e2elib.Options{Backend: backend, Dir: dir})
			if err != nil {
				panic(err)
			}
			var slow atomic.Bool
			arrived := make(chan struct{}, 8)
			env.Origin.SetHandler(func(req e2elib.OriginRequest, k int) e2elib.Answer {
				if slow.Load() {
					arrived <- struct{}{}
					time.Sleep(400 * time.Millisecond)
				}
				return e2elib.NewAnswer(200, []byte("T="+req.Target+";"+strings.Repeat("h", 300)), "Cache-Control: max-age=60", `ETag: "h1"`)
			})
			path := "/hangup"
			if stale {
				env.DoPlain(env.PlainRequest("GET", path, nil, nil), "GET", 4*time.Second)
				env.Proxy.VerifCache().VerifAge(2 * time.Hour)
			}
			slow.Store(true)
			starter, err := env.DialPlain(4 * time.Second)
			if err != nil {
				panic(err)
			}
			starter.Send(env.PlainRequest("GET", path, nil, nil), 2*time.Second)
			select {
			case <-arrived:
			case <-time.After(3 * time.Second):
			}
			type res struct {
				resp *e2elib.Response
				err  error
			}
			follower := make(chan res, 1)
			go func() {
				rp, err := env.DoPlain(env.PlainRequest("GET", path, nil, nil), "GET", 6*time.Second)
				follower <- res{rp, err}
			}()
			time.Sleep(80 * time.Millisecond) // the follower has joined the shared fetch
			starter.Close()                   // the starter hangs up mid-answer
			f := <-follower
			slow.Store(false)
			total++
			name := fmt.Sprintf("starter-hangs-up/%s/stale=%v", backend, stale)
			dist[name]++
			det := map[string]any{"backend": backend, "stale_entry": stale}
			check := func(who string, x res) {
				if x.err != nil {
					fail("starter-hangs-up", det, who+": no response although the origin answered fine: "+x.err.Error())
				} else if x.resp.Status != 200 || !strings.HasPrefix(string(x.resp.Body), "T="+path+";") {
					det[who+"_status"] = x.resp.Status
					det[who+"_body"] = trunc(string(x.resp.Body))
					fail("starter-hangs-up", det, who+" did not receive the origin's good answer after another client hung up")
				}
			}
			check("the client that joined the shared fetch", f)
			rp, err := env.DoPlain(env.PlainRequest("GET", path, nil, nil), "GET", 6*time.Second)
			check("a client asking afterwards", res{rp, err})
			env.Close()
			os.RemoveAll(dir)
		}
	}
}

// cacheDirGone: the cache directory disappears while the proxy runs — removed (can be put back), replaced by a dangling
// symbolic link or by a regular file (cannot). The origin is healthy: every request is answered with its 200.
func cacheDirGone() {
	for _, how := range []string{"removed", "dangling-symlink", "regular-file"} {
		dir := filepath.Join(*flagOut, "envgone-"+how)
		env, err := e2elib.Start(e2elib.Options{Backend: "file", Dir: dir})
		if err != nil {
			panic(err)
		}
		env.Origin.SetHandler(func(req e2elib.OriginRequest, k int) e2elib.Answer {
			return e2elib.NewAnswer(200, []byte("T="+req.Target+";"+strings.Repeat("g", 300)), "Cache-Control: max-age=600")
		})
		get := func(path string) (*e2elib.Response, error) {
			return env.DoPlain(env.PlainRequest("GET", path, nil, nil), "GET", 4*time.Second)
		}
		get("/before")
		cacheDir := filepath.Join(dir, "cache")
		os.RemoveAll(cacheDir)
		switch how {
		case "dangling-symlink":
			os.Symlink(filepath.Join(dir, "no-such-volume", "cache"), cacheDir)
		case "regular-file":
			os.WriteFile(cacheDir, []byte("not a directory"), 0644)
		}
		for i := 0; i < 3; i++ {
			path := fmt.Sprintf("/gone%d", i)
			resp, err := get(path)
			total++
			dist["cache-dir-gone/"+how]++
			det := map[string]any{"cache_dir": how, "request": path}
			if err != nil {
				fail("cache-dir-gone", det, "a request the origin answers fine got no response (dropped connection or hang): "+err.Error())
				break
			}
			if resp.Status != 200 || !strings.HasPrefix(string(resp.Body), "T="+path+";") {
				det["status"] = resp.Status
				fail("cache-dir-gone", det, "the origin's good answer was not delivered")
			}
		}
		env.Close()
		os.RemoveAll(dir)
	}
}

// budgetZero: the memory cache with a memory budget of 0 % (allowed by the configuration check), set at start or changed
// at run time: nothing can be stored, every request is still answered with the origin's 200.
func budgetZero() {
	for _, atStart := range []bool{true, false} {
		dir := filepath.Join(*flagOut, fmt.Sprintf("envbz-%v", atStart))
		env, err := e2elib.Start(e2elib.Options{Backend: "memory", Dir: dir, Tune: func(cfg *config.Config) {
			if atStart {
				cfg.Cache.Memory.MemoryBudgetPercent.Overwrite(0)
			}
		}})
		if err != nil {
			panic(err)
		}
		env.Origin.SetHandler(func(req e2elib.OriginRequest, k int) e2elib.Answer {
			return e2elib.NewAnswer(200, []byte("T="+req.Target+";"+strings.Repeat("z", 300)), "Cache-Control: max-age=600")
		})
		get := func(path string) (*e2elib.Response, error) {
			return env.DoPlain(env.PlainRequest("GET", path, nil, nil), "GET", 4*time.Second)
		}
		if !atStart {
			get("/bz-before")
			if _, err := config.UpdatePartialFromConfig(env.Cfg, map[string]any{"cache": map[string]any{"memory": map[string]any{"memory_budget_percent": 0}}}); err != nil {
				env.Cfg.Cache.Memory.MemoryBudgetPercent.Overwrite(0)
			}
			time.Sleep(20 * time.Millisecond) // the listener runs in its own goroutine
		}
		for i := 0; i < 4; i++ {
			path := fmt.Sprintf("/bz%d", i%3)
			resp, err := get(path)
			total++
			dist[fmt.Sprintf("memory-budget-zero/at_start=%v", atStart)]++
			det := map[string]any{"memory_budget_percent": 0, "set_at_start": atStart, "request": path}
			if err != nil {
				fail("memory-budget-zero", det, "a request the origin answers fine got no response (dropped connection or hang): "+err.Error())
				break
			}
			if resp.Status != 200 || !strings.HasPrefix(string(resp.Body), "T="+path+";") {
				det["status"] = resp.Status
				fail("memory-budget-zero", det, "the origin's good answer was not delivered")
			}
		}
		env.Close()
		os.RemoveAll(dir)
	}
}

// largerThanCache: an object larger than the whole cache (max_cache_size 1K, 3000 bytes), sized or chunked, both
// backends: it cannot be kept, and the client still receives every byte of it, every time.
func largerThanCache() {
	for _, backend := range []string{"memory", "file"} {
		dir := filepath.Join(*flagOut, "envltc-"+backend)
		env, err := e2elib.Start(e2elib.Options{Backend: backend, Dir: dir, Tune: func(cfg *config.Config) {
			cfg.Cache.MaxCacheSize.Overwrite(bytesize.ByteSize(1024))
		}})
		if err != nil {
			panic(err)
		}
		for _, chunked := range []bool{false, true} {
			want := []byte("T=" + fmt.Sprintf("/ltc-%v", chunked) + ";" + strings.Repeat("0123456789", 299))
			env.Origin.SetHandler(func(req e2elib.OriginRequest, k int) e2elib.Answer {
				a := e2elib.NewAnswer(200, want, "Cache-Control: max-age=600", "ETag: \"ltc\"")
				if chunked {
					a.Chunked = true
					a.Pieces, a.PieceDelay = 6, 5*time.Millisecond
				}
				return a
			})
			for i := 0; i < 3; i++ {
				resp, err := env.DoPlain(env.PlainRequest("GET", fmt.Sprintf("/ltc-%v", chunked), nil, nil), "GET", 6*time.Second)
				total++
				dist["larger-than-cache/"+backend]++
				det := map[string]any{"max_cache_size": 1024, "object_bytes": len(want), "origin_chunked": chunked, "backend": backend, "request_no": i + 1}
				if err != nil {
					fail("larger-than-cache", det, "a request the origin answers fine got no response: "+err.Error())
					break
				}
				if resp.Status != 200 || resp.BodyErr != "" || !bytes.Equal(resp.Body, want) {
					det["status"], det["received_bytes"], det["body_error"], det["x_cache"] = resp.Status, len(resp.Body), resp.BodyErr, resp.Header.Get("X-Cache")
					fail("larger-than-cache", det, "an object larger than the whole cache was not delivered completely")
				}
			}
		}
		env.Close()
		os.RemoveAll(dir)
	}
}

// otherFilesystem: the file cache's directory lives on another filesystem than the system temp directory (a data disk
// next to a tmpfs /tmp): N simultaneous identical GETs still cause one origin fetch and the answer is stored.
func otherFilesystem() {
	shm := "/dev/shm"
	var a, b syscall.Stat_t
	if syscall.Stat(shm, &a) != nil || syscall.Stat(os.TempDir(), &b) != nil || a.Dev == b.Dev {
		dist["cache-dir-other-filesystem/skipped (no second filesystem)"]++
		return
	}
	dir, err := os.MkdirTemp(shm, "verif-c05x-")
	if err != nil {
		dist["cache-dir-other-filesystem/skipped (not writable)"]++
		return
	}
	defer os.RemoveAll(dir)
	env, err := e2elib.Start(e2elib.Options{Backend: "file", Dir: dir})
	if err != nil {
		panic(err)
	}
	env.Origin.SetHandler(func(req e2elib.OriginRequest, k int) e2elib.Answer {
		time.Sleep(150 * time.Millisecond) // long enough for all clients to join the flight
		return e2elib.NewAnswer(200, []byte("T="+req.Target+";"+strings.Repeat("x", 2000)), "Cache-Control: max-age=600")
	})
	env.Origin.ResetLog()
	var wg sync.WaitGroup
	bad := 0
	var mu sync.Mutex
	for i := 0; i < 6; i++ {
		wg.Add(1)
		go func() {
			defer wg.Done()
			resp, err := env.DoPlain(env.PlainRequest("GET", "/shared", nil, nil), "GET", 8*time.Second)
			if err != nil || resp.Status != 200 || !strings.HasPrefix(string(resp.Body), "T=/shared;") {
				mu.Lock()
				bad++
				mu.Unlock()
			}
		}()
	}
	wg.Wait()
	fetches := env.Origin.Count()
	resp, err := env.DoPlain(env.PlainRequest("GET", "/shared", nil, nil), "GET", 8*time.Second)
	total++
	dist["cache-dir-other-filesystem"]++
	det := map[string]any{"cache_dir": dir, "temp_dir": os.TempDir(), "simultaneous_clients": 6, "origin_fetches": fetches}
	switch {
	case bad > 0:
		fail("cache-dir-other-filesystem", det, fmt.Sprintf("%d of 6 clients did not get the complete answer", bad))
	case fetches != 1:
		fail("cache-dir-other-filesystem", det, fmt.Sprintf("6 simultaneous identical GETs caused %d origin fetches", fetches))
	case err != nil || resp.Header.Get("X-Cache") != "HIT":
		xc := ""
		if resp != nil {
			xc = resp.Header.Get("X-Cache")
		}
		det["x_cache_of_the_next_request"] = xc
		fail("cache-dir-other-filesystem", det, "the shared answer was not stored: the next request is no hit")
	}
	env.Close()
}

// starters: the request that STARTS a shared fetch is a HEAD, or a GET carrying Cache-Control: no-store; the plain
// identical GETs that arrive while it is in flight still cause one origin GET between them and the answer is stored.
func starters() {
	for _, backend := range []string{"memory", "file"} {
		for _, kind := range []string{"HEAD", "GET no-store"} {
			dir := filepath.Join(*flagOut, "envst-"+backend+"-"+strings.ReplaceAll(kind, " ", "-"))
			env, err := e2elib.Start(e2elib.Options{Backend: backend, Dir: dir})
			if err != nil {
				panic(err)
			}
			body := []byte("T=/starter;" + strings.Repeat("s", 1500))
			env.Origin.SetHandler(func(req e2elib.OriginRequest, k int) e2elib.Answer {
				time.Sleep(250 * time.Millisecond)
				return e2elib.NewAnswer(200, body, "Cache-Control: max-age=600")
			})
			env.Origin.ResetLog()
			var wg sync.WaitGroup
			wg.Add(1)
			go func() {
				defer wg.Done()
				if kind == "HEAD" {
					env.DoPlain(env.PlainRequest("HEAD", "/starter", nil, nil), "HEAD", 8*time.Second)
				} else {
					env.DoPlain(env.PlainRequest("GET", "/starter", []string{"Cache-Control: no-store"}, nil), "GET", 8*time.Second)
				}
			}()
			time.Sleep(60 * time.Millisecond)
			bad := 0
			var mu sync.Mutex
			for i := 0; i < 5; i++ {
				wg.Add(1)
				go func() {
					defer wg.Done()
					resp, err := env.DoPlain(env.PlainRequest("GET", "/starter", nil, nil), "GET", 8*time.Second)
					if err != nil || resp.Status != 200 || string(resp.Body) != string(body) {
						mu.Lock()
						bad++
						mu.Unlock()
					}
				}()
			}
			wg.Wait()
			gets := 0
			for _, lr := range env.Origin.Log() {
				if lr.Method == "GET" {
					gets++
				}
			}
			resp, err := env.DoPlain(env.PlainRequest("GET", "/starter", nil, nil), "GET", 8*time.Second)
			total++
			dist["flight-started-by/"+kind]++
			det := map[string]any{"backend": backend, "first_request": kind, "plain_gets_joining": 5, "origin_gets": gets}
			limit := 1
			if kind == "HEAD" {
				limit = 1 // the HEAD itself is not a GET at the origin
			} else {
				limit = 2 // the starter's own fetch may be separate from the shared one
			}
			switch {
			case bad > 0:
				fail("flight-started-by", det, fmt.Sprintf("%d of 5 plain clients did not get the complete answer", bad))
			case gets > limit:
				fail("flight-started-by", det, fmt.Sprintf("5 simultaneous identical plain GETs arriving while a %s for the URL was in flight caused %d origin GETs", kind, gets))
			case err != nil || resp.Header.Get("X-Cache") != "HIT":
				fail("flight-started-by", det, "the answer was not stored: the next plain GET is no hit")
			}
			env.Close()
			os.RemoveAll(dir)
		}
	}
}

func runC05x(r *emit.Rand) {
	otherFilesystem()
	starters()
}

// getWithBody: a GET that carries a body (a search API) whose answer is not storable, storable, or not a 200: the origin
// answered successfully, the client gets that answer; and whenever the origin is contacted it is shown the client's body.
func getWithBody() {
	for _, tlsOn := range []bool{false, true} {
		dir := filepath.Join(*flagOut, fmt.Sprintf("envgb-%v", tlsOn))
		env, err := e2elib.Start(e2elib.Options{Backend: "memory", Dir: dir, TLS: tlsOn, Tune: func(cfg *config.Config) {
			cfg.Proxy.CachePolicy.ForceDefaultMaxAge.Overwrite(false)
			cfg.Proxy.CachePolicy.IgnoreCacheControl.Overwrite(false)
		}})
		if err != nil {
			panic(err)
		}
		env.Origin.SetHandler(func(req e2elib.OriginRequest, k int) e2elib.Answer {
			cc := "Cache-Control: no-store"
			if strings.Contains(req.Target, "storable") {
				cc = "Cache-Control: max-age=600"
			}
			status := 200
			if strings.Contains(req.Target, "created") {
				status = 201
			}
			return e2elib.NewAnswer(status, []byte(fmt.Sprintf("T=%s;got %d body bytes: %s", req.Target, len(req.Body), req.Body)), cc)
		})
		for i, path := range []string{"/search/nostore", "/search/storable", "/search/created", "/search/nostore"} {
			body := []byte(fmt.Sprintf("query=%d&x=%s", i, strings.Repeat("y", 40+i)))
			for _, chunked := range []bool{false, true} {
				hs := []string{fmt.Sprintf("Content-Length: %d", len(body))}
				wire := body
				if chunked {
					hs = []string{"Transfer-Encoding: chunked"}
					wire = []byte(fmt.Sprintf("%x\r\n%s\r\n0\r\n\r\n", len(body), body))
				}
				env.Origin.ResetLog()
				var resp *e2elib.Response
				var rerr error
				if tlsOn {
					c, _, derr := env.DialTunnel(env.Origin.Addr, "127.0.0.1", 5*time.Second)
					if derr != nil {
						panic(derr)
					}
					c.Send(env.TunnelRequest("GET", path, hs, wire), 5*time.Second)
					resp, rerr = c.Read("GET", 6*time.Second)
					c.Close()
				} else {
					resp, rerr = env.DoPlain(env.PlainRequest("GET", path, hs, wire), "GET", 6*time.Second)
				}
				total++
				dist["get-with-body"]++
				det := map[string]any{"request": "GET " + path + " with a body of " + fmt.Sprint(len(body)) + " bytes", "chunked_request_body": chunked, "tls": tlsOn}
				var saw []string
				wrongBody := false
				for _, lr := range env.Origin.Log() {
					saw = append(saw, fmt.Sprintf("%s %s body=%d", lr.Method, lr.Target, len(lr.Body)))
					if !bytes.Equal(lr.Body, body) {
						wrongBody = true
					}
				}
				det["origin_saw"] = saw
				want := fmt.Sprintf("T=%s;got %d body bytes: %s", path, len(body), body)
				switch {
				case rerr != nil:
					fail("get-with-body", det, "a request the origin answers fine got no response: "+rerr.Error())
				case resp.Status >= 500 || string(resp.Body) != want:
					det["status"], det["body"] = resp.Status, trunc(string(resp.Body))
					fail("get-with-body", det, "the origin answered the GET (which carries a body) successfully; the client did not receive that answer")
				case wrongBody:
					fail("get-with-body", det, "the origin was sent the request with another body than the client's")
				}
			}
		}
		env.Close()
		os.RemoveAll(dir)
	}
}

func runC09x(r *emit.Rand) {
	getWithBody()
	hangupC09x()
	cacheDirGone()
	budgetZero()
	largerThanCache()
	for _, shards := range []int{1, 2, 32} {
		dir := filepath.Join(*flagOut, fmt.Sprintf("envx%d", shards))
		env, err := e2elib.Start(e2elib.Options{Backend: "file", Dir: dir, Shards: shards, Tune: func(cfg *config.Config) {
			cfg.Cache.MaxCacheSize.Overwrite(bytesize.ByteSize(1024))
		}})
		if err != nil {
			panic(err)
		}
		env.Origin.SetHandler(func(req e2elib.OriginRequest, k int) e2elib.Answer {
			return e2elib.NewAnswer(200, []byte("T="+req.Target+";"+strings.Repeat("f", 400)), "Cache-Control: max-age=600")
		})
		get := func(path string) (*e2elib.Response, error) {
			return env.DoPlain(env.PlainRequest("GET", path, nil, nil), "GET", 4*time.Second)
		}
		cacheDir := filepath.Join(dir, "cache")
		for i := 0; i < 2; i++ { // fill: two entries of ~400 bytes
			get(fmt.Sprintf("/fill%d", i))
		}
		ents, _ := os.ReadDir(cacheDir)
		for _, e := range ents { // every stored file becomes unremovable
			if e.IsDir() || strings.HasSuffix(e.Name(), ".tmp") {
				continue
			}
			p := filepath.Join(cacheDir, e.Name())
			os.Remove(p)
			os.MkdirAll(filepath.Join(p, "pin"), 0755)
		}
		for i := 0; i < 12; i++ {
			path := fmt.Sprintf("/after%d", i)
			t0 := time.Now()
			resp, err := get(path)
			total++
			dist[fmt.Sprintf("unremovable-victims/shards=%d", shards)]++
			det := map[string]any{"shards": shards, "request": path, "request_no": i + 1, "elapsed_ms": time.Since(t0).Milliseconds()}
			if err != nil {
				fail("unremovable-victims", det, "a request the origin answers fine got no response (hang or dropped connection): "+err.Error())
				return // the proxy holds a hung request: closing the environment would wait for it; the process exit cleans up
			}
			if resp.Status != 200 || !strings.HasPrefix(string(resp.Body), "T="+path+";") {
				det["status"] = resp.Status
				fail("unremovable-victims", det, "the origin's good answer was not delivered")
			}
		}
		env.Close()
		os.RemoveAll(dir)
	}
}

func trunc(s string) string {
	if len(s) > 80 {
		return s[:80] + "..."
	}
	return s
}

func main() {
	flag.Parse()
	e2elib.Quiet()
	if err := os.MkdirAll(*flagOut, 0755); err != nil {
		panic(err)
	}
	r := emit.NewRand(*flagSeed)
	rule := ""
	switch *flagProp {
	case "C08x":
		runC08x(r)
		rule = "(a) GET with Range, origin answers 416 then (without Range) a storable or non-storable 200/404/503, retry_on_range_416 on and off: status, X-Answer-Id header and body id of the client response must belong to one origin answer; (b) entry stored, aged stale, revalidation answered 503/404/500/429, then the direct fallback: no conditional header reaches the origin that the client did not send, and the unconditional GET is not answered 304; x backends x plain/CONNECT"
	case "C04x":
		runC04x(r)
		rule = "retry_on_range_416=true: GET with Range answered 416 (with or without its own Cache-Control), retried without Range and answered 200 marked private / no-store / max-age=0 / no-cache / past Expires / mixed case; then a plain GET of the same URL must contact the origin again; x backends"
	case "C06x":
		runC06x(r)
		rule = "the proxy stores version 1, the origin moves to version 2 (honouring conditionals), a client sends a Range request carrying If-None-Match / If-Modified-Since of version 2 (entry fresh or stale): no client conditional value reaches the origin, and version 1 is not served as a fresh hit afterwards; x backends x plain/CONNECT"
	case "C05x":
		runC05x(r)
		rule = "file cache whose directory is on another filesystem than the system temp directory (/dev/shm against os.TempDir(); skipped when there is no second writable filesystem): 6 simultaneous identical GETs cause one origin fetch, every client gets the complete answer and the next request is a hit; plain GETs joining while a HEAD, or a GET carrying Cache-Control: no-store, of the same URL is in flight still share one origin GET and the answer is stored"
	case "C09x":
		runC09x(r)
		rule = "file backend at its 1 kB limit whose stored files cannot be removed (turned into non-empty directories), shards 1/2/32: 12 further requests to a healthy origin must each be answered with the origin's 200 within 4 s; the client whose fetch is in flight hangs up (cold and stale key); the cache directory removed / replaced by a dangling link / by a regular file; memory budget 0 % at start and set at run time"
	case "C10x":
		runC10x(r)
		rule = "2-6 requests (GET/HEAD/Range, sized, chunked and non-storable answers, repeated targets) written in ONE write on a CONNECT tunnel: each must be answered, in order, with status, X-Target and body equal to what the same request gets on a tunnel of its own"
	default:
		fmt.Fprintln(os.Stderr, "unknown prop")
		os.Exit(2)
	}
	out := map[string]any{
		"harness": "relayx/" + *flagProp, "seed": *flagSeed, "tier": *flagTier, "total": total, "distinct": total, "distinct_nontrivial": total,
		"rule": rule, "distribution": map[string]any{"scenario": dist},
		"samples": []any{map[string]any{"prop": *flagProp}}, "files": []string{}, "readable": []any{},
		"direct": map[string]any{"total": total, "failures": failures, "mismatches": []any{}},
	}
	b, _ := json.MarshalIndent(out, "", " ")
	if err := os.WriteFile(filepath.Join(*flagOut, "meta.json"), b, 0644); err != nil {
		panic(err)
	}
	fmt.Printf("relayx/%s: %d scenarios, %d failures\n", *flagProp, total, len(failures))
}
