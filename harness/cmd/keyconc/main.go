// keyconc — C02 under concurrency: the key of a request is a function of THAT request alone.
// M different requests get their keys computed sequentially (the reference), then by G goroutines at once,
// at the default log level and at DEBUG with a log sink that parks the calling goroutine (the place where
// MakeFromRequest reports its key string is inside the computation).  Any concurrently computed key that
// differs from the sequential key of the same request — in particular one that equals ANOTHER request's key —
// is a failure.  Decided by the harness itself ("direct" stage).
package main

import (
	"bufio"
	"context"
	"encoding/json"
	"flag"
	"fmt"
	"log/slog"
	"net/http"
	"os"
	"path/filepath"
	"runtime"
	"strings"
	"sync"
	"time"

	"reservoir/cache"
)

var (
	flagOut  = flag.String("out", ".", "output directory")
	flagSeed = flag.Int64("seed", 1, "seed")
	flagTier = flag.String("tier", "quick", "tier")
)

// a handler that yields inside Handle: widens every window that contains a log call
type parkingHandler struct{ level slog.Level }

func (h parkingHandler) Enabled(_ context.Context, l slog.Level) bool { return l >= h.level }
func (h parkingHandler) Handle(context.Context, slog.Record) error {
	runtime.Gosched()
	time.Sleep(time.Microsecond)
	return nil
}
func (h parkingHandler) WithAttrs([]slog.Attr) slog.Handler { return h }
func (h parkingHandler) WithGroup(string) slog.Handler      { return h }

func parse(target, host string) *http.Request {
	raw := "GET " + target + " HTTP/1.1\r\nHost: " + host + "\r\n\r\n"
	r, err := http.ReadRequest(bufio.NewReader(strings.NewReader(raw)))
	if err != nil {
		panic(err)
	}
	return r
}

type failure struct {
	Scenario string `json:"scenario"`
	Request  string `json:"request"`
	Got      string `json:"key_computed_concurrently"`
	Want     string `json:"key_computed_alone"`
	SameAs   string `json:"equals_the_key_of,omitempty"`
	What     string `json:"what"`
}

func main() {
	flag.Parse()
	if err := os.MkdirAll(*flagOut, 0755); err != nil {
		panic(err)
	}
	const M = 64
	reqs := make([]*http.Request, M)
	names := make([]string, M)
	for i := range reqs {
		t := fmt.Sprintf("/repo/pkg_%03d/%s?v=%d", i, strings.Repeat("x", i%17), i%5)
		h := fmt.Sprintf("mirror%d.example.test", i%3)
		reqs[i], names[i] = parse(t, h), "GET http://"+h+t
	}
	rounds := 300
	if *flagTier == "thorough" {
		rounds = 3000
	}
	failures := []failure{}
	dist := map[string]int{}
	total := 0
	for _, sc := range []struct {
		name  string
		level slog.Level
	}{{"default-log-level", slog.LevelInfo}, {"debug-log-level", slog.LevelDebug}} {
		slog.SetDefault(slog.New(parkingHandler{sc.level}))
		want := make([]string, M)
		owner := map[string]string{}
		for i, r := range reqs {
			want[i] = cache.MakeFromRequest(r).Hex
			if o, dup := owner[want[i]]; dup {
				failures = append(failures, failure{sc.name, names[i], want[i], want[i], o, "two different requests have one key even sequentially"})
			}
			owner[want[i]] = names[i]
		}
		var mu sync.Mutex
		var wg sync.WaitGroup
		bad := 0
		G := 16
		for g := 0; g < G; g++ {
			wg.Add(1)
			go func(g int) {
				defer wg.Done()
				for k := 0; k < rounds; k++ {
					i := (g*7 + k*13) % M
					got := cache.MakeFromRequest(reqs[i]).Hex
					if got != want[i] {
						mu.Lock()
						bad++
						if bad <= 3 {
							failures = append(failures, failure{sc.name, names[i], got, want[i], owner[got],
								"a key computed while other requests compute theirs differs from the key of the same request computed alone"})
						}
						mu.Unlock()
					}
				}
			}(g)
		}
		wg.Wait()
		total += G * rounds
		dist[sc.name] += G * rounds
	}
	out := map[string]any{
		"harness": "keyconc", "seed": *flagSeed, "tier": *flagTier, "total": total, "distinct": total, "distinct_nontrivial": total,
		"rule":         "64 different GET requests; keys computed alone (reference), then by 16 goroutines at once, at INFO and at DEBUG with a log sink that parks the caller; failure = a concurrently computed key differs from the same request's own key",
		"distribution": map[string]any{"scenario": dist},
		"samples":      []any{map[string]any{"request": names[1]}},
		"files":        []string{}, "readable": []any{},
		"direct": map[string]any{"total": total, "failures": failures, "mismatches": []any{}},
	}
	b, _ := json.MarshalIndent(out, "", " ")
	if err := os.WriteFile(filepath.Join(*flagOut, "meta.json"), b, 0644); err != nil {
		panic(err)
	}
	fmt.Printf("keyconc: %d computations, %d failures\n", total, len(failures))
}
