// web: correspondence harness for C20.  Starts the REAL dashboard webserver
// (webserver.New + api.New registered on it, served through webserver.Listen, i.e.
// middleware.Harden in front of the ServeMux) on a localhost port, in a scratch working
// directory with a migrated SQLite database, and drives histories of requests against it:
// every registered route x method x cookie state, Origin x Sec-Fetch-Site combinations,
// logins with right / wrong passwords and malformed stored hashes, logouts, password and
// configuration changes, clock advances (auth.VerifShiftSessions) and GC passes.
// Before and after every request it records the session table, the password rows and the
// configuration.  Output: Gallina case files evaluated by Check/Auth.v.
//
// Usage: web -seed N -tier quick|thorough -out DIR
package main

import (
	"bytes"
	"context"
	"encoding/json"
	"flag"
	"fmt"
	"io"
	"net"
	"net/http"
	"os"
	"sort"
	"strconv"
	"strings"
	"sync"
	"time"

	"reservoir/config"
	"reservoir/db"
	"reservoir/logging"
	"reservoir/utils/phc"
	"reservoir/webserver"
	"reservoir/webserver/api"
	"reservoir/webserver/auth"
	"verifharness/emit"

	"encoding/base64"

	"golang.org/x/crypto/argon2"
)

var (
	flagSeed = flag.Int64("seed", 1, "PRNG seed")
	flagTier = flag.String("tier", "quick", "quick|thorough")
	flagOut  = flag.String("out", ".", "output directory")
)

func thorough() bool { return *flagTier == "thorough" }

const (
	second = time.Second
	safety = 5 * time.Second // distance kept from every expiry boundary (the model tolerates 3 s on instants)
)

// ---------- passwords and stored hashes ----------

var pwStrings = []string{"correct horse battery staple", "Tr0ub4dor&3", "hunter2", "pässwörd ünïcode",
	// long passwords that agree on a long prefix: a verifier (or hasher) that looks only at the first
	// 72 / 128 / 255 bytes cannot tell them apart
	strings.Repeat("k", 127) + "A" + strings.Repeat("t", 38),
	strings.Repeat("k", 127) + "A" + strings.Repeat("u", 38),
	strings.Repeat("q", 72) + "1",
	strings.Repeat("q", 72) + "2",
	strings.Repeat("z", 255) + "x" + strings.Repeat("y", 40),
	strings.Repeat("z", 255) + "w" + strings.Repeat("y", 40),
	// the documented default password of the shipped admin row (db/migrations): it verifies against nothing once the
	// row holds another hash, for any user name
	"placeholder",
}

const tokDefaultPw = 10

func pwString(tok int) string {
	if tok < 0 {
		return ""
	}
	return pwStrings[tok]
}

// a cheap but genuine argon2id PHC string for a password (same format ParsePHC reads)
func cheapHash(pw string, saltSeed byte) string {
	salt := make([]byte, 16)
	for i := range salt {
		salt[i] = saltSeed + byte(i)*7
	}
	key := argon2.IDKey([]byte(pw), salt, 1, 64, 1, 32)
	return fmt.Sprintf("$argon2id$v=19$m=64,t=1,p=1,l=32$%s$%s", base64.RawStdEncoding.EncodeToString(salt), base64.RawStdEncoding.EncodeToString(key))
}

// stored strings ParsePHC must reject (token -1-i)
func malformedHashes() []string {
	good := cheapHash(pwStrings[0], 3)
	parts := strings.Split(good, "$") // "", id, v, params, salt, hash
	long := base64.RawStdEncoding.EncodeToString(make([]byte, 18))
	longer := base64.RawStdEncoding.EncodeToString(make([]byte, 40))
	short := base64.RawStdEncoding.EncodeToString(make([]byte, 15))
	return []string{
		"$argon2id$v=19$m=64,t=1,p=1,l=32$" + long + "$" + parts[5],   // salt of 18 bytes
		"$argon2id$v=19$m=64,t=1,p=1,l=32$" + longer + "$" + parts[5], // salt of 40 bytes
		"$argon2id$v=19$m=64,t=1,p=1,l=32$" + short + "$" + parts[5],  // salt of 15 bytes
		"$argon2id$v=19$m=64,t=1,p=1,l=32$" + parts[4] + "$",          // empty hash
		"$argon2id$v=19$m=64,t=1,p=1,l=31$" + parts[4] + "$" + parts[5],
		"$argon2id$v=19$m=0,t=1,p=1$" + parts[4] + "$" + parts[5],
		"$argon2i$v=19$m=64,t=1,p=1$" + parts[4] + "$" + parts[5],
		"$argon2id$v=x$m=64,t=1,p=1$" + parts[4] + "$" + parts[5],
		"$argon2id$v=19$m=64,t=1,p=1$" + parts[4],
		"plaintext-password",
		"x",
		"$argon2id$v=19$m=64,t=1,p=1$" + parts[4] + "$!!!!",
		"$argon2id$v=19$m=64,t=1,p=1$////////////////////////////////////////////////$" + parts[5],
	}
}

// ---------- harness state ----------

type route struct {
	Method, Path string
	Auth         bool
}

type sessRow struct {
	idx int
	uid int64
	exp int64 // virtual ns
}

type harness struct {
	r      *emit.Rand
	base   string
	client *http.Client
	start  time.Time
	shift  time.Duration
	cfg    *config.Config
	dbh    db.Database
	routes []route
	paths  []string

	hashOf  map[int]string // token -> stored string written by the harness
	tokOf   map[string]int
	cfgBase string

	// per history
	sidIdx  map[string]int
	sidStr  []string
	state   map[int]string // harness' own idea of a session id: "live", "loggedout", "random"
	steps   []string
	read    []string
	canon   []string
	nontriv bool
	pending int // password token of the last change-password request (to identify the new row)

	meta      *emit.Meta
	w         *emit.Writer
	nreq      int
	lastFlush int
}

func (h *harness) vnow() int64 { return int64(time.Since(h.start) + h.shift) }

func (h *harness) advance(d time.Duration) {
	if d <= 0 {
		return
	}
	auth.VerifShiftSessions(d)
	h.shift += d
}

func (h *harness) table() []sessRow {
	var out []sessRow
	for _, s := range auth.VerifSessions() {
		idx, ok := h.sidIdx[s.ID]
		if !ok {
			idx = h.newSid(s.ID, "unknown")
		}
		out = append(out, sessRow{idx: idx, uid: s.UserID, exp: int64(s.ExpiresAt.Sub(h.start) + h.shift)})
	}
	sort.Slice(out, func(i, j int) bool { return out[i].idx < out[j].idx })
	return out
}

func (h *harness) newSid(id string, st string) int {
	idx := len(h.sidStr)
	h.sidStr = append(h.sidStr, id)
	h.sidIdx[id] = idx
	h.state[idx] = st
	return idx
}

func (h *harness) randomSid() int {
	const alpha = "ABCDEFGHIJKLMNOPQRSTUVWXYZ234567"
	b := make([]byte, 26)
	for i := range b {
		b[i] = alpha[h.r.Intn(32)]
	}
	s := string(b)
	switch h.r.Intn(6) {
	case 0:
		s = ""
	case 1:
		s = "x"
	case 2:
		s = strings.Repeat("A", 300)
	}
	if idx, ok := h.sidIdx[s]; ok {
		return idx
	}
	return h.newSid(s, "random")
}

// margin of a session in the real table: ExpiresAt - now
func (h *harness) margin(idx int) (time.Duration, bool) {
	for _, s := range auth.VerifSessions() {
		if s.ID == h.sidStr[idx] {
			return time.Until(s.ExpiresAt), true
		}
	}
	return 0, false
}

func nearBoundary(m time.Duration) bool {
	// time only moves on between the harness reading the clock and the implementation reading it: a margin can
	// only shrink. A session just past a boundary stays past it; only one shortly BEFORE a boundary can cross it.
	return (m >= 0 && m < safety) || (m >= auth.VerifExtendThreshold && m-auth.VerifExtendThreshold < safety)
}

// settle: no stored session may be within the safety distance of an expiry boundary when the
// implementation reads the clock; if one is, let 11 s pass (which moves it across) and look again.
func (h *harness) settle() {
	for tries := 0; tries < 50; tries++ {
		ok := true
		for _, s := range auth.VerifSessions() {
			if nearBoundary(time.Until(s.ExpiresAt)) {
				ok = false
			}
		}
		if ok {
			return
		}
		h.advance(11 * second)
	}
	panic("web: cannot settle the session table away from the expiry boundaries")
}

func (h *harness) ageTo(idx int, target time.Duration) bool {
	cur, ok := h.margin(idx)
	if !ok || cur-target <= 0 {
		return false
	}
	h.advance(cur - target)
	return true
}

func (h *harness) rowString(uid int64) string {
	var s string
	if err := h.dbh.Get(&s, "SELECT password_hash FROM users WHERE id = ?", uid); err != nil {
		panic(fmt.Sprintf("web: cannot read password row of user %d: %v", uid, err))
	}
	return s
}

func (h *harness) rowToken(uid int64) int {
	s := h.rowString(uid)
	if t, ok := h.tokOf[s]; ok {
		return t
	}
	p, err := phc.ParsePHC(s)
	if err != nil {
		h.tokOf[s] = -1
		return -1
	}
	cands := []int{}
	if h.pending >= 0 {
		cands = append(cands, h.pending)
	}
	for t := range pwStrings {
		cands = append(cands, t)
	}
	for _, t := range cands {
		if p.VerifyArgon2id(pwStrings[t]) {
			h.tokOf[s] = t
			return t
		}
	}
	h.tokOf[s] = 99 // a well-formed hash of no password the harness knows
	return 99
}

func (h *harness) hashes() [][2]int64 {
	return [][2]int64{{1, int64(h.rowToken(1))}, {2, int64(h.rowToken(2))}}
}

func (h *harness) setRow(uid int64, tok int) {
	s := h.hashOf[tok]
	if err := h.dbh.Exec("UPDATE users SET password_hash = ? WHERE id = ?", s, uid); err != nil {
		panic(fmt.Sprintf("web: cannot write password row: %v", err))
	}
}

func normCfg(raw []byte) (string, int64, bool) {
	var m map[string]any
	if err := json.Unmarshal(raw, &m); err != nil {
		return "", 0, false
	}
	cache, _ := m["cache"].(map[string]any)
	mem, _ := cache["memory"].(map[string]any)
	pct, ok := mem["memory_budget_percent"].(float64)
	if !ok {
		return "", 0, false
	}
	mem["memory_budget_percent"] = 0
	b, _ := json.Marshal(m)
	return string(b), int64(pct), true
}

// the configuration as one number: the probed property, or a negative code when anything else differs
func (h *harness) cfgObs() int64 {
	raw, err := json.Marshal(h.cfg)
	if err != nil {
		return -3000
	}
	n, pct, ok := normCfg(raw)
	if !ok {
		return -3001
	}
	if h.cfgBase == "" {
		h.cfgBase = n
	}
	if n != h.cfgBase {
		return -1000
	}
	if int(pct) != h.cfg.Cache.Memory.MemoryBudgetPercent.Read() {
		return -1001
	}
	if fraw, err := os.ReadFile("var/config.json"); err == nil {
		fn, fpct, ok := normCfg(fraw)
		if !ok || fn != h.cfgBase || fpct != pct {
			return -2000
		}
	}
	return pct
}

// ---------- requests ----------

type body struct {
	kind    string // none login change config
	user    string
	pw, pw2 int
	v       int
	rawNone string
}

func (b body) coq() string {
	switch b.kind {
	case "login":
		return fmt.Sprintf("(BLogin %s %s)", emit.PStr(b.user), emit.Z(int64(b.pw)))
	case "change":
		return fmt.Sprintf("(BChange %s %s)", emit.Z(int64(b.pw)), emit.Z(int64(b.pw2)))
	case "config":
		return fmt.Sprintf("(BConfig %d)", b.v)
	}
	return "BNone"
}

func (b body) bytes() []byte {
	switch b.kind {
	case "login":
		j, _ := json.Marshal(map[string]string{"username": b.user, "password": pwString(b.pw)})
		return j
	case "change":
		j, _ := json.Marshal(map[string]string{"current_password": pwString(b.pw), "new_password": pwString(b.pw2)})
		return j
	case "config":
		return []byte(fmt.Sprintf(`{"cache":{"memory":{"memory_budget_percent":%d}}}`, b.v))
	}
	return []byte(b.rawNone)
}

func (b body) String() string {
	switch b.kind {
	case "login":
		return fmt.Sprintf("login(%q,pw%d)", b.user, b.pw)
	case "change":
		return fmt.Sprintf("change(pw%d->pw%d)", b.pw, b.pw2)
	case "config":
		return fmt.Sprintf("config(%d)", b.v)
	}
	return fmt.Sprintf("raw(%q)", b.rawNone)
}

type req struct {
	method, path string
	cookie       int // -1 = none
	origin, site string
	body         body
}

func tableCoq(t []sessRow) string {
	items := make([]string, len(t))
	for i, s := range t {
		items[i] = fmt.Sprintf("(%d,(%d,%s))", s.idx, s.uid, emit.Z(s.exp))
	}
	return "[" + strings.Join(items, ";") + "]"
}

func hashesCoq(hs [][2]int64) string {
	items := make([]string, len(hs))
	for i, x := range hs {
		items[i] = fmt.Sprintf("(%d,%s)", x[0], emit.Z(x[1]))
	}
	return "[" + strings.Join(items, ";") + "]"
}

func (h *harness) cookieState(idx int) string {
	if idx < 0 {
		return "absent"
	}
	st := h.state[idx]
	if st != "live" {
		return st
	}
	m, ok := h.margin(idx)
	switch {
	case !ok:
		return "collected"
	case m <= 0:
		return "expired"
	case m <= auth.VerifExtendThreshold:
		return "live-near-expiry"
	}
	return "live"
}

func marginBin(m time.Duration) string {
	switch {
	case m < -time.Hour:
		return "<-1h"
	case m < -time.Minute:
		return "-1h..-1m"
	case m < 0:
		return "-1m..0"
	case m < time.Minute:
		return "0..1m"
	case m <= auth.VerifExtendThreshold:
		return "1m..10m"
	case m <= auth.VerifExtendThreshold+time.Minute:
		return "10m..11m"
	}
	return ">11m"
}

// do sends one request and records the step. Returns the status and the index of a newly issued session (-1 if none).
func (h *harness) do(q req) (int, int) {
	h.settle()
	cstate := h.cookieState(q.cookie)
	mbin := ""
	if q.cookie >= 0 {
		if m, ok := h.margin(q.cookie); ok {
			mbin = marginBin(m)
		}
	}
	tb := h.table()
	hb := h.hashes()
	cb := h.cfgObs()
	h.pending = -1
	if q.body.kind == "change" {
		h.pending = q.body.pw2
	}

	var rdr io.Reader
	payload := q.body.bytes()
	if len(payload) > 0 || q.body.kind != "none" {
		rdr = bytes.NewReader(payload)
	}
	hr, err := http.NewRequest(q.method, h.base+q.path, rdr)
	if err != nil {
		panic(err)
	}
	if rdr != nil {
		hr.Header.Set("Content-Type", "application/json")
	}
	if q.cookie >= 0 {
		hr.Header.Set("Cookie", "reservoir.sid="+h.sidStr[q.cookie])
	}
	if q.origin != "" {
		hr.Header.Set("Origin", q.origin)
	}
	if q.site != "" {
		hr.Header.Set("Sec-Fetch-Site", q.site)
	}
	// an Authorization field is no credential here (sessions are cookies): a seventh of the requests carries one, in the
	// forms clients and scrapers send, and nothing about the answer may depend on it
	authz := ""
	if h.r.Intn(7) == 0 {
		authz = emit.Pick(h.r, []string{"Bearer", "Bearer ", "Bearer x", "bearer", "Basic YWRtaW46", "Basic", "Token", "Bearer null"})
		hr.Header.Set("Authorization", authz)
		h.meta.Count("authorization_field", authz)
	}
	timeout := 10 * time.Second
	if strings.HasSuffix(q.path, "/log/stream") {
		timeout = 1500 * time.Millisecond
	}
	ctx, cancel := context.WithTimeout(context.Background(), timeout)
	now := h.vnow()
	cl := h.client
	if strings.HasSuffix(q.path, "/log/stream") {
		// the SSE handler runs until the client goes away: use a connection of its own and drop it
		cl = &http.Client{Transport: &http.Transport{DisableKeepAlives: true}, CheckRedirect: h.client.CheckRedirect}
	}
	resp, err := cl.Do(hr.WithContext(ctx))
	status := 0
	newSid := -1
	if err == nil {
		status = resp.StatusCode
		for _, c := range resp.Cookies() {
			if c.Name == "reservoir.sid" && c.Value != "" {
				if idx, ok := h.sidIdx[c.Value]; ok {
					newSid = idx
				} else {
					newSid = h.newSid(c.Value, "live")
				}
			}
		}
		if !strings.HasSuffix(q.path, "/log/stream") {
			io.Copy(io.Discard, io.LimitReader(resp.Body, 1<<20))
		}
		resp.Body.Close()
	}
	cancel()
	if cl != h.client {
		cl.CloseIdleConnections()
	}
	if status == 204 && q.method == "POST" && strings.HasSuffix(q.path, "/auth/logout") && q.cookie >= 0 {
		h.state[q.cookie] = "loggedout"
	}
	ta := h.table()
	ha := h.hashes()
	ca := h.cfgObs()

	fresh := newSid
	if fresh < 0 {
		fresh = len(h.sidStr) + 100000 // an id no session of this history ever gets
	}
	cookie := "None"
	if q.cookie >= 0 {
		cookie = fmt.Sprintf("(Some %d)", q.cookie)
	}
	ns := "None"
	if newSid >= 0 {
		ns = fmt.Sprintf("(Some %d)", newSid)
	}
	h.steps = append(h.steps, fmt.Sprintf("WReq %s (Q %s %s %s %s %s %s %d %d) (W %d %s %s %s %s %s %s %s)",
		emit.Z(now), q.method, emit.PStr(q.path), cookie, emit.PStr(q.origin), emit.PStr(q.site), q.body.coq(), fresh, status,
		status, ns, tableCoq(tb), tableCoq(ta), hashesCoq(hb), hashesCoq(ha), emit.Z(cb), emit.Z(ca)))
	desc := fmt.Sprintf("%s %s cookie=%s", q.method, q.path, cstate)
	if q.cookie >= 0 {
		desc += fmt.Sprintf("#%d", q.cookie)
	}
	if mbin != "" {
		desc += "(margin " + mbin + ")"
	}
	if q.origin != "" || q.site != "" {
		desc += fmt.Sprintf(" origin=%q site=%q", q.origin, q.site)
	}
	if authz != "" {
		desc += fmt.Sprintf(" authorization=%q", authz)
	}
	if q.body.kind != "none" || q.body.rawNone != "" {
		desc += " body=" + q.body.String()
	}
	desc += fmt.Sprintf(" -> %d", status)
	if newSid >= 0 {
		desc += fmt.Sprintf(" set-cookie #%d", newSid)
	}
	if len(ta) != len(tb) {
		desc += fmt.Sprintf(" sessions %d->%d", len(tb), len(ta))
	}
	h.read = append(h.read, desc)
	h.canon = append(h.canon, fmt.Sprintf("%s %s %s %q %q %s", q.method, q.path, cstate, q.origin, q.site, q.body.String()))
	if q.cookie >= 0 && cstate != "random" || q.origin != "" {
		h.nontriv = true
	}
	h.nreq++
	h.meta.Count("method", q.method)
	h.meta.Count("cookie", cstate)
	if mbin != "" {
		h.meta.Count("cookie_margin", mbin)
	}
	h.meta.Count("status", strconv.Itoa(status))
	h.meta.Count("origin_site", fmt.Sprintf("origin=%s site=%s", originClass(q.origin, h.base), q.site))
	h.meta.Count("body", q.body.kind)
	return status, newSid
}

func originClass(o, base string) string {
	switch o {
	case "":
		return "absent"
	case base:
		return "own"
	case "null":
		return "null"
	}
	return "foreign"
}

func (h *harness) gc() {
	h.settle()
	now := h.vnow()
	auth.VerifRunGC(time.Now())
	h.steps = append(h.steps, "WGC "+emit.Z(now))
	h.read = append(h.read, "GC pass")
	h.canon = append(h.canon, "gc")
	h.meta.Count("op", "gc")
}

func (h *harness) setHash(uid int64, tok int) {
	h.setRow(uid, tok)
	t := tok
	if t < 0 {
		t = -1
	}
	h.steps = append(h.steps, fmt.Sprintf("WSetHash %d %s", uid, emit.Z(int64(t))))
	h.read = append(h.read, fmt.Sprintf("stored hash of user %d := token %d", uid, tok))
	h.canon = append(h.canon, fmt.Sprintf("sethash %d %d", uid, tok))
	h.meta.Count("op", "sethash")
	if tok < 0 {
		h.meta.Count("stored_hash", "malformed")
	} else {
		h.meta.Count("stored_hash", "wellformed")
	}
}

func (h *harness) pass(d time.Duration, why string) {
	h.advance(d)
	h.read = append(h.read, fmt.Sprintf("clock +%s (%s)", d.Round(time.Millisecond), why))
	h.canon = append(h.canon, "advance "+why)
	h.meta.Count("op", "advance")
}

// ---------- histories ----------

func (h *harness) begin() {
	auth.VerifResetSessions()
	h.setRow(1, 0)
	h.setRow(2, 1)
	if h.cfg.Cache.Memory.MemoryBudgetPercent.Read() != 75 {
		if _, err := config.UpdatePartialFromConfig(h.cfg, map[string]any{"cache": map[string]any{"memory": map[string]any{"memory_budget_percent": float64(75)}}}); err != nil {
			panic(err)
		}
	}
	h.sidIdx = map[string]int{}
	h.sidStr = nil
	h.state = map[int]string{}
	h.steps, h.read, h.canon = nil, nil, nil
	h.nontriv = false
}

func (h *harness) end(kind string) {
	if len(h.steps) == 0 {
		return
	}
	rts := make([]string, len(h.routes))
	for i, r := range h.routes {
		rts[i] = fmt.Sprintf("R %s %s %s", r.Method, emit.PStr(r.Path), emit.Bool(r.Auth))
	}
	users := fmt.Sprintf("[(%s,1,0);(%s,2,1)]", emit.PStr("admin"), emit.PStr("bob"))
	h.w.Add(fmt.Sprintf("WC [%s]\n   %s 75\n   [ %s ]", strings.Join(rts, "; "), users, strings.Join(h.steps, "\n   ; ")))
	h.meta.Count("history_kind", kind)
	h.meta.Count("history_len", lenBin(len(h.steps)))
	h.meta.Record(strings.Join(h.canon, "|"), h.nontriv, map[string]any{"kind": kind, "steps": h.read})
	if h.nreq-h.lastFlush > 450 {
		h.w.Flush()
		h.lastFlush = h.nreq
	}
}

func lenBin(n int) string {
	switch {
	case n <= 5:
		return "1-5"
	case n <= 20:
		return "6-20"
	case n <= 60:
		return "21-60"
	}
	return "61+"
}

func (h *harness) login(user string, pw int, cookie int) (int, int) {
	return h.do(req{method: "POST", path: "/api/auth/login", cookie: cookie, body: body{kind: "login", user: user, pw: pw}})
}

func (h *harness) mustLogin() int {
	st, sid := h.login("admin", h.rowToken(1), -1)
	if st != 200 || sid < 0 {
		// not a harness failure: the observation is in the case file and the model will disagree
		return -1
	}
	return sid
}

var allMethods = []string{"GET", "HEAD", "POST", "PUT", "PATCH", "DELETE", "OPTIONS"}

func (h *harness) defaultBody(method, path string) body {
	switch {
	case method == "POST" && path == "/api/auth/login":
		return body{kind: "login", user: "admin", pw: 2} // a wrong password
	case method == "PATCH" && path == "/api/auth/change-password":
		return body{kind: "change", pw: 0, pw2: 3}
	case method == "PATCH" && path == "/api/config":
		return body{kind: "config", v: 10 + h.r.Intn(80)}
	}
	return body{kind: "none"}
}

var margins = []time.Duration{30 * time.Minute, auth.VerifExtendThreshold + 8*second, auth.VerifExtendThreshold - 8*second, 60 * second, 8 * second,
	-8 * second, -60 * second, -30 * time.Minute, -2 * time.Hour, -100 * time.Hour,
	// expired by less than a second (time only moves on: still expired whenever the request arrives)
	-400 * time.Millisecond, -30 * time.Millisecond}

// G1: every path x method under one cookie state (one history per state and path)
func (h *harness) gridCookieStates() {
	extra := []string{"/api/nope", "/api", "/api/", "/", "/api/auth", "/api/config/nope"}
	states := []string{"absent", "random", "loggedout", "expired-400ms", "expired-8s", "expired-30m", "expired-2h-collected", "live", "live-near-expiry"}
	for _, st := range states {
		for _, p := range append(append([]string{}, h.paths...), extra...) {
			h.begin()
			cookie := -1
			prepare := func() {
				switch st {
				case "absent":
					cookie = -1
				case "random":
					cookie = h.randomSid()
				case "loggedout":
					cookie = h.mustLogin()
					if cookie >= 0 {
						h.do(req{method: "POST", path: "/api/auth/logout", cookie: cookie, body: body{kind: "none"}})
					}
				case "expired-400ms":
					cookie = h.mustLogin()
					if cookie >= 0 {
						h.ageTo(cookie, -400*time.Millisecond)
					}
				case "expired-8s":
					cookie = h.mustLogin()
					if cookie >= 0 {
						h.ageTo(cookie, -8*second)
					}
				case "expired-30m":
					cookie = h.mustLogin()
					if cookie >= 0 {
						h.ageTo(cookie, -30*time.Minute)
					}
				case "expired-2h-collected":
					cookie = h.mustLogin()
					if cookie >= 0 {
						h.ageTo(cookie, -2*time.Hour)
						h.gc()
					}
				case "live":
					cookie = h.mustLogin()
				case "live-near-expiry":
					cookie = h.mustLogin()
					if cookie >= 0 {
						h.ageTo(cookie, 5*time.Minute)
					}
				}
			}
			prepare()
			for _, m := range allMethods {
				if strings.HasSuffix(p, "/log/stream") && strings.HasPrefix(st, "live") && (m == "GET" || m == "HEAD") && !thorough() && h.r.Chance(50) {
					continue // the SSE stream answers only after its first tick; keep a sample
				}
				b := h.defaultBody(m, p)
				if st == "live" && m == "PATCH" && p == "/api/auth/change-password" {
					b = body{kind: "change", pw: h.rowToken(1), pw2: (h.rowToken(1) + 1) % len(pwStrings)}
				}
				h.do(req{method: m, path: p, cookie: cookie, body: b})
				if strings.HasPrefix(st, "live") && cookie >= 0 && h.state[cookie] != "live" {
					prepare() // the grid itself logged the session out: take a new one
				}
			}
			h.end("grid-cookie-" + st)
		}
	}
}

var origins = []string{"", "http://evil.example", "null", "OWN"}
var sites = []string{"", "same-origin", "same-site", "none", "cross-site", "Same-Origin", "cross-origin", "x"}

// G2: Origin x Sec-Fetch-Site x method x cookie on a few routes (one history per cookie, origin and site)
func (h *harness) gridHarden() {
	paths := []string{"/api/version", "/api/auth/logout", "/api/auth/login", "/api/config", "/api/nope"}
	methods := []string{"GET", "POST", "PATCH", "OPTIONS", "HEAD"}
	for _, live := range []bool{false, true} {
		for _, o := range origins {
			if o == "OWN" {
				o = h.base
			}
			for _, s := range sites {
				h.begin()
				cookie := -1
				if live {
					cookie = h.mustLogin()
				}
				for _, m := range methods {
					for pi, p := range paths {
						if !thorough() && pi > 0 && !h.r.Chance(25) {
							continue
						}
						b := h.defaultBody(m, p)
						if p == "/api/auth/login" && m == "POST" && h.r.Bool() {
							b = body{kind: "login", user: "admin", pw: h.rowToken(1)}
						}
						h.do(req{method: m, path: p, cookie: cookie, origin: o, site: s, body: b})
						if live && cookie >= 0 && h.state[cookie] != "live" {
							cookie = h.mustLogin()
						}
					}
				}
				h.end(fmt.Sprintf("grid-harden-live=%v", live))
			}
		}
	}
}

// G3: every expiry margin x every registered route, then a second look
func (h *harness) gridMargins() {
	for _, mg := range margins {
		for _, rt := range h.routes {
			if strings.HasSuffix(rt.Path, "/log/stream") && mg > 0 && !thorough() && !h.r.Chance(30) {
				continue
			}
			h.begin()
			sid := h.mustLogin()
			if sid < 0 {
				h.end("margin-login-failed")
				continue
			}
			h.ageTo(sid, mg)
			if mg < -time.Hour && h.r.Bool() {
				h.gc()
			}
			b := h.defaultBody(rt.Method, rt.Path)
			if rt.Path == "/api/auth/login" && h.r.Bool() {
				b = body{kind: "login", user: "admin", pw: 0}
			}
			h.do(req{method: rt.Method, path: rt.Path, cookie: sid, body: b})
			h.do(req{method: "GET", path: "/api/auth/me", cookie: sid, body: body{kind: "none"}})
			if h.r.Chance(30) {
				h.pass(time.Duration(1+h.r.Intn(50))*time.Minute, "later")
				h.do(req{method: "GET", path: "/api/version", cookie: sid, body: body{kind: "none"}})
			}
			h.end("margin")
		}
	}
}

// G4: login matrix: stored hash x user name x password x body shape
func (h *harness) gridLogin() {
	nMal := len(malformedHashes())
	toks := []int{0, 1}
	for i := 0; i < nMal; i++ {
		toks = append(toks, -1-i)
	}
	users := []string{"admin", "ADMIN", "Admin", "bob", "nobody", "", "admin ", "admin\x00"}
	for _, tok := range toks {
		h.begin()
		h.setHash(1, tok)
		for _, u := range users {
			for _, pw := range []int{0, 1, -1, tokDefaultPw} {
				if !thorough() && tok < 0 && u != "admin" && pw != tokDefaultPw && !h.r.Chance(20) {
					continue
				}
				_, sid := h.login(u, pw, -1)
				if sid >= 0 && h.r.Bool() {
					h.do(req{method: "GET", path: "/api/auth/me", cookie: sid, body: body{kind: "none"}})
				}
			}
		}
		// other body shapes on the login route
		for _, b := range []body{{kind: "none"}, {kind: "none", rawNone: "{"}, {kind: "none", rawNone: "not json"}, {kind: "change", pw: 0, pw2: 1}, {kind: "config", v: 5}} {
			h.do(req{method: "POST", path: "/api/auth/login", cookie: -1, body: b})
		}
		// with a live session (if one can be had) and a damaged row
		h.setHash(1, 0)
		sid := h.mustLogin()
		h.setHash(1, tok)
		if sid >= 0 {
			h.do(req{method: "POST", path: "/api/auth/login", cookie: sid, body: body{kind: "login", user: "admin", pw: 2}})
			h.do(req{method: "PATCH", path: "/api/auth/change-password", cookie: sid, body: body{kind: "change", pw: 0, pw2: 2}})
			h.do(req{method: "GET", path: "/api/auth/me", cookie: sid, body: body{kind: "none"}})
		}
		h.end("login-matrix")
	}
}

// streamVersusLogout (direct): a client keeps GET /api/log/stream open with a session that is inside its extension window
// (twice; and, third case, one that is far from it); the same cookie logs out from elsewhere. After a couple of stream ticks
// the cookie is still dead on every route.
func (h *harness) streamVersusLogout() {
	for _, remaining := range []time.Duration{5 * time.Minute, 3 * time.Minute, 40 * time.Minute} {
		h.begin()
		sid := h.mustLogin()
		if sid < 0 {
			h.end("stream-vs-logout")
			continue
		}
		cookie := "reservoir.sid=" + h.sidStr[sid]
		ctx, cancel := context.WithCancel(context.Background())
		hr, _ := http.NewRequestWithContext(ctx, "GET", h.base+"/api/log/stream", nil)
		hr.Header.Set("Cookie", cookie)
		cl := &http.Client{Transport: &http.Transport{DisableKeepAlives: true}}
		opened := make(chan int, 1)
		go func() {
			resp, err := cl.Do(hr)
			if err != nil {
				opened <- -1
				return
			}
			opened <- resp.StatusCode
			io.Copy(io.Discard, resp.Body) // until the context is cancelled
			resp.Body.Close()
		}()
		status := -1
		select {
		case status = <-opened:
		case <-time.After(4 * time.Second):
		}
		plain := func(method, path string) int {
			rq, _ := http.NewRequest(method, h.base+path, nil)
			rq.Header.Set("Cookie", cookie)
			resp, err := h.client.Do(rq)
			if err != nil {
				return -1
			}
			io.Copy(io.Discard, resp.Body)
			resp.Body.Close()
			return resp.StatusCode
		}
		// time passes with the stream open: the session (the very record the stream was opened with) comes close to its
		// expiry; the logout follows at once, before the stream's next tick
		h.ageTo(sid, remaining)
		out := plain("POST", "/api/auth/logout")
		time.Sleep(1300 * time.Millisecond) // at least two ticks of the stream
		me := plain("GET", "/api/auth/me")
		ver := plain("GET", "/api/version")
		cancel()
		h.meta.Count("stream_vs_logout", fmt.Sprintf("stream=%d logout=%d", status, out))
		if status == 200 && out >= 200 && out < 300 && (me != 401 || ver != 401) {
			h.meta.DirectFail(map[string]any{"kind": "logged-out-session-accepted", "session_remaining_at_logout": remaining.String(),
				"what":          "a session was logged out while a log stream opened with it was still running; after two stream ticks the logged-out cookie is accepted again",
				"logout_status": out, "GET /api/auth/me": me, "GET /api/version": ver})
		}
		h.end("stream-vs-logout")
	}
}

// logoutWithoutDatabase (direct): logging out needs nothing but the session table. A logout that arrives while the user
// database cannot be opened (its directory is away for a moment) still ends the session: the cookie is refused afterwards.
func (h *harness) logoutWithoutDatabase() {
	h.begin()
	sid := h.mustLogin()
	if sid < 0 {
		h.end("logout-without-database")
		return
	}
	cookie := "reservoir.sid=" + h.sidStr[sid]
	plain := func(method, path string) int {
		rq, _ := http.NewRequest(method, h.base+path, nil)
		rq.Header.Set("Cookie", cookie)
		resp, err := h.client.Do(rq)
		if err != nil {
			return -1
		}
		io.Copy(io.Discard, resp.Body)
		resp.Body.Close()
		return resp.StatusCode
	}
	if err := os.Rename("var", "var.offline"); err != nil {
		h.end("logout-without-database")
		return
	}
	out := plain("POST", "/api/auth/logout")
	os.Rename("var.offline", "var")
	me := plain("GET", "/api/auth/me")
	h.meta.Count("logout_without_database", fmt.Sprintf("logout=%d me=%d", out, me))
	if me != 401 {
		h.meta.DirectFail(map[string]any{"kind": "logged-out-session-accepted", "what": "a logout sent while the user database could not be opened did not end the session: the cookie is accepted afterwards",
			"logout_status": out, "GET /api/auth/me afterwards": me})
	}
	h.end("logout-without-database")
}

// concurrentLogins (direct): every login is judged on its OWN password. While a login with the right password is being
// checked (an expensive stored hash keeps the check busy for a while), logins of the same user with wrong passwords
// arrive: none of them may be answered with a session.
func (h *harness) concurrentLogins() {
	h.begin()
	saved := h.rowString(1)
	right := "the right password of the overlap scenario"
	salt := []byte("overlap-salt-012") // 16 bytes: the only salt length ParsePHC reads
	key := argon2.IDKey([]byte(right), salt, 4, 32*1024, 1, 32)
	costly := fmt.Sprintf("$argon2id$v=19$m=32768,t=4,p=1,l=32$%s$%s", base64.RawStdEncoding.EncodeToString(salt), base64.RawStdEncoding.EncodeToString(key))
	if err := h.dbh.Exec("UPDATE users SET password_hash = ? WHERE id = ?", costly, int64(1)); err != nil {
		panic(fmt.Sprintf("web: cannot write password row: %v", err))
	}
	post := func(pw string) (int, bool) {
		j, _ := json.Marshal(map[string]string{"username": "admin", "password": pw})
		rq, _ := http.NewRequest("POST", h.base+"/api/auth/login", bytes.NewReader(j))
		rq.Header.Set("Content-Type", "application/json")
		cl := &http.Client{Transport: &http.Transport{DisableKeepAlives: true}, Timeout: 30 * time.Second}
		resp, err := cl.Do(rq)
		if err != nil {
			return -1, false
		}
		io.Copy(io.Discard, resp.Body)
		resp.Body.Close()
		return resp.StatusCode, strings.Contains(strings.Join(resp.Header.Values("Set-Cookie"), ";"), "reservoir.sid=")
	}
	wrongAccepted, rightRefused, n := 0, 0, 0
	for round := 0; round < 3; round++ {
		var wg sync.WaitGroup
		var mu sync.Mutex
		wg.Add(1)
		go func() {
			defer wg.Done()
			if st, _ := post(right); st != 200 {
				mu.Lock()
				rightRefused++
				mu.Unlock()
			}
		}()
		for g := 0; g < 4; g++ {
			wg.Add(1)
			go func(g int) {
				defer wg.Done()
				time.Sleep(time.Duration(5+10*g) * time.Millisecond) // while the right password is being checked
				st, cookie := post(fmt.Sprintf("guess-%d-%d", round, g))
				mu.Lock()
				n++
				if st == 200 || cookie {
					wrongAccepted++
				}
				mu.Unlock()
			}(g)
		}
		wg.Wait()
	}
	h.dbh.Exec("UPDATE users SET password_hash = ? WHERE id = ?", saved, int64(1))
	h.meta.Count("concurrent_logins", fmt.Sprintf("wrong=%d accepted=%d", n, wrongAccepted))
	if wrongAccepted > 0 {
		h.meta.DirectFail(map[string]any{"kind": "wrong-password-accepted", "what": fmt.Sprintf("%d of %d logins with a WRONG password were answered with a session; each arrived while a login of the same user with the right password was being checked", wrongAccepted, n)})
	}
	if rightRefused > 0 {
		h.meta.DirectFail(map[string]any{"kind": "right-password-refused", "what": fmt.Sprintf("%d of 3 logins with the right password were refused while wrong-password logins of the same user overlapped them", rightRefused)})
	}
	h.end("concurrent-logins")
}

// G5: random histories over the whole alphabet
func (h *harness) randomHistory() {
	h.begin()
	n := 8 + h.r.Intn(25)
	pickCookie := func() int {
		switch {
		case len(h.sidStr) == 0 || h.r.Chance(15):
			if h.r.Chance(40) {
				return h.randomSid()
			}
			return -1
		default:
			return h.r.Intn(len(h.sidStr))
		}
	}
	for i := 0; i < n; i++ {
		switch k := h.r.Intn(100); {
		case k < 14:
			u := emit.Pick(h.r, []string{"admin", "admin", "admin", "bob", "ADMIN", "nobody"})
			pw := h.r.Intn(len(pwStrings))
			if h.r.Chance(60) {
				uid := int64(1)
				if u == "bob" {
					uid = 2
				}
				if t := h.rowToken(uid); t >= 0 && t < len(pwStrings) {
					pw = t
				}
			}
			c := -1
			if h.r.Chance(25) {
				c = pickCookie()
			}
			h.login(u, pw, c)
		case k < 22:
			h.do(req{method: "POST", path: "/api/auth/logout", cookie: pickCookie(), body: body{kind: "none"}})
		case k < 30:
			cur := h.r.Intn(len(pwStrings))
			if h.r.Chance(60) {
				if t := h.rowToken(1); t >= 0 && t < len(pwStrings) {
					cur = t
				}
			}
			nw := h.r.Intn(len(pwStrings))
			if h.r.Chance(10) {
				nw = -1
			}
			h.do(req{method: "PATCH", path: "/api/auth/change-password", cookie: pickCookie(), body: body{kind: "change", pw: cur, pw2: nw}})
		case k < 38:
			b := body{kind: "config", v: 1 + h.r.Intn(99)}
			if h.r.Chance(15) {
				b = body{kind: "none", rawNone: "{"}
			}
			h.do(req{method: "PATCH", path: "/api/config", cookie: pickCookie(), body: b})
		case k < 62:
			rt := emit.Pick(h.r, h.routes)
			if strings.HasSuffix(rt.Path, "/log/stream") && h.r.Chance(80) {
				rt = h.routes[0]
			}
			m := rt.Method
			if h.r.Chance(20) {
				m = emit.Pick(h.r, allMethods)
			}
			q := req{method: m, path: rt.Path, cookie: pickCookie(), body: h.defaultBody(m, rt.Path)}
			if h.r.Chance(25) {
				q.origin = emit.Pick(h.r, origins)
				if q.origin == "OWN" {
					q.origin = h.base
				}
				q.site = emit.Pick(h.r, sites)
			}
			h.do(q)
		case k < 80:
			// move the clock: to a chosen margin of some session, or by a random amount
			if len(h.sidStr) > 0 && h.r.Chance(70) {
				idx := h.r.Intn(len(h.sidStr))
				mg := emit.Pick(h.r, margins)
				if h.ageTo(idx, mg) {
					h.read = append(h.read, fmt.Sprintf("clock -> session #%d at margin %s", idx, mg))
					h.canon = append(h.canon, fmt.Sprintf("ageto %d %s", idx, mg))
					h.meta.Count("op", "advance")
					break
				}
			}
			h.pass(time.Duration(h.r.Intn(90))*time.Minute+time.Duration(h.r.Intn(60))*second, "random")
		case k < 88:
			h.gc()
		case k < 94:
			tok := h.r.Intn(len(pwStrings))
			if h.r.Chance(40) {
				tok = -1 - h.r.Intn(len(malformedHashes()))
			}
			h.setHash(int64(1+h.r.Intn(2)), tok)
		default:
			h.do(req{method: emit.Pick(h.r, allMethods), path: emit.Pick(h.r, []string{"/api/nope", "/", "/api", "/api/auth/login/x"}), cookie: pickCookie(), body: body{kind: "none"}})
		}
	}
	h.end("random")
}

func freePort() string {
	l, err := net.Listen("tcp", "127.0.0.1:0")
	if err != nil {
		panic(err)
	}
	addr := l.Addr().String()
	l.Close()
	return addr
}

func main() {
	flag.Parse()
	if err := os.MkdirAll(*flagOut, 0755); err != nil {
		panic(err)
	}
	// the scratch working directory belongs to this run: start from an empty var/
	os.RemoveAll("var")
	os.MkdirAll("var", 0755)

	cfg, err := config.LoadOrDefault("var/config.json")
	if err != nil {
		panic(err)
	}
	logging.Init(cfg)
	if err := db.MigrateDatabases(); err != nil {
		panic(err)
	}

	ws := webserver.New()
	a := api.New(cfg)
	if err := ws.Register(a); err != nil {
		panic(err)
	}
	addr := freePort()
	errChan := make(chan error, 1)
	ctx, stop := context.WithCancel(context.Background())
	ws.Listen(addr, errChan, ctx)
	for i := 0; ; i++ {
		c, err := net.DialTimeout("tcp", addr, time.Second)
		if err == nil {
			c.Close()
			break
		}
		select {
		case e := <-errChan:
			panic(fmt.Sprintf("web: webserver failed to listen: %v", e))
		default:
		}
		if i > 200 {
			panic("web: webserver did not come up")
		}
		time.Sleep(10 * time.Millisecond)
	}

	dbh, err := db.OpenMainDatabase()
	if err != nil {
		panic(err)
	}
	h := &harness{
		r: emit.NewRand(*flagSeed), base: "http://" + addr, start: time.Now(), cfg: cfg, dbh: dbh,
		client: &http.Client{CheckRedirect: func(*http.Request, []*http.Request) error { return http.ErrUseLastResponse }},
		hashOf: map[int]string{}, tokOf: map[string]int{}, pending: -1,
		meta: emit.NewMeta("web", *flagSeed, *flagTier),
	}
	h.w = &emit.Writer{Dir: *flagOut, Prefix: "web", ShardSize: 1 << 30,
		Imports:  "From Coq Require Import Uint63.\nFrom Reservoir Require Import Base.Prelude Base.Packed Model.Auth Check.Auth.",
		CaseType: "web_case", CheckFn: "check_web"}
	for t, pw := range pwStrings {
		h.hashOf[t] = cheapHash(pw, byte(11*t+1))
		h.tokOf[h.hashOf[t]] = t
	}
	for i, s := range malformedHashes() {
		h.hashOf[-1-i] = s
		h.tokOf[s] = -1
	}
	// the row the migration created must be the documented default (password "placeholder"): not one of ours
	if err := dbh.Exec("INSERT INTO users (username, password_hash) VALUES ('bob', ?) ON CONFLICT(username) DO NOTHING", h.hashOf[1]); err != nil {
		panic(err)
	}
	seen := map[string]bool{}
	for _, r := range a.VerifRoutes() {
		h.routes = append(h.routes, route{r.Method, r.Path, r.RequiresAuth})
		if !seen[r.Path] {
			seen[r.Path] = true
			h.paths = append(h.paths, r.Path)
		}
	}
	rj, _ := json.MarshalIndent(map[string]any{"routes": h.routes}, "", " ")
	os.WriteFile(*flagOut+"/routes_runtime.json", rj, 0644)

	h.meta.Rule = "histories of HTTP requests against the running dashboard webserver (Harden -> ServeMux -> WrapHandler -> endpoint): " +
		"grid = every registered path + 6 unregistered x {GET,HEAD,POST,PUT,PATCH,DELETE,OPTIONS} under each cookie state " +
		"{absent, random, logged-out, expired by 8 s / 30 min / 2 h+GC, live, live near expiry}; Origin x Sec-Fetch-Site x method x {no cookie, live}; " +
		"every registered route x 10 expiry margins (-100 h .. +30 min, 8 s either side of expiry and of the extension threshold); login matrix stored hash " +
		"(2 valid, 13 malformed) x user name x password x body shape; random histories (8-32 ops: login, logout, change-password, config patch, any route, clock, GC, stored-hash edits). " +
		"distinct by the op list without instants; non-trivial = presents the cookie of a session that was issued at some time (live, expired or logged out) or an Origin header"

	h.gridCookieStates()
	h.gridHarden()
	h.gridMargins()
	h.gridLogin()
	n := 100
	if thorough() {
		n = 1500
	}
	for i := 0; i < n; i++ {
		h.randomHistory()
	}
	h.streamVersusLogout()
	h.logoutWithoutDatabase()
	h.concurrentLogins()
	h.w.Flush()
	h.meta.Exhaustive = false
	h.meta.Write(*flagOut, h.w.Files)
	stop()
	fmt.Printf("web: %d histories, %d requests (%d distinct, %d non-trivial histories) in %d files\n", h.meta.Total, h.nreq, h.meta.Distinct, h.meta.Nontrivial, len(h.w.Files))
}
