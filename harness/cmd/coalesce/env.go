package main

import (
	"bufio"
	"context"
	"crypto/tls"
	"errors"
	"fmt"
	"io"
	"log"
	"log/slog"
	"net"
	"net/http"
	"net/http/httptest"
	"os"
	"runtime"
	"strconv"
	"strings"
	"sync"
	"sync/atomic"
	"time"

	"reservoir/config"
	"reservoir/proxy"
)

// ---------------------------------------------------------------------------
// answer kinds of the gated origin (same order as Model/Coalesce.v akind)

type kind int

const (
	kCacheable kind = iota
	kNoStore
	kNotFound
	kNotModified
	kAbortBody
)

var kindCoq = []string{"KCacheable", "KNoStore", "KNotFound", "KNotModified", "KAbortBody"}
var kindName = []string{"cacheable", "no-store", "404", "304", "abort-mid-body"}

// ---------------------------------------------------------------------------
// self-describing bodies: "RSV1 <path> ver=<v> len=<L>\n" + filler derived from (v, offset)

func fillByte(ver, i int) byte { return byte('a' + (i*7+ver*3)%23) }

func makeBody(path string, ver, total int) []byte {
	head := fmt.Sprintf("RSV1 %s ver=%d len=%d\n", path, ver, total)
	if total < len(head) {
		total = len(head)
		head = fmt.Sprintf("RSV1 %s ver=%d len=%d\n", path, ver, total)
		for total < len(head) { // digits grew
			total = len(head)
			head = fmt.Sprintf("RSV1 %s ver=%d len=%d\n", path, ver, total)
		}
	}
	b := make([]byte, total)
	copy(b, head)
	for i := len(head); i < total; i++ {
		b[i] = fillByte(ver, i)
	}
	return b
}

// decodeBody returns (version, state): state 0 = complete and correct, 1 = a proper prefix of a
// correct body (truncated), 2 = anything else.
func decodeBody(path string, b []byte) (int, int) {
	nl := -1
	for i, c := range b {
		if c == '\n' {
			nl = i
			break
		}
		if i > 200 {
			break
		}
	}
	if nl < 0 {
		return -1, 2
	}
	var p string
	var ver, total int
	if _, err := fmt.Sscanf(string(b[:nl]), "RSV1 %s ver=%d len=%d", &p, &ver, &total); err != nil || p != path {
		return -1, 2
	}
	if len(b) > total {
		return ver, 2
	}
	for i := nl + 1; i < len(b); i++ {
		if b[i] != fillByte(ver, i) {
			return ver, 2
		}
	}
	if len(b) < total {
		return ver, 1
	}
	return ver, 0
}

// ---------------------------------------------------------------------------
// gated origin: per path (= per schedule) state

type originReq struct {
	Serial int  `json:"serial"`
	Client int  `json:"client"`
	Cond   bool `json:"conditional"`
	Kind   kind `json:"-"`
}

type pathOrigin struct {
	mu       sync.Mutex
	path     string
	priming  bool
	serial   int
	script   []kind // answer to request i (1-based) = script[i-1], last one repeated
	bodyLen  int
	log      []originReq
	gateHead bool // request 1 waits for headRelease before answering
	gateBody bool // request 1 waits for bodyRelease in the middle of its body
	// channels of request 1
	seen        chan struct{}
	headRelease chan struct{}
	halfDone    chan struct{}
	bodyRelease chan struct{}
}

func newPathOrigin(path string) *pathOrigin {
	return &pathOrigin{path: path, seen: make(chan struct{}), headRelease: make(chan struct{}),
		halfDone: make(chan struct{}), bodyRelease: make(chan struct{})}
}

func closeOnce(ch chan struct{}) {
	defer func() { recover() }()
	select {
	case <-ch:
	default:
		close(ch)
	}
}

type env struct {
	backend  string
	cacheDir string
	origin   *httptest.Server
	proxySrv *httptest.Server
	px       *proxy.Proxy
	cancel   context.CancelFunc
	paths    sync.Map // path -> *pathOrigin
	ctxs     sync.Map // "path#client" -> context.Context of the proxy-side request
	host     string   // origin host:port
	// yield control (one schedule at a time)
	yieldMu      sync.Mutex
	yieldHold    bool
	yieldArrived atomic.Int32
	yieldRelease chan struct{}
}

type fakeCA struct{}

func (fakeCA) GetCertForHost(host string) (*tls.Certificate, error) {
	return nil, errors.New("no CONNECT in this harness")
}

const gateTimeout = 6 * time.Second

func (e *env) originHandler(w http.ResponseWriter, r *http.Request) {
	v, ok := e.paths.Load(r.URL.Path)
	if !ok {
		http.Error(w, "unknown path", 500)
		return
	}
	po := v.(*pathOrigin)
	cl, _ := strconv.Atoi(r.Header.Get("X-Verif-Client"))
	cond := r.Header.Get("If-None-Match") != "" || r.Header.Get("If-Modified-Since") != ""

	po.mu.Lock()
	if po.priming {
		po.mu.Unlock()
		body := makeBody(po.path, 0, po.bodyLen)
		w.Header().Set("Cache-Control", "max-age=3600")
		w.Header().Set("ETag", `"v0"`)
		w.Header().Set("Content-Length", strconv.Itoa(len(body)))
		w.Write(body)
		return
	}
	po.serial++
	serial := po.serial
	k := po.script[len(po.script)-1]
	if serial-1 < len(po.script) {
		k = po.script[serial-1]
	}
	if k == kNotModified && !cond {
		k = kCacheable // a 304 only ever answers a conditional request
	}
	po.log = append(po.log, originReq{Serial: serial, Client: cl, Cond: cond, Kind: k})
	gateHead := po.gateHead && serial == 1
	gateBody := po.gateBody && serial == 1
	po.mu.Unlock()

	if serial == 1 {
		closeOnce(po.seen)
	}
	if gateHead {
		select {
		case <-po.headRelease:
		case <-r.Context().Done():
			return
		case <-time.After(gateTimeout):
		}
	}
	body := makeBody(po.path, serial, po.bodyLen)
	switch k {
	case kNotModified:
		w.Header().Set("ETag", `"v0"`)
		w.WriteHeader(http.StatusNotModified)
		return
	case kNoStore:
		w.Header().Set("Cache-Control", "no-store")
	case kNotFound:
		w.Header().Set("Cache-Control", "max-age=3600")
	default:
		w.Header().Set("Cache-Control", "max-age=3600")
		w.Header().Set("ETag", fmt.Sprintf(`"v%d"`, serial))
	}
	w.Header().Set("Content-Length", strconv.Itoa(len(body)))
	if k == kNotFound {
		w.WriteHeader(http.StatusNotFound)
	}
	half := len(body) / 2
	w.Write(body[:half])
	if f, ok := w.(http.Flusher); ok {
		f.Flush()
	}
	if serial == 1 {
		closeOnce(po.halfDone)
	}
	if gateBody {
		select {
		case <-po.bodyRelease:
		case <-r.Context().Done():
			return
		case <-time.After(gateTimeout):
		}
	}
	if k == kAbortBody {
		panic(http.ErrAbortHandler)
	}
	w.Write(body[half:])
}

func newEnv(backend string) *env {
	e := &env{backend: backend}
	slog.SetDefault(slog.New(slog.NewTextHandler(io.Discard, &slog.HandlerOptions{Level: slog.Level(100)})))

	e.origin = httptest.NewUnstartedServer(http.HandlerFunc(e.originHandler))
	e.origin.Config.ErrorLog = log.New(io.Discard, "", 0)
	e.origin.Start()
	e.host = strings.TrimPrefix(e.origin.URL, "http://")

	cfg := config.NewDefault()
	cfg.Proxy.UpstreamDefaultHttps.Overwrite(false)
	cfg.Proxy.RetryOnRange416.Overwrite(false)
	cfg.Proxy.CachePolicy.IgnoreCacheControl.Overwrite(false)
	cfg.Proxy.CachePolicy.ForceDefaultMaxAge.Overwrite(false)
	cfg.Cache.LockShards.Overwrite(32)
	if backend == "file" {
		dir, err := os.MkdirTemp(".", "c05cache")
		if err != nil {
			panic(err)
		}
		e.cacheDir = dir
		cfg.Cache.File.Dir.Overwrite(dir)
		cfg.Cache.Type.Overwrite(config.CacheTypeFile)
	} else {
		cfg.Cache.Type.Overwrite(config.CacheTypeMemory)
	}
	ctx, cancel := context.WithCancel(context.Background())
	e.cancel = cancel
	p, err := proxy.NewProxy(cfg, fakeCA{}, ctx)
	if err != nil {
		panic(err)
	}
	e.px = p
	// The proxy's own handler, unchanged; the wrapper only remembers the request context per
	// client so that the harness can wait until the server has noticed a disconnect.
	e.proxySrv = httptest.NewUnstartedServer(http.HandlerFunc(func(w http.ResponseWriter, r *http.Request) {
		if id := r.Header.Get("X-Verif-Client"); id != "" {
			e.ctxs.Store(r.URL.Path+"#"+id, r.Context())
		}
		p.ServeHTTP(w, r)
	}))
	e.proxySrv.Config.ErrorLog = log.New(io.Discard, "", 0)
	e.proxySrv.Start()

	proxy.VerifSetYield(func(point string) {
		if point != "fetch.afterDo" {
			return
		}
		e.yieldMu.Lock()
		hold := e.yieldHold
		rel := e.yieldRelease
		e.yieldMu.Unlock()
		if !hold {
			return
		}
		e.yieldArrived.Add(1)
		select {
		case <-rel:
		case <-time.After(gateTimeout):
		}
	})
	return e
}

func (e *env) close() {
	proxy.VerifSetYield(nil)
	e.proxySrv.Close()
	e.origin.Close()
	e.cancel()
	e.px.Destroy()
	if e.cacheDir != "" {
		os.RemoveAll(e.cacheDir)
	}
}

// ---------------------------------------------------------------------------
// clients (raw sockets, so that a disconnect is a real connection close)

type clientObs struct {
	Gone      bool   `json:"gone,omitempty"`
	Status    int    `json:"status,omitempty"`
	Ver       int    `json:"ver"`
	BodyState int    `json:"body_state"` // 0 complete, 1 truncated, 2 other
	NoResp    bool   `json:"no_response,omitempty"`
	Err       string `json:"err,omitempty"`
}

type client struct {
	id     int
	conn   net.Conn
	gone   atomic.Bool
	done   chan struct{}
	obs    clientObs
	slow   bool
	slowGo chan struct{}
}

const clientWatchdog = 8 * time.Second

func (e *env) startClient(path string, id int, slow bool) *client {
	c := &client{id: id, done: make(chan struct{}), slow: slow, slowGo: make(chan struct{})}
	proxyAddr := strings.TrimPrefix(e.proxySrv.URL, "http://")
	conn, err := net.DialTimeout("tcp", proxyAddr, 3*time.Second)
	if err != nil {
		c.obs = clientObs{NoResp: true, Err: "dial: " + err.Error()}
		close(c.done)
		return c
	}
	c.conn = conn
	if slow {
		if tc, ok := conn.(*net.TCPConn); ok {
			tc.SetReadBuffer(256 << 10) // keep the kernel from absorbing the body on the reader's behalf
		}
	}
	conn.SetDeadline(time.Now().Add(clientWatchdog))
	go func() {
		defer close(c.done)
		defer conn.Close()
		req := fmt.Sprintf("GET http://%s%s HTTP/1.1\r\nHost: %s\r\nX-Verif-Client: %d\r\nConnection: close\r\n\r\n", e.host, path, e.host, id)
		if _, err := conn.Write([]byte(req)); err != nil {
			c.obs = clientObs{NoResp: true, Err: "write: " + err.Error()}
			return
		}
		br := bufio.NewReaderSize(conn, 64<<10)
		resp, err := http.ReadResponse(br, nil)
		if err != nil {
			c.obs = clientObs{NoResp: true, Err: "head: " + err.Error()}
			return
		}
		if c.slow {
			// a slow reader: stalls with the body unread until everybody else is done, then
			// dribbles the first bytes one at a time
			select {
			case <-c.slowGo:
			case <-time.After(4 * time.Second):
			}
			conn.SetDeadline(time.Now().Add(clientWatchdog))
			one := make([]byte, 1)
			var first []byte
			for i := 0; i < 12; i++ {
				n, err := resp.Body.Read(one)
				first = append(first, one[:n]...)
				if err != nil {
					break
				}
				time.Sleep(time.Millisecond)
			}
			rest, rerr := io.ReadAll(resp.Body)
			c.finish(path, resp.StatusCode, append(first, rest...), rerr)
			return
		}
		body, rerr := io.ReadAll(resp.Body)
		c.finish(path, resp.StatusCode, body, rerr)
	}()
	return c
}

func (c *client) finish(path string, status int, body []byte, rerr error) {
	ver, st := decodeBody(path, body)
	c.obs = clientObs{Status: status, Ver: ver, BodyState: st}
	if rerr != nil {
		c.obs.Err = "body: " + rerr.Error()
		if st == 0 {
			// all announced bytes arrived yet the transfer reported an error
			c.obs.BodyState = 2
		}
	}
}

// disconnect closes the client's connection and waits until the proxy's server has
// noticed (the request context is cancelled).
func (e *env) disconnect(path string, c *client) bool {
	c.gone.Store(true)
	if c.conn != nil {
		if tc, ok := c.conn.(*net.TCPConn); ok {
			tc.SetLinger(0)
		}
		c.conn.Close()
	}
	deadline := time.Now().Add(3 * time.Second)
	for time.Now().Before(deadline) {
		if v, ok := e.ctxs.Load(path + "#" + strconv.Itoa(c.id)); ok {
			select {
			case <-v.(context.Context).Done():
				return true
			default:
			}
		}
		time.Sleep(200 * time.Microsecond)
	}
	return false
}

// ---------------------------------------------------------------------------
// how many goroutines are parked inside singleflight.Group.Do waiting for the leader

var stackBuf = make([]byte, 8<<20)

func waitersInDo() int {
	n := runtime.Stack(stackBuf, true)
	cnt := 0
	for _, g := range strings.Split(string(stackBuf[:n]), "\n\n") {
		if strings.Contains(g, "singleflight.(*Group).Do") && strings.Contains(g, "sync.(*WaitGroup).Wait") {
			cnt++
		}
	}
	return cnt
}

func waitFor(cond func() bool, d time.Duration) bool {
	deadline := time.Now().Add(d)
	for {
		if cond() {
			return true
		}
		if time.Now().After(deadline) {
			return false
		}
		time.Sleep(300 * time.Microsecond)
	}
}

func waitChan(ch chan struct{}, d time.Duration) bool {
	select {
	case <-ch:
		return true
	case <-time.After(d):
		return false
	}
}
