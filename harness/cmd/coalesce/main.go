// coalesce: forced-schedule correspondence harness for C05 (request coalescing).
// A REAL reservoir proxy runs in-process in front of a gated origin; every schedule of the
// catalogue is forced with the origin's gates, the fetch.afterDo yield point and connection
// closes, and is written out as one action list of Model/Coalesce.v plus what every client
// and the origin observed.
// Usage: coalesce -seed N -tier quick|thorough -out DIR [-only substr] [-v]
package main

import (
	"encoding/json"
	"flag"
	"fmt"
	"io"
	"net/http"
	"net/url"
	"os"
	"sort"
	"strings"
	"time"

	"verifharness/emit"
)

var (
	flagSeed = flag.Int64("seed", 1, "PRNG seed")
	flagTier = flag.String("tier", "quick", "quick|thorough")
	flagOut  = flag.String("out", ".", "output directory")
	flagOnly = flag.String("only", "", "run only schedules whose name contains this")
	flagV    = flag.Bool("v", false, "print every schedule")
)

type sched struct {
	Name    string   `json:"name"`
	Backend string   `json:"backend"`
	N       int      `json:"n"`
	KS      string   `json:"key_state"`  // cold | fresh | stale
	Script  []string `json:"script"`     // origin answers by request number, last repeated
	Disc    string   `json:"disconnect"` // none | leader@gated | follower@gated | leader@midbody | follower@yield
	DiscWho int      `json:"disconnect_who"`
	Evict   bool     `json:"evict_at_yield"`
	Age     bool     `json:"age_at_yield"`     // the stored entry outlives its lifetime between the shared return and the callers' own re-Get
	Slow    int      `json:"slow_reader"`      // client id of the slow reader, -1 none
	Mid     bool     `json:"arrival_mid_body"` // the last overlapping client arrives between the response head and the store
	Late    int      `json:"late_arrivals"`    // further clients, one after the other, after everybody else is done
	BodyLen int      `json:"body_len"`
	script  []kind
}

type result struct {
	Sched    sched             `json:"schedule"`
	Actions  []string          `json:"actions"`
	Obs      map[int]clientObs `json:"clients"`
	Origin   []originReq       `json:"origin_requests"`
	Answers  []string          `json:"answers"`
	Notes    []string          `json:"notes,omitempty"`
	actions  []string
	nClients int
}

var pathSeq int

func (e *env) prime(po *pathOrigin) (string, error) {
	before := map[string]bool{}
	for _, k := range e.px.VerifCache().VerifKeys() {
		before[k] = true
	}
	po.mu.Lock()
	po.priming = true
	po.mu.Unlock()
	pu, _ := url.Parse(e.proxySrv.URL)
	hc := &http.Client{Transport: &http.Transport{Proxy: http.ProxyURL(pu), DisableKeepAlives: true}, Timeout: 5 * time.Second}
	resp, err := hc.Get("http://" + e.host + po.path)
	if err != nil {
		return "", err
	}
	b, _ := io.ReadAll(resp.Body)
	resp.Body.Close()
	po.mu.Lock()
	po.priming = false
	po.mu.Unlock()
	if v, st := decodeBody(po.path, b); resp.StatusCode != 200 || v != 0 || st != 0 {
		return "", fmt.Errorf("priming answer status %d ver %d state %d", resp.StatusCode, v, st)
	}
	for _, k := range e.px.VerifCache().VerifKeys() {
		if !before[k] {
			return k, nil
		}
	}
	return "", fmt.Errorf("priming stored nothing")
}

func (e *env) keyOf(before map[string]bool) string {
	for _, k := range e.px.VerifCache().VerifKeys() {
		if !before[k] {
			return k
		}
	}
	return ""
}

// runSchedule forces one schedule and returns the model action list with the observations.
func (e *env) runSchedule(sd sched) *result {
	pathSeq++
	path := fmt.Sprintf("/c05/%s/%d", e.backend, pathSeq)
	po := newPathOrigin(path)
	po.script = sd.script
	po.bodyLen = sd.BodyLen
	e.paths.Store(path, po)
	res := &result{Sched: sd, Obs: map[int]clientObs{}}
	note := func(f string, a ...any) { res.Notes = append(res.Notes, fmt.Sprintf(f, a...)) }
	act := func(a string) { res.actions = append(res.actions, a) }

	before := map[string]bool{}
	for _, k := range e.px.VerifCache().VerifKeys() {
		before[k] = true
	}
	keyHex := ""
	if sd.KS != "cold" {
		k, err := e.prime(po)
		if err != nil {
			note("priming failed: %v", err)
		}
		keyHex = k
		if sd.KS == "stale" {
			// max-age=3600 stored; two hours pass
			e.px.VerifCache().VerifAge(2 * time.Hour)
		}
	}

	clients := make([]*client, sd.N)
	finishAll := func() {
		// unblock everything that may still be gated, collect observations
		closeOnce(po.headRelease)
		closeOnce(po.bodyRelease)
		e.yieldMu.Lock()
		if e.yieldRelease != nil {
			closeOnce(e.yieldRelease)
		}
		e.yieldHold = false
		e.yieldMu.Unlock()
		var others []*client
		for _, c := range clients {
			if c != nil && !c.slow {
				others = append(others, c)
			}
		}
		for _, c := range others {
			if !waitChan(c.done, clientWatchdog+time.Second) {
				note("client %d never finished", c.id)
			}
		}
		for _, c := range clients {
			if c != nil && c.slow {
				closeOnce(c.slowGo)
				if !waitChan(c.done, clientWatchdog+5*time.Second) {
					note("slow client %d never finished", c.id)
				}
			}
		}
		for _, c := range clients {
			if c == nil {
				continue
			}
			if c.gone.Load() {
				res.Obs[c.id] = clientObs{Gone: true}
				continue
			}
			select {
			case <-c.done:
				res.Obs[c.id] = c.obs
			default:
				if c.conn != nil {
					c.conn.Close()
				}
				res.Obs[c.id] = clientObs{NoResp: true, Err: "watchdog"}
			}
		}
		// no goroutine of this schedule may stay parked in Do
		if !waitFor(func() bool { return waitersInDo() == 0 }, 3*time.Second) {
			note("goroutines still parked in singleflight.Do after the schedule")
		}
		po.mu.Lock()
		res.Origin = append([]originReq{}, po.log...)
		po.mu.Unlock()
		// the callers' own upstream fetches, in the order the origin saw them
		for _, r := range res.Origin {
			if r.Serial >= 2 || sd.KS == "fresh" {
				act(fmt.Sprintf("FollowerFallback %d %s", r.Client, kindCoq[r.Kind]))
			}
		}
		// late arrivals: one client at a time, each run to completion. Nothing overlaps, so the
		// first request the origin sees from such a client is its flight's, a second one its own fetch.
		for i := 0; i < sd.Late && len(res.Notes) == 0; i++ {
			id := sd.N + i
			seenBefore := len(res.Origin)
			c := e.startClient(path, id, false)
			if !waitChan(c.done, clientWatchdog+time.Second) {
				note("late client %d never finished", id)
			}
			res.Obs[id] = c.obs
			po.mu.Lock()
			res.Origin = append([]originReq{}, po.log...)
			po.mu.Unlock()
			mine := res.Origin[seenBefore:]
			act(fmt.Sprintf("Arrive %d", id))
			act("LeaderLookup")
			if len(mine) >= 1 {
				act("OriginAnswer " + kindCoq[mine[0].Kind])
				act("LeaderStore")
			}
			act("FlightReturn")
			for _, r := range mine[min(1, len(mine)):] {
				act(fmt.Sprintf("FollowerFallback %d %s", r.Client, kindCoq[r.Kind]))
			}
			act(fmt.Sprintf("Respond %d", id))
		}
		for _, r := range res.Origin {
			res.Answers = append(res.Answers, kindName[r.Kind])
		}
		res.Actions = res.actions
		res.nClients = sd.N
	}

	if sd.KS == "fresh" {
		// Nothing can be gated on a fresh key: every client is answered from the cache whether or
		// not it happened to share a flight, so the outcome does not depend on the overlap; the
		// model run is the sequential one.
		for i := 0; i < sd.N; i++ {
			clients[i] = e.startClient(path, i, sd.Slow == i)
		}
		for i := 0; i < sd.N; i++ {
			act(fmt.Sprintf("Arrive %d", i))
			act("LeaderLookup")
			act("FlightReturn")
			act(fmt.Sprintf("Respond %d", i))
		}
		finishAll()
		return res
	}

	po.gateHead = true
	firstKind := sd.script[0]
	po.gateBody = firstKind == kCacheable || firstKind == kAbortBody
	hold := sd.Evict || sd.Age || sd.Disc == "follower@yield"
	e.yieldMu.Lock()
	e.yieldHold = hold
	e.yieldRelease = make(chan struct{})
	e.yieldArrived.Store(0)
	e.yieldMu.Unlock()

	// 1. the leader: the client whose request the gated origin has seen
	clients[0] = e.startClient(path, 0, sd.Slow == 0)
	act("Arrive 0")
	if !waitChan(po.seen, 5*time.Second) {
		note("origin never saw the leader's request")
		finishAll()
		return res
	}
	act("LeaderLookup")
	// 2. followers, until every one of them is parked inside Do
	gated := sd.N - 1
	if sd.Mid {
		gated = sd.N - 2
	}
	for i := 1; i <= gated; i++ {
		clients[i] = e.startClient(path, i, sd.Slow == i)
		act(fmt.Sprintf("Arrive %d", i))
	}
	originReqs := func() int {
		po.mu.Lock()
		defer po.mu.Unlock()
		return po.serial
	}
	// (a second origin request while the first is gated means the callers are not being coalesced:
	// no point in waiting for them to park)
	if !waitFor(func() bool { return waitersInDo() == gated || originReqs() > 1 }, 3*time.Second) || originReqs() > 1 {
		note("followers did not all enter Do (%d of %d parked, %d origin requests)", waitersInDo(), gated, originReqs())
		finishAll()
		return res
	}
	// 3. disconnect while the origin is gated
	if sd.Disc == "leader@gated" || sd.Disc == "follower@gated" {
		if !e.disconnect(path, clients[sd.DiscWho]) {
			note("server did not notice the disconnect of %d", sd.DiscWho)
		}
		act(fmt.Sprintf("Disconnect %d", sd.DiscWho))
	}
	// 4. the origin answers
	close(po.headRelease)
	act("OriginAnswer " + kindCoq[firstKind])
	if po.gateBody {
		if waitChan(po.halfDone, 1500*time.Millisecond) {
			if sd.Mid {
				// one more client joins while the body is half sent
				id := sd.N - 1
				clients[id] = e.startClient(path, id, sd.Slow == id)
				act(fmt.Sprintf("Arrive %d", id))
				if !waitFor(func() bool { return waitersInDo() == sd.N-1 }, 5*time.Second) {
					note("the mid-body arrival did not enter Do")
				}
			}
			if sd.Disc == "leader@midbody" {
				// the response head is on its way to (or already at) the proxy, half the body is unsent
				time.Sleep(2 * time.Millisecond)
				if !e.disconnect(path, clients[0]) {
					note("server did not notice the disconnect of the leader")
				}
				act("Disconnect 0")
			}
		} else {
			note("origin never reached the middle of the body")
		}
		close(po.bodyRelease)
	}
	act("LeaderStore")
	act("FlightReturn")
	// 5. everybody is back from Do and held at the yield point
	if hold {
		if !waitFor(func() bool { return int(e.yieldArrived.Load()) == sd.N }, 5*time.Second) {
			note("only %d of %d callers reached fetch.afterDo", e.yieldArrived.Load(), sd.N)
		}
		if sd.Evict {
			if keyHex == "" {
				keyHex = e.keyOf(before)
			}
			if keyHex != "" {
				e.px.VerifDeleteKey(keyHex)
			}
			act("Evict")
		}
		if sd.Age {
			// not an action of the model: what the shared fetch returned stays what every caller is owed,
			// however long the transfer took relative to the entry's lifetime
			e.px.VerifCache().VerifAge(2 * time.Hour)
		}
		if sd.Disc == "follower@yield" {
			if !e.disconnect(path, clients[sd.DiscWho]) {
				note("server did not notice the disconnect of %d", sd.DiscWho)
			}
			act(fmt.Sprintf("Disconnect %d", sd.DiscWho))
		}
		e.yieldMu.Lock()
		closeOnce(e.yieldRelease)
		e.yieldMu.Unlock()
	}
	finishAll()
	return res
}

// ---------------------------------------------------------------------------
// catalogue

func kindsOf(names []string) []kind {
	out := make([]kind, len(names))
	for i, n := range names {
		for j, kn := range kindName {
			if kn == n {
				out[i] = kind(j)
			}
		}
	}
	return out
}

func catalogue(r *emit.Rand, tier string, backend string) []sched {
	var out []sched
	ns := []int{2, 3, 5}
	if tier == "thorough" {
		ns = []int{2, 3, 5, 20}
	}
	type combo struct {
		ks    string
		first string
	}
	combos := []combo{
		{"cold", "cacheable"}, {"cold", "no-store"}, {"cold", "404"}, {"cold", "abort-mid-body"},
		{"stale", "304"}, {"stale", "cacheable"}, {"stale", "no-store"}, {"stale", "404"}, {"stale", "abort-mid-body"},
	}
	discs := []string{"none", "leader@gated", "follower@gated", "leader@midbody", "follower@yield"}
	tailKinds := []string{"cacheable", "no-store", "404", "304"}
	add := func(s sched) {
		s.Backend = backend
		s.script = kindsOf(s.Script)
		s.Name = fmt.Sprintf("%s/N%d/%s/%s/%s/evict=%v/age=%v/slow=%d/mid=%v/late=%d", backend, s.N, s.KS, strings.Join(s.Script[:1], ""), s.Disc, s.Evict, s.Age, s.Slow, s.Mid, s.Late)
		out = append(out, s)
	}
	for _, n := range ns {
		for _, cb := range combos {
			if backend == "file" && cb.first == "abort-mid-body" {
				// a failed overwrite on the file backend currently also destroys the old entry
				// (defects of C12/C01, repaired there); what a cut body does to the store is not C05's subject
				continue
			}
			bodyGated := cb.first == "cacheable" || cb.first == "abort-mid-body"
			for _, d := range discs {
				if d == "leader@midbody" && !bodyGated {
					// the proxy does not read the body of an answer it will not store: the flight is
					// over as soon as the head is in, there is no such point to force
					continue
				}
				for _, ev := range []bool{false, true} {
					mid := bodyGated && n >= 3 && r.Chance(35)
					late := 0
					if r.Chance(40) {
						late = 1 + r.Intn(2)
					}
					// answers to the callers' own fetches and to late flights (requests 2, 3, ...): seed-dependent
					script := []string{cb.first}
					for i := 0; i < n+1+2*late; i++ {
						script = append(script, emit.Pick(r, tailKinds))
					}
					who := 0
					switch d {
					case "follower@gated":
						g := n - 1
						if mid {
							g = n - 2
						}
						who = 1 + r.Intn(g)
					case "follower@yield":
						who = 1 + r.Intn(n-1)
					}
					add(sched{N: n, KS: cb.ks, Script: script, Disc: d, DiscWho: who, Evict: ev, Slow: -1, Mid: mid, Late: late, BodyLen: 40 + r.Intn(3000)})
				}
			}
			// a slow reader (a follower, or the leader) among otherwise undisturbed clients
			slow := r.Intn(n)
			script := []string{cb.first}
			for i := 0; i < n+1; i++ {
				script = append(script, emit.Pick(r, tailKinds))
			}
			bl := 40 + r.Intn(3000)
			if cb.first == "cacheable" || cb.first == "304" {
				bl = 10<<20 + r.Intn(1<<20) // larger than the socket buffers: the proxy's write to the slow reader blocks
			}
			if n == 20 {
				bl = 40 + r.Intn(3000)
			}
			add(sched{N: n, KS: cb.ks, Script: script, Disc: "none", Evict: false, Slow: slow, BodyLen: bl})
		}
		for _, cb := range []combo{{"cold", "cacheable"}, {"stale", "304"}, {"stale", "cacheable"}} {
			script := []string{cb.first}
			for i := 0; i < n+1; i++ {
				script = append(script, "cacheable")
			}
			add(sched{N: n, KS: cb.ks, Script: script, Disc: "none", Age: true, Slow: -1, BodyLen: 40 + r.Intn(3000)})
		}
		add(sched{N: n, KS: "fresh", Script: []string{"cacheable"}, Disc: "none", Slow: -1, BodyLen: 40 + r.Intn(3000)})
		add(sched{N: n, KS: "fresh", Script: []string{"cacheable"}, Disc: "none", Slow: r.Intn(n), BodyLen: 10 << 20})
	}
	return out
}

// ---------------------------------------------------------------------------
// emission

func coqObs(o clientObs) string {
	switch {
	case o.Gone:
		return "OGone"
	case o.NoResp:
		return "ONoResponse"
	}
	b := "BOther"
	if o.BodyState == 0 {
		b = fmt.Sprintf("(BComplete %s)", emit.Z(int64(o.Ver)))
	} else if o.BodyState == 1 {
		b = "BTruncated"
	}
	return fmt.Sprintf("(OResp %d %s)", o.Status, b)
}

func coqCase(r *result) string {
	ks := map[string]string{"cold": "Cold", "fresh": "Fresh", "stale": "Stale"}[r.Sched.KS]
	var acts []string
	for _, a := range r.actions {
		if strings.Contains(a, " ") {
			a = "(" + a + ")"
		}
		acts = append(acts, a)
	}
	var cl []string
	ids := make([]int, 0, len(r.Obs))
	for id := range r.Obs {
		ids = append(ids, id)
	}
	sort.Ints(ids)
	for _, id := range ids {
		cl = append(cl, fmt.Sprintf("(%d, %s)", id, coqObs(r.Obs[id])))
	}
	cond := 0
	var answers []string
	for _, q := range r.Origin {
		if q.Cond {
			cond++
		}
		answers = append(answers, kindCoq[q.Kind])
	}
	return fmt.Sprintf("CC %s %s %s %d %d %s %s", ks, emit.List(acts), emit.List(cl), len(r.Origin), cond,
		emit.List(answers), emit.Bool(r.Sched.Evict))
}

func main() {
	flag.Parse()
	if err := os.MkdirAll(*flagOut, 0755); err != nil {
		panic(err)
	}
	r := emit.NewRand(*flagSeed)
	meta := emit.NewMeta("coalesce/C05", *flagSeed, *flagTier)
	meta.Rule = "forced schedules (N, key state, first origin answer, who disconnects and when, eviction at fetch.afterDo, slow reader, an arrival between response head and store, late arrivals after the flight); answers to the callers' own fetches, body sizes, the disconnecting follower and the slow reader drawn from the seed; distinct by schedule tuple; non-trivial = at least two clients overlap in one flight (every cold/stale schedule)"
	w := &emit.Writer{Dir: *flagOut, Prefix: "coal", ShardSize: 100,
		Imports:  "From Reservoir Require Import Base.Prelude Model.Coalesce Check.Coalesce.",
		CaseType: "coal_case", CheckFn: "check_coalesce"}

	backends := []string{"memory", "file"}
	t0 := time.Now()
	stuck, skipped := 0, 0
	const maxStuck = 25
	for _, be := range backends {
		e := newEnv(be)
		cat := catalogue(r, *flagTier, be)
		if *flagTier == "thorough" {
			for rep := 0; rep < 2; rep++ { // further draws of the seed-dependent choices
				cat = append(cat, catalogue(r, *flagTier, be)...)
			}
		}
		for _, sd := range cat {
			if *flagOnly != "" && !strings.Contains(sd.Name, *flagOnly) {
				continue
			}
			if stuck >= maxStuck {
				// the implementation no longer follows the forced schedules at all; what has been
				// recorded so far is evaluated, the rest of the catalogue would only burn watchdog time
				skipped++
				continue
			}
			res := e.runSchedule(sd)
			if len(res.Notes) > 0 {
				stuck++
			}
			w.Add(coqCase(res))
			meta.Count("n", fmt.Sprint(sd.N))
			meta.Count("key_state", sd.KS)
			meta.Count("first_answer", sd.Script[0])
			meta.Count("disconnect", sd.Disc)
			meta.Count("evict_at_yield", fmt.Sprint(sd.Evict))
			meta.Count("slow_reader", fmt.Sprint(sd.Slow >= 0))
			meta.Count("arrival_mid_body", fmt.Sprint(sd.Mid))
			meta.Count("late_arrivals", fmt.Sprint(sd.Late))
			meta.Count("backend", be)
			meta.Count("origin_requests", fmt.Sprint(len(res.Origin)))
			meta.Record(fmt.Sprintf("%s|%v|%d|%d", sd.Name, sd.Script, sd.DiscWho, sd.BodyLen), sd.KS != "fresh", res)
			if *flagV {
				b, _ := json.Marshal(res)
				fmt.Println(string(b))
			}
		}
		e.close()
	}
	w.Flush()
	meta.Write(*flagOut, w.Files)
	fmt.Printf("coalesce/C05: %d schedules in %d files, %d with harness notes, %d skipped, %.1fs\n", w.Total, len(w.Files), stuck, skipped, time.Since(t0).Seconds())
}
