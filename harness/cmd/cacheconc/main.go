// cacheconc: genuinely concurrent readers/writers on the REAL cache backends with
// self-describing bodies (C01 search support), and the forced "two overlapping stores of
// one key" schedule that checks the per-key exclusion Model/Store.v assumes.
// Decided by the harness itself ("direct" stage).
// Usage: cacheconc -seed N -tier quick|thorough -out DIR
package main

import (
	"bytes"
	"context"
	"encoding/json"
	"flag"
	"fmt"
	"hash/crc32"
	"io"
	"log/slog"
	"os"
	"path/filepath"
	"strconv"
	"strings"
	"sync"
	"time"

	"reservoir/cache"
	"reservoir/config"
	"reservoir/metrics"
	"reservoir/utils/bytesize"
	"verifharness/emit"
)

var (
	flagSeed = flag.Int64("seed", 1, "PRNG seed")
	flagTier = flag.String("tier", "quick", "quick|thorough")
	flagOut  = flag.String("out", ".", "output directory")
)

type meta struct {
	Key     int
	Version int
	Len     int
}

type hooks interface {
	cache.Cache[meta]
	cache.VerifHooks
}

// body = blocks "<key>:<version>:<len>:<blockno>;" padded, last 8 bytes = crc32 hex of everything before.
func mkBody(key, version, n int) []byte {
	var b bytes.Buffer
	i := 0
	for b.Len() < n-8 {
		s := fmt.Sprintf("%d:%d:%d:%d;", key, version, n, i)
		if b.Len()+len(s) > n-8 {
			s = strings.Repeat(".", n-8-b.Len())
		}
		b.WriteString(s)
		i++
	}
	fmt.Fprintf(&b, "%08x", crc32.ChecksumIEEE(b.Bytes()))
	return b.Bytes()
}

// checkBody: is b a complete body some store of this key produced?
func checkBody(key int, b []byte) string {
	if len(b) < 16 {
		return fmt.Sprintf("body of %d bytes is shorter than any stored version", len(b))
	}
	sum := fmt.Sprintf("%08x", crc32.ChecksumIEEE(b[:len(b)-8]))
	if sum != string(b[len(b)-8:]) {
		// describe the splice
		parts := strings.SplitN(string(b[:40]), ";", 2)
		return fmt.Sprintf("checksum mismatch: body (%d bytes, starts %q) is not a complete stored version (truncated, extended or spliced)", len(b), parts[0])
	}
	f := strings.SplitN(string(b), ":", 4)
	if len(f) < 4 {
		return "unparseable body"
	}
	k, _ := strconv.Atoi(f[0])
	n, _ := strconv.Atoi(f[2])
	if k != key {
		return fmt.Sprintf("body belongs to key %d, requested key %d", k, key)
	}
	if n != len(b) {
		return fmt.Sprintf("body announces %d bytes but has %d", n, len(b))
	}
	return ""
}

type gated struct {
	data  []byte
	pos   int
	half  int
	mid   chan struct{}
	cont  chan struct{}
	fired bool
}

func (g *gated) Read(p []byte) (int, error) {
	if g.pos >= len(g.data) {
		return 0, io.EOF
	}
	if g.pos >= g.half && !g.fired {
		g.fired = true
		close(g.mid)
		<-g.cont
	}
	end := g.pos + 4096
	if !g.fired && end > g.half {
		end = g.half
	}
	if end > len(g.data) {
		end = len(g.data)
	}
	n := copy(p, g.data[g.pos:end])
	g.pos += n
	return n, nil
}

func newCache(backend string, cfg *config.Config, limit int64, shards int, ctx context.Context, dir string) hooks {
	cfg.Cache.MaxCacheSize.Overwrite(bytesize.ByteSize(limit))
	if backend == "file" {
		return cache.NewFileCache[meta](cfg, dir, limit, time.Hour, shards, ctx)
	}
	return cache.NewMemoryCache[meta](cfg, 50, limit, time.Hour, shards, ctx)
}

type failure struct {
	Scenario string `json:"scenario"`
	Backend  string `json:"backend"`
	Shards   int    `json:"shards"`
	What     string `json:"what"`
}

func readAll(e *cache.Entry[meta]) ([]byte, error) {
	defer e.Data.Close()
	return io.ReadAll(e.Data)
}

// overlap: store A of key k is held in the middle of its source; store B of the same key starts.
func overlap(backend string, shards int, dir string, writers int) []failure {
	var fs []failure
	cfg := config.NewDefault()
	ctx, cancel := context.WithCancel(context.Background())
	defer cancel()
	c := newCache(backend, cfg, 1<<30, shards, ctx, dir)
	defer c.Destroy()
	k := cache.FromString("overlap-key")
	n := 64 * 1024
	a := &gated{data: mkBody(7, 1, n), half: n / 2, mid: make(chan struct{}), cont: make(chan struct{})}
	var wg sync.WaitGroup
	wg.Add(1)
	go func() {
		defer wg.Done()
		if e, err := c.Cache(k, a, time.Now().Add(time.Hour), meta{7, 1, n}); err == nil && e.Data != nil {
			e.Data.Close()
		}
	}()
	select {
	case <-a.mid:
	case <-time.After(5 * time.Second):
		return append(fs, failure{"same-key-overlap", backend, shards, "store A never reached the middle of its source"})
	}
	doneB := make(chan int, writers)
	for w := 0; w < writers; w++ {
		wg.Add(1)
		go func(w int) {
			defer wg.Done()
			if e, err := c.Cache(k, bytes.NewReader(mkBody(7, 2+w, n+w*100)), time.Now().Add(time.Hour), meta{7, 2 + w, n + w*100}); err == nil && e.Data != nil {
				e.Data.Close()
			}
			doneB <- w
		}(w)
	}
	// a reader during the overlap must see nothing or a complete version
	time.Sleep(30 * time.Millisecond)
	close(a.cont)
	wg.Wait()
	e, err := c.Get(k)
	if err != nil {
		// both stores may legitimately have failed only if they returned errors; a missing entry after two successful stores is a defect
		return append(fs, failure{"same-key-overlap", backend, shards, "no entry after overlapping stores of one key: " + err.Error()})
	}
	size := e.Metadata.Size
	ver := e.Metadata.Object.Version
	b, rerr := readAll(e)
	if rerr != nil {
		fs = append(fs, failure{"same-key-overlap", backend, shards, "read error: " + rerr.Error()})
	}
	if msg := checkBody(7, b); msg != "" {
		fs = append(fs, failure{"same-key-overlap", backend, shards, "after overlapping stores of one key: " + msg})
	} else {
		f := strings.SplitN(string(b), ":", 4)
		bv, _ := strconv.Atoi(f[1])
		if int64(len(b)) != size || bv != ver {
			fs = append(fs, failure{"same-key-overlap", backend, shards, fmt.Sprintf("body is version %d (%d bytes) but is delivered with the metadata of version %d (size %d)", bv, len(b), ver, size)})
		}
	}
	return fs
}

// stress: writers, chunked readers, deleters and evictions on few keys; every body read must be one complete version of its key
func stress(backend string, shards int, dir string, r *emit.Rand, dur time.Duration) ([]failure, int) {
	cfg := config.NewDefault()
	ctx, cancel := context.WithCancel(context.Background())
	defer cancel()
	c := newCache(backend, cfg, 300*1024, shards, ctx, dir)
	defer c.Destroy()
	keys := []cache.CacheKey{cache.FromString("s0"), cache.FromString("s1"), cache.FromString("s2"), cache.FromString("s3")}
	var mu sync.Mutex
	var fs []failure
	reads := 0
	fail := func(msg string) {
		mu.Lock()
		if len(fs) < 5 {
			fs = append(fs, failure{"concurrent-stress", backend, shards, msg})
		}
		mu.Unlock()
	}
	stop := time.Now().Add(dur)
	var wg sync.WaitGroup
	for w := 0; w < 3; w++ { // writers
		wg.Add(1)
		rr := emit.NewRand(int64(r.U64() >> 1))
		go func(w int) {
			defer wg.Done()
			v := w * 1000000
			for time.Now().Before(stop) {
				ki := rr.Intn(len(keys))
				v++
				n := 2000 + rr.Intn(60000)
				if e, err := c.Cache(keys[ki], &slowReader{b: mkBody(ki, v, n), step: 1 + rr.Intn(8000)}, time.Now().Add(time.Hour), meta{ki, v, n}); err == nil && e.Data != nil {
					e.Data.Close()
				}
			}
		}(w)
	}
	for w := 0; w < 4; w++ { // readers, chunked, slow
		wg.Add(1)
		rr := emit.NewRand(int64(r.U64() >> 1))
		go func() {
			defer wg.Done()
			for time.Now().Before(stop) {
				ki := rr.Intn(len(keys))
				e, err := c.Get(keys[ki])
				if err != nil {
					continue
				}
				size, m := e.Metadata.Size, e.Metadata.Object
				var b []byte
				buf := make([]byte, 1+rr.Intn(9000))
				for {
					n, rerr := e.Data.Read(buf)
					b = append(b, buf[:n]...)
					if rerr != nil {
						break
					}
					if rr.Chance(20) {
						time.Sleep(time.Duration(rr.Intn(300)) * time.Microsecond)
					}
				}
				e.Data.Close()
				mu.Lock()
				reads++
				mu.Unlock()
				if msg := checkBody(ki, b); msg != "" {
					fail("reader of key " + strconv.Itoa(ki) + ": " + msg)
				} else if int64(len(b)) != size || m.Len != len(b) || m.Key != ki || !strings.HasPrefix(string(b), fmt.Sprintf("%d:%d:", ki, m.Version)) {
					fail(fmt.Sprintf("reader of key %d: %d-byte body delivered with metadata size=%d object=%+v", ki, len(b), size, m))
				}
			}
		}()
	}
	wg.Add(1)
	rr := emit.NewRand(int64(r.U64() >> 1))
	go func() { // deletes, evictions, cleanup cycles
		defer wg.Done()
		for time.Now().Before(stop) {
			switch rr.Intn(3) {
			case 0:
				c.Delete(keys[rr.Intn(len(keys))])
			case 1:
				c.VerifEvict(100 * 1024)
			case 2:
				c.VerifCleanupCycle()
			}
			time.Sleep(time.Duration(rr.Intn(2000)) * time.Microsecond)
		}
	}()
	wg.Wait()
	return fs, reads
}

// metricDrift: a janitor cycle lands between the two counter updates of a store (byteSize first, then the
// bytes metric). At the quiescent moment after the store the reported bytes metric must equal byteSize.
func metricDrift(backend string, shards int, dir string) []failure {
	var fs []failure
	cfg := config.NewDefault()
	ctx, cancel := context.WithCancel(context.Background())
	defer cancel()
	metrics.Global.Cache.BytesCached.Set(0)
	metrics.Global.Cache.CacheEntries.Set(0)
	c := newCache(backend, cfg, 1<<30, shards, ctx, dir)
	defer c.Destroy()
	for i := 0; i < 3; i++ {
		k := cache.FromString(fmt.Sprintf("warm-%d", i))
		if e, err := c.Cache(k, bytes.NewReader(mkBody(i, 1, 300)), time.Now().Add(time.Hour), meta{i, 1, 300}); err == nil && e.Data != nil {
			e.Data.Close()
		}
	}
	fired := false
	cache.VerifSetYield(func(point string) {
		if point == "counter.betweenHalves" && !fired {
			fired = true
			c.VerifCleanupCycle() // the janitor publishes the size it reads right now
		}
	})
	k := cache.FromString("drift-key")
	if e, err := c.Cache(k, bytes.NewReader(mkBody(9, 1, 500)), time.Now().Add(time.Hour), meta{9, 1, 500}); err == nil && e.Data != nil {
		e.Data.Close()
	}
	cache.VerifSetYield(nil)
	bs, metric := c.VerifByteSize(), metrics.Global.Cache.BytesCached.Get()
	if fired && bs != metric {
		fs = append(fs, failure{"metric-drift", backend, shards, fmt.Sprintf("quiescent after a store during which a cleanup cycle ran: cache size %d bytes, reported bytes metric %d", bs, metric)})
	}
	if !fired {
		fs = append(fs, failure{"metric-drift", backend, shards, "yield point counter.betweenHalves was never reached (hook removed?)"})
	}
	return fs
}

// metricDriftOther: a complete store (or delete) of ANOTHER key on another shard lands between the two counter
// updates of a store. At quiescence the bytes metric must equal byteSize (no lost update).
func metricDriftOther(backend string, shards int, dir string) []failure {
	var fs []failure
	if shards == 1 {
		return fs // the other operation would need the shard lock the interrupted one holds
	}
	cfg := config.NewDefault()
	ctx, cancel := context.WithCancel(context.Background())
	defer cancel()
	metrics.Global.Cache.BytesCached.Set(0)
	metrics.Global.Cache.CacheEntries.Set(0)
	c := newCache(backend, cfg, 1<<30, shards, ctx, dir)
	defer c.Destroy()
	k := cache.FromString("drift-key")
	var others []cache.CacheKey
	for i := 0; len(others) < 3 && i < 500; i++ {
		o := cache.FromString(fmt.Sprintf("other-%d", i))
		if c.VerifShardOf(o.Hex) != c.VerifShardOf(k.Hex) {
			others = append(others, o)
		}
	}
	if len(others) < 3 {
		return fs
	}
	store := func(key cache.CacheKey, id, n int) {
		if e, err := c.Cache(key, bytes.NewReader(mkBody(id, 1, n)), time.Now().Add(time.Hour), meta{id, 1, n}); err == nil && e.Data != nil {
			e.Data.Close()
		}
	}
	store(others[2], 3, 120) // deleted during the second interrupted operation
	for round, during := range []func(){
		func() { store(others[0], 1, 200) },                     // a store of another key inside a store
		func() { c.Delete(others[2]); store(others[1], 2, 70) }, // a delete and a store inside an overwriting store
	} {
		fired := false
		cache.VerifSetYield(func(point string) {
			if point == "counter.betweenHalves" && !fired {
				fired = true
				cache.VerifSetYield(nil)
				during()
			}
		})
		if round == 0 {
			store(k, 9, 500)
		} else {
			store(k, 9, 900) // an overwrite with another length
		}
		cache.VerifSetYield(nil)
		bs, metric := c.VerifByteSize(), metrics.Global.Cache.BytesCached.Get()
		if fired && bs != metric {
			fs = append(fs, failure{"metric-drift-other-key", backend, shards, fmt.Sprintf("quiescent after %s during which another key was stored/deleted: cache size %d bytes, reported bytes metric %d",
				[]string{"a store", "an overwriting store"}[round], bs, metric)})
		}
		if !fired {
			fs = append(fs, failure{"metric-drift-other-key", backend, shards, "yield point counter.betweenHalves was never reached (hook removed?)"})
		}
	}
	return fs
}

type slowReader struct {
	b    []byte
	step int
}

func (s *slowReader) Read(p []byte) (int, error) {
	if len(s.b) == 0 {
		return 0, io.EOF
	}
	n := s.step
	if n > len(s.b) {
		n = len(s.b)
	}
	if n > len(p) {
		n = len(p)
	}
	copy(p, s.b[:n])
	s.b = s.b[n:]
	return n, nil
}

func main() {
	flag.Parse()
	slog.SetDefault(slog.New(slog.NewTextHandler(io.Discard, nil)))
	if err := os.MkdirAll(*flagOut, 0755); err != nil {
		panic(err)
	}
	r := emit.NewRand(*flagSeed)
	dur := 700 * time.Millisecond
	if *flagTier == "thorough" {
		dur = 6 * time.Second
	}
	failures := []failure{}
	total, reads := 0, 0
	dist := map[string]int{}
	for _, backend := range []string{"memory", "file"} {
		for _, shards := range []int{1, 3, 64} {
			for _, writers := range []int{1, 3} {
				dir := filepath.Join(*flagOut, fmt.Sprintf("o-%s-%d-%d", backend, shards, writers))
				failures = append(failures, overlap(backend, shards, dir, writers)...)
				os.RemoveAll(dir)
				total++
				dist["same-key-overlap/"+backend]++
			}
			mdir := filepath.Join(*flagOut, fmt.Sprintf("m-%s-%d", backend, shards))
			failures = append(failures, metricDrift(backend, shards, mdir)...)
			os.RemoveAll(mdir)
			total++
			dist["metric-drift/"+backend]++
			if shards > 1 {
				odir := filepath.Join(*flagOut, fmt.Sprintf("mo-%s-%d", backend, shards))
				failures = append(failures, metricDriftOther(backend, shards, odir)...)
				os.RemoveAll(odir)
				total++
				dist["metric-drift-other-key/"+backend]++
			}
			dir := filepath.Join(*flagOut, fmt.Sprintf("s-%s-%d", backend, shards))
			fs, n := stress(backend, shards, dir, r, dur)
			failures = append(failures, fs...)
			reads += n
			os.RemoveAll(dir)
			total++
			dist["concurrent-stress/"+backend]++
		}
	}
	out := map[string]any{
		"harness": "cacheconc", "seed": *flagSeed, "tier": *flagTier, "total": total, "distinct": total, "distinct_nontrivial": total,
		"rule":         "forced schedule 'store A of key k held in the middle of its source, 1 or 3 further stores of k start' + forced schedule 'a janitor cycle between the two counter updates of a store' (bytes metric = byteSize at the quiescent moment after) + forced schedule 'a store / delete of another key on another shard between the two counter updates of a store / delete' (no lost update) + concurrent stress (3 writers with slow sources, 4 chunked slow readers, deletes / evictions / cleanup cycles on 4 keys, self-describing checksummed bodies) x backends {memory,file} x shards {1,3,64}; every body read must be one complete stored version of its key, delivered with that version's size and object metadata",
		"distribution": map[string]any{"scenario": dist, "bodies_read_under_stress": map[string]int{"all": reads}},
		"samples":      []any{map[string]any{"scenario": "same-key-overlap", "backend": "file", "shards": 1}},
		"files":        []string{}, "readable": []any{},
		"direct": map[string]any{"total": total, "failures": failures, "mismatches": []any{}},
	}
	b, _ := json.MarshalIndent(out, "", " ")
	if err := os.WriteFile(filepath.Join(*flagOut, "meta.json"), b, 0644); err != nil {
		panic(err)
	}
	fmt.Printf("cacheconc: %d scenarios, %d bodies read under stress, %d failures\n", total, reads, len(failures))
}
