// race: concurrent drivers run under the Go race detector (build with -race -tags verif).
// The detector's reports (GORACE log_path) are normalised to unordered pairs of reservoir
// functions and written as "direct" failures; known_findings.json decides which are known.
// Usage: GORACE="log_path=DIR/race halt_on_error=0 exitcode=0" race -seed N -tier T -out DIR   (the driver sets GORACE itself by re-exec)
package main

import (
	"bytes"
	"context"
	"encoding/json"
	"flag"
	"fmt"
	"io"
	"os"
	"os/exec"
	"path/filepath"
	"regexp"
	"sort"
	"strings"
	"sync"
	"time"

	"reservoir/cache"
	"reservoir/config"
	"reservoir/utils/bytesize"
	"reservoir/utils/duration"
	"verifharness/e2elib"
	"verifharness/emit"
)

var (
	flagSeed  = flag.Int64("seed", 1, "PRNG seed")
	flagTier  = flag.String("tier", "quick", "quick|thorough")
	flagOut   = flag.String("out", ".", "output directory")
	flagChild = flag.String("child", "", "internal: run one driver")
)

type meta struct{ ID string }
type hooks interface {
	cache.Cache[meta]
	cache.VerifHooks
}

func body(n int, b byte) io.Reader { return bytes.NewReader(bytes.Repeat([]byte{b}, n)) }

// ---- drivers (each runs in its own child process so that reports can be attributed) ----

func driveCache(backend string, r *emit.Rand, dir string, rounds int) {
	cfg := config.NewDefault()
	ctx, cancel := context.WithCancel(context.Background())
	defer cancel()
	cfg.Cache.MaxCacheSize.Overwrite(bytesize.ByteSize(4000))
	var c hooks
	if backend == "file" {
		c = cache.NewFileCache[meta](cfg, filepath.Join(dir, "fc"), 4000, time.Millisecond, 4, ctx)
	} else {
		c = cache.NewMemoryCache[meta](cfg, 50, 4000, time.Millisecond, 4, ctx)
	}
	keys := make([]cache.CacheKey, 8)
	for i := range keys {
		keys[i] = cache.FromString(fmt.Sprintf("k%d", i))
	}
	var wg sync.WaitGroup
	stop := make(chan struct{})
	go func() {
		i := 0
		for {
			select {
			case <-stop:
				return
			case <-time.After(3 * time.Millisecond):
			}
			i++
			cfg.Cache.MaxCacheSize.Overwrite(bytesize.ByteSize(int64(3000 + 1000*(i%3))))
			if i%3 == 0 {
				// two changes in quick succession: the second arrives while the first is being applied
				cfg.Cache.CleanupInterval.Overwrite(duration.Duration(time.Duration(2+i%3) * time.Millisecond))
				cfg.Cache.CleanupInterval.Overwrite(duration.Duration(time.Duration(1+i%3) * time.Millisecond))
			}
			if i%4 == 0 {
				cfg.Cache.Memory.MemoryBudgetPercent.Overwrite(40 + i%20)
			}
		}
	}()
	for w := 0; w < 6; w++ {
		wg.Add(1)
		rr := emit.NewRand(int64(r.U64() >> 1))
		go func() {
			defer wg.Done()
			for i := 0; i < rounds; i++ {
				k := keys[rr.Intn(len(keys))]
				switch rr.Intn(7) {
				case 0, 1:
					exp := time.Now().Add(time.Duration(rr.Intn(6)-1) * time.Millisecond)
					if e, err := c.Cache(k, body(200+rr.Intn(600), 'x'), exp, meta{}); err == nil && e.Data != nil {
						e.Data.Close()
					}
				case 2, 3:
					if e, err := c.Get(k); err == nil && e.Data != nil {
						io.Copy(io.Discard, e.Data)
						e.Data.Close()
					}
				case 4:
					c.Delete(k)
				case 5:
					c.UpdateMetadata(k, func(m *cache.EntryMetadata[meta]) { m.Expires = time.Now().Add(time.Second) })
				case 6:
					c.GetMetadata(k)
				}
			}
		}()
	}
	wg.Wait()
	close(stop)
	time.Sleep(5 * time.Millisecond)
	c.Destroy()
}

// driveRevalidate: every request finds its entry stale (default lifetime forced to ~0) and revalidates
// it with a 304 while other requests are still writing their responses from the same entry.
func driveRevalidate(backend string, r *emit.Rand, dir string, rounds int) {
	e2elib.Quiet()
	env, err := e2elib.Start(e2elib.Options{Backend: backend, Dir: dir, Shards: 2, Tune: func(cfg *config.Config) {
		cfg.Proxy.CachePolicy.ForceDefaultMaxAge.Overwrite(true)
		cfg.Proxy.CachePolicy.DefaultMaxAge.Overwrite(duration.Duration(time.Nanosecond))
	}})
	if err != nil {
		panic(err)
	}
	big := bytes.Repeat([]byte("r"), 96*1024)
	env.Origin.SetHandler(func(req e2elib.OriginRequest, n int) e2elib.Answer {
		if req.Header.Get("If-None-Match") != "" {
			return e2elib.NewAnswer(304, nil, `ETag: "v"`, "Cache-Control: max-age=60", "Vary: Accept-Encoding", fmt.Sprintf("Date: %s", time.Now().UTC().Format(time.RFC1123)))
		}
		return e2elib.NewAnswer(200, big, "Cache-Control: max-age=60", `ETag: "v"`, "Vary: Accept-Encoding")
	})
	var wg sync.WaitGroup
	for w := 0; w < 16; w++ {
		wg.Add(1)
		rr := emit.NewRand(int64(r.U64() >> 1))
		go func() {
			defer wg.Done()
			for i := 0; i < rounds/3+5; i++ {
				env.DoPlain(env.PlainRequest("GET", fmt.Sprintf("/rv%d", rr.Intn(2)), nil, nil), "GET", 5*time.Second)
			}
		}()
	}
	wg.Wait()
	time.Sleep(5 * time.Millisecond)
	env.Close()
}

func driveProxy(backend string, tlsOn bool, r *emit.Rand, dir string, rounds int) {
	e2elib.Quiet()
	env, err := e2elib.Start(e2elib.Options{Backend: backend, Dir: dir, TLS: tlsOn, Shards: 2, Tune: func(cfg *config.Config) {
		cfg.Cache.CleanupInterval.Overwrite(duration.Duration(2 * time.Millisecond))
		cfg.Cache.MaxCacheSize.Overwrite(bytesize.ByteSize(20000))
	}})
	if err != nil {
		panic(err)
	}
	env.Origin.SetHandler(func(req e2elib.OriginRequest, n int) e2elib.Answer {
		if req.Header.Get("If-None-Match") != "" && n%2 == 0 {
			return e2elib.NewAnswer(304, nil, `ETag: "v"`)
		}
		// several lines of the fields the proxy itself appends to (Via, Cache-Status, X-Cache): a stored value slice with
		// spare capacity is where per-request appends would meet
		return e2elib.NewAnswer(200, bytes.Repeat([]byte("d"), 300), "Cache-Control: max-age=60", `ETag: "v"`,
			"Via: 1.1 edge-a", "Via: 1.1 edge-b", "Via: 1.1 edge-c", "Cache-Status: edge-a; hit", "Cache-Status: edge-b; fwd=miss", "Cache-Status: edge-c; hit",
			"X-Cache: HIT from edge-a", "X-Cache: MISS from edge-b", "X-Cache: HIT from edge-c")
	})
	var wg sync.WaitGroup
	stop := make(chan struct{})
	go func() { // entries go stale while requests run; settings change
		i := 0
		for {
			select {
			case <-stop:
				return
			case <-time.After(4 * time.Millisecond):
			}
			i++
			env.Proxy.VerifCache().VerifAge(2 * time.Hour)
			env.Cfg.Proxy.CachePolicy.DefaultMaxAge.Overwrite(duration.Duration(time.Duration(30+i%5) * time.Minute))
			env.Cfg.Proxy.RetryOnInvalidRange.Overwrite(i%2 == 0)
		}
	}()
	for w := 0; w < 6; w++ {
		wg.Add(1)
		rr := emit.NewRand(int64(r.U64() >> 1))
		go func() {
			defer wg.Done()
			for i := 0; i < rounds; i++ {
				path := fmt.Sprintf("/p%d", rr.Intn(4))
				var hs []string
				if rr.Chance(25) {
					hs = append(hs, fmt.Sprintf("Range: bytes=%d-%d", rr.Intn(10), 10+rr.Intn(500)))
				}
				if tlsOn {
					c, _, err := env.DialTunnel(env.Origin.Addr, "127.0.0.1", 5*time.Second)
					if err != nil {
						continue
					}
					c.Send(env.TunnelRequest("GET", path, hs, nil), 5*time.Second)
					c.Read("GET", 5*time.Second)
					c.Close()
				} else {
					env.DoPlain(env.PlainRequest("GET", path, hs, nil), "GET", 5*time.Second)
				}
			}
		}()
	}
	wg.Wait()
	close(stop)
	time.Sleep(5 * time.Millisecond)
	env.Close()
}

func driveConfig(r *emit.Rand, rounds int) {
	cfg := config.NewDefault()
	var wg sync.WaitGroup
	for w := 0; w < 4; w++ {
		wg.Add(1)
		rr := emit.NewRand(int64(r.U64() >> 1))
		go func() {
			defer wg.Done()
			var unsubs []func()
			for i := 0; i < rounds; i++ {
				switch rr.Intn(4) {
				case 0:
					u := cfg.Cache.MaxCacheSize.OnChange(func(bytesize.ByteSize) {})
					unsubs = append(unsubs, u)
				case 1:
					if len(unsubs) > 0 {
						j := rr.Intn(len(unsubs))
						unsubs[j]()
						unsubs = append(unsubs[:j], unsubs[j+1:]...)
					}
				case 2:
					cfg.Cache.MaxCacheSize.Overwrite(bytesize.ByteSize(int64(1000 + rr.Intn(1000))))
				case 3:
					_ = cfg.Cache.MaxCacheSize.Read()
				}
			}
		}()
	}
	wg.Wait()
	time.Sleep(5 * time.Millisecond)
}

var drivers = []string{"cache-memory", "cache-file", "proxy-memory-plain", "proxy-file-plain", "proxy-memory-connect", "proxy-memory-revalidate", "proxy-file-revalidate", "config-event"}

func runChild(name string, seed int64, tier, dir string) {
	r := emit.NewRand(seed)
	rounds := 150
	if tier == "thorough" {
		rounds = 1500
	}
	switch name {
	case "cache-memory":
		driveCache("memory", r, dir, rounds*2)
	case "cache-file":
		driveCache("file", r, dir, rounds*2)
	case "proxy-memory-plain":
		driveProxy("memory", false, r, dir, rounds/2)
	case "proxy-file-plain":
		driveProxy("file", false, r, dir, rounds/2)
	case "proxy-memory-connect":
		driveProxy("memory", true, r, dir, rounds/4)
	case "proxy-memory-revalidate":
		driveRevalidate("memory", r, dir, rounds)
	case "proxy-file-revalidate":
		driveRevalidate("file", r, dir, rounds)
	case "config-event":
		driveConfig(r, rounds)
	default:
		extraChild(name, r, dir, rounds)
	}
}

// ---- report normalisation ----

var frameRe = regexp.MustCompile(`^\s+(reservoir/[^\s(]+(?:\([^)]*\))?[^\s(]*)\(`)
var genericRe = regexp.MustCompile(`\[[^\]]*\]`)

type report struct {
	Pair    []string `json:"pair"`
	Kinds   []string `json:"kinds"`
	Sites   []string `json:"sites"`
	Driver  string   `json:"driver"`
	Excerpt string   `json:"excerpt,omitempty"`
}

func normFunc(f string) string {
	f = genericRe.ReplaceAllString(f, "")
	f = strings.TrimPrefix(f, "reservoir/")
	// closures: keep the enclosing function, drop .funcN suffixes
	f = regexp.MustCompile(`(\.func\d+)+(\.\d+)*$`).ReplaceAllString(f, "")
	f = regexp.MustCompile(`\.\d+$`).ReplaceAllString(f, "")
	return f
}

func parseReports(txt, driver string) []report {
	var out []report
	for _, blk := range strings.Split(txt, "==================") {
		if !strings.Contains(blk, "WARNING: DATA RACE") {
			continue
		}
		lines := strings.Split(blk, "\n")
		var kinds, funcs, sites []string
		for i := 0; i < len(lines); i++ {
			l := lines[i]
			isAcc := false
			for _, p := range []string{"Write at", "Read at", "Previous write at", "Previous read at", "Atomic write", "Previous atomic", "Atomic read"} {
				if strings.HasPrefix(l, p) {
					isAcc = true
					kinds = append(kinds, strings.ToLower(strings.TrimPrefix(strings.SplitN(l, " at ", 2)[0], "Previous ")))
				}
			}
			if !isAcc {
				continue
			}
			// first reservoir frame of this stack
			fn, site := "(outside reservoir)", ""
			for j := i + 1; j < len(lines) && strings.TrimSpace(lines[j]) != ""; j++ {
				if m := frameRe.FindStringSubmatch(lines[j]); m != nil && !strings.Contains(m[1], "verifharness") {
					fn = normFunc(m[1])
					if j+1 < len(lines) {
						s := strings.TrimSpace(lines[j+1])
						if k := strings.LastIndex(s, " +0x"); k >= 0 {
							s = s[:k]
						}
						site = filepath.Base(filepath.Dir(s)) + "/" + filepath.Base(s)
					}
					break
				}
			}
			funcs = append(funcs, fn)
			sites = append(sites, site)
		}
		if len(funcs) < 2 {
			continue
		}
		pair := []string{funcs[0], funcs[1]}
		sort.Strings(pair)
		hook := false
		for i, f := range pair {
			base := f[strings.LastIndex(f, ".")+1:]
			if strings.HasPrefix(f, "webserver/auth.VerifRunGC") {
				// the hook restates the body of the session GC loop (a closure that cannot be called)
				pair[i] = "webserver/auth.StartSessionGC(gc loop)" + strings.TrimPrefix(f, "webserver/auth.VerifRunGC")
				continue
			}
			if strings.HasPrefix(base, "Verif") || strings.HasPrefix(base, "verif") || strings.Contains(f, ".Verif") || strings.Contains(f, ".verif") {
				hook = true
			}
		}
		if hook {
			continue // one side is a verification hook (ageing etc.), not production code
		}
		sort.Strings(pair)
		ex := blk
		if len(ex) > 2500 {
			ex = ex[:2500]
		}
		out = append(out, report{Pair: pair, Kinds: kinds[:2], Sites: sites[:2], Driver: driver, Excerpt: ex})
	}
	return out
}

func main() {
	flag.Parse()
	if *flagChild != "" {
		runChild(*flagChild, *flagSeed, *flagTier, *flagOut)
		return
	}
	if err := os.MkdirAll(*flagOut, 0755); err != nil {
		panic(err)
	}
	self, _ := os.Executable()
	seen := map[string]bool{}
	var failures []report
	dist := map[string]int{}
	raw := 0
	crashed := []map[string]any{}
	all := append(append([]string{}, drivers...), extraDrivers...)
	reps := 1
	if *flagTier == "thorough" {
		reps = 3
		all = append(all, "slow-origin")
	}
	for _, d := range all {
		for rep := 0; rep < reps; rep++ {
			cdir := filepath.Join(*flagOut, "d-"+d)
			os.MkdirAll(cdir, 0755)
			cmd := exec.Command(self, "-child", d, "-seed", fmt.Sprint(*flagSeed*100+int64(rep)), "-tier", *flagTier, "-out", cdir)
			cmd.Dir = cdir
			logp := filepath.Join(cdir, "race")
			cmd.Env = append(os.Environ(), "GORACE=log_path="+logp+" halt_on_error=0 exitcode=0 history_size=3")
			var ob bytes.Buffer
			cmd.Stdout, cmd.Stderr = &ob, &ob
			done := make(chan error, 1)
			cmd.Start()
			go func() { done <- cmd.Wait() }()
			select {
			case err := <-done:
				if err != nil {
					o := ob.String()
					if len(o) > 4000 {
						o = o[len(o)-4000:]
					}
					crashed = append(crashed, map[string]any{"driver": d, "what": "driver process died: " + err.Error(), "output": o})
				}
			case <-time.After(240 * time.Second):
				cmd.Process.Kill()
				crashed = append(crashed, map[string]any{"driver": d, "what": "driver did not finish in 240s"})
			}
			dist[d]++
			files, _ := filepath.Glob(logp + ".*")
			for _, f := range files {
				b, _ := os.ReadFile(f)
				for _, rp := range parseReports(string(b), d) {
					raw++
					key := strings.Join(rp.Pair, "|")
					if !seen[key] {
						seen[key] = true
						failures = append(failures, rp)
					}
				}
			}
			os.RemoveAll(cdir)
		}
	}
	fl := []any{}
	for _, f := range failures {
		fl = append(fl, f)
	}
	for _, c := range crashed {
		fl = append(fl, c)
	}
	total := 0
	for _, n := range dist {
		total += n
	}
	out := map[string]any{
		"harness": "race", "seed": *flagSeed, "tier": *flagTier, "total": total, "distinct": total, "distinct_nontrivial": total,
		"rule":         "concurrent drivers under the Go race detector, one child process each: cache API x {memory,file} with 1 ms janitor ticks and limit/interval/budget changes; proxied requests (hits, misses, revalidations, ranges; plain and CONNECT) with ageing and policy changes; config subscribe/unsubscribe/overwrite/read; plus the per-package drivers registered in extra.go. A failure = one distinct unordered pair of reservoir functions reported by the detector (or a driver crash, e.g. concurrent map fault)",
		"distribution": map[string]any{"driver_runs": dist, "raw_reports": map[string]int{"all": raw}},
		"samples":      []any{map[string]any{"drivers": all}},
		"files":        []string{}, "readable": []any{},
		"direct": map[string]any{"total": total, "failures": fl, "mismatches": []any{}},
	}
	b, _ := json.MarshalIndent(out, "", " ")
	if err := os.WriteFile(filepath.Join(*flagOut, "meta.json"), b, 0644); err != nil {
		panic(err)
	}
	fmt.Printf("race: %d driver runs, %d raw reports, %d distinct pairs, %d crashes\n", total, raw, len(failures), len(crashed))
}
