package main

import (
	"fmt"
	"path/filepath"
	"sync"
	"time"

	"reservoir/proxy/certs"
	"reservoir/utils/syncmap"
	"reservoir/webserver/auth"
	"verifharness/e2elib"
	"verifharness/emit"
)

// Further per-package drivers: dashboard sessions, certificate issuance, the shared SyncMap.
var extraDrivers = []string{"sessions", "certs", "syncmap"}

func extraChild(name string, r *emit.Rand, dir string, rounds int) {
	switch name {
	case "sessions":
		driveSessions(r, rounds)
	case "certs":
		driveCerts(r, dir, rounds)
	case "syncmap":
		driveSyncMap(r, rounds)
	case "slow-origin":
		driveSlowOrigin(dir)
	default:
		panic("unknown driver " + name)
	}
}

// Parallel API requests of the same and of different users: create, look up (with the sliding
// extension), destroy, and the garbage collector's sweep over all sessions.
func driveSessions(r *emit.Rand, rounds int) {
	var wg sync.WaitGroup
	shared := make([]*auth.Session, 4)
	for i := range shared {
		shared[i] = auth.CreateSession(int64(i))
	}
	stop := make(chan struct{})
	go func() {
		for {
			select {
			case <-stop:
				return
			default:
			}
			auth.VerifRunGC(time.Now())
			time.Sleep(200 * time.Microsecond)
		}
	}()
	for w := 0; w < 6; w++ {
		wg.Add(1)
		rr := emit.NewRand(int64(r.U64() >> 1))
		go func() {
			defer wg.Done()
			var mine []*auth.Session
			for i := 0; i < rounds*4; i++ {
				switch rr.Intn(5) {
				case 0:
					mine = append(mine, auth.CreateSession(int64(100+rr.Intn(5))))
				case 1, 2:
					s := shared[rr.Intn(len(shared))]
					if got, ok := auth.GetSession(s.ID); ok {
						_ = got.ExpiresAt
						_ = got.UserID
					}
				case 3:
					if len(mine) > 0 {
						j := rr.Intn(len(mine))
						if got, ok := auth.GetSession(mine[j].ID); ok {
							_ = got.ExpiresAt
						}
					}
				case 4:
					if len(mine) > 0 {
						j := rr.Intn(len(mine))
						mine[j].Destroy()
						mine = append(mine[:j], mine[j+1:]...)
					}
				}
			}
		}()
	}
	// sessions close to expiry get extended by concurrent lookups
	wg.Add(1)
	go func() {
		defer wg.Done()
		for i := 0; i < rounds/10+1; i++ {
			auth.VerifShiftSessions(52 * time.Minute)
			time.Sleep(time.Millisecond)
		}
	}()
	wg.Wait()
	close(stop)
	time.Sleep(2 * time.Millisecond)
}

func driveCerts(r *emit.Rand, dir string, rounds int) {
	env, err := e2elib.Start(e2elib.Options{Backend: "memory", Dir: filepath.Join(dir, "env")})
	if err != nil {
		panic(err)
	}
	defer env.Close()
	certFile, keyFile := filepath.Join(dir, "env", "ca.crt"), filepath.Join(dir, "env", "ca.key")
	ca, err := certs.NewPrivateCA(certFile, keyFile)
	if err != nil {
		panic(err)
	}
	hosts := []string{"a.example:443", "b.example:443", "127.0.0.1:8443", "[::1]:443", "c.example:8443"}
	var wg sync.WaitGroup
	for w := 0; w < 8; w++ {
		wg.Add(1)
		rr := emit.NewRand(int64(r.U64() >> 1))
		go func() {
			defer wg.Done()
			for i := 0; i < rounds/10+3; i++ {
				h := hosts[rr.Intn(len(hosts))]
				if c, err := ca.GetCertForHost(h); err == nil && c.Leaf != nil {
					_ = c.Leaf.NotAfter
				}
			}
		}()
	}
	wg.Wait()
}

func driveSyncMap(r *emit.Rand, rounds int) {
	m := syncmap.New[string, int]()
	var wg sync.WaitGroup
	for w := 0; w < 4; w++ {
		wg.Add(1)
		rr := emit.NewRand(int64(r.U64() >> 1))
		go func() {
			defer wg.Done()
			for i := 0; i < rounds*4; i++ {
				k := fmt.Sprintf("k%d", rr.Intn(16))
				switch rr.Intn(6) {
				case 0:
					m.Set(k, i)
				case 1:
					m.Get(k)
				case 2:
					m.Delete(k)
				case 3:
					m.GetOrSet(k, i)
				case 4:
					n := 0
					for range m.Items() {
						n++
					}
				case 5:
					for kk := range m.Keys() {
						_ = kk
					}
				}
			}
		}()
	}
	wg.Wait()
}

// driveSlowOrigin (thorough tier): an origin that takes 20 s to answer — slower than any plausible internal time
// limit — asked by four clients at once for one resource and by one client for another; everybody is answered.
func driveSlowOrigin(dir string) {
	e2elib.Quiet()
	env, err := e2elib.Start(e2elib.Options{Backend: "memory", Dir: dir, Shards: 2})
	if err != nil {
		panic(err)
	}
	defer env.Close()
	env.Origin.SetHandler(func(req e2elib.OriginRequest, n int) e2elib.Answer {
		a := e2elib.NewAnswer(200, []byte("slow answer for "+req.Target), "Cache-Control: max-age=60", `ETag: "s"`)
		a.Delay = 20 * time.Second
		return a
	})
	var wg sync.WaitGroup
	for i := 0; i < 5; i++ {
		wg.Add(1)
		go func(i int) {
			defer wg.Done()
			path := "/slow/shared"
			if i == 4 {
				path = "/slow/alone"
			}
			resp, err := env.DoPlain(env.PlainRequest("GET", path, []string{"Connection: keep-alive", "X-Client: " + fmt.Sprint(i)}, nil), "GET", 60*time.Second)
			if err != nil || resp.Status != 200 || string(resp.Body) != "slow answer for "+path {
				panic(fmt.Sprintf("slow origin (20 s to answer): client %d of %s was not given the origin's answer: %v", i, path, err))
			}
		}(i)
	}
	wg.Wait()
}
