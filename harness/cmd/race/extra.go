package main

import "verifharness/emit"

// Further per-package drivers (sessions, certificates, ...) are registered here.
var extraDrivers = []string{}

func extraChild(name string, r *emit.Rand, dir string, rounds int) {
	panic("unknown driver " + name)
}
