// routes: re-extracts the dashboard API's route table from the SOURCE of the repository
// (go/ast, nothing is executed): which endpoint types api.New registers, the path each
// returns from Path(), and the (Method, RequiresAuth) pairs of its EndpointMethods()
// literal.  Output: DIR/RoutesRun.v (table + the obligation routes_guarded table = true +
// the instantiated theorem) and DIR/routes.json.  Also reports the text of the session GC
// loop, which the hook auth.VerifRunGC restates.
//
// Usage: routes -repo /repo -out DIR [-module NAME]
// Exit status 3 = the source no longer has the shape the extractor understands.
package main

import (
	"bytes"
	"encoding/json"
	"flag"
	"fmt"
	"go/ast"
	"go/parser"
	"go/printer"
	"go/token"
	"os"
	"path/filepath"
	"strconv"
	"strings"
)

type route struct {
	Method       string `json:"method"`
	Path         string `json:"path"`
	RequiresAuth bool   `json:"requires_auth"`
	Endpoint     string `json:"endpoint"`
}

func fail(format string, a ...any) {
	fmt.Fprintf(os.Stderr, "routes: "+format+"\n", a...)
	os.Exit(3)
}

func parseDir(fset *token.FileSet, dir string) []*ast.File {
	ents, err := os.ReadDir(dir)
	if err != nil {
		fail("cannot read %s: %v", dir, err)
	}
	var files []*ast.File
	for _, e := range ents {
		n := e.Name()
		if e.IsDir() || !strings.HasSuffix(n, ".go") || strings.HasSuffix(n, "_test.go") || strings.HasPrefix(n, "zz_verif") {
			continue
		}
		f, err := parser.ParseFile(fset, filepath.Join(dir, n), nil, 0)
		if err != nil {
			fail("cannot parse %s: %v", n, err)
		}
		files = append(files, f)
	}
	return files
}

func recvName(fd *ast.FuncDecl) string {
	if fd.Recv == nil || len(fd.Recv.List) != 1 {
		return ""
	}
	t := fd.Recv.List[0].Type
	if s, ok := t.(*ast.StarExpr); ok {
		t = s.X
	}
	if id, ok := t.(*ast.Ident); ok {
		return id.Name
	}
	return ""
}

// the single `return <expr>` of a method body
func soleReturn(fd *ast.FuncDecl) ast.Expr {
	if fd.Body == nil || len(fd.Body.List) != 1 {
		return nil
	}
	rs, ok := fd.Body.List[0].(*ast.ReturnStmt)
	if !ok || len(rs.Results) != 1 {
		return nil
	}
	return rs.Results[0]
}

func strLit(e ast.Expr) (string, bool) {
	bl, ok := e.(*ast.BasicLit)
	if !ok || bl.Kind != token.STRING {
		return "", false
	}
	s, err := strconv.Unquote(bl.Value)
	return s, err == nil
}

func show(fset *token.FileSet, n ast.Node) string {
	var b bytes.Buffer
	printer.Fprint(&b, fset, n)
	return strings.Join(strings.Fields(b.String()), " ")
}

var coqMeth = map[string]string{"GET": "GET", "HEAD": "HEAD", "POST": "POST", "PUT": "PUT", "PATCH": "PATCH", "DELETE": "DELETE", "OPTIONS": "OPTIONS"}

func coqStr(s string) string {
	var sb strings.Builder
	sb.WriteByte('[')
	for i := 0; i < len(s); i++ {
		if i > 0 {
			sb.WriteByte(';')
		}
		sb.WriteString(strconv.Itoa(int(s[i])))
	}
	sb.WriteByte(']')
	return sb.String()
}

func main() {
	repo := flag.String("repo", os.Getenv("VERIF_REPO"), "repository root")
	out := flag.String("out", ".", "output directory")
	module := flag.String("module", "RoutesRun", "name of the generated .v file (without extension)")
	// accepted and ignored so that the driver can build/run this like any other harness
	flag.Int64("seed", 1, "unused")
	flag.String("tier", "quick", "unused")
	flag.Parse()
	if *repo == "" {
		*repo = "/repo"
	}
	fset := token.NewFileSet()

	apiFile, err := parser.ParseFile(fset, filepath.Join(*repo, "webserver/api/api.go"), nil, 0)
	if err != nil {
		fail("cannot parse webserver/api/api.go: %v", err)
	}
	imports := map[string]string{}
	for _, im := range apiFile.Imports {
		p, _ := strconv.Unquote(im.Path.Value)
		name := p[strings.LastIndex(p, "/")+1:]
		if im.Name != nil {
			name = im.Name.Name
		}
		imports[name] = p
	}

	// api.New: basePath and the endpoint list
	var basePath string
	var endpointExprs []ast.Expr
	haveBase := false
	handleCalls, wrapped := 0, 0
	for _, d := range apiFile.Decls {
		fd, ok := d.(*ast.FuncDecl)
		if !ok {
			continue
		}
		if fd.Name.Name == "New" && fd.Recv == nil {
			ast.Inspect(fd, func(n ast.Node) bool {
				kv, ok := n.(*ast.KeyValueExpr)
				if !ok {
					return true
				}
				k, _ := kv.Key.(*ast.Ident)
				if k == nil {
					return true
				}
				switch k.Name {
				case "basePath":
					if s, ok := strLit(kv.Value); ok {
						basePath, haveBase = s, true
					}
				case "endpoints":
					if cl, ok := kv.Value.(*ast.CompositeLit); ok {
						endpointExprs = cl.Elts
					}
				}
				return true
			})
		}
		// every registration on the mux must go through WrapHandler(..., func(ctx) { return EnsureAllowed(ctx, method) })
		ast.Inspect(fd, func(n ast.Node) bool {
			ce, ok := n.(*ast.CallExpr)
			if !ok {
				return true
			}
			se, ok := ce.Fun.(*ast.SelectorExpr)
			if !ok || (se.Sel.Name != "HandleFunc" && se.Sel.Name != "Handle") {
				return true
			}
			handleCalls++
			if len(ce.Args) == 2 {
				if wc, ok := ce.Args[1].(*ast.CallExpr); ok {
					if id, ok := wc.Fun.(*ast.Ident); ok && id.Name == "WrapHandler" && len(wc.Args) == 3 {
						if strings.Contains(show(fset, wc.Args[2]), "return EnsureAllowed(ctx, method)") &&
							show(fset, ce.Args[0]) == "pattern" {
							wrapped++
						}
					}
				}
			}
			return true
		})
	}
	if !haveBase || len(endpointExprs) == 0 {
		fail("api.New no longer has the literal shape {basePath: \"...\", endpoints: []apitypes.Endpoint{...}}")
	}
	if handleCalls != 1 || wrapped != 1 {
		fail("api.go registers handlers in a way the extractor does not understand (%d Handle/HandleFunc calls, %d wrapped by WrapHandler+EnsureAllowed)", handleCalls, wrapped)
	}
	patternFmt := ""
	ast.Inspect(apiFile, func(n ast.Node) bool {
		as, ok := n.(*ast.AssignStmt)
		if ok && len(as.Lhs) == 1 && show(fset, as.Lhs[0]) == "pattern" {
			patternFmt = show(fset, as.Rhs[0])
		}
		return true
	})
	if patternFmt != `fmt.Sprintf("%s %s%s", method.Method, api.basePath, endpoint.Path())` {
		fail("mux pattern is no longer \"METHOD basePath+path\": %s", patternFmt)
	}

	pkgCache := map[string][]*ast.File{}
	var routes []route
	for _, e := range endpointExprs {
		ue, ok := e.(*ast.UnaryExpr)
		if !ok || ue.Op != token.AND {
			fail("endpoint element is not &pkg.Type{}: %s", show(fset, e))
		}
		cl, ok := ue.X.(*ast.CompositeLit)
		if !ok {
			fail("endpoint element is not &pkg.Type{}: %s", show(fset, e))
		}
		se, ok := cl.Type.(*ast.SelectorExpr)
		if !ok {
			fail("endpoint element is not &pkg.Type{}: %s", show(fset, e))
		}
		pkgName := se.X.(*ast.Ident).Name
		typeName := se.Sel.Name
		ip, ok := imports[pkgName]
		if !ok || !strings.HasPrefix(ip, "reservoir/") {
			fail("cannot resolve package %s of endpoint %s", pkgName, typeName)
		}
		files, ok := pkgCache[ip]
		if !ok {
			files = parseDir(fset, filepath.Join(*repo, strings.TrimPrefix(ip, "reservoir/")))
			pkgCache[ip] = files
		}
		var pathDecl, methDecl *ast.FuncDecl
		for _, f := range files {
			for _, d := range f.Decls {
				fd, ok := d.(*ast.FuncDecl)
				if !ok || recvName(fd) != typeName {
					continue
				}
				switch fd.Name.Name {
				case "Path":
					pathDecl = fd
				case "EndpointMethods":
					methDecl = fd
				}
			}
		}
		if pathDecl == nil || methDecl == nil {
			fail("endpoint %s.%s: Path or EndpointMethods not found", pkgName, typeName)
		}
		p, ok := strLit(soleReturn(pathDecl))
		if !ok {
			fail("endpoint %s.%s: Path() is not `return \"literal\"`", pkgName, typeName)
		}
		ml, ok := soleReturn(methDecl).(*ast.CompositeLit)
		if !ok {
			fail("endpoint %s.%s: EndpointMethods() is not a single composite literal", pkgName, typeName)
		}
		for _, el := range ml.Elts {
			ecl, ok := el.(*ast.CompositeLit)
			if !ok {
				fail("endpoint %s.%s: method entry is not a literal: %s", pkgName, typeName, show(fset, el))
			}
			r := route{Path: basePath + p, Endpoint: pkgName + "." + typeName}
			haveMethod := false
			for _, fld := range ecl.Elts {
				kv, ok := fld.(*ast.KeyValueExpr)
				if !ok {
					fail("endpoint %s.%s: positional fields in EndpointMethod literal", pkgName, typeName)
				}
				switch kv.Key.(*ast.Ident).Name {
				case "Method":
					m, ok := strLit(kv.Value)
					if !ok {
						fail("endpoint %s.%s: Method is not a string literal: %s", pkgName, typeName, show(fset, kv.Value))
					}
					r.Method, haveMethod = m, true
				case "RequiresAuth":
					id, ok := kv.Value.(*ast.Ident)
					if !ok || (id.Name != "true" && id.Name != "false") {
						fail("endpoint %s.%s: RequiresAuth is not a boolean literal: %s", pkgName, typeName, show(fset, kv.Value))
					}
					r.RequiresAuth = id.Name == "true"
				case "Func":
				default:
					fail("endpoint %s.%s: unknown EndpointMethod field %s", pkgName, typeName, show(fset, kv.Key))
				}
			}
			if !haveMethod {
				fail("endpoint %s.%s: EndpointMethod without Method", pkgName, typeName)
			}
			if _, ok := coqMeth[r.Method]; !ok {
				fail("endpoint %s.%s: method %q is outside the model's vocabulary", pkgName, typeName, r.Method)
			}
			routes = append(routes, r)
		}
	}

	// the GC loop of StartSessionGC, restated by the hook auth.VerifRunGC
	gc := map[string]string{}
	sessFile, err := parser.ParseFile(fset, filepath.Join(*repo, "webserver/auth/session.go"), nil, 0)
	if err != nil {
		fail("cannot parse webserver/auth/session.go: %v", err)
	}
	for _, d := range sessFile.Decls {
		fd, ok := d.(*ast.FuncDecl)
		if !ok || fd.Name.Name != "StartSessionGC" {
			continue
		}
		ast.Inspect(fd, func(n ast.Node) bool {
			rs, ok := n.(*ast.RangeStmt)
			if !ok || show(fset, rs.X) != "sessionStore.Items()" {
				return true
			}
			gc["range"] = show(fset, rs.Key) + " := range " + show(fset, rs.X)
			for _, st := range rs.Body.List {
				if is, ok := st.(*ast.IfStmt); ok {
					gc["cond"] = show(fset, is.Cond)
					var acts []string
					for _, b := range is.Body.List {
						s := show(fset, b)
						if !strings.HasPrefix(s, "slog.") {
							acts = append(acts, s)
						}
					}
					gc["then"] = strings.Join(acts, "; ")
					if is.Else != nil {
						gc["else"] = show(fset, is.Else)
					}
				} else {
					gc["other"] += show(fset, st) + "; "
				}
			}
			return false
		})
		ast.Inspect(fd, func(n ast.Node) bool {
			as, ok := n.(*ast.AssignStmt)
			if ok && len(as.Lhs) == 1 && show(fset, as.Lhs[0]) == "now" {
				gc["now"] = show(fset, as.Rhs[0])
			}
			return true
		})
	}

	if err := os.MkdirAll(*out, 0755); err != nil {
		panic(err)
	}
	var v strings.Builder
	fmt.Fprintf(&v, "(* generated by harness/cmd/routes from webserver/api/api.go and the endpoint packages -- do not edit *)\n")
	fmt.Fprintf(&v, "From Reservoir Require Import Base.Prelude Model.Auth Proofs.Auth.\n\n")
	fmt.Fprintf(&v, "Definition table : list route :=\n [ ")
	for i, r := range routes {
		if i > 0 {
			v.WriteString("\n ; ")
		}
		fmt.Fprintf(&v, "Build_route %s %s %v  (* %s %s  %s *)", coqMeth[r.Method], coqStr(r.Path), r.RequiresAuth, r.Method, r.Path, r.Endpoint)
	}
	v.WriteString(" ].\n\n")
	v.WriteString("(* the obligation: every route except POST /api/auth/login requires a session *)\n")
	v.WriteString("Lemma table_ok : routes_guarded table = true.\nProof. vm_compute. reflexivity. Qed.\n\n")
	v.WriteString("Theorem routes_guarded_here : forall r, In r table -> is_login_route r = false -> r_auth r = true.\n")
	v.WriteString("Proof. exact (routes_guarded_sound table table_ok). Qed.\nPrint Assumptions routes_guarded_here.\n")
	if err := os.WriteFile(filepath.Join(*out, *module+".v"), []byte(v.String()), 0644); err != nil {
		panic(err)
	}
	js, _ := json.MarshalIndent(map[string]any{"routes": routes, "base_path": basePath, "gc": gc}, "", " ")
	if err := os.WriteFile(filepath.Join(*out, "routes.json"), js, 0644); err != nil {
		panic(err)
	}
	// a meta.json so that the program can also be run as a (direct) stage
	meta, _ := json.Marshal(map[string]any{"harness": "routes", "files": []string{}, "direct": map[string]any{"total": len(routes), "failures": []any{}, "mismatches": []any{}}})
	os.WriteFile(filepath.Join(*out, "meta.json"), meta, 0644)
	fmt.Printf("routes: %d routes extracted from source\n", len(routes))
}
