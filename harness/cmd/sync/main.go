// sync: forced concurrency scenarios against the REAL cache backends with a watchdog.
// It validates the regenerated synchronisation skeleton of C14 (a hang here that the
// skeleton check did not predict means the translator is wrong) and is the search for a
// concrete failing schedule when the skeleton obligation breaks.
// Usage: sync -seed N -tier quick|thorough -out DIR
package main

import (
	"bytes"
	"context"
	"encoding/json"
	"flag"
	"fmt"
	"io"
	"log/slog"
	"os"
	"path/filepath"
	"runtime"
	"sync"
	"time"

	"reservoir/cache"
	"reservoir/config"
	"reservoir/logging"
	"reservoir/utils/bytesize"
	"reservoir/utils/duration"
	"verifharness/e2elib"
	"verifharness/emit"
)

var (
	flagSeed = flag.Int64("seed", 1, "PRNG seed")
	flagTier = flag.String("tier", "quick", "quick|thorough")
	flagOut  = flag.String("out", ".", "output directory")
)

type meta struct{ ID string }

type hooks interface {
	cache.Cache[meta]
	cache.VerifHooks
}

type scenario struct {
	Name    string `json:"scenario"`
	Backend string `json:"backend"`
	Shards  int    `json:"shards"`
	run     func(ctx context.Context, c hooks, cfg *config.Config, r *emit.Rand) error
	timeout time.Duration
}

func newCache(backend string, cfg *config.Config, limit int64, interval time.Duration, shards int, ctx context.Context, dir string) hooks {
	cfg.Cache.MaxCacheSize.Overwrite(bytesize.ByteSize(limit))
	if backend == "file" {
		return cache.NewFileCache[meta](cfg, dir, limit, interval, shards, ctx)
	}
	return cache.NewMemoryCache[meta](cfg, 50, limit, interval, shards, ctx)
}

// keysOnShard returns n distinct keys that all map to the same lock shard as the first one.
func keysOnShard(c hooks, n int, salt string) []cache.CacheKey {
	var out []cache.CacheKey
	first := cache.FromString(salt + "-0")
	want := c.VerifShardOf(first.Hex)
	out = append(out, first)
	for i := 1; len(out) < n && i < 200000; i++ {
		k := cache.FromString(fmt.Sprintf("%s-%d", salt, i))
		if c.VerifShardOf(k.Hex) == want {
			out = append(out, k)
		}
	}
	return out
}

func body(n int, b byte) io.Reader { return bytes.NewReader(bytes.Repeat([]byte{b}, n)) }

func storeEvictSameShard(ctx context.Context, c hooks, cfg *config.Config, r *emit.Rand) error {
	ks := keysOnShard(c, 6, "same")
	for i, k := range ks {
		// limit is 1000: the third store finds the cache at/over the limit and evicts from inside Cache
		if _, err := c.Cache(k, body(600, byte('a'+i)), time.Now().Add(time.Hour), meta{}); err != nil {
			// a refused store is not a liveness failure
			_ = err
		}
	}
	for _, k := range ks {
		if e, err := c.Get(k); err == nil && e.Data != nil {
			io.Copy(io.Discard, e.Data)
			e.Data.Close()
		}
	}
	return nil
}

func mixedConcurrent(ctx context.Context, c hooks, cfg *config.Config, r *emit.Rand) error {
	ks := keysOnShard(c, 3, "mixA")
	ks = append(ks, cache.FromString("mixB-1"), cache.FromString("mixB-2"), cache.FromString("mixB-3"))
	workers, ops := 8, 250
	var wg sync.WaitGroup
	stop := make(chan struct{})
	go func() { // run-time configuration changes
		i := 0
		for {
			select {
			case <-stop:
				return
			case <-time.After(2 * time.Millisecond):
			}
			i++
			cfg.Cache.MaxCacheSize.Overwrite(bytesize.ByteSize(int64(800 + 400*(i%3))))
			if i%4 == 0 {
				cfg.Cache.CleanupInterval.Overwrite(duration.Duration(time.Duration(1+i%3) * time.Millisecond))
			}
			if i%5 == 0 {
				cfg.Cache.Memory.MemoryBudgetPercent.Overwrite(40 + i%20)
			}
		}
	}()
	seeds := make([]*emit.Rand, workers)
	for w := range seeds {
		seeds[w] = emit.NewRand(int64(r.U64() >> 1))
	}
	for w := 0; w < workers; w++ {
		wg.Add(1)
		go func(rr *emit.Rand) {
			defer wg.Done()
			for i := 0; i < ops; i++ {
				k := ks[rr.Intn(len(ks))]
				switch rr.Intn(6) {
				case 0, 1:
					exp := time.Now().Add(time.Duration(rr.Intn(4)-1) * time.Millisecond)
					if e, err := c.Cache(k, body(100+rr.Intn(500), 'x'), exp, meta{}); err == nil && e.Data != nil {
						e.Data.Close()
					}
				case 2, 3:
					if e, err := c.Get(k); err == nil && e.Data != nil {
						io.Copy(io.Discard, e.Data)
						e.Data.Close()
					}
				case 4:
					c.Delete(k)
				case 5:
					if rr.Bool() {
						c.UpdateMetadata(k, func(m *cache.EntryMetadata[meta]) { m.Expires = time.Now().Add(time.Second) })
					} else {
						c.GetMetadata(k)
					}
				}
			}
		}(seeds[w])
	}
	wg.Wait()
	close(stop)
	return nil
}

func destroyDuringCycle(ctx context.Context, c hooks, cfg *config.Config, r *emit.Rand) error {
	for i := 0; i < 150; i++ {
		k := cache.FromString(fmt.Sprintf("exp-%d", i))
		if e, err := c.Cache(k, body(20, 'e'), time.Now().Add(-time.Second), meta{}); err == nil && e.Data != nil {
			e.Data.Close()
		}
	}
	time.Sleep(time.Duration(r.Intn(3)) * time.Millisecond)
	t0 := time.Now()
	c.Destroy()
	if d := time.Since(t0); d > 2*time.Second {
		return fmt.Errorf("Destroy took %v", d)
	}
	c.Destroy() // a second stop must be harmless
	return nil
}

func intervalBurst(ctx context.Context, c hooks, cfg *config.Config, r *emit.Rand) error {
	for i := 0; i < 300; i++ {
		k := cache.FromString(fmt.Sprintf("burst-%d", i))
		if e, err := c.Cache(k, body(30, 'b'), time.Now().Add(-time.Second), meta{}); err == nil && e.Data != nil {
			e.Data.Close()
		}
	}
	for i := 0; i < 5; i++ { // back-to-back interval changes while the janitor is busy
		cfg.Cache.CleanupInterval.Overwrite(duration.Duration(time.Duration(1+i) * time.Millisecond))
	}
	for i := 0; i < 50; i++ {
		k := cache.FromString(fmt.Sprintf("after-%d", i))
		if e, err := c.Cache(k, body(30, 'c'), time.Now().Add(time.Hour), meta{}); err == nil && e.Data != nil {
			e.Data.Close()
		}
		c.Get(k)
	}
	return nil
}

// configChangeOverLimit: every run-time setting is changed while the cache is AT/OVER its limit,
// then the cache must still serve operations (a listener that evicts/cleans must not wait for itself).
// blockedReader: a body source that has delivered a first piece and then stalls (an upstream that stopped sending)
type blockedReader struct {
	started chan struct{}
	release chan struct{}
	sent    bool
}

func (b *blockedReader) Read(p []byte) (int, error) {
	if !b.sent {
		b.sent = true
		close(b.started)
		return copy(p, "first piece;"), nil
	}
	<-b.release
	return 0, io.EOF
}

// destroyDuringStalledStore: stopping the cache never waits for a store whose upstream has stalled.
func destroyDuringStalledStore(ctx context.Context, c hooks, cfg *config.Config, r *emit.Rand) error {
	src := &blockedReader{started: make(chan struct{}), release: make(chan struct{})}
	defer close(src.release)
	go func() {
		if e, err := c.Cache(cache.FromString("stalled-store"), src, time.Now().Add(time.Hour), meta{}); err == nil && e.Data != nil {
			e.Data.Close()
		}
	}()
	select {
	case <-src.started:
	case <-time.After(3 * time.Second):
		return nil // the store never started reading: nothing to judge
	}
	done := make(chan struct{})
	go func() { c.Destroy(); close(done) }()
	select {
	case <-done:
		return nil
	case <-time.After(3 * time.Second):
		return fmt.Errorf("Destroy() did not return within 3 s while a store was waiting for the rest of its body from a stalled upstream")
	}
}

// set by main for the scenario that is running (for scenarios that build a cache of their own)
var curBackend, curDir string
var curShards int

// storeAfterContextCancel: the context the cache was constructed with is cancelled (shutdown has begun), Destroy has
// not been called yet; stores into the FULL cache still return (stored or refused), and so do reads on the same shard.
func storeAfterContextCancel(_ context.Context, _ hooks, _ *config.Config, r *emit.Rand) error {
	cfg := config.NewDefault()
	ctx, cancel := context.WithCancel(context.Background())
	c := newCache(curBackend, cfg, 1000, time.Hour, curShards, ctx, curDir+"-own")
	defer os.RemoveAll(curDir + "-own")
	defer c.Destroy()
	for i := 0; i < 5; i++ { // 5 x 200 bytes against a limit of 1000: full
		if e, err := c.Cache(cache.FromString(fmt.Sprintf("full-%d", i)), body(200, 'f'), time.Now().Add(time.Hour), meta{}); err == nil && e.Data != nil {
			e.Data.Close()
		}
	}
	cancel()
	time.Sleep(30 * time.Millisecond) // whatever follows the context has noticed by now
	done := make(chan struct{})
	go func() {
		for i := 0; i < 3; i++ {
			if e, err := c.Cache(cache.FromString(fmt.Sprintf("after-%d", i)), body(200, 'a'), time.Now().Add(time.Hour), meta{}); err == nil && e.Data != nil {
				e.Data.Close()
			}
			if e, err := c.Get(cache.FromString("full-4")); err == nil && e.Data != nil {
				e.Data.Close()
			}
		}
		close(done)
	}()
	select {
	case <-done:
		return nil
	case <-time.After(4 * time.Second):
		return fmt.Errorf("a store into a full cache (or a read after it) did not return within 4 s after the cache's construction context was cancelled (Destroy not yet called)")
	}
}

func configChangeOverLimit(ctx context.Context, c hooks, cfg *config.Config, r *emit.Rand) error {
	for i := 0; i < 3; i++ {
		// limit 1000: 600 (under), 1200 (over, the check happens before the store), third store evicts
		k := cache.FromString(fmt.Sprintf("over-%d", i))
		if e, err := c.Cache(k, body(600, 'o'), time.Now().Add(time.Hour), meta{}); err == nil && e.Data != nil {
			e.Data.Close()
		}
		cfg.Cache.Memory.MemoryBudgetPercent.Overwrite(30 + i)
		cfg.Cache.MaxCacheSize.Overwrite(bytesize.ByteSize(int64(900 - 100*i)))
		cfg.Cache.CleanupInterval.Overwrite(duration.Duration(time.Duration(2+i) * time.Millisecond))
		time.Sleep(3 * time.Millisecond) // listeners run in their own goroutines
		if e, err := c.Get(k); err == nil && e.Data != nil {
			e.Data.Close()
		}
		c.GetMetadata(k)
	}
	cfg.Cache.Memory.MemoryBudgetPercent.Overwrite(0) // accepted boundary value
	time.Sleep(3 * time.Millisecond)
	k := cache.FromString("after-zero-budget")
	if e, err := c.Cache(k, body(10, 'z'), time.Now().Add(time.Hour), meta{}); err == nil && e.Data != nil {
		e.Data.Close()
	}
	c.Delete(k)
	return nil
}

// requestScenarios: hangs that would sit outside the cache package.
//   - expired-leaf-reissue: a tunnel to a host whose cached certificate has run out, and a tunnel to another host
//     right after it, both complete (the certificate table's lock is not held across its own operations);
//   - log-file-unwritable: see below;
//   - unparseable-range-416-retry: a request whose Range the proxy cannot parse (so it is coalesced) and that the origin
//     answers with 416 is answered, and so is the next plain GET of that URL (the retry does not wait for its own flight).
func requestScenarios(dir string) [][2]string {
	var out [][2]string
	e2elib.Quiet()
	env, err := e2elib.Start(e2elib.Options{Backend: "memory", Dir: dir + "-tls", TLS: true})
	if err != nil {
		panic(err)
	}
	tunnel := func(host string) error {
		c, _, err := env.DialTunnel(host+":443", host, 6*time.Second)
		if err == nil {
			c.Close()
		}
		return err
	}
	if err := tunnel("old.example.org"); err != nil {
		out = append(out, [2]string{"expired-leaf-reissue", "first tunnel failed: " + err.Error()})
	} else {
		shifted := 0
		for _, h := range env.CA.VerifCachedHosts() {
			shifted += env.CA.VerifShiftExpiry(h, 300*time.Hour) // every cached leaf is now past its NotAfter
		}
		if shifted > 0 {
			if err := tunnel("old.example.org"); err != nil {
				out = append(out, [2]string{"expired-leaf-reissue", "a tunnel to a host whose cached certificate had run out did not complete within 6 s: " + err.Error()})
			}
			if err := tunnel("other.example.org"); err != nil {
				out = append(out, [2]string{"expired-leaf-reissue", "a tunnel to ANOTHER host, opened after one to a host with an expired cached certificate, did not complete within 6 s: " + err.Error()})
			}
		}
	}
	// not closed when a step hung: Close would wait for the hung handler
	if len(out) == 0 {
		env.Close()
	}
	os.RemoveAll(dir + "-tls")
	for _, backend := range []string{"memory", "file"} {
		d := dir + "-" + backend
		env, err := e2elib.Start(e2elib.Options{Backend: backend, Dir: d})
		if err != nil {
			panic(err)
		}
		env.Cfg.Proxy.RetryOnRange416.Overwrite(true)
		env.Origin.SetHandler(func(req e2elib.OriginRequest, n int) e2elib.Answer {
			if req.Header.Get("Range") != "" {
				return e2elib.NewAnswer(416, []byte("no"), "Content-Range: bytes */10")
			}
			return e2elib.NewAnswer(200, []byte("0123456789"), "Cache-Control: max-age=60")
		})
		hung := false
		for i, rv := range []string{"bytes=100-200,300-400", "bytes=abc", "bytes=5-"} {
			path := fmt.Sprintf("/odd%d", i)
			if _, err := env.DoPlain(env.PlainRequest("GET", path, []string{"Range: " + rv}, nil), "GET", 6*time.Second); err != nil {
				out = append(out, [2]string{"unparseable-range-416-retry", fmt.Sprintf("%s backend: GET %s with Range: %s (origin answers 416 to requests with a Range) was not answered within 6 s: %v", backend, path, rv, err)})
				hung = true
				break
			}
			if _, err := env.DoPlain(env.PlainRequest("GET", path, nil, nil), "GET", 6*time.Second); err != nil {
				out = append(out, [2]string{"unparseable-range-416-retry", fmt.Sprintf("%s backend: the plain GET of %s after such a request was not answered within 6 s: %v", backend, path, err)})
				hung = true
				break
			}
		}
		if !hung {
			env.Close()
		}
		os.RemoveAll(d)
	}
	// the log file becomes unwritable while the proxy runs (the real logging set-up of package logging, once per process):
	// requests are still answered
	{
		d := dir + "-log"
		env, err := e2elib.Start(e2elib.Options{Backend: "memory", Dir: d})
		if err != nil {
			panic(err)
		}
		env.Origin.SetHandler(func(req e2elib.OriginRequest, n int) e2elib.Answer {
			return e2elib.NewAnswer(200, []byte("0123456789"), "Cache-Control: max-age=60")
		})
		env.Cfg.Logging.ToStdout.Overwrite(false)
		env.Cfg.Logging.File.Overwrite(filepath.Join(d, "logs", "proxy.log"))
		logging.Init(env.Cfg)
		env.DoPlain(env.PlainRequest("GET", "/log-ok", nil, nil), "GET", 6*time.Second)
		os.WriteFile(filepath.Join(d, "plainfile"), []byte("x"), 0644)
		env.Cfg.Logging.File.Overwrite(filepath.Join(d, "plainfile", "below", "proxy.log")) // cannot be created
		time.Sleep(30 * time.Millisecond)                                                   // the listener swaps the writers
		hung := false
		for _, path := range []string{"/log-miss", "/log-ok", "/log-miss"} {
			if _, err := env.DoPlain(env.PlainRequest("GET", path, nil, nil), "GET", 6*time.Second); err != nil {
				out = append(out, [2]string{"log-file-unwritable", fmt.Sprintf("after the log file became unwritable GET %s was not answered within 6 s: %v", path, err)})
				hung = true
				break
			}
		}
		e2elib.Quiet()
		if !hung {
			env.Close()
		}
		os.RemoveAll(d)
	}
	return out
}

func main() {
	flag.Parse()
	slog.SetDefault(slog.New(slog.NewTextHandler(io.Discard, nil)))
	if err := os.MkdirAll(*flagOut, 0755); err != nil {
		panic(err)
	}
	r := emit.NewRand(*flagSeed)
	shardSet := []int{1, 2, 3, 64}
	reps := 1
	if *flagTier == "thorough" {
		reps = 6
	}
	var scs []scenario
	for _, b := range []string{"memory", "file"} {
		for _, n := range shardSet {
			for i := 0; i < reps; i++ {
				scs = append(scs,
					scenario{Name: "store-evict-same-shard", Backend: b, Shards: n, run: storeEvictSameShard, timeout: 10 * time.Second},
					scenario{Name: "mixed-concurrent", Backend: b, Shards: n, run: mixedConcurrent, timeout: 40 * time.Second},
					scenario{Name: "destroy-during-cycle", Backend: b, Shards: n, run: destroyDuringCycle, timeout: 10 * time.Second},
					scenario{Name: "interval-burst", Backend: b, Shards: n, run: intervalBurst, timeout: 15 * time.Second},
					scenario{Name: "config-change-over-limit", Backend: b, Shards: n, run: configChangeOverLimit, timeout: 10 * time.Second},
					scenario{Name: "destroy-during-stalled-store", Backend: b, Shards: n, run: destroyDuringStalledStore, timeout: 10 * time.Second},
					scenario{Name: "store-after-context-cancel", Backend: b, Shards: n, run: storeAfterContextCancel, timeout: 10 * time.Second})
			}
		}
	}
	type fail struct {
		scenario
		What string `json:"what"`
		Dump string `json:"goroutines,omitempty"`
	}
	failures := []fail{}
	dist := map[string]int{}
	executed := 0
	for i, sc := range scs {
		if len(failures) >= 3 {
			break // enough for a replay; every further hang would cost its full watchdog time
		}
		executed++
		dir := filepath.Join(*flagOut, fmt.Sprintf("fc%d", i))
		cfg := config.NewDefault()
		ctx, cancel := context.WithCancel(context.Background())
		c := newCache(sc.Backend, cfg, 1000, time.Millisecond, sc.Shards, ctx, dir)
		curBackend, curDir, curShards = sc.Backend, dir, sc.Shards
		done := make(chan error, 1)
		go func() {
			defer func() {
				if p := recover(); p != nil {
					done <- fmt.Errorf("panic: %v", p)
				}
			}()
			done <- sc.run(ctx, c, cfg, emit.NewRand(int64(r.U64()>>1)))
		}()
		select {
		case err := <-done:
			if err != nil {
				failures = append(failures, fail{scenario: sc, What: err.Error()})
			}
		case <-time.After(sc.timeout):
			buf := make([]byte, 1<<20)
			n := runtime.Stack(buf, true)
			d := string(buf[:n])
			if len(d) > 12000 {
				d = d[:12000]
			}
			failures = append(failures, fail{scenario: sc, What: "watchdog: scenario did not complete in " + sc.timeout.String(), Dump: d})
		}
		// stopping must not block either
		stopped := make(chan struct{})
		go func() { c.Destroy(); close(stopped) }()
		select {
		case <-stopped:
		case <-time.After(5 * time.Second):
			failures = append(failures, fail{scenario: sc, What: "watchdog: Destroy did not return in 5s"})
		}
		cancel()
		os.RemoveAll(dir)
		dist[sc.Name+"/"+sc.Backend]++
	}
	// request-level scenarios outside package cache (each step under its own deadline)
	for _, f := range requestScenarios(filepath.Join(*flagOut, "req")) {
		if len(failures) < 6 {
			failures = append(failures, fail{scenario: scenario{Name: f[0]}, What: f[1]})
		}
	}
	executed += 3
	dist["log-file-unwritable"]++
	dist["expired-leaf-reissue"]++
	dist["unparseable-range-416-retry"]++
	out := map[string]any{
		"harness": "sync", "seed": *flagSeed, "tier": *flagTier, "total": executed, "distinct": executed, "distinct_nontrivial": executed,
		"rule":         "forced concurrency scenarios (store-triggered eviction with victims on the caller's shard; 8 workers x 250 mixed ops on colliding keys with 1 ms janitor ticks and limit/interval/budget change events; Destroy during a cycle; Destroy while a store waits for a stalled upstream; stores into a full cache after the construction context was cancelled and before Destroy; back-to-back interval changes) + request-level scenarios (tunnel to a host whose cached certificate has run out, then another host; a request with an unparseable Range answered 416 under retry_on_range_416, then a plain GET; the log file becoming unwritable under the real logging set-up) x backends {memory,file} x shards {1,2,3,64}; every scenario under a watchdog; non-trivial = all",
		"distribution": map[string]any{"scenario": dist},
		"samples":      []any{map[string]any{"scenario": "store-evict-same-shard", "backend": "memory", "shards": 1}},
		"files":        []string{},
		"readable":     []any{},
		"direct":       map[string]any{"total": executed, "failures": failures, "mismatches": []any{}},
	}
	b, _ := json.MarshalIndent(out, "", " ")
	if err := os.WriteFile(filepath.Join(*flagOut, "meta.json"), b, 0644); err != nil {
		panic(err)
	}
	fmt.Printf("sync: %d scenarios, %d failures\n", len(scs), len(failures))
}
