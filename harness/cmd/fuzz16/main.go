// fuzz16: raw-socket request/response-shape fuzzing of the REAL proxy (C16 search support).
// Every generated request must be answered with a well-formed HTTP response: no dropped
// connection, no hang, no malformed framing.  Decided by the harness itself ("direct" stage).
// Usage: fuzz16 -seed N -tier quick|thorough -out DIR
package main

import (
	"encoding/json"
	"flag"
	"fmt"
	"os"
	"path/filepath"
	"reservoir/logging"
	"strings"
	"time"

	"reservoir/config"
	"reservoir/utils/duration"
	"verifharness/e2elib"
	"verifharness/emit"
)

var (
	flagSeed = flag.Int64("seed", 1, "PRNG seed")
	flagTier = flag.String("tier", "quick", "quick|thorough")
	flagOut  = flag.String("out", ".", "output directory")
)

var rangeVals = []string{"bytes=0-4", "bytes=", "bytes=5", "bytes=-", "bytes=--1", "bytes=0-0,2-3", "bytes=9223372036854775807-", "bytes=18446744073709551617-18446744073709551618",
	"bytes=-0", "bytes=-9999999999999999999999", "bytes=4-2", "items=0-1", "bytes 0-1", "=", "", "bytes=\t1-\t2", "bytes=1-2-3", "bytes=0-x", "BYTES=0-1", "bytes=0-99999", "bytes=3-"}
var ifRangeVals = []string{`"v1"`, `W/"v1"`, `"`, ``, `"v1`, "Mon, 02 Jan 2006 15:04:05 GMT", "Monday, 02-Jan-06 15:04:05 GMT", "Mon Jan  2 15:04:05 2006", "0", "-1", "garbage", "Thu, 01 Jan 1970 00:00:00 GMT", strings.Repeat("x", 3000)}
var ccVals = []string{"no-cache", "no-store", "max-age=0", "max-age=abc", "max-age=", "max-age=-1", "max-age=99999999999999999999", "MAX-AGE=5", "private", ",,,", "=", "max-age=5, no-store", "max-age=\"5\"", "", "no-cache=\"x\"", strings.Repeat("a,", 500)}
var dateVals = []string{"Mon, 02 Jan 2006 15:04:05 GMT", "Monday, 02-Jan-06 15:04:05 GMT", "Mon Jan  2 15:04:05 2006", "0", "-1", "", "garbage", "Mon, 99 Jan 2006 15:04:05 GMT", "Fri, 31 Dec 9999 23:59:59 GMT"}
var etagVals = []string{`"v1"`, `W/"v1"`, `*`, ``, `"`, `"a", "b"`, strings.Repeat("e", 2000)}
var methods = []string{"GET", "GET", "GET", "HEAD", "POST", "PUT", "DELETE", "OPTIONS", "PATCH", "TRACE", "get", "FOO", "PROPFIND"}
var paths = []string{"/", "/a", "/a/b", "/a//b", "/a/./b", "/a/../b", "/..", "/../..", "/a%2Fb", "/a%zz", "/a|b", "/a?b|c", "/a?", "/?", "/a#f", "/a b", "/%00", "/" + strings.Repeat("p", 2000), "/a/", "//", "/a;x=1", "/\xff"}
var connectTargets = []string{"HOST", "HOST:", "localhost", "localhost:443", "127.0.0.1:1", "[::1]:443", "[::1]", "::1", ":443", "", "a:b:c", "host:99999", "host:-1", "ex ample:443", strings.Repeat("h", 300) + ":443", "[fe80::1%25eth0]:443", "1.2.3.4.5:443", "xn--nxasmq6b.example:443", "EXAMPLE.com.:443"}

type tcase struct {
	Prev   string   `json:"previous_on_same_tunnel,omitempty"`
	Stream string   `json:"stream"`
	Desc   string   `json:"desc"`
	Raw    string   `json:"raw,omitempty"`
	Origin []string `json:"origin_lines,omitempty"`
	Status int      `json:"origin_status,omitempty"`
}

type failure struct {
	tcase
	What string `json:"what"`
}

func main() {
	flag.Parse()
	e2elib.Quiet()
	if err := os.MkdirAll(*flagOut, 0755); err != nil {
		panic(err)
	}
	r := emit.NewRand(*flagSeed)
	nReq, nOrg, nTun := 700, 500, 250
	if *flagTier == "thorough" {
		nReq, nOrg, nTun = 12000, 8000, 4000
	}
	dist := map[string]int{}
	failures := []failure{}
	total := 0
	samples := []any{}

	for _, backend := range []string{"memory", "file"} {
		for _, retry := range []bool{false, true} {
			envDir := filepath.Join(*flagOut, fmt.Sprintf("env-%s-%v", backend, retry))
			env, err := e2elib.Start(e2elib.Options{Backend: backend, Dir: envDir, Shards: 1 + r.Intn(4)})
			if err != nil {
				panic(err)
			}
			env.Cfg.Proxy.RetryOnInvalidRange.Overwrite(retry)
			env.Cfg.Proxy.RetryOnRange416.Overwrite(retry)
			var curLines []string
			curStatus := 200
			env.Origin.SetHandler(func(req e2elib.OriginRequest, n int) e2elib.Answer {
				a := e2elib.NewAnswer(curStatus, []byte("0123456789"), curLines...)
				if req.Header.Get("If-None-Match") != "" && curStatus == 200 && strings.HasPrefix(req.Target, "/reval") {
					a.Status = 304
				}
				return a
			})
			check := func(tc tcase, resp *e2elib.Response, err error) {
				total++
				dist[tc.Stream]++
				if len(samples) < 8 && total%211 == 1 {
					samples = append(samples, tc)
				}
				if err != nil {
					failures = append(failures, failure{tc, "no well-formed response: " + err.Error()})
					return
				}
				if resp.Status < 100 || resp.Status > 999 {
					failures = append(failures, failure{tc, fmt.Sprintf("status %d out of range", resp.Status)})
					return
				}
				if resp.BodyErr != "" {
					failures = append(failures, failure{tc, "response body does not match its framing: " + resp.BodyErr})
				}
			}
			send := func(tc tcase, method string) {
				resp, err := env.DoPlain([]byte(tc.Raw), method, 8*time.Second)
				check(tc, resp, err)
			}

			// --- stream A: request mutations over plain proxying
			curLines, curStatus = []string{"Cache-Control: max-age=60", `ETag: "v1"`, "Last-Modified: Mon, 02 Jan 2006 15:04:05 GMT"}, 200
			for i := 0; i < nReq/4; i++ {
				m := emit.Pick(r, methods)
				p := emit.Pick(r, paths)
				var hs []string
				if r.Chance(60) {
					hs = append(hs, "Range: "+emit.Pick(r, rangeVals))
				}
				if r.Chance(30) {
					hs = append(hs, "If-Range: "+emit.Pick(r, ifRangeVals))
				}
				if r.Chance(30) {
					hs = append(hs, "Cache-Control: "+emit.Pick(r, ccVals))
				}
				if r.Chance(25) {
					hs = append(hs, "If-Modified-Since: "+emit.Pick(r, dateVals))
				}
				if r.Chance(25) {
					hs = append(hs, "If-None-Match: "+emit.Pick(r, etagVals))
				}
				if r.Chance(15) {
					hs = append(hs, "Connection: "+emit.Pick(r, []string{"close", "keep-alive, x-foo", ",,", "Range", "Host"}))
				}
				if r.Chance(10) {
					hs = append(hs, "Range: "+emit.Pick(r, rangeVals)) // repeated field
				}
				host := env.Origin.Addr
				switch r.Intn(12) {
				case 0:
					host = strings.ToUpper(host)
				case 1:
					host = "localhost:" + host[strings.LastIndex(host, ":")+1:]
				}
				target := "http://" + host + p
				if r.Chance(10) {
					target = p // origin-form to a proxy
				}
				var body string
				if m == "POST" || m == "PUT" || m == "PATCH" {
					body = strings.Repeat("b", r.Intn(50))
					hs = append(hs, fmt.Sprintf("Content-Length: %d", len(body)))
				}
				raw := fmt.Sprintf("%s %s HTTP/1.1\r\nHost: %s\r\n%s\r\n%s", m, target, host, joinLines(hs), body)
				send(tcase{Stream: "request", Desc: backend, Raw: raw}, strings.ToUpper(m))
			}
			// malformed framing of the request itself
			for _, raw := range []string{
				"GET http://" + env.Origin.Addr + "/ HTTP/1.1\r\n\r\n",                       // no Host
				"GET http://" + env.Origin.Addr + "/ HTTP/1.1\r\nHost:\r\n\r\n",              // empty Host
				"GET http://" + env.Origin.Addr + "/ HTTP/1.0\r\n\r\n",                       // 1.0
				"GET / HTTP/1.1\r\nHost: \r\n\r\n",                                           // nothing to go to
				"GET http:///x HTTP/1.1\r\nHost: x\r\n\r\n",                                  // empty authority
				"GET http://" + env.Origin.Addr + "/ HTTP/1.1\r\nHost: a\r\nHost: b\r\n\r\n", // two Hosts
				"GET http://[::1/ HTTP/1.1\r\nHost: x\r\n\r\n",                               // bad authority
				"GET http://" + env.Origin.Addr + "/x HTTP/1.1\r\nHost: " + env.Origin.Addr + "\r\nRange: bytes=0-1\r\nRange: bytes=2-3\r\n\r\n",
				"GARBAGE\r\n\r\n",
				"GET http://" + env.Origin.Addr + "/ HTTP/9.9\r\nHost: x\r\n\r\n",
				"GET http://127.0.0.1:1/ HTTP/1.1\r\nHost: 127.0.0.1:1\r\n\r\n", // unreachable origin
				"GET http://nonexistent.invalid/ HTTP/1.1\r\nHost: nonexistent.invalid\r\n\r\n",
			} {
				send(tcase{Stream: "request-shape", Desc: backend, Raw: raw}, "GET")
			}
			// CONNECT targets
			for _, t := range connectTargets {
				t = strings.ReplaceAll(t, "HOST", env.Origin.Addr)
				raw := fmt.Sprintf("CONNECT %s HTTP/1.1\r\nHost: %s\r\n\r\n", t, t)
				c, err := env.DialPlain(5 * time.Second)
				if err != nil {
					panic(err)
				}
				c.Send([]byte(raw), 5*time.Second)
				resp, err := c.Read("CONNECT", 8*time.Second)
				c.Close()
				check(tcase{Stream: "connect-target", Desc: backend, Raw: raw}, resp, err)
			}

			// --- stream B: hostile origin answers
			statuses := []int{200, 200, 200, 200, 204, 206, 301, 304, 400, 404, 416, 500, 503, 299, 599}
			for i := 0; i < nOrg/4; i++ {
				var ls []string
				if r.Chance(70) {
					ls = append(ls, emit.Pick(r, []string{"Cache-Control: ", "cache-control: ", "CACHE-CONTROL: "})+emit.Pick(r, ccVals))
				}
				if r.Chance(20) {
					ls = append(ls, "Cache-Control: "+emit.Pick(r, ccVals))
				}
				if r.Chance(40) {
					ls = append(ls, "Expires: "+emit.Pick(r, dateVals))
				}
				if r.Chance(40) {
					ls = append(ls, "ETag: "+emit.Pick(r, etagVals))
				}
				if r.Chance(40) {
					ls = append(ls, "Last-Modified: "+emit.Pick(r, dateVals))
				}
				if r.Chance(15) {
					ls = append(ls, "Content-Range: "+emit.Pick(r, []string{"bytes 0-9/10", "bytes */10", "garbage", "bytes 5-2/1"}))
				}
				if r.Chance(15) {
					ls = append(ls, "Set-Cookie: a=1", "Set-Cookie: b=2")
				}
				if r.Chance(10) {
					ls = append(ls, "Connection: x-foo, close", "X-Foo: 1")
				}
				if r.Chance(10) {
					ls = append(ls, "Age: "+emit.Pick(r, []string{"5", "-1", "abc", "99999999999999999999"}))
				}
				if r.Chance(8) {
					ls = append(ls, "Vary: *", "Content-Type: "+strings.Repeat("t", 1500))
				}
				curLines, curStatus = ls, emit.Pick(r, statuses)
				path := fmt.Sprintf("/o%d-%d", r.Intn(40), r.Intn(3)) // some paths repeat: hits, overwrites, revalidations
				if r.Chance(20) {
					path = fmt.Sprintf("/reval%d", r.Intn(5))
				}
				var hs []string
				if r.Chance(35) {
					hs = append(hs, "Range: "+emit.Pick(r, rangeVals))
				}
				if r.Chance(15) {
					hs = append(hs, "If-Range: "+emit.Pick(r, ifRangeVals))
				}
				m := "GET"
				if r.Chance(10) {
					m = "HEAD"
				}
				if r.Chance(25) {
					// make stored entries go stale so that revalidation paths run
					env.Proxy.VerifCache().VerifAge(2 * time.Hour)
				}
				raw := string(env.PlainRequest(m, path, hs, nil))
				send(tcase{Stream: "origin", Desc: backend, Raw: raw, Origin: ls, Status: curStatus}, m)
			}
			// origin status codes at and beyond the edges of what a server may send
			for _, code := range []string{"000", "001", "099", "100", "101", "103", "199", "200", "226", "299", "304", "399", "499", "599", "600", "999", "1000", "20", "abc", "-10"} {
				for _, m := range []string{"GET", "HEAD"} {
					raw := []byte("HTTP/1.1 " + code + " Edge\r\nContent-Length: 2\r\nCache-Control: max-age=60\r\n\r\nok")
					env.Origin.SetHandler(func(req e2elib.OriginRequest, n int) e2elib.Answer { return e2elib.Answer{Raw: raw, AbortAfter: -1} })
					rq := string(env.PlainRequest(m, "/status-"+code+"-"+m, nil, nil))
					send(tcase{Stream: "origin-status", Desc: backend, Raw: rq, Origin: []string{"status line: HTTP/1.1 " + code + " Edge"}}, m)
				}
			}
			// an origin that answers every request carrying a Range with 416 and every other one with a storable 200
			// (a complete file the client tries to resume): all Range forms, cold and warm paths
			env.Origin.SetHandler(func(req e2elib.OriginRequest, n int) e2elib.Answer {
				if req.Header.Get("Range") != "" {
					return e2elib.NewAnswer(416, []byte("nope"), "Content-Range: bytes */10")
				}
				lines := []string{"Cache-Control: max-age=60", `ETag: "r1"`}
				if strings.Contains(req.Target, "nostore") {
					lines[0] = "Cache-Control: no-store"
				}
				return e2elib.NewAnswer(200, []byte("0123456789"), lines...)
			})
			for i, rv := range append([]string{"bytes=10-", "bytes=50-60", "bytes=0-5", "bytes=-3", "bytes=9-9", "bytes=0-4,6-8", "bytes=abc", "bytes=-0"}, rangeVals...) {
				for _, pth := range []string{fmt.Sprintf("/r416-%d", i), fmt.Sprintf("/r416-%d", i), fmt.Sprintf("/r416-nostore-%d", i)} {
					raw := string(env.PlainRequest("GET", pth, []string{"Range: " + rv}, nil))
					send(tcase{Stream: "origin-416-on-range", Desc: backend, Raw: raw, Origin: []string{"416 to every request with a Range, storable 200 otherwise"}, Status: 416}, "GET")
				}
			}
			env.Close()

			// boundary configurations: memory budget 0 %, one lock shard, a 1-byte size limit, default lifetime 0
			if !retry {
				envB, err := e2elib.Start(e2elib.Options{Backend: backend, Dir: envDir + "-boundary", Shards: 1, MaxSize: 1, Tune: func(cfg *config.Config) {
					cfg.Cache.Memory.MemoryBudgetPercent.Overwrite(0)
					cfg.Proxy.CachePolicy.DefaultMaxAge.Overwrite(duration.Duration(0))
				}})
				if err != nil {
					panic(err)
				}
				envB.Origin.SetHandler(func(req e2elib.OriginRequest, n int) e2elib.Answer {
					return e2elib.NewAnswer(200, []byte("0123456789"), "Cache-Control: max-age=60", `ETag: "b1"`)
				})
				for i := 0; i < 8; i++ {
					m := []string{"GET", "GET", "HEAD"}[i%3]
					var hs []string
					if i%4 == 3 {
						hs = []string{"Range: bytes=2-5"}
					}
					raw := string(envB.PlainRequest(m, fmt.Sprintf("/boundary%d", i%3), hs, nil))
					resp, err := envB.DoPlain([]byte(raw), m, 8*time.Second)
					check(tcase{Stream: "boundary-config", Desc: backend + ": memory_budget_percent=0, lock_shards=1, max_cache_size=1, default_max_age=0", Raw: raw}, resp, err)
				}
				envB.Close()
			}

			// --- stream C: the same request mutations inside one CONNECT tunnel per request
			envT, err := e2elib.Start(e2elib.Options{Backend: backend, Dir: envDir + "-tls", TLS: true, Shards: 2})
			if err != nil {
				panic(err)
			}
			envT.Cfg.Proxy.RetryOnInvalidRange.Overwrite(retry)
			envT.Origin.SetHandler(func(req e2elib.OriginRequest, n int) e2elib.Answer {
				return e2elib.NewAnswer(200, []byte("0123456789"), "Cache-Control: max-age=60", `ETag: "v1"`)
			})
			var tun *e2elib.Conn
			prev := ""
			for i := 0; i < nTun/4; i++ {
				if tun == nil || r.Chance(30) {
					prev = ""
					if tun != nil {
						tun.Close()
					}
					tun, _, err = envT.DialTunnel(envT.Origin.Addr, "127.0.0.1", 8*time.Second)
					if err != nil {
						failures = append(failures, failure{tcase{Stream: "tunnel", Desc: backend}, "cannot open tunnel: " + err.Error()})
						total++
						tun = nil
						continue
					}
				}
				m := emit.Pick(r, []string{"GET", "GET", "GET", "HEAD", "POST", "DELETE"})
				p := emit.Pick(r, paths[:17])
				var hs []string
				if r.Chance(60) {
					hs = append(hs, "Range: "+emit.Pick(r, rangeVals))
				}
				if r.Chance(30) {
					hs = append(hs, "If-Range: "+emit.Pick(r, ifRangeVals))
				}
				if r.Chance(20) {
					hs = append(hs, "If-Modified-Since: "+emit.Pick(r, dateVals))
				}
				var body []byte
				if m == "POST" {
					body = []byte("bb")
				}
				raw := envT.TunnelRequest(m, p, hs, body)
				tc := tcase{Stream: "tunnel", Desc: backend, Raw: string(raw), Prev: prev}
				prev = string(raw)
				if err := tun.Send(raw, 5*time.Second); err != nil {
					check(tc, nil, err)
					tun.Close()
					tun = nil
					continue
				}
				resp, err := tun.Read(m, 8*time.Second)
				check(tc, resp, err)
				if err != nil || resp.BodyErr != "" || resp.Close || resp.Framing == "close" {
					tun.Close()
					tun = nil
				}
			}
			if tun != nil {
				tun.Close()
			}
			envT.Close()
			os.RemoveAll(envDir)
			os.RemoveAll(envDir + "-tls")
		}
	}
	// configuration values: file logging switched off (logging.file = "", the documented way), then the log reader the
	// API's /api/log handler calls first: an error ("no log file"), never a panic
	{
		cfg := config.NewDefault()
		cfg.Logging.ToStdout.Overwrite(false)
		cfg.Logging.File.Overwrite("")
		logging.Init(cfg)
		e2elib.Quiet()
		total++
		dist["log-reader-without-log-file"]++
		func() {
			defer func() {
				if p := recover(); p != nil {
					failures = append(failures, failure{tcase{Stream: "config", Desc: "logging.file = \"\" (file logging off), then logging.OpenLogFileRead() as GET /api/log does"}, fmt.Sprintf("panic: %v", p)})
				}
			}()
			if f, err := logging.OpenLogFileRead(); err == nil {
				f.Close()
				failures = append(failures, failure{tcase{Stream: "config", Desc: "logging.file = \"\""}, "a log file was opened although file logging is off"})
			}
		}()
	}
	if len(failures) > 40 {
		failures = failures[:40]
	}
	out := map[string]any{
		"harness": "fuzz16", "seed": *flagSeed, "tier": *flagTier, "total": total, "distinct": total, "distinct_nontrivial": total,
		"rule":         "raw-socket requests against the real proxy (plain absolute-form, CONNECT targets, requests inside TLS tunnels) with mutated request line / Host / Range / If-Range / Cache-Control / conditionals / Connection, and hostile origin status + header sets on fresh, stored and stale entries; x backends {memory,file} x retry settings; every request must get a well-formed response (status line, framing-consistent body) within 8 s; plus: the log reader with file logging switched off returns an error, no panic",
		"distribution": map[string]any{"stream": dist},
		"samples":      samples, "files": []string{}, "readable": []any{},
		"direct": map[string]any{"total": total, "failures": failures, "mismatches": []any{}},
	}
	b, _ := json.MarshalIndent(out, "", " ")
	if err := os.WriteFile(filepath.Join(*flagOut, "meta.json"), b, 0644); err != nil {
		panic(err)
	}
	fmt.Printf("fuzz16: %d requests, %d failures\n", total, len(failures))
}

func joinLines(ls []string) string {
	if len(ls) == 0 {
		return ""
	}
	return strings.Join(ls, "\r\n") + "\r\n"
}
