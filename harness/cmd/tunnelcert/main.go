// tunnelcert — C11 end to end: the certificate a client is actually PRESENTED inside a CONNECT tunnel is valid
// for the host of THAT tunnel (chain to the configured CA, name, validity at the current time), whatever other
// tunnels are being set up at the same moment.  Forced schedule: CONNECT A, 200, CONNECT B, 200, handshake B,
// handshake A (and the mirror image); plus bursts of concurrent tunnels to different and equal hosts.
// Decided by the harness itself ("direct" stage): the verdict is crypto/tls's own verification.
package main

import (
	"bufio"
	"crypto/tls"
	"crypto/x509"
	"encoding/json"
	"flag"
	"fmt"
	"net"
	"net/http"
	"os"
	"path/filepath"
	"strings"
	"sync"
	"time"

	"verifharness/e2elib"
)

var (
	flagOut  = flag.String("out", ".", "output directory")
	flagSeed = flag.Int64("seed", 1, "seed")
	flagTier = flag.String("tier", "quick", "tier")
)

type failure struct {
	Scenario string `json:"scenario"`
	Host     string `json:"tunnel_to"`
	Other    string `json:"set_up_meanwhile,omitempty"`
	What     string `json:"what"`
}

func connect(env *e2elib.Env, hostport string) (net.Conn, error) {
	c, err := net.DialTimeout("tcp", env.ProxyAddr, 5*time.Second)
	if err != nil {
		return nil, err
	}
	c.SetDeadline(time.Now().Add(10 * time.Second))
	fmt.Fprintf(c, "CONNECT %s HTTP/1.1\r\nHost: %s\r\n\r\n", hostport, hostport)
	resp, err := http.ReadResponse(bufio.NewReader(c), &http.Request{Method: "CONNECT"})
	if err != nil {
		c.Close()
		return nil, err
	}
	if resp.StatusCode != 200 {
		c.Close()
		return nil, fmt.Errorf("CONNECT status %d", resp.StatusCode)
	}
	return c, nil
}

// handshake verifies chain, name and validity with the standard verifier
func handshake(env *e2elib.Env, c net.Conn, host string) error {
	tc := tls.Client(c, &tls.Config{RootCAs: env.CAPool, ServerName: host})
	err := tc.Handshake()
	c.Close()
	return err
}

func main() {
	flag.Parse()
	e2elib.Quiet()
	if err := os.MkdirAll(*flagOut, 0755); err != nil {
		panic(err)
	}
	dir := filepath.Join(*flagOut, "env")
	env, err := e2elib.Start(e2elib.Options{Backend: "memory", Dir: dir, TLS: true})
	if err != nil {
		panic(err)
	}
	defer os.RemoveAll(dir)
	failures := []failure{}
	dist := map[string]int{}
	total := 0
	rounds := 12
	if *flagTier == "thorough" {
		rounds = 120
	}
	for i := 0; i < rounds; i++ {
		a := fmt.Sprintf("alpha%d.example.org", i)
		b := fmt.Sprintf("beta%d.example.net", i)
		if i%3 == 2 {
			b = a // the same host twice: both must still be served
		}
		// forced overlap of the two set-ups
		ca, err1 := connect(env, a+":443")
		cb, err2 := connect(env, b+":443")
		total++
		dist["overlapped-setup"]++
		if err1 != nil || err2 != nil {
			failures = append(failures, failure{"overlapped-setup", a, b, fmt.Sprintf("CONNECT failed: %v %v", err1, err2)})
			continue
		}
		first, second, hf, hs := cb, ca, b, a
		if i%2 == 1 {
			first, second, hf, hs = ca, cb, a, b
		}
		if err := handshake(env, first, hf); err != nil {
			failures = append(failures, failure{"overlapped-setup", hf, hs, "the certificate presented in the tunnel is not acceptable for the tunnel's host: " + err.Error()})
		}
		if err := handshake(env, second, hs); err != nil {
			failures = append(failures, failure{"overlapped-setup", hs, hf, "the certificate presented in the tunnel is not acceptable for the tunnel's host: " + err.Error()})
		}
	}
	// a ClientHello whose server_name is not the CONNECT target (an alias, or a name for an IP target): the client asked
	// the proxy for the CONNECT target and verifies what it is presented for THAT name
	for i, pr := range [][2]string{{"origin-a.example.org", "front.example.org"}, {"192.0.2.7", "alias.example.org"}, {"origin-b.example.org", "ORIGIN-B.example.org"}, {"origin-c.example.org", ""}} {
		target, sni := pr[0], pr[1]
		c, err := connect(env, target+":8443")
		total++
		dist["sni-differs"]++
		if err != nil {
			failures = append(failures, failure{"sni-differs", target, sni, "CONNECT failed: " + err.Error()})
			continue
		}
		tc := tls.Client(c, &tls.Config{ServerName: sni, InsecureSkipVerify: true})
		err = tc.Handshake()
		if err != nil {
			failures = append(failures, failure{"sni-differs", target, sni, "handshake failed: " + err.Error()})
			c.Close()
			continue
		}
		certs := tc.ConnectionState().PeerCertificates
		c.Close()
		if len(certs) == 0 {
			failures = append(failures, failure{"sni-differs", target, sni, "no certificate presented"})
			continue
		}
		inter := x509.NewCertPool()
		for _, ic := range certs[1:] {
			inter.AddCert(ic)
		}
		if _, err := certs[0].Verify(x509.VerifyOptions{Roots: env.CAPool, Intermediates: inter, DNSName: target}); err != nil {
			failures = append(failures, failure{"sni-differs", target, "server_name in the ClientHello: " + sni, fmt.Sprintf("case %d: the certificate presented in the tunnel does not verify for the CONNECT target: %v", i, err)})
		}
	}
	// validity counts from ISSUANCE: a leaf issued three seconds after another one expires about three seconds later
	// (a window anchored at process start would hand out ever shorter-lived, finally dead-on-arrival leaves)
	{
		leafOf := func(host string) (*x509.Certificate, time.Time) {
			c, err := connect(env, host+":443")
			if err != nil {
				return nil, time.Time{}
			}
			defer c.Close()
			at := time.Now()
			tc := tls.Client(c, &tls.Config{ServerName: host, InsecureSkipVerify: true})
			if tc.Handshake() != nil || len(tc.ConnectionState().PeerCertificates) == 0 {
				return nil, time.Time{}
			}
			return tc.ConnectionState().PeerCertificates[0], at
		}
		l1, t1 := leafOf("early.example.org")
		time.Sleep(3 * time.Second)
		l2, t2 := leafOf("late.example.org")
		total++
		dist["validity-from-issuance"]++
		if l1 != nil && l2 != nil {
			gap, apart := l2.NotAfter.Sub(l1.NotAfter), t2.Sub(t1)
			if gap < apart-1500*time.Millisecond {
				failures = append(failures, failure{"validity-from-issuance", "late.example.org", "early.example.org",
					fmt.Sprintf("two leaves issued %.1f s apart expire %.1f s apart: the validity window is not counted from issuance", apart.Seconds(), gap.Seconds())})
			}
		}
	}
	// a target written as a fully qualified name (trailing dot): still a tunnel with a leaf of the configured CA
	for _, h := range []string{"files.example.test.", "mirror.example.test."} {
		c, err := connect(env, h+":443")
		total++
		dist["trailing-dot-target"]++
		if err != nil {
			failures = append(failures, failure{"trailing-dot-target", h, "", "no tunnel: " + err.Error()})
			continue
		}
		tc := tls.Client(c, &tls.Config{ServerName: strings.TrimSuffix(h, "."), InsecureSkipVerify: true})
		err = tc.Handshake()
		certs := tc.ConnectionState().PeerCertificates
		c.Close()
		if err != nil || len(certs) == 0 {
			failures = append(failures, failure{"trailing-dot-target", h, "", fmt.Sprintf("no certificate presented in the tunnel: %v", err)})
			continue
		}
		inter := x509.NewCertPool()
		for _, ic := range certs[1:] {
			inter.AddCert(ic)
		}
		if _, err := certs[0].Verify(x509.VerifyOptions{Roots: env.CAPool, Intermediates: inter}); err != nil {
			failures = append(failures, failure{"trailing-dot-target", h, "", "the certificate presented in the tunnel does not chain to the configured CA: " + err.Error()})
		}
	}
	// replaced once expired — as PRESENTED: the leaf a client is shown after the host's cached leaf has expired is a new one
	{
		shown := func(host string) *x509.Certificate {
			c, err := connect(env, host+":443")
			if err != nil {
				return nil
			}
			defer c.Close()
			tc := tls.Client(c, &tls.Config{ServerName: host, InsecureSkipVerify: true})
			if tc.Handshake() != nil || len(tc.ConnectionState().PeerCertificates) == 0 {
				return nil
			}
			return tc.ConnectionState().PeerCertificates[0]
		}
		for _, h := range []string{"renewed.example.org", "192.0.2.9"} {
			l1 := shown(h)
			l1b := shown(h)
			moved := env.CA.VerifShiftExpiry("", 11*24*time.Hour) // every cached leaf is now past its validity period
			l2 := shown(h)
			total++
			dist["replaced-after-expiry"]++
			switch {
			case l1 == nil || l1b == nil || l2 == nil:
				failures = append(failures, failure{"replaced-after-expiry", h, "", "a tunnel could not be set up"})
			case moved == 0:
				failures = append(failures, failure{"replaced-after-expiry", h, "", "the CA holds no cached leaf after two tunnels to the host"})
			case l1.SerialNumber.Cmp(l1b.SerialNumber) != 0:
				failures = append(failures, failure{"replaced-after-expiry", h, "", "two tunnels inside the validity period were shown different leaves (the host's leaf is not reused)"})
			case l2.SerialNumber.Cmp(l1.SerialNumber) == 0:
				failures = append(failures, failure{"replaced-after-expiry", h, "", "after the host's cached leaf expired the next tunnel was still shown that leaf (serial " + l1.SerialNumber.String() + ")"})
			default:
				if _, err := l2.Verify(x509.VerifyOptions{Roots: env.CAPool}); err != nil {
					failures = append(failures, failure{"replaced-after-expiry", h, "", "the replacement does not verify: " + err.Error()})
				}
			}
		}
	}
	// bursts of concurrent tunnels
	for round := 0; round < rounds/3+1; round++ {
		var wg sync.WaitGroup
		var mu sync.Mutex
		for g := 0; g < 12; g++ {
			wg.Add(1)
			go func(g int) {
				defer wg.Done()
				h := fmt.Sprintf("burst%d-%d.example.com", round, g%5)
				c, err := connect(env, h+":443")
				if err == nil {
					err = handshake(env, c, h)
				}
				if err != nil {
					mu.Lock()
					failures = append(failures, failure{"concurrent-burst", h, "11 other tunnels to 5 hosts", err.Error()})
					mu.Unlock()
				}
			}(g)
		}
		wg.Wait()
		total += 12
		dist["concurrent-burst"] += 12
	}
	env.Close()
	// ca_cert is a CHAIN file (the signing CA followed by the root that issued it); clients trust the signing CA
	{
		cdir := filepath.Join(*flagOut, "envchain")
		envc, err := e2elib.Start(e2elib.Options{Backend: "memory", Dir: cdir, TLS: true, CAChain: true})
		total++
		dist["ca-chain-file"]++
		if err != nil {
			failures = append(failures, failure{"ca-chain-file", "-", "", "the proxy does not start with a CA file that holds the signing CA followed by its root: " + err.Error()})
		} else {
			for _, h := range []string{"chain-a.example.org", "127.0.0.1", "chain-b.example.net"} {
				c, err := connect(envc, h+":443")
				if err == nil {
					err = handshake(envc, c, h)
				}
				total++
				dist["ca-chain-file"]++
				if err != nil {
					failures = append(failures, failure{"ca-chain-file", h, "", "CA file = signing CA followed by its root; client trusts the signing CA: " + err.Error()})
				}
			}
			envc.Close()
		}
		os.RemoveAll(cdir)
	}
	if len(failures) > 12 {
		failures = failures[:12]
	}
	out := map[string]any{
		"harness": "tunnelcert", "seed": *flagSeed, "tier": *flagTier, "total": total, "distinct": total, "distinct_nontrivial": total,
		"rule":         "real proxy, CONNECT tunnels: forced schedule CONNECT A / 200 / CONNECT B / 200 / handshake in either order (different hosts, and the same host twice) + a ClientHello whose server_name differs from the CONNECT target (alias, name for an IP target, other letter case, none) + two leaves issued 3 s apart expire about 3 s apart + targets with a trailing dot + the leaf SHOWN after the host's cached leaf expired is a new one (and the same one inside the validity period) + bursts of 12 concurrent tunnels to 5 hosts + a proxy whose ca_cert is a chain file (signing CA followed by its root); every handshake is verified by crypto/tls against the configured CA with the tunnel's own host as server name (chain, name, validity now)",
		"distribution": map[string]any{"scenario": dist},
		"samples":      []any{map[string]any{"scenario": "overlapped-setup", "first": "alpha0.example.org", "second": "beta0.example.net"}},
		"files":        []string{}, "readable": []any{},
		"direct": map[string]any{"total": total, "failures": failures, "mismatches": []any{}},
	}
	b, _ := json.MarshalIndent(out, "", " ")
	if err := os.WriteFile(filepath.Join(*flagOut, "meta.json"), b, 0644); err != nil {
		panic(err)
	}
	fmt.Printf("tunnelcert: %d tunnels, %d failures\n", total, len(failures))
}
