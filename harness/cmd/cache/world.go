package main

import (
	"bytes"
	"context"
	"errors"
	"fmt"
	"io"
	"os"
	"os/signal"
	"path/filepath"
	"sort"
	"strings"
	"syscall"
	"time"

	"reservoir/cache"
	"reservoir/config"
	"reservoir/metrics"
	"verifharness/emit"
)

// Meta is the MetadataT of the caches under test: one number standing for the
// origin metadata (validators, content type, header set) sent with a body.
type Meta struct{ Tag int64 }

type cacheAPI interface {
	cache.Cache[Meta]
	cache.VerifHooks
}

const shardCount = 64 // keys 0..63 live in distinct shards
const bigLimit = int64(1) << 40

var errInjected = errors.New("injected source failure")

func keyOf(k int) cache.CacheKey {
	return cache.CacheKey{Hex: fmt.Sprintf("%08x", k) + strings.Repeat("0", 56)}
}

type step struct {
	act  string
	out  string
	snap string
}

type readReq struct{ h, n int }

// world drives one cache instance and records the history as model actions.
type world struct {
	backend  int // 0 memory, 1 file
	lim      int64
	cfg      *config.Config
	dir      string
	c        cacheAPI
	cancel   context.CancelFunc
	handles  map[int]*cache.Entry[Meta]
	nextH    int
	universe []int
	capBind  bool
	steps    []*step
	ops      []string // readable macro operations
	auto     bool     // primitives describe themselves (directed histories)
}

// capBindNext: the next memory-backend world gets a huge max_cache_size and its MEMORY BUDGET set to the limit
// instead (the effective limit of the memory backend is min(max_cache_size, memory cap): same model, other code path).
var capBindNext bool

func newWorld(cfg *config.Config, backend int, lim int64, dir string, universe []int) *world {
	w := &world{backend: backend, lim: lim, capBind: capBindNext && backend == 0, cfg: cfg, dir: dir, handles: map[int]*cache.Entry[Meta]{}, universe: universe}
	w.open()
	return w
}

func (w *world) open() {
	metrics.Global = metrics.NewMetrics() // a new process starts with zeroed metrics
	ctx, cancel := context.WithCancel(context.Background())
	w.cancel = cancel
	if w.backend == 0 {
		if w.capBind {
			w.c = cache.NewMemoryCache[Meta](w.cfg, 50, int64(1)<<50, time.Hour, shardCount, ctx)
			w.c.VerifSetMemoryCap(w.lim)
		} else {
			w.c = cache.NewMemoryCache[Meta](w.cfg, 50, w.lim, time.Hour, shardCount, ctx)
		}
	} else {
		w.c = cache.NewFileCache[Meta](w.cfg, w.dir, w.lim, time.Hour, shardCount, ctx)
	}
}

func (w *world) shutdown() {
	for _, e := range w.handles {
		e.Data.Close()
	}
	w.handles = map[int]*cache.Entry[Meta]{}
	w.c.Destroy()
	w.cancel()
}

func (w *world) keyIDs() []int {
	ids := []int{}
	for _, hx := range w.c.VerifKeys() {
		var k int
		fmt.Sscanf(hx[:8], "%x", &k)
		ids = append(ids, k)
	}
	sort.Ints(ids)
	return ids
}

func (w *world) dirListing() string {
	if w.backend == 0 {
		return "[]"
	}
	ents, err := os.ReadDir(w.dir)
	if err != nil {
		return "[(-2, 0)]"
	}
	type nm struct{ code, size int64 }
	var l []nm
	for _, e := range ents {
		code := int64(-1)
		name := e.Name()
		base := strings.TrimSuffix(name, ".tmp")
		if len(base) == 64 && strings.HasSuffix(base, strings.Repeat("0", 56)) {
			var k int64
			if _, err := fmt.Sscanf(base[:8], "%x", &k); err == nil {
				code = 2 * k
				if name != base {
					code++
				}
			}
		}
		var size int64
		if fi, err := e.Info(); err == nil {
			size = fi.Size()
		}
		l = append(l, nm{code, size})
	}
	sort.Slice(l, func(i, j int) bool { return l[i].code < l[j].code })
	items := make([]string, len(l))
	for i, x := range l {
		items[i] = emit.Pair(emit.Z(x.code), emit.Z(x.size))
	}
	return emit.List(items)
}

// snapshot: counters + directory, and (when quiescent) what every key of the universe returns.
func (w *world) snapshot(quiescent bool) string {
	retr := "None"
	if quiescent {
		items := []string{}
		for _, k := range w.universe {
			e, err := w.c.Get(keyOf(k))
			if err != nil {
				continue
			}
			data, rerr := io.ReadAll(e.Data)
			e.Data.Close()
			if rerr != nil {
				continue
			}
			items = append(items, fmt.Sprintf("(%d, (%s, %s, %s))", k, emit.Bytes(data), emit.Z(e.Metadata.Size), emit.Z(e.Metadata.Object.Tag)))
		}
		retr = "(Some " + emit.List(items) + ")"
	}
	// counters are read after the Gets (they do not move them)
	return fmt.Sprintf("(Snap %s %s %s %s %s)", retr, emit.Z(w.c.VerifByteSize()),
		emit.Z(metrics.Global.Cache.BytesCached.Get()), emit.Z(metrics.Global.Cache.CacheEntries.Get()), w.dirListing())
}

func (w *world) record(act, out string, quiescent bool) *step {
	s := &step{act: act, out: out, snap: w.snapshot(quiescent)}
	w.steps = append(w.steps, s)
	return s
}

func zlist(ks []int) string {
	items := make([]string, len(ks))
	for i, k := range ks {
		items[i] = fmt.Sprint(k)
	}
	return emit.List(items)
}

func diff(a, b []int) []int { // a \ b
	in := map[int]bool{}
	for _, x := range b {
		in[x] = true
	}
	out := []int{}
	for _, x := range a {
		if !in[x] {
			out = append(out, x)
		}
	}
	return out
}

func without(a []int, k int) []int { return diff(a, []int{k}) }

// ---- the source of a store: runs the scheduled lock-free reads between chunks ----
type source struct {
	w       *world
	k       int
	exp     int
	obj     int64
	chunks  [][]byte
	ending  int // 0 EOF, 1 error, 2 panic (process dies)
	gaps    map[int][]readReq
	call    int
	before  []int
	begin   *step
	started bool
}

func (s *source) Read(p []byte) (int, error) {
	j := s.call
	s.call++
	if j == 0 {
		s.started = true
		ev := diff(s.before, s.w.keyIDs())
		s.begin = s.w.record(fmt.Sprintf("ABegin %d %s %s %s", s.k, emit.Z(int64(s.exp)), emit.Z(s.obj), zlist(ev)), "RUnit", false)
	} else if j-1 < len(s.chunks) {
		s.w.record(fmt.Sprintf("AWrite %d %s", s.k, emit.Bytes(s.chunks[j-1])), "RUnit", false)
	}
	for _, rq := range s.gaps[j] {
		s.w.doRead(rq.h, rq.n, false)
	}
	if j < len(s.chunks) {
		return copy(p, s.chunks[j]), nil
	}
	switch s.ending {
	case 1:
		return 0, errInjected
	case 2:
		panic("harness: process dies here")
	}
	return 0, io.EOF
}

// withFileSizeLimit runs f while no file of this process may grow beyond n bytes (write(2) then fails with
// EFBIG; SIGXFSZ is ignored). The sandbox runs as root, so permission bits cannot inject write failures.
func withFileSizeLimit(n int64, f func()) {
	signal.Ignore(syscall.SIGXFSZ)
	var old syscall.Rlimit
	if err := syscall.Getrlimit(syscall.RLIMIT_FSIZE, &old); err != nil {
		panic(err)
	}
	lim := syscall.Rlimit{Cur: uint64(n), Max: old.Max}
	if err := syscall.Setrlimit(syscall.RLIMIT_FSIZE, &lim); err != nil {
		panic(err)
	}
	defer func() {
		if err := syscall.Setrlimit(syscall.RLIMIT_FSIZE, &old); err != nil {
			panic(err)
		}
	}()
	f()
}

// storeDiskFull performs Cache(k, ...) on the file backend while the disk accepts only n more bytes per file:
// the copy fails part-way, Cache() must clean up. In the model this is a store whose transfer is aborted.
func (w *world) storeDiskFull(k int, chunks [][]byte, n int64, exp int, obj int64) {
	if w.auto {
		w.say("store %d %s disk-write-fails-after=%d exp=%d obj=%d", k, showChunks(chunks), n, exp, obj)
	}
	src := &source{w: w, k: k, exp: exp, obj: obj, chunks: chunks, before: w.keyIDs()}
	var err error
	var entry *cache.Entry[Meta]
	withFileSizeLimit(n, func() {
		entry, err = w.c.Cache(keyOf(k), src, time.Now().Add(time.Duration(exp)*time.Second), Meta{Tag: obj})
	})
	if err == nil {
		// everything fitted: an ordinary completed store
		h := w.nextH
		w.nextH++
		w.handles[h] = entry
		w.record(fmt.Sprintf("ACommit %d", k), fmt.Sprintf("(RHandle %d %s %s false)", h, emit.Z(entry.Metadata.Size), emit.Z(entry.Metadata.Object.Tag)), true)
		return
	}
	if !src.started {
		w.record(fmt.Sprintf("ABegin %d %s %s []", k, emit.Z(int64(exp)), emit.Z(obj)), "RErr", true)
		return
	}
	if src.call == len(chunks)+1 {
		// the source was read to EOF: the refusal is the empty-body one
		w.record(fmt.Sprintf("ACommit %d", k), "RErr", true)
		return
	}
	w.record(fmt.Sprintf("AAbort %d", k), "RErr", true)
}

// store performs Cache(k, src, now+exp, obj). ending: 0 ok, 1 source error, 2 crash (then the caller must reopen).
func (w *world) store(k int, chunks [][]byte, ending int, exp int, obj int64, gaps map[int][]readReq) {
	if w.auto {
		w.say("store %d %s%s exp=%d obj=%d reads-between-chunks=%d", k, showChunks(chunks), []string{"", " fail", " crash"}[ending], exp, obj, len(gaps))
	}
	src := &source{w: w, k: k, exp: exp, obj: obj, chunks: chunks, ending: ending, gaps: gaps, before: w.keyIDs()}
	var entry *cache.Entry[Meta]
	var err error
	crashed := false
	func() {
		defer func() {
			if r := recover(); r != nil {
				if ending != 2 {
					panic(r)
				}
				crashed = true
			}
		}()
		entry, err = w.c.Cache(keyOf(k), src, time.Now().Add(time.Duration(exp)*time.Second), Meta{Tag: obj})
	}()
	if crashed {
		return
	}
	if !src.started {
		// refused before the source was touched
		ev := without(diff(src.before, w.keyIDs()), k)
		w.record(fmt.Sprintf("ABegin %d %s %s %s", k, emit.Z(int64(exp)), emit.Z(obj), zlist(ev)), "RErr", true)
		return
	}
	if err != nil {
		act := "ACommit"
		if ending == 1 {
			act = "AAbort"
		}
		w.record(fmt.Sprintf("%s %d", act, k), "RErr", true)
		return
	}
	h := w.nextH
	w.nextH++
	w.handles[h] = entry
	w.record(fmt.Sprintf("ACommit %d", k), fmt.Sprintf("(RHandle %d %s %s false)", h, emit.Z(entry.Metadata.Size), emit.Z(entry.Metadata.Object.Tag)), true)
}

func (w *world) get(k int) {
	if w.auto {
		w.say("get %d", k)
	}
	e, err := w.c.Get(keyOf(k))
	act := fmt.Sprintf("AGet %d", k)
	if errors.Is(err, cache.ErrCacheEntryNotFound) {
		w.record(act, "RMiss", true)
		return
	}
	if err != nil {
		w.record(act, "RErr", true)
		return
	}
	h := w.nextH
	w.nextH++
	w.handles[h] = e
	w.record(act, fmt.Sprintf("(RHandle %d %s %s %s)", h, emit.Z(e.Metadata.Size), emit.Z(e.Metadata.Object.Tag), emit.Bool(e.Stale)), true)
}

func (w *world) doRead(h, n int, quiescent bool) {
	if w.auto {
		if quiescent {
			w.say("read h%d %d", h, n)
		}
	}
	e := w.handles[h]
	act := fmt.Sprintf("ARead %d %d", h, n)
	if e == nil {
		w.record(act, "RBadHandle", quiescent)
		return
	}
	buf := make([]byte, n)
	m, err := io.ReadFull(e.Data, buf)
	if err != nil && err != io.EOF && err != io.ErrUnexpectedEOF {
		w.record(act, "RBadHandle", quiescent)
		return
	}
	w.record(act, fmt.Sprintf("(RBytes %s %s %s)", emit.Bytes(buf[:m]), emit.Z(e.Metadata.Size), emit.Z(e.Metadata.Object.Tag)), quiescent)
}

func (w *world) closeH(h int) {
	if w.auto {
		w.say("close h%d", h)
	}
	if e := w.handles[h]; e != nil {
		e.Data.Close()
	}
	w.record(fmt.Sprintf("AClose %d", h), "RUnit", true)
}

func (w *world) del(k int) {
	if w.auto {
		w.say("delete %d", k)
	}
	out := "RUnit"
	if err := w.c.Delete(keyOf(k)); err != nil {
		out = "RErr"
	}
	w.record(fmt.Sprintf("ADelete %d", k), out, true)
}

func (w *world) update(k, exp int) {
	if w.auto {
		w.say("update %d exp=%d", k, exp)
	}
	out := "RUnit"
	err := w.c.UpdateMetadata(keyOf(k), func(m *cache.EntryMetadata[Meta]) {
		m.Expires = time.Now().Add(time.Duration(exp) * time.Second)
	})
	if err != nil {
		out = "RErr"
	}
	w.record(fmt.Sprintf("AUpdate %d %s", k, emit.Z(int64(exp))), out, true)
}

func (w *world) advance(d int) {
	if w.auto {
		w.say("advance %d", d)
	}
	w.c.VerifAge(time.Duration(d) * time.Second)
	w.record(fmt.Sprintf("AAdvance %d", d), "RUnit", true)
}

func (w *world) withHeld(skip []int, f func()) {
	for _, k := range skip {
		w.c.VerifLockShard(keyOf(k).Hex)
	}
	f()
	for _, k := range skip {
		w.c.VerifUnlockShard(keyOf(k).Hex)
	}
}

func (w *world) cleanup(skip []int) {
	if w.auto {
		w.say("cleanup skip=%v", skip)
	}
	w.withHeld(skip, func() { w.c.VerifCleanExpired() })
	w.record(fmt.Sprintf("ACleanup %s", zlist(skip)), "RUnit", true)
}

// evict runs the real janitor eviction; the set it removed is what the model is told.
func (w *world) evict(limit int64, skip []int) {
	if w.auto {
		w.say("evict limit=%d skip=%v", limit, skip)
	}
	before := w.keyIDs()
	w.withHeld(skip, func() { w.c.VerifEvict(limit) })
	w.record(fmt.Sprintf("AEvict %s", zlist(diff(before, w.keyIDs()))), "RUnit", true)
}

func (w *world) reopen() {
	if w.auto {
		w.say("reopen")
	}
	w.shutdown()
	w.open()
	w.record("AReopen", "RUnit", true)
}

func (w *world) gallina() string {
	var sb bytes.Buffer
	fmt.Fprintf(&sb, "SC %d %s [", w.backend, emit.Z(w.lim))
	for i, s := range w.steps {
		if i > 0 {
			sb.WriteString("; ")
		}
		fmt.Fprintf(&sb, "(%s, %s, %s)", s.act, s.out, s.snap)
	}
	sb.WriteString("]")
	return sb.String()
}

func cacheDir(out string) string {
	d, err := filepath.Abs(filepath.Join(out, "cachedir"))
	if err != nil {
		panic(err)
	}
	return d
}
