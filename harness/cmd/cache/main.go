// cache: correspondence harness for the two cache backends of reservoir.
// Drives the REAL MemoryCache and FileCache with operation histories (stores
// whose source runs lock-free reads of held handles between chunks, failing /
// empty / crashing sources, overwrite, delete, expiry, eviction, restart over
// the same directory) and records, after every step, the observables the Store
// model predicts.
// Usage: cache -prop C12|C01 -seed N -tier quick|thorough -out DIR
package main

import (
	"flag"
	"fmt"
	"io"
	"log/slog"
	"os"
	"sort"
	"strings"

	"reservoir/config"
	"verifharness/emit"
)

var (
	flagProp = flag.String("prop", "C12", "property id (selects the checker)")
	flagSeed = flag.Int64("seed", 1, "PRNG seed")
	flagTier = flag.String("tier", "quick", "quick|thorough")
	flagOut  = flag.String("out", ".", "output directory")
)

func thorough() bool { return *flagTier == "thorough" }

type gen struct {
	cfg  *config.Config
	dir  string
	wr   *emit.Writer
	meta *emit.Meta
}

func (g *gen) finish(w *world, kind string) {
	w.shutdown()
	g.wr.Add(w.gallina())
	key := fmt.Sprintf("%d|%d|%s", w.backend, w.lim, strings.Join(w.ops, ";"))
	nontrivial := false
	stores := map[string]int{}
	for _, o := range w.ops {
		f := strings.Fields(o)
		switch f[0] {
		case "store":
			stores[f[1]]++
			if stores[f[1]] > 1 || strings.Contains(o, "fail") || strings.Contains(o, "empty") {
				nontrivial = true
			}
		case "evict", "expire", "cleanup", "reopen", "crash":
			nontrivial = true
		}
		g.meta.Count("ops", f[0])
	}
	g.meta.Count("kind", kind)
	g.meta.Count("backend", []string{"memory", "file"}[w.backend])
	g.meta.Count("len", lenBin(len(w.ops)))
	g.meta.Count("steps", lenBin(len(w.steps)))
	g.meta.Record(key, nontrivial, map[string]any{"backend": []string{"memory", "file"}[w.backend], "limit": w.lim, "kind": kind, "ops": w.ops})
}

func lenBin(n int) string {
	switch {
	case n <= 3:
		return "1-3"
	case n <= 8:
		return "4-8"
	case n <= 20:
		return "9-20"
	case n <= 40:
		return "21-40"
	}
	return ">40"
}

func (w *world) openHandles() []int {
	hs := []int{}
	for h := range w.handles {
		hs = append(hs, h)
	}
	sort.Ints(hs)
	return hs
}

func (w *world) say(format string, a ...any) { w.ops = append(w.ops, fmt.Sprintf(format, a...)) }

// gapsAll: every open handle reads n bytes at every gap of a store with c chunks.
func (w *world) gapsAll(c, n int) map[int][]readReq {
	g := map[int][]readReq{}
	for j := 1; j <= c; j++ {
		for _, h := range w.openHandles() {
			g[j] = append(g[j], readReq{h, n})
		}
	}
	return g
}

// ---- symbols of the bounded-exhaustive enumeration ----
type symbol struct {
	name string
	run  func(w *world)
}

func alphabet(keys []int) []symbol {
	var a []symbol
	for _, k := range keys {
		k := k
		a = append(a,
			symbol{fmt.Sprintf("S1.%d", k), func(w *world) {
				w.say("store %d AAA|AA obj=1 interleaved-reads", k)
				w.store(k, [][]byte{[]byte("AAA"), []byte("AA")}, 0, 3605, 1, w.gapsAll(2, 2))
			}},
			symbol{fmt.Sprintf("S2.%d", k), func(w *world) {
				w.say("store %d BB|B obj=2 interleaved-reads", k)
				w.store(k, [][]byte{[]byte("BB"), []byte("B")}, 0, 3605, 2, w.gapsAll(2, 2))
			}},
			symbol{fmt.Sprintf("SF.%d", k), func(w *world) {
				w.say("store %d CC fail obj=3", k)
				w.store(k, [][]byte{[]byte("CC")}, 1, 3605, 3, w.gapsAll(1, 1))
			}},
			symbol{fmt.Sprintf("SE.%d", k), func(w *world) {
				w.say("store %d empty obj=4", k)
				w.store(k, nil, 0, 3605, 4, nil)
			}},
			symbol{fmt.Sprintf("D.%d", k), func(w *world) { w.say("delete %d", k); w.del(k) }},
			symbol{fmt.Sprintf("G.%d", k), func(w *world) { w.say("get %d", k); w.get(k) }},
			symbol{fmt.Sprintf("E.%d", k), func(w *world) {
				w.say("expire %d", k)
				w.update(k, -5)
				w.cleanup(nil)
			}},
		)
	}
	a = append(a,
		symbol{"R3", func(w *world) {
			w.say("read 3 (all handles)")
			for _, h := range w.openHandles() {
				w.doRead(h, 3, true)
			}
		}},
		symbol{"RA", func(w *world) {
			w.say("read all (all handles)")
			for _, h := range w.openHandles() {
				w.doRead(h, 100, true)
			}
		}},
		symbol{"V", func(w *world) { w.say("evict limit=0"); w.evict(0, nil) }},
		symbol{"O", func(w *world) { w.say("reopen"); w.reopen() }},
	)
	return a
}

func (g *gen) exhaustive(keys []int, depth int, kind string) {
	alpha := alphabet(keys)
	idx := make([]int, depth)
	var rec func(d int)
	rec = func(d int) {
		if d == depth {
			for backend := 0; backend < 2; backend++ {
				w := newWorld(g.cfg, backend, bigLimit, g.dir, keys)
				for _, i := range idx {
					alpha[i].run(w)
				}
				// finally drain every handle that is still open
				w.say("read all (all handles)")
				for _, h := range w.openHandles() {
					w.doRead(h, 100, true)
				}
				g.finish(w, kind)
			}
			return
		}
		for i := range alpha {
			idx[d] = i
			rec(d + 1)
		}
	}
	rec(0)
}

// ---- random histories ----
func randBody(r *emit.Rand) [][]byte {
	n := r.Intn(4) // chunks
	if r.Chance(10) {
		n = 0
	}
	var chunks [][]byte
	for i := 0; i < n; i++ {
		l := 1 + r.Intn(5)
		if r.Chance(5) {
			l = 20 + r.Intn(20)
		}
		b := make([]byte, l)
		for j := range b {
			if r.Chance(80) {
				b[j] = byte('a' + r.Intn(26))
			} else {
				b[j] = byte(r.Intn(256))
			}
		}
		chunks = append(chunks, b)
	}
	return chunks
}

func showChunks(c [][]byte) string {
	if len(c) == 0 {
		return "empty"
	}
	s := make([]string, len(c))
	for i, b := range c {
		s[i] = fmt.Sprintf("%x", b)
	}
	return strings.Join(s, "|")
}

func subset(r *emit.Rand, keys []int, p int) []int {
	out := []int{}
	for _, k := range keys {
		if r.Chance(p) {
			out = append(out, k)
		}
	}
	return out
}

func (g *gen) random(r *emit.Rand, n int, kind string) {
	exps := []int{-5, 15, 35, 3605, 3605, 3605}
	for i := 0; i < n; i++ {
		backend := r.Intn(2)
		nkeys := 1 + r.Intn(3)
		keys := []int{0, 1, 2}[:nkeys]
		lim := bigLimit
		if r.Chance(30) {
			lim = int64(4 + r.Intn(20))
		}
		capBindNext = lim != bigLimit && i%2 == 1
		w := newWorld(g.cfg, backend, lim, g.dir, keys)
		capBindNext = false
		if w.capBind {
			g.meta.Count("memory_budget_is_the_limit", "yes")
		}
		length := 6 + r.Intn(30)
		if thorough() && r.Chance(20) {
			length = 40 + r.Intn(40)
		}
		var objCtr int64 = 10
		for j := 0; j < length; j++ {
			k := emit.Pick(r, keys)
			hs := w.openHandles()
			switch c := r.Intn(100); {
			case c < 30: // store
				chunks := randBody(r)
				ending := 0
				if r.Chance(20) {
					ending = 1
				}
				objCtr++
				gaps := map[int][]readReq{}
				for gp := 0; gp <= len(chunks); gp++ {
					for _, h := range hs {
						if r.Chance(40) {
							gaps[gp] = append(gaps[gp], readReq{h, 1 + r.Intn(4)})
						}
					}
				}
				e := emit.Pick(r, exps)
				w.say("store %d %s%s exp=%d obj=%d", k, showChunks(chunks), []string{"", " fail"}[ending], e, objCtr)
				w.store(k, chunks, ending, e, objCtr, gaps)
			case c < 45:
				w.say("get %d", k)
				w.get(k)
			case c < 65:
				if len(hs) == 0 {
					w.say("get %d", k)
					w.get(k)
					break
				}
				h := emit.Pick(r, hs)
				n := 1 + r.Intn(4)
				if r.Chance(25) {
					n = 100
				}
				w.say("read h%d %d", h, n)
				w.doRead(h, n, true)
			case c < 70:
				if len(hs) > 0 {
					h := emit.Pick(r, hs)
					w.say("close h%d", h)
					w.closeH(h)
				}
			case c < 78:
				w.say("delete %d", k)
				w.del(k)
			case c < 83:
				e := emit.Pick(r, exps)
				w.say("update %d exp=%d", k, e)
				w.update(k, e)
			case c < 88:
				d := emit.Pick(r, []int{10, 20})
				w.say("advance %d", d)
				w.advance(d)
			case c < 93:
				skip := subset(r, keys, 25)
				w.say("cleanup skip=%v", skip)
				w.cleanup(skip)
			case c < 97:
				skip := subset(r, keys, 25)
				limit := int64(r.Intn(12))
				w.say("evict limit=%d skip=%v", limit, skip)
				w.evict(limit, skip)
			case c < 98 && backend == 1:
				chunks := randBody(r)
				n := int64(r.Intn(8))
				objCtr++
				w.say("store %d %s disk-write-fails-after=%d obj=%d", k, showChunks(chunks), n, objCtr)
				w.storeDiskFull(k, chunks, n, 3605, objCtr)
			case c < 99:
				w.say("reopen")
				w.reopen()
			default:
				chunks := randBody(r)
				w.say("crash-during-store %d %s then reopen", k, showChunks(chunks))
				w.store(k, chunks, 2, 3605, 99, nil)
				w.reopen()
			}
		}
		w.say("read all (all handles)")
		for _, h := range w.openHandles() {
			w.doRead(h, 100, true)
		}
		g.finish(w, kind)
	}
}

// ---- directed histories: the witnesses of the defects this check was built around ----
func (g *gen) directed() {
	type sc struct {
		name string
		f    func(w *world)
	}
	A := [][]byte{[]byte("AAAAAAAAAA")}
	B := [][]byte{[]byte("BBBB")}
	list := []sc{
		{"overwrite", func(w *world) { w.store(0, A, 0, 3605, 1, nil); w.store(0, B, 0, 3605, 2, nil); w.del(0) }},
		{"overwrite-held-handle", func(w *world) {
			w.store(0, A, 0, 3605, 1, nil)
			w.get(0)
			w.doRead(1, 3, true)
			w.store(0, [][]byte{[]byte("BB"), []byte("BB")}, 0, 3605, 2, map[int][]readReq{1: {{1, 2}}, 2: {{1, 2}}})
			w.doRead(1, 100, true)
			w.doRead(0, 100, true)
		}},
		{"failed-overwrite", func(w *world) {
			w.store(0, A, 0, 3605, 1, nil)
			w.store(0, B, 1, 3605, 2, nil)
			w.get(0)
			w.del(0)
		}},
		{"empty-overwrite", func(w *world) { w.store(0, A, 0, 3605, 1, nil); w.store(0, nil, 0, 3605, 2, nil); w.get(0); w.del(0) }},
		{"crash-reopen", func(w *world) {
			w.store(0, A, 0, 3605, 1, nil)
			w.store(1, B, 2, 3605, 2, nil)
			w.reopen()
			w.get(0)
			w.store(1, B, 0, 3605, 3, nil)
		}},
		{"delete-held-handle", func(w *world) {
			w.store(0, A, 0, 3605, 1, nil)
			w.get(0)
			w.del(0)
			w.doRead(1, 4, true)
			w.get(0)
			w.store(0, B, 0, 3605, 2, nil)
			w.doRead(1, 100, true)
		}},
		{"disk-write-failure", func(w *world) {
			w.store(0, A, 0, 3605, 1, nil)
			w.get(0)
			if w.backend == 1 {
				w.storeDiskFull(0, [][]byte{[]byte("BBB"), []byte("BBBB"), []byte("BB")}, 5, 3605, 2)
				w.storeDiskFull(1, [][]byte{[]byte("CCCCCC")}, 2, 3605, 3)
			}
			w.get(0)
			w.doRead(1, 100, true)
			w.del(0)
		}},
		{"expire-cleanup", func(w *world) {
			w.store(0, A, 0, 15, 1, nil)
			w.store(1, B, 0, 35, 2, nil)
			w.advance(20)
			w.cleanup([]int{})
			w.advance(20)
			w.cleanup([]int{1})
			w.cleanup(nil)
		}},
	}
	for _, s := range list {
		for backend := 0; backend < 2; backend++ {
			w := newWorld(g.cfg, backend, bigLimit, g.dir, []int{0, 1})
			w.say("directed %s", s.name)
			w.auto = true
			s.f(w)
			g.finish(w, "directed")
		}
	}
	// store into a full cache: eviction (and, for memory, refusal) inside Cache()
	for backend := 0; backend < 2; backend++ {
		w := newWorld(g.cfg, backend, 8, g.dir, []int{0, 1, 2})
		w.say("directed full-cache limit=8")
		w.auto = true
		w.store(0, A, 0, 3605, 1, nil)
		w.store(1, B, 0, 3605, 2, nil)
		w.get(1)
		w.store(2, B, 0, 3605, 3, nil)
		w.store(0, B, 0, 3605, 4, nil)
		g.finish(w, "directed")
	}
}

func main() {
	flag.Parse()
	if err := os.MkdirAll(*flagOut, 0755); err != nil {
		panic(err)
	}
	slog.SetDefault(slog.New(slog.NewTextHandler(io.Discard, nil)))
	check := "check_c12"
	seed := *flagSeed
	if *flagProp == "C01" {
		check = "check_c01"
		seed = seed*7919 + 17
	}
	r := emit.NewRand(seed)
	g := &gen{cfg: config.NewDefault(), dir: cacheDir(*flagOut),
		meta: emit.NewMeta("cache/"+*flagProp, *flagSeed, *flagTier),
		wr: &emit.Writer{Dir: *flagOut, Prefix: "cache", ShardSize: 150,
			Imports:  "From Reservoir Require Import Base.Prelude Model.Store Check.Store.",
			CaseType: "store_case", CheckFn: check}}
	g.meta.Rule = "histories of cache operations on both backends (store with lock-free reads of held handles between source chunks, failing/empty/crashing sources, get, chunked reads, close, delete, update, advance, cleanup with held shards, janitor eviction with held shards, restart over the same directory); bounded-exhaustive over the symbol alphabet of main.go (1 key and 2 keys), directed witnesses, random histories of 6-80 operations over 1-3 keys with a small size limit in 30%; distinct by (backend, limit, operation list); non-trivial = contains an overwrite, a failed or empty store, an eviction, an expiry, or a restart"
	g.directed()
	if thorough() {
		g.exhaustive([]int{0}, 4, "exhaustive-1key")
		g.exhaustive([]int{0, 1}, 3, "exhaustive-2keys")
		g.random(r, 3000, "random")
	} else {
		g.exhaustive([]int{0}, 3, "exhaustive-1key")
		g.exhaustive([]int{0, 1}, 2, "exhaustive-2keys")
		g.random(r, 300, "random")
	}
	g.meta.Exhaustive = false
	g.wr.Flush()
	os.RemoveAll(g.dir)
	g.meta.Write(*flagOut, g.wr.Files)
	fmt.Printf("cache/%s: %d histories, %d distinct, %d non-trivial\n", *flagProp, g.meta.Total, g.meta.Distinct, g.meta.Nontrivial)
}
