// reval: end-to-end correspondence harness for C06 (revalidation) and C09 (cache-side
// trouble never fails a good origin answer).
//
// It starts the REAL proxy in-process (harness/e2elib: proxy.NewProxy behind httptest,
// raw scripted origin, raw-socket clients) and plays sequential request histories for
// one resource each: client requests of several methods with conditional fields in
// every form, clock advances (the ageing hook (*Proxy).VerifAge, never sleeping),
// configuration switches, removal of the entry, origin content / validator changes,
// and cache faults injected underneath a request:
//
//	full       memory backend, lock_shards=1, a size limit below one body: once a body
//	           is stored nothing can be evicted while the storing caller holds the
//	           only shard lock
//	empty      file backend, empty bodies (refused by the file backend)
//	write      file backend under setrlimit(RLIMIT_FSIZE) with SIGXFSZ ignored
//	create     file backend whose cache directory was replaced by a regular file
//	vanish     the origin handler deletes the entry (VerifDeleteKey) or, file
//	           backend, removes its data file while the proxy waits for the answer
//	broken     file backend, the entry's data file removed between two requests
//
// Per request it records the client's status, body (checked against the
// self-describing body of the announced version), X-Cache, ETag, and the conditional
// fields of every request the origin received, and prints the history as a Gallina
// term for Check/Proxy.v.  Every client request runs under a watchdog (socket
// deadlines); a missing or truncated response is the observation "status -1".
//
// Usage: reval -prop C06|C09 -seed N -tier quick|thorough -out DIR
package main

import (
	"flag"
	"fmt"
	"net/http"
	"net/url"
	"os"
	"os/signal"
	"path/filepath"
	"strconv"
	"strings"
	"sync"
	"syscall"
	"time"

	"reservoir/cache"
	"reservoir/config"
	"reservoir/utils/bytesize"
	"reservoir/utils/duration"
	"verifharness/e2elib"
	"verifharness/emit"
	"verifharness/freshlib"
)

var (
	flagProp  = flag.String("prop", "C06", "C06|C09 (selects the property checker and the scenario mix)")
	flagSeed  = flag.Int64("seed", 1, "PRNG seed")
	flagTier  = flag.String("tier", "quick", "quick|thorough")
	flagOut   = flag.String("out", ".", "output directory")
	flagN     = flag.Int("n", 0, "histories per scenario group (0 = tier default)")
	flagOnly  = flag.String("only", "", "run only this scenario group")
	flagDbg   = flag.Bool("debug", false, "print every step to stderr")
	flagSleep = flag.Bool("sleep", false, "also run the real-sleep batch (always on in thorough)")
)

const watchdog = 8 * time.Second

// ---------- origin content ----------

type content struct {
	Version int64
	Salt    int    // validator generation: the tag changes when the salt does
	TagKind string // none | strong | weak | empty
	LMKind  string // none | imf | rfc850 | asctime | bad
	LM      time.Time
	BodyLen int
	CC      []string
	Exp     freshlib.Expires
}

func (c content) etag() string {
	switch c.TagKind {
	case "strong":
		return fmt.Sprintf("\"v%d.%d\"", c.Version, c.Salt)
	case "weak":
		return fmt.Sprintf("W/\"v%d.%d\"", c.Version, c.Salt)
	}
	return ""
}

func (c content) lmLine() (string, bool) {
	switch c.LMKind {
	case "imf", "rfc850", "asctime":
		kind := c.LMKind
		if kind == "rfc850" && c.LM.Year() < 1990 {
			kind = "imf" // a two-digit year cannot name such a date
		}
		return freshlib.DateLine(c.LM, kind), true
	case "bad":
		if (int(c.Version)+c.Salt)%2 == 0 && !c.LM.IsZero() {
			// a date with a numeric zone: not one of the three forms of an HTTP date — as unusable as any other text
			return c.LM.In(time.FixedZone("", 2*3600)).Format(time.RFC1123Z), true
		}
		return "yesterday at noon", true
	}
	return "", false
}

func body(version int64, n int) []byte {
	if n == 0 {
		return []byte{}
	}
	b := []byte(fmt.Sprintf("v%d;", version))
	for len(b) < n {
		b = append(b, 'x')
	}
	return b
}

// one answer the origin gave
type given struct {
	Status  int
	C       content
	NoStore bool // answered with Cache-Control: no-store instead of the content's own lines
}

// ---------- per-resource origin state ----------

type resource struct {
	mu      sync.Mutex
	cur     content
	script  []string // answer kind for the k-th request of the step; beyond the end: "auto"
	given   []given
	reqs    []e2elib.OriginRequest
	onFirst func()
}

func condMatches(c content, h http.Header) bool {
	inm := h.Values("If-None-Match")
	if len(inm) > 0 {
		tag := c.etag()
		for _, v := range inm {
			if tag != "" && (v == tag || v == "*") {
				return true
			}
		}
		return false
	}
	if ims := h.Get("If-Modified-Since"); ims != "" {
		if t, err := http.ParseTime(ims); err == nil && c.LMKind != "none" && c.LMKind != "bad" {
			return !c.LM.After(t)
		}
	}
	return false
}

func (rs *resource) answer(req e2elib.OriginRequest) e2elib.Answer {
	rs.mu.Lock()
	k := len(rs.reqs)
	rs.reqs = append(rs.reqs, req)
	hook := rs.onFirst
	rs.onFirst = nil
	kind := "auto"
	if k < len(rs.script) {
		kind = rs.script[k]
	}
	c := rs.cur
	rs.mu.Unlock()
	if k == 0 && hook != nil {
		hook()
	}
	g := given{Status: 200, C: c}
	switch kind {
	case "auto":
		if condMatches(c, req.Header) {
			g.Status = 304
		}
	case "200":
	case "no-store":
		g.NoStore = true
	default:
		g.Status, _ = strconv.Atoi(kind)
	}
	rs.mu.Lock()
	rs.given = append(rs.given, g)
	rs.mu.Unlock()
	return g.render(req.Method)
}

func (g given) lines() []string {
	c := g.C
	ls := []string{"Content-Type: text/plain", "X-Origin-Version: " + strconv.FormatInt(c.Version, 10), "X-Origin-Len: " + strconv.Itoa(c.BodyLen)}
	if g.NoStore {
		ls = append(ls, "Cache-Control: no-store")
	} else {
		for _, l := range c.CC {
			ls = append(ls, "Cache-Control: "+l)
		}
		if c.Exp.Kind != freshlib.ExpAbsent {
			ls = append(ls, "Expires: "+c.Exp.Line)
		}
	}
	switch c.TagKind {
	case "strong", "weak":
		ls = append(ls, "ETag: "+c.etag())
	case "empty":
		ls = append(ls, "ETag: ")
	}
	if l, ok := c.lmLine(); ok {
		ls = append(ls, "Last-Modified: "+l)
	}
	return ls
}

func (g given) render(method string) e2elib.Answer {
	return e2elib.NewAnswer(g.Status, body(g.C.Version, g.C.BodyLen), g.lines()...)
}

func (g given) hview(shift time.Duration) freshlib.HView {
	hv := freshlib.HView{Exp: freshlib.Expires{Kind: freshlib.ExpAbsent, Form: "absent"}}
	if g.NoStore {
		hv.CC = []string{"no-store"}
		return hv
	}
	hv.CC = g.C.CC
	hv.Exp = g.C.Exp
	if hv.Exp.Kind == freshlib.ExpAt {
		hv.Exp.At = hv.Exp.At.Add(shift) // the same instant on the virtual clock
	}
	return hv
}

// Build_oanswer status hv version etag lm
func (g given) coq(shift time.Duration) string {
	lm := "None"
	if g.C.LMKind == "imf" || g.C.LMKind == "rfc850" || g.C.LMKind == "asctime" {
		lm = "(Some " + freshlib.NanosZ(g.C.LM.Add(shift)) + ")"
	}
	return fmt.Sprintf("(OAnswer (Build_oanswer %d %s %s %s %s))", g.Status, g.hview(shift).Coq(), emit.Z(g.C.Version), emit.Str(g.C.etag()), lm)
}

func (g given) readable() map[string]any {
	m := map[string]any{"status": g.Status, "version": g.C.Version, "etag": g.C.etag(), "body_len": g.C.BodyLen}
	if l, ok := g.C.lmLine(); ok {
		m["last_modified"] = l
	}
	if g.NoStore {
		m["cache_control"] = []string{"no-store"}
	} else {
		m["cache_control"] = g.C.CC
		if g.C.Exp.Kind != freshlib.ExpAbsent {
			m["expires"] = g.C.Exp.Line
		}
	}
	return m
}

// ---------- conditional fields ----------

var condNames = []string{"If-None-Match", "If-Modified-Since", "If-Match", "If-Unmodified-Since", "If-Range"}

// cmapCoq prints the conditional part of a header map as a Model.Proxy.cmap on the virtual clock.
func cmapCoq(h http.Header, shift time.Duration) string {
	var fields []string
	for code, name := range condNames {
		vs, ok := h[name]
		if !ok {
			continue
		}
		vals := make([]string, len(vs))
		for i, v := range vs {
			if t, err := time.Parse(http.TimeFormat, v); err == nil {
				vals[i] = "CDate " + freshlib.NanosZ(t.Add(shift))
			} else {
				vals[i] = "CRaw " + emit.Str(v)
			}
		}
		fields = append(fields, fmt.Sprintf("(%d, %s)", code, emit.List(vals)))
	}
	return emit.List(fields)
}

func condReadable(h http.Header) map[string][]string {
	m := map[string][]string{}
	for _, name := range condNames {
		if vs, ok := h[name]; ok {
			m[name] = vs
		}
	}
	return m
}

// ---------- environment ----------

type scenario struct {
	name    string
	backend string
	shards  int
	maxSize string // "" = default
	rlimit  int64  // >= 0: RLIMIT_FSIZE while the group runs
	tls     bool   // the origin speaks TLS and the client uses a CONNECT tunnel
}

type env struct {
	sc     scenario
	e      *e2elib.Env
	mu     sync.Mutex
	res    map[string]*resource
	shift  time.Duration
	dir    string
	dirBad bool
	cfg    pcfg
}

type pcfg struct {
	pol      freshlib.Policy
	retry416 bool
}

func (c pcfg) coq() string {
	return fmt.Sprintf("(Build_pconfig %s %s)", c.pol.Coq(), emit.Bool(c.retry416))
}

func (c pcfg) readable() map[string]any {
	m := c.pol.Readable()
	m["retry_on_range_416"] = c.retry416
	return m
}

func newEnv(sc scenario, base string) *env {
	en := &env{sc: sc, res: map[string]*resource{}, dir: filepath.Join(base, "env-"+sc.name)}
	os.RemoveAll(en.dir)
	e, err := e2elib.Start(e2elib.Options{Backend: sc.backend, Shards: sc.shards, Dir: en.dir, TLS: sc.tls, Tune: func(cfg *config.Config) {
		cfg.Cache.CleanupInterval.Overwrite(duration.Duration(1000 * time.Hour)) // the janitor never runs during a check
		if sc.maxSize != "" {
			cfg.Cache.MaxCacheSize.Overwrite(bytesize.ParseUnchecked(sc.maxSize))
		}
	}})
	if err != nil {
		panic(err)
	}
	en.e = e
	e.Origin.SetHandler(func(req e2elib.OriginRequest, n int) e2elib.Answer {
		p := req.Target
		if i := strings.Index(p, "?"); i >= 0 {
			p = p[:i]
		}
		en.mu.Lock()
		rs := en.res[p]
		en.mu.Unlock()
		if rs == nil {
			return e2elib.NewAnswer(599, []byte("unscripted"))
		}
		return rs.answer(req)
	})
	return en
}

func (en *env) setCfg(c pcfg) {
	en.cfg = c
	en.e.Cfg.Proxy.CachePolicy.IgnoreCacheControl.Overwrite(c.pol.Ignore)
	en.e.Cfg.Proxy.CachePolicy.ForceDefaultMaxAge.Overwrite(c.pol.Force)
	en.e.Cfg.Proxy.CachePolicy.DefaultMaxAge.Overwrite(duration.Duration(c.pol.Default))
	en.e.Cfg.Proxy.RetryOnRange416.Overwrite(c.retry416)
}

func (en *env) vnow() time.Time { return time.Now().Add(en.shift) }

func (en *env) advance(d time.Duration) {
	en.e.Proxy.VerifAge(d)
	en.shift += d
}

func (en *env) keyHex(path string) string {
	u, _ := url.Parse("http://" + en.e.Origin.Addr + path)
	return cache.MakeFromRequest(&http.Request{Method: "GET", Host: en.e.Origin.Addr, URL: u}).Hex
}

func (en *env) cacheDir() string { return filepath.Join(en.dir, "cache") }

func (en *env) present(hex string) bool {
	_, _, _, _, ok := en.e.Proxy.VerifCache().VerifMeta(hex)
	return ok
}

func (en *env) fileReadable(hex string) bool {
	f, err := os.Open(filepath.Join(en.cacheDir(), hex))
	if err != nil {
		return false
	}
	f.Close()
	return true
}

// breakDir replaces the cache directory by a regular file; fixDir puts a directory back.
func (en *env) breakDir() {
	os.RemoveAll(en.cacheDir())
	os.WriteFile(en.cacheDir(), []byte("not a directory"), 0644)
	en.dirBad = true
}

func (en *env) fixDir() {
	os.RemoveAll(en.cacheDir())
	os.MkdirAll(en.cacheDir(), 0755)
	en.dirBad = false
}

// ---------- client ----------

type obs struct {
	status  int
	version int64
	bodyOK  bool
	xcache  string
	etag    string
	err     string
	ups     []e2elib.OriginRequest
}

var methods = []struct{ s, coq string }{{"GET", "GET"}, {"HEAD", "HEAD"}, {"POST", "POST"}, {"PUT", "OTHER"}, {"DELETE", "OTHER"}}

func (en *env) request(method, path string, lines []string) obs {
	var resp *e2elib.Response
	var err error
	if en.sc.tls {
		var c *e2elib.Conn
		c, _, err = en.e.DialTunnel(en.e.Origin.Addr, "127.0.0.1", watchdog)
		if err == nil {
			err = c.Send(en.e.TunnelRequest(method, path, lines, nil), watchdog)
			if err == nil {
				resp, err = c.Read(method, watchdog)
			}
			c.Close()
		}
	} else {
		raw := en.e.PlainRequest(method, path, append(lines, "Connection: close"), nil)
		resp, err = en.e.DoPlain(raw, method, watchdog)
	}
	o := obs{status: -1, version: -1}
	if err != nil {
		o.err = err.Error()
		return o
	}
	o.status = resp.Status
	o.xcache = resp.Header.Get("X-Cache")
	o.etag = resp.Header.Get("ETag")
	o.bodyOK = resp.BodyErr == ""
	if resp.BodyErr != "" {
		o.err = "body: " + resp.BodyErr
	}
	if v := resp.Header.Get("X-Origin-Version"); v != "" {
		if n, err := strconv.ParseInt(v, 10, 64); err == nil {
			o.version = n
			if method != "HEAD" && resp.Status != 304 && resp.Status != 204 {
				ln, _ := strconv.Atoi(resp.Header.Get("X-Origin-Len"))
				if string(resp.Body) != string(body(n, ln)) {
					o.bodyOK = false
					o.err = fmt.Sprintf("body of %d bytes is not the body of version %d (%d bytes)", len(resp.Body), n, ln)
				}
			}
		}
	}
	return o
}

func (o obs) coq(shift time.Duration) string {
	xc := int64(-1)
	if o.xcache != "" {
		xc = freshlib.XCacheCode(o.xcache)
		if xc < 0 {
			xc = -2
		}
	}
	ups := make([]string, len(o.ups))
	for i, u := range o.ups {
		ups[i] = fmt.Sprintf("(Build_upreq %s %s)", methCoq(u.Method), cmapCoq(u.Header, shift))
	}
	return fmt.Sprintf("(Build_pobs %s %s %s %s %s %s)", emit.Z(int64(o.status)), emit.Z(o.version), emit.Bool(o.bodyOK), emit.Z(xc), emit.Str(o.etag), emit.List(ups))
}

func methCoq(m string) string {
	switch m {
	case "GET", "HEAD", "POST":
		return m
	}
	return "OTHER"
}

// ---------- generators ----------

var defaults = []time.Duration{time.Hour, 90 * time.Second, 10 * time.Second, 30 * 24 * time.Hour, 0, -time.Second}

func randCfg(r *emit.Rand) pcfg {
	c := pcfg{pol: freshlib.Policy{Default: emit.Pick(r, defaults)}}
	switch r.Intn(10) {
	case 0:
		c.pol.Ignore = true
	case 1:
		c.pol.Force = true
	case 2:
		c.pol.Ignore, c.pol.Force = true, true
	}
	c.retry416 = r.Chance(30)
	return c
}

var ccForms = [][]string{{"max-age=60"}, {"max-age=60"}, {"max-age=5"}, {"max-age=3600"}, {"public, max-age=30"}, {"Max-Age=60"}, nil, nil,
	{"no-store"}, {"no-cache"}, {"private, max-age=60"}, {"max-age=0"}, {"max-age=60", "no-store"}, {"must-revalidate, max-age=10"}}

var lmKinds = []string{"none", "none", "imf", "imf", "imf", "rfc850", "asctime", "bad"}
var tagKinds = []string{"strong", "strong", "strong", "weak", "none", "none", "empty"}
var bodyLens = []int{12, 12, 12, 40, 300, 5000}

func randContent(r *emit.Rand, version int64, now time.Time, emptyBodies int) content {
	c := content{Version: version, Salt: r.Intn(3), TagKind: emit.Pick(r, tagKinds), LMKind: emit.Pick(r, lmKinds), BodyLen: emit.Pick(r, bodyLens)}
	c.LM = now.Add(-time.Duration(1+r.Intn(100000)) * time.Minute).Truncate(time.Second)
	if c.LMKind != "none" && c.LMKind != "bad" && r.Chance(8) {
		// modification times at and before the Unix epoch (mtime 0 of reproducible repositories, a zero FILETIME):
		// perfectly good validators
		c.LM = emit.Pick(r, []time.Time{time.Unix(0, 0), time.Unix(-1, 0), time.Date(1601, 1, 1, 0, 0, 0, 0, time.UTC), time.Unix(1, 0)})
		c.LMKind = "imf"
		if r.Chance(60) {
			c.TagKind = "none" // the date is the only validator
		}
	}
	c.CC = emit.Pick(r, ccForms)
	c.Exp = freshlib.Expires{Kind: freshlib.ExpAbsent, Form: "absent"}
	if r.Chance(12) {
		c.Exp = freshlib.RandExpires(r, now, 0)
		if c.Exp.Kind == freshlib.ExpUnparseable {
			c.Exp.Line = "0"
		}
	}
	if r.Chance(emptyBodies) {
		c.BodyLen = 0
	}
	return c
}

var oldDates = []time.Time{time.Date(1994, 11, 6, 8, 49, 37, 0, time.UTC), time.Date(2015, 10, 21, 7, 28, 0, 0, time.UTC), time.Date(2031, 1, 1, 0, 0, 0, 0, time.UTC)}

func randDateValue(r *emit.Rand) (string, string) {
	t := emit.Pick(r, oldDates)
	switch r.Intn(8) {
	case 0, 1, 2:
		return t.Format(http.TimeFormat), "imf"
	case 3, 4:
		return freshlib.DateLine(t, "rfc850"), "rfc850"
	case 5:
		return freshlib.DateLine(t, "asctime"), "asctime"
	case 6:
		return emit.Pick(r, []string{"yesterday", "0", "2015-10-21T07:28:00Z", "Wed, 21 Oct 2015 07:28:00 UTC"}), "garbage"
	}
	return "", "empty"
}

func randTagValue(r *emit.Rand, cur content) (string, string) {
	switch r.Intn(7) {
	case 0:
		return "\"client-tag\"", "foreign"
	case 1:
		return "W/\"client-tag\"", "foreign-weak"
	case 2:
		return "*", "star"
	case 3:
		return "", "empty"
	case 4:
		if t := cur.etag(); t != "" {
			return t, "current"
		}
		return "\"x\"", "foreign"
	case 5:
		return "\"a\", \"b\"", "list"
	}
	return "\"client-tag\"", "foreign"
}

// client conditional field lines; cls describes them for the histogram
func randClientConds(r *emit.Rand, cur content, meta *emit.Meta) []string {
	var lines []string
	if !r.Chance(55) {
		meta.Count("client_conditionals", "none")
		return nil
	}
	add := func(name, v, cls string) {
		lines = append(lines, name+": "+v)
		meta.Count("client_conditionals", name+"/"+cls)
	}
	n := 1 + r.Intn(2)
	for i := 0; i < n; i++ {
		switch r.Intn(10) {
		case 0, 1, 2:
			v, cls := randDateValue(r)
			add("If-Modified-Since", v, cls)
		case 3, 4, 5:
			v, cls := randTagValue(r, cur)
			add("If-None-Match", v, cls)
			if r.Chance(15) {
				add("If-None-Match", "\"second-line\"", "second-line")
			}
		case 6:
			v, cls := randTagValue(r, cur)
			add("If-Match", v, cls)
		case 7:
			v, cls := randDateValue(r)
			add("If-Unmodified-Since", v, cls)
		case 8:
			v, cls := randDateValue(r)
			add("If-Range", v, cls)
		default:
			v, cls := randTagValue(r, cur)
			add("If-Range", v, cls)
		}
	}
	return lines
}

var explicitKinds = []string{"304", "200", "no-store", "404", "500", "503", "410", "416", "204", "203", "201"}

func randScript(r *emit.Rand) []string {
	switch k := r.Intn(100); {
	case k < 62:
		return nil // the origin answers by its content and the validators it is shown
	case k < 90:
		return []string{emit.Pick(r, explicitKinds)}
	default:
		return []string{emit.Pick(r, explicitKinds), emit.Pick(r, explicitKinds), emit.Pick(r, explicitKinds)}
	}
}

var gaps = []time.Duration{3 * time.Second, 8 * time.Second, 30 * time.Second, 57 * time.Second, 63 * time.Second, 100 * time.Second,
	10 * time.Minute, 59 * time.Minute, 61 * time.Minute, 2 * time.Hour, 26 * time.Hour, 31 * 24 * time.Hour}

type dangers []time.Time

func (d *dangers) add(t time.Time, c content, pol freshlib.Policy, shift time.Duration) {
	*d = append(*d, t, t.Add(pol.Default))
	for _, l := range c.CC {
		for _, f := range strings.FieldsFunc(l, func(c rune) bool { return c < '0' || c > '9' }) {
			if n, err := strconv.ParseInt(f, 10, 32); err == nil {
				*d = append(*d, t.Add(time.Duration(n)*time.Second))
			}
		}
	}
	if c.Exp.Kind == freshlib.ExpAt {
		*d = append(*d, c.Exp.At.Add(shift))
	}
}

func (d dangers) near(t time.Time) bool {
	for _, x := range d {
		if diff := t.Sub(x); diff > -2500*time.Millisecond && diff < 2500*time.Millisecond {
			return true
		}
	}
	return false
}

// ---------- one history ----------

type mix struct {
	vanish, breakFile, breakDir, emptyBodies, drop int // percentages
}

func playHistory(en *env, r *emit.Rand, path string, nsteps int, mx mix, meta *emit.Meta) (string, map[string]any, bool) {
	cfg := randCfg(r)
	cfg0 := cfg
	en.setCfg(cfg)
	en.shift = 0
	start := en.vnow()
	last := start
	rs := &resource{cur: randContent(r, int64(1+r.Intn(3)), time.Now(), mx.emptyBodies)}
	en.mu.Lock()
	en.res[path] = rs
	en.mu.Unlock()
	hex := en.keyHex(path)
	var items []string
	var readable []any
	var dg dangers
	interesting := false
	brokeDir := false
	for i := 0; i < nsteps; i++ {
		k := r.Intn(100)
		switch {
		case i > 0 && k < 26: // the clock moves on
			d := emit.Pick(r, gaps)
			for tries := 0; dg.near(en.vnow().Add(d)) && tries < 50; tries++ {
				d += 5 * time.Second
			}
			en.advance(d)
			readable = append(readable, map[string]any{"advance": d.String()})
			meta.Count("gap", d.Round(time.Second).String())
		case i > 0 && k < 31: // configuration switch
			cfg = randCfg(r)
			en.setCfg(cfg)
			items = append(items, "ISetConfig "+cfg.coq())
			readable = append(readable, map[string]any{"set_config": cfg.readable()})
		case i > 0 && k < 31+mx.drop: // the entry is deleted / evicted between two requests
			en.e.Proxy.VerifDeleteKey(hex)
			if en.present(hex) {
				// the file backend cannot remove an entry while its directory is unusable: nothing happened
				readable = append(readable, "drop_refused")
				meta.Count("between_requests", "drop_refused")
			} else {
				items = append(items, "IDrop")
				readable = append(readable, "drop")
				meta.Count("between_requests", "drop")
			}
		case i > 0 && en.sc.backend == "file" && !en.dirBad && k < 31+mx.drop+mx.breakFile: // its data file disappears
			os.Remove(filepath.Join(en.cacheDir(), hex))
			readable = append(readable, "remove_data_file")
			meta.Count("between_requests", "remove_data_file")
		case i > 0 && en.sc.backend == "file" && !en.dirBad && k < 31+mx.drop+mx.breakFile+mx.breakDir:
			en.breakDir()
			brokeDir = true
			readable = append(readable, "replace_cache_dir_by_file")
			meta.Count("between_requests", "replace_cache_dir_by_file")
		default:
			// origin content / validator changes
			switch c := r.Intn(100); {
			case c < 28:
				rs.cur = randContent(r, rs.cur.Version+1, time.Now(), mx.emptyBodies)
				meta.Count("origin_change", "content")
			case c < 38:
				rs.cur.Salt += 3
				rs.cur.TagKind = emit.Pick(r, tagKinds)
				rs.cur.LMKind = emit.Pick(r, lmKinds)
				meta.Count("origin_change", "validators")
			default:
				meta.Count("origin_change", "none")
			}
			mi := 0
			if r.Chance(10) {
				mi = r.Intn(len(methods))
			}
			lines := randClientConds(r, rs.cur, meta)
			if m := methods[mi].s; m != "GET" && m != "HEAD" {
				// On a write the client's preconditions are not the cache layer's business: since bd24877 they are
				// passed on to the origin (C08, scenario write-precondition and theorem C08_write_preconditions).
				// Model/Proxy.v describes the cache layer (strip, then validators): other methods are exercised on
				// requests without regular conditionals, where strip is the identity. If-Range stays.
				kept := lines[:0]
				for _, l := range lines {
					if strings.HasPrefix(l, "If-Range:") {
						kept = append(kept, l)
					}
				}
				lines = kept
			}
			script := randScript(r)
			// faults
			flt := struct {
				lookupErr, vanish, storeFail bool
				reget                        string
			}{reget: "RgOk"}
			present := en.present(hex)
			if en.sc.backend == "file" && present && !en.fileReadable(hex) {
				flt.lookupErr = true
			}
			vc := en.e.Proxy.VerifCache()
			switch {
			case en.dirBad:
				flt.storeFail = true
			case en.sc.backend == "file" && rs.cur.BodyLen == 0:
				flt.storeFail = true
			case en.sc.rlimit >= 0 && int64(rs.cur.BodyLen) > en.sc.rlimit:
				flt.storeFail = true
			case en.sc.backend == "memory" && en.sc.shards == 1 && vc.VerifByteSize() >= vc.VerifLimit():
				flt.storeFail = true
			}
			var hook func()
			if r.Chance(mx.vanish) && !en.dirBad { // (an unusable directory also refuses the removal)
				if en.sc.backend == "file" && !en.dirBad && r.Bool() {
					hook = func() { os.Remove(filepath.Join(en.cacheDir(), hex)) }
					flt.reget = "RgError"
				} else {
					hook = func() { en.e.Proxy.VerifDeleteKey(hex) }
					flt.vanish = true
					// removing the entry frees its bytes: the memory cache may no longer be full when the answer is stored
					if sz, _, _, _, ok := vc.VerifMeta(hex); ok && en.sc.backend == "memory" && en.sc.shards == 1 {
						flt.storeFail = vc.VerifByteSize()-sz >= vc.VerifLimit()
					}
				}
			}
			rs.mu.Lock()
			rs.script, rs.given, rs.reqs, rs.onFirst = script, nil, nil, hook
			rs.mu.Unlock()
			now := en.vnow()
			dg.add(now, rs.cur, cfg.pol, en.shift)
			o := en.request(methods[mi].s, path, lines)
			rs.mu.Lock()
			o.ups = append([]e2elib.OriginRequest{}, rs.reqs...)
			gv := append([]given{}, rs.given...)
			rs.onFirst = nil
			rs.mu.Unlock()

			items = append(items, "IAdvance "+emit.Z(int64(now.Sub(last))))
			last = now
			// what the client sent, as the proxy's server parses it
			ch := http.Header{}
			for _, l := range lines {
				j := strings.Index(l, ": ")
				ch.Add(l[:j], l[j+2:])
			}
			answers := make([]string, len(gv))
			for j, g := range gv {
				answers[j] = g.coq(en.shift)
			}
			fcoq := fmt.Sprintf("(Build_faults %s %s %s %s)", emit.Bool(flt.lookupErr), emit.Bool(flt.vanish), emit.Bool(flt.storeFail), flt.reget)
			items = append(items, fmt.Sprintf("IRequest (Build_request %s %s) %s %s %s", methods[mi].coq, cmapCoq(ch, en.shift), emit.List(answers), fcoq, o.coq(en.shift)))

			ga := make([]any, len(gv))
			for j, g := range gv {
				ga[j] = g.readable()
			}
			ua := make([]any, len(o.ups))
			for j, u := range o.ups {
				ua[j] = map[string]any{"method": u.Method, "conditionals": condReadable(u.Header)}
			}
			rd := map[string]any{"request": methods[mi].s, "client_conditionals": lines, "origin_script": script, "origin_answers": ga,
				"faults": map[string]any{"lookup_error": flt.lookupErr, "entry_removed_during_upstream": flt.vanish, "store_fails": flt.storeFail, "reget": flt.reget},
				"seen":   map[string]any{"status": o.status, "version": o.version, "body_ok": o.bodyOK, "x_cache": o.xcache, "etag": o.etag, "error": o.err, "origin_saw": ua}}
			readable = append(readable, rd)
			if *flagDbg {
				fmt.Fprintf(os.Stderr, "%s %s %v -> %d v%d %s | origin %v\n", methods[mi].s, path, lines, o.status, o.version, o.xcache, ga)
			}
			meta.Count("method", methods[mi].s)
			meta.Count("x_cache", o.xcache)
			meta.Count("client_status", strconv.Itoa(o.status))
			meta.Count("origin_requests", strconv.Itoa(len(o.ups)))
			for _, g := range gv {
				meta.Count("origin_status", strconv.Itoa(g.Status))
			}
			if len(gv) > 0 {
				meta.Count("validators", "etag="+gv[0].C.TagKind+",lm="+gv[0].C.LMKind)
			}
			if flt.lookupErr {
				meta.Count("fault", "lookup_error")
			}
			if flt.vanish {
				meta.Count("fault", "entry_removed_during_upstream")
			}
			if flt.storeFail {
				meta.Count("fault", "store_fails:"+en.sc.name)
			}
			if flt.reget != "RgOk" {
				meta.Count("fault", "data_file_removed_during_upstream")
			}
			if o.xcache == "REVALIDATED" || o.xcache == "HIT" || flt.lookupErr || flt.vanish || flt.storeFail || flt.reget != "RgOk" {
				interesting = true
			}
		}
	}
	if brokeDir {
		en.fixDir()
	}
	en.e.Proxy.VerifDeleteKey(hex)
	en.mu.Lock()
	delete(en.res, path)
	en.mu.Unlock()
	term := fmt.Sprintf("PC %s %s %s", cfg0.coq(), freshlib.NanosZ(start), emit.List(items))
	return term, map[string]any{"scenario": en.sc.name, "backend": en.sc.backend, "path": path, "config": cfg0.readable(), "steps": readable}, interesting
}

// ---------- main ----------

func setFsizeLimit(n int64) (restore func()) {
	var old syscall.Rlimit
	if err := syscall.Getrlimit(syscall.RLIMIT_FSIZE, &old); err != nil {
		panic(err)
	}
	signal.Ignore(syscall.SIGXFSZ)
	lim := old
	lim.Cur = uint64(n)
	if err := syscall.Setrlimit(syscall.RLIMIT_FSIZE, &lim); err != nil {
		panic(err)
	}
	return func() {
		if err := syscall.Setrlimit(syscall.RLIMIT_FSIZE, &old); err != nil {
			panic(err)
		}
	}
}

// playSleepBatch validates the ageing hook: histories in which the clock really advances
// (time.Sleep) and (*Proxy).VerifAge is never called. The histories are interleaved so that
// the whole batch costs three sleeps.
func playSleepBatch(en *env, meta *emit.Meta) (terms []string, rds []map[string]any) {
	cfg := pcfg{pol: freshlib.Policy{Default: 4 * time.Second}}
	en.setCfg(cfg)
	en.shift = 0
	type variant struct {
		tag, lm string
		script  [][]string // per round
	}
	vars := []variant{
		{"none", "none", [][]string{nil, nil, nil, nil}},
		{"strong", "none", [][]string{nil, nil, nil, nil}},
		{"none", "imf", [][]string{nil, nil, nil, nil}},
		{"weak", "rfc850", [][]string{nil, {"200"}, nil, nil}},
		{"strong", "imf", [][]string{nil, {"404"}, nil, {"304"}}},
		{"none", "none", [][]string{nil, {"304"}, nil, {"304"}}},
	}
	type hist struct {
		path  string
		rs    *resource
		items []string
		rd    []any
		start time.Time
		last  time.Time
	}
	hs := make([]*hist, len(vars))
	for i, v := range vars {
		c := content{Version: 1, Salt: i, TagKind: v.tag, LMKind: v.lm, BodyLen: 12, CC: []string{"max-age=2"},
			LM: time.Now().Add(-time.Hour).Truncate(time.Second), Exp: freshlib.Expires{Kind: freshlib.ExpAbsent, Form: "absent"}}
		hs[i] = &hist{path: fmt.Sprintf("/sleep/h%d", i), rs: &resource{cur: c}}
		en.mu.Lock()
		en.res[hs[i].path] = hs[i].rs
		en.mu.Unlock()
	}
	round := func(k int) {
		for i, v := range vars {
			h := hs[i]
			h.rs.mu.Lock()
			h.rs.script, h.rs.given, h.rs.reqs, h.rs.onFirst = v.script[k], nil, nil, nil
			h.rs.mu.Unlock()
			now := en.vnow()
			if h.start.IsZero() {
				h.start, h.last = now, now
			}
			o := en.request("GET", h.path, nil)
			h.rs.mu.Lock()
			o.ups = append([]e2elib.OriginRequest{}, h.rs.reqs...)
			gv := append([]given{}, h.rs.given...)
			h.rs.mu.Unlock()
			h.items = append(h.items, "IAdvance "+emit.Z(int64(now.Sub(h.last))))
			h.last = now
			answers := make([]string, len(gv))
			ga := make([]any, len(gv))
			for j, g := range gv {
				answers[j] = g.coq(0)
				ga[j] = g.readable()
			}
			h.items = append(h.items, fmt.Sprintf("IRequest (Build_request GET []) %s (Build_faults false false false RgOk) %s", emit.List(answers), o.coq(0)))
			h.rd = append(h.rd, map[string]any{"request": "GET", "real_sleep": true, "origin_answers": ga,
				"seen": map[string]any{"status": o.status, "version": o.version, "x_cache": o.xcache, "etag": o.etag, "origin_requests": len(o.ups)}})
			meta.Count("x_cache_real_sleep", o.xcache)
		}
	}
	round(0)                            // stored, lifetime 2 s
	time.Sleep(4500 * time.Millisecond) // stale
	// the replacement of history 3 is a new version with a lifetime far from the later probes
	hs[3].rs.mu.Lock()
	hs[3].rs.cur.Version, hs[3].rs.cur.CC = 2, []string{"max-age=10"}
	hs[3].rs.mu.Unlock()
	round(1)                            // revalidated: 304 renews by the default (4 s), 200 replaces, 404 is relayed
	time.Sleep(1500 * time.Millisecond) // inside the renewed lifetime
	round(2)
	time.Sleep(5000 * time.Millisecond) // beyond it
	round(3)
	for _, h := range hs {
		terms = append(terms, fmt.Sprintf("PC %s %s %s", cfg.coq(), freshlib.NanosZ(h.start), emit.List(h.items)))
		rds = append(rds, map[string]any{"scenario": "real-sleep", "backend": en.sc.backend, "path": h.path, "config": cfg.readable(), "steps": h.rd})
	}
	return
}

func main() {
	flag.Parse()
	e2elib.Quiet()
	if err := os.MkdirAll(*flagOut, 0755); err != nil {
		panic(err)
	}
	// A zone that is not UTC: HTTP dates must come out in GMT whatever the machine's zone is.
	time.Local = time.FixedZone("verif+5", 5*3600)

	checkFn := "check_reval_c06"
	if *flagProp == "C09" {
		checkFn = "check_reval_c09"
	}
	r := emit.NewRand(*flagSeed)
	meta := emit.NewMeta("reval/"+*flagProp, *flagSeed, *flagTier)
	w := &emit.Writer{Dir: *flagOut, Prefix: "reval", ShardSize: 60,
		Imports:  "From Reservoir Require Import Base.Prelude Model.Freshness Model.Proxy Check.Proxy.",
		CaseType: "pcase", CheckFn: checkFn}
	meta.Rule = "sequential request histories (5-12 steps) for one resource each against the real in-process proxy with a raw scripted origin: steps = request (GET 90%, HEAD/POST/PUT/DELETE; client conditionals in 45% of the GET/HEAD requests (other methods: If-Range only — since bd24877 a write's preconditions are passed on, which is C08's subject): If-None-Match / If-Modified-Since / If-Match / If-Unmodified-Since / If-Range with strong, weak, *, empty, list tags and IMF / RFC 850 / asctime / garbage / empty dates, repeated lines) answered by the origin from its current content and the validators it is shown (62%) or by a script of explicit statuses (304, 200, no-store, 404, 410, 500, 503, 416, 204, 203, 201); origin content change 28% / validator-only change 10% per request (ETag strong, weak, none, empty; Last-Modified none, IMF, RFC 850, asctime, unparseable (text, or a date with a numeric zone +0200); bodies of 0-5000 bytes) | clock advance {3s..31d} through the ageing hook, >= 2.5 s away from every candidate expiry instant | configuration switch (policy, default lifetime, retry_on_range_416) | removal of the entry | cache faults per scenario group (see the distribution: fault, between_requests). distinct = every history; non-trivial = a history with a HIT, a revalidation or an injected fault"

	type group struct {
		sc scenario
		mx mix
		n  int
	}
	scale := 1
	if *flagTier == "thorough" {
		scale = 12
	}
	var groups []group
	if *flagProp == "C09" {
		groups = []group{
			{scenario{"memory-full", "memory", 1, "10B", -1, false}, mix{vanish: 12, drop: 6}, 110},
			{scenario{"memory", "memory", 32, "", -1, false}, mix{vanish: 30, drop: 6}, 80},
			{scenario{"file-empty", "file", 32, "", -1, false}, mix{vanish: 15, breakFile: 6, emptyBodies: 50, drop: 4}, 100},
			{scenario{"memory-empty", "memory", 32, "", -1, false}, mix{vanish: 10, emptyBodies: 50, drop: 4}, 20},
			{scenario{"memory-connect", "memory", 1, "10B", -1, true}, mix{vanish: 15, drop: 6}, 20},
			{scenario{"file-nodir", "file", 32, "", -1, false}, mix{vanish: 10, breakDir: 12, drop: 4}, 60},
			{scenario{"file-write-0", "file", 32, "", 0, false}, mix{vanish: 10, drop: 4}, 25},
			{scenario{"file-write-20", "file", 32, "", 20, false}, mix{vanish: 10, drop: 4}, 40},
			{scenario{"file-write-100", "file", 32, "", 100, false}, mix{vanish: 10, drop: 4}, 25},
		}
		if *flagTier == "thorough" {
			// a write failure after every byte count of a 12-byte body
			for n := int64(1); n < 12; n++ {
				groups = append(groups, group{scenario{fmt.Sprintf("file-write-%d", n), "file", 32, "", n, false}, mix{vanish: 10, drop: 4}, 3})
			}
		}
	} else {
		groups = []group{
			{scenario{"memory", "memory", 32, "", -1, false}, mix{drop: 5}, 330},
			{scenario{"file", "file", 32, "", -1, false}, mix{drop: 5}, 120},
			{scenario{"memory-connect", "memory", 32, "", -1, true}, mix{drop: 5}, 30},
		}
	}
	total := 0
	var terms []string
	for _, g := range groups {
		if *flagOnly != "" && g.sc.name != *flagOnly {
			continue
		}
		n := g.n * scale
		if *flagN > 0 {
			n = *flagN
		}
		en := newEnv(g.sc, *flagOut)
		restore := func() {}
		if g.sc.rlimit >= 0 {
			restore = setFsizeLimit(g.sc.rlimit)
		}
		for i := 0; i < n; i++ {
			path := fmt.Sprintf("/%s/h%d", g.sc.name, i)
			nsteps := 5 + r.Intn(8)
			// memory-full: half of the histories start with the cache already over its limit
			fillerHex := ""
			if g.sc.maxSize != "" && r.Bool() {
				fp := fmt.Sprintf("/filler%d", i)
				frs := &resource{cur: content{Version: 1, TagKind: "none", LMKind: "none", BodyLen: 64, CC: []string{"max-age=3600"}, Exp: freshlib.Expires{Kind: freshlib.ExpAbsent, Form: "absent"}}}
				en.mu.Lock()
				en.res[fp] = frs
				en.mu.Unlock()
				en.request("GET", fp, nil)
				fillerHex = en.keyHex(fp)
				meta.Count("memory_full", "prefilled")
			}
			term, rd, interesting := playHistory(en, r, path, nsteps, g.mx, meta)
			if fillerHex != "" {
				en.e.Proxy.VerifDeleteKey(fillerHex)
			}
			terms = append(terms, term) // written after the file-size limit is lifted
			total++
			meta.Count("scenario", g.sc.name)
			meta.Count("steps", strconv.Itoa(nsteps))
			meta.Record(g.sc.name+path, interesting, rd)
		}
		restore()
		if (*flagTier == "thorough" || *flagSleep) && (g.sc.name == "memory" || g.sc.name == "file") {
			ts, rds := playSleepBatch(en, meta)
			for i, t := range ts {
				terms = append(terms, t)
				total++
				meta.Count("scenario", "real-sleep-"+g.sc.backend)
				meta.Record("sleep"+g.sc.name+strconv.Itoa(i), true, rds[i])
			}
		}
		en.e.Close()
	}
	for _, t := range terms {
		w.Add(t)
	}
	w.Flush()
	meta.Write(*flagOut, w.Files)
	fmt.Printf("reval/%s: %d histories in %d files\n", *flagProp, total, len(w.Files))
}
