// skel: regenerates the synchronisation skeleton of a Go package (reservoir/cache)
// as a Gallina term for Model/Sync.v.  Purely syntactic (go/parser + go/ast).
//
// Usage: skel -dir <repo>/cache -out <dir>   writes <dir>/SkeletonRun.v (or -name) and <dir>/skeleton.json
//
// What it understands (everything else becomes SUnknown, which the Coq checker rejects):
//   - shard lock variables: x := getLock(...) (or any call that returns getLock(...)) => SBind
//   - x.Lock/RLock/Unlock/RUnlock/TryLock/TryRLock on such variables and on struct fields of
//     type sync.Mutex / sync.RWMutex (field "mu" => the map lock, others => leaf locks)
//   - defer (run at every return in LIFO order), return, panic
//   - if / for / range / switch / select / break / continue, range over a function-typed field
//   - intra-package calls (functions, methods by receiver type, function-typed struct fields
//     bound in a composite literal of a constructor) are inlined; boolean literal arguments
//     are propagated into "if param" tests; TryLock results assigned to a variable are tracked
//   - go statements and function literals passed to other packages become separate entries
//   - channel send/receive and select without default => SBlock
//   - calls into other packages => SIO for I/O-like calls, nothing otherwise (listed in the json)
package main

import (
	"encoding/json"
	"flag"
	"fmt"
	"go/ast"
	"go/parser"
	"go/token"
	"os"
	"path/filepath"
	"sort"
	"strings"
)

// ---------- skeleton terms ----------

type S struct {
	K    string // Skip Acq Rel Try Seq Alt Star Bind Block IO Ret Fun Unknown
	L    string // lock term
	V    int
	A, B *S
	Why  string
}

func skip() *S              { return &S{K: "Skip"} }
func unknown(why string) *S { return &S{K: "Unknown", Why: why} }
func seq(a, b *S) *S {
	if a.K == "Skip" {
		return b
	}
	if b.K == "Skip" {
		return a
	}
	return &S{K: "Seq", A: a, B: b}
}
func alt(a, b *S) *S {
	if a.String() == b.String() {
		return a
	}
	return &S{K: "Alt", A: a, B: b}
}
func star(a *S) *S {
	if a.K == "Skip" {
		return a
	}
	return &S{K: "Star", A: a}
}
func fun(a *S) *S {
	if a.K == "Skip" || a.K == "IO" {
		return a
	}
	return &S{K: "Fun", A: a}
}

func (s *S) String() string {
	switch s.K {
	case "Skip":
		return "SSkip"
	case "Acq":
		return "(SAcq " + s.L + ")"
	case "Rel":
		return "(SRel " + s.L + ")"
	case "Try":
		return "(STry " + s.L + " " + s.A.String() + " " + s.B.String() + ")"
	case "Seq":
		return "(SSeq " + s.A.String() + " " + s.B.String() + ")"
	case "Alt":
		return "(SAlt " + s.A.String() + " " + s.B.String() + ")"
	case "Star":
		return "(SStar " + s.A.String() + ")"
	case "Bind":
		return fmt.Sprintf("(SBind %d %s)", s.V, s.A.String())
	case "Block":
		return "SBlock"
	case "IO":
		return "SIO"
	case "Ret":
		return "SRet"
	case "Fun":
		return "(SFun " + s.A.String() + ")"
	}
	return "SUnknown"
}

func (s *S) unknowns(acc *[]string) {
	if s == nil {
		return
	}
	if s.K == "Unknown" {
		*acc = append(*acc, s.Why)
	}
	s.A.unknowns(acc)
	s.B.unknowns(acc)
}

// ---------- package facts ----------

type pkgInfo struct {
	fset     *token.FileSet
	funcs    map[string]*ast.FuncDecl
	methods  map[string]map[string]*ast.FuncDecl // recv type -> name -> decl
	structs  map[string]map[string]string        // type -> field -> type name
	closures map[string]map[string]*ast.FuncLit  // variant type -> field -> literal
	ctorOf   map[string]*ast.FuncDecl            // variant type -> constructor
	imports  map[string]bool
}

func baseType(e ast.Expr) string {
	switch t := e.(type) {
	case *ast.Ident:
		return t.Name
	case *ast.StarExpr:
		return baseType(t.X)
	case *ast.IndexExpr:
		return baseType(t.X)
	case *ast.IndexListExpr:
		return baseType(t.X)
	case *ast.SelectorExpr:
		if id, ok := t.X.(*ast.Ident); ok {
			return id.Name + "." + t.Sel.Name
		}
	case *ast.ParenExpr:
		return baseType(t.X)
	case *ast.FuncType:
		return "func"
	case *ast.ChanType:
		return "chan"
	}
	return ""
}

func load(dir string) (*pkgInfo, error) {
	p := &pkgInfo{fset: token.NewFileSet(), funcs: map[string]*ast.FuncDecl{}, methods: map[string]map[string]*ast.FuncDecl{},
		structs: map[string]map[string]string{}, closures: map[string]map[string]*ast.FuncLit{}, ctorOf: map[string]*ast.FuncDecl{}, imports: map[string]bool{}}
	ents, err := os.ReadDir(dir)
	if err != nil {
		return nil, err
	}
	var files []*ast.File
	for _, e := range ents {
		n := e.Name()
		if !strings.HasSuffix(n, ".go") || strings.HasSuffix(n, "_test.go") {
			continue
		}
		src, err := os.ReadFile(filepath.Join(dir, n))
		if err != nil {
			return nil, err
		}
		// skip files that are only compiled with the verif tag (hooks are not production code)
		head := string(src)
		if i := strings.Index(head, "\npackage "); i >= 0 {
			head = head[:i]
		}
		if strings.Contains(head, "//go:build verif") {
			continue
		}
		f, err := parser.ParseFile(p.fset, filepath.Join(dir, n), src, parser.SkipObjectResolution)
		if err != nil {
			return nil, err
		}
		files = append(files, f)
	}
	for _, f := range files {
		for _, im := range f.Imports {
			path := strings.Trim(im.Path.Value, "\"")
			name := path[strings.LastIndex(path, "/")+1:]
			if im.Name != nil {
				name = im.Name.Name
			}
			p.imports[name] = true
		}
		for _, d := range f.Decls {
			switch x := d.(type) {
			case *ast.FuncDecl:
				if x.Recv == nil {
					p.funcs[x.Name.Name] = x
				} else if len(x.Recv.List) == 1 {
					rt := baseType(x.Recv.List[0].Type)
					if p.methods[rt] == nil {
						p.methods[rt] = map[string]*ast.FuncDecl{}
					}
					p.methods[rt][x.Name.Name] = x
				}
			case *ast.GenDecl:
				for _, sp := range x.Specs {
					ts, ok := sp.(*ast.TypeSpec)
					if !ok {
						continue
					}
					st, ok := ts.Type.(*ast.StructType)
					if !ok {
						continue
					}
					fields := map[string]string{}
					for _, fl := range st.Fields.List {
						tn := baseType(fl.Type)
						if len(fl.Names) == 0 { // embedded
							short := tn
							if i := strings.LastIndex(short, "."); i >= 0 {
								short = short[i+1:]
							}
							fields[short] = tn
						}
						for _, nm := range fl.Names {
							fields[nm.Name] = tn
						}
					}
					p.structs[ts.Name.Name] = fields
				}
			}
		}
	}
	// variants: constructor New<T> containing a composite literal with function-literal fields
	for tname := range p.structs {
		ctor, ok := p.funcs["New"+tname]
		if !ok {
			continue
		}
		ast.Inspect(ctor.Body, func(n ast.Node) bool {
			cl, ok := n.(*ast.CompositeLit)
			if !ok {
				return true
			}
			bt := baseType(cl.Type)
			if _, isStruct := p.structs[bt]; !isStruct || bt == tname {
				return true
			}
			m := map[string]*ast.FuncLit{}
			for _, el := range cl.Elts {
				if kv, ok := el.(*ast.KeyValueExpr); ok {
					if k, ok := kv.Key.(*ast.Ident); ok {
						if fl, ok := kv.Value.(*ast.FuncLit); ok {
							m[k.Name] = fl
						}
					}
				}
			}
			if len(m) > 0 {
				if p.closures[tname] == nil {
					p.closures[tname] = map[string]*ast.FuncLit{}
				}
				for k, v := range m {
					p.closures[tname][k] = v
				}
				p.ctorOf[tname] = ctor
			}
			return true
		})
	}
	return p, nil
}

// ---------- translation ----------

type entry struct {
	Name string
	Skel *S
	Stop bool // must be wait-free (stopping the cache never blocks)
}

type gen struct {
	p        *pkgInfo
	nextVar  int
	entries  []*entry
	seenLit  map[string]bool
	external map[string]int
	assumed  map[string]bool
	pending  []func()
	steps    int
	guarded  map[string]int // guarded field name -> id
	accesses []accessRec
	accSeen  map[string]bool
}

type accessRec struct {
	Field string   `json:"field"`
	ID    int      `json:"id"`
	Write bool     `json:"write"`
	Held  []string `json:"held"`
	Where string   `json:"where"`
	Pos   string   `json:"pos"`
}

func (g *gen) access(field string, write bool, c *ctx, n ast.Node) {
	id, ok := g.guarded[field]
	if !ok {
		return
	}
	key := fmt.Sprintf("%s|%v|%s|%s", field, write, strings.Join(c.held, ","), g.pos(n))
	if g.accSeen[key] {
		return
	}
	g.accSeen[key] = true
	g.accesses = append(g.accesses, accessRec{Field: field, ID: id, Write: write, Held: append([]string{}, c.held...), Where: c.where, Pos: g.pos(n)})
}

func (c *ctx) acquire(l, mode string) { c.held = append(c.held, l+":"+mode) }
func (c *ctx) release(l string) {
	for i := len(c.held) - 1; i >= 0; i-- {
		if strings.HasPrefix(c.held[i], l+":") {
			c.held = append(c.held[:i:i], c.held[i+1:]...)
			return
		}
	}
}

// guardedTarget finds the guarded field an assignment target writes to.
func (g *gen) guardedTarget(e ast.Expr) (string, ast.Node, bool) {
	for {
		switch x := e.(type) {
		case *ast.IndexExpr:
			e = x.X
		case *ast.ParenExpr:
			e = x.X
		case *ast.StarExpr:
			e = x.X
		case *ast.SliceExpr:
			e = x.X
		case *ast.SelectorExpr:
			if _, ok := g.guarded[x.Sel.Name]; ok {
				return x.Sel.Name, x, true
			}
			return "", nil, false
		default:
			return "", nil, false
		}
	}
}

type ctx struct {
	variant   string
	types     map[string]string
	bools     map[string]bool
	lockvars  map[string]int
	localFns  map[string]*ast.FuncLit
	fparams   map[string]bool // function-typed parameters of the current frame
	defers    []*S
	depth     int
	inLoop    bool
	yieldName string
	yieldBody func(c *ctx) *S
	breakK    func(c *ctx) *S
	contK     func(c *ctx) *S
	where     string
	held      []string // lock terms with mode, e.g. "SMu:W", in acquisition order
}

func (c *ctx) clone() *ctx {
	n := *c
	n.types = map[string]string{}
	for k, v := range c.types {
		n.types[k] = v
	}
	n.bools = map[string]bool{}
	for k, v := range c.bools {
		n.bools[k] = v
	}
	n.lockvars = map[string]int{}
	for k, v := range c.lockvars {
		n.lockvars[k] = v
	}
	n.localFns = map[string]*ast.FuncLit{}
	for k, v := range c.localFns {
		n.localFns[k] = v
	}
	n.fparams = map[string]bool{}
	for k, v := range c.fparams {
		n.fparams[k] = v
	}
	n.defers = append([]*S{}, c.defers...)
	n.held = append([]string{}, c.held...)
	return &n
}

type K func(c *ctx) *S

func (g *gen) pos(n ast.Node) string {
	ps := g.p.fset.Position(n.Pos())
	return fmt.Sprintf("%s:%d", filepath.Base(ps.Filename), ps.Line)
}

func (g *gen) typeOf(e ast.Expr, c *ctx) string {
	switch x := e.(type) {
	case *ast.Ident:
		return c.types[x.Name]
	case *ast.ParenExpr:
		return g.typeOf(x.X, c)
	case *ast.StarExpr:
		return g.typeOf(x.X, c)
	case *ast.UnaryExpr:
		return g.typeOf(x.X, c)
	case *ast.SelectorExpr:
		t := g.typeOf(x.X, c)
		if f, ok := g.p.structs[t]; ok {
			return f[x.Sel.Name]
		}
	case *ast.CompositeLit:
		return baseType(x.Type)
	}
	return ""
}

// lockOf classifies the receiver of a Lock/Unlock/TryLock call.
func (g *gen) lockOf(x ast.Expr, c *ctx) (string, bool) {
	if id, ok := x.(*ast.Ident); ok {
		if v, ok := c.lockvars[id.Name]; ok {
			return fmt.Sprintf("(SShard %d)", v), true
		}
	}
	if sel, ok := x.(*ast.SelectorExpr); ok {
		t := g.typeOf(sel, c)
		if t == "sync.RWMutex" || t == "sync.Mutex" {
			if sel.Sel.Name == "mu" {
				return "SMu", true
			}
			h := 0
			for _, ch := range sel.Sel.Name {
				h = (h*31 + int(ch)) % 9973
			}
			return fmt.Sprintf("(SLeaf %d)", h), true
		}
	}
	return "", false
}

func modeOf(method string) string {
	if strings.Contains(method, "RLock") {
		return "R"
	}
	return "W"
}

func isName(e ast.Expr, name string) bool {
	switch x := e.(type) {
	case *ast.Ident:
		return x.Name == name
	case *ast.SelectorExpr:
		return x.Sel.Name == name
	}
	return false
}

// resolve finds the body a call expression runs, if it is inside the package.
type callee struct {
	body  *ast.BlockStmt
	ftype *ast.FuncType
	recv  *ast.FieldList
	recvX ast.Expr
	name  string
}

func (g *gen) resolve(call *ast.CallExpr, c *ctx) *callee {
	switch f := call.Fun.(type) {
	case *ast.FuncLit:
		return &callee{body: f.Body, ftype: f.Type, name: "funclit@" + g.pos(f)}
	case *ast.Ident:
		if fl, ok := c.localFns[f.Name]; ok {
			return &callee{body: fl.Body, ftype: fl.Type, name: f.Name}
		}
		if fd, ok := g.p.funcs[f.Name]; ok && fd.Body != nil {
			return &callee{body: fd.Body, ftype: fd.Type, name: f.Name}
		}
	case *ast.IndexExpr: // generic instantiation f[T](...)
		if id, ok := f.X.(*ast.Ident); ok {
			if fd, ok := g.p.funcs[id.Name]; ok && fd.Body != nil {
				return &callee{body: fd.Body, ftype: fd.Type, name: id.Name}
			}
		}
	case *ast.SelectorExpr:
		t := g.typeOf(f.X, c)
		if ms, ok := g.p.methods[t]; ok {
			if fd, ok := ms[f.Sel.Name]; ok && fd.Body != nil {
				return &callee{body: fd.Body, ftype: fd.Type, recv: fd.Recv, recvX: f.X, name: t + "." + f.Sel.Name}
			}
		}
		// function-typed struct field bound in the constructor's composite literal
		if fields, ok := g.p.structs[t]; ok {
			if ft, ok := fields[f.Sel.Name]; ok && (ft == "func" || strings.HasPrefix(ft, "iter.")) {
				if cl, ok := g.p.closures[c.variant][f.Sel.Name]; ok {
					return &callee{body: cl.Body, ftype: cl.Type, name: c.variant + "." + f.Sel.Name}
				}
			}
		}
	}
	return nil
}

func (g *gen) returnsShardLock(call *ast.CallExpr, c *ctx, depth int) bool {
	if depth > 4 {
		return false
	}
	if id, ok := call.Fun.(*ast.Ident); ok && id.Name == "getLock" {
		return true
	}
	cal := g.resolve(call, c)
	if cal == nil || cal.body == nil || len(cal.body.List) != 1 {
		return false
	}
	if rs, ok := cal.body.List[0].(*ast.ReturnStmt); ok && len(rs.Results) == 1 {
		if inner, ok := rs.Results[0].(*ast.CallExpr); ok {
			return g.returnsShardLock(inner, c, depth+1)
		}
	}
	return false
}

var builtins = map[string]bool{"make": true, "len": true, "cap": true, "append": true, "min": true, "max": true, "close": true,
	"delete": true, "new": true, "copy": true, "clear": true, "print": true, "println": true, "recover": true}

var ioMethods = map[string]bool{"ReadFrom": true, "Read": true, "Write": true, "WriteTo": true, "Copy": true, "Close": true, "Seek": true,
	"Sync": true, "Create": true, "Open": true, "OpenFile": true, "Remove": true, "Stat": true, "ReadAll": true, "VirtualMemory": true,
	"Rename": true, "MkdirAll": true, "ReadDir": true, "CreateTemp": true}

// calls translates, in source order, the calls contained in expression e, then continues with k.
func (g *gen) calls(e ast.Expr, c *ctx, k K) *S {
	if e == nil {
		return k(c)
	}
	switch x := e.(type) {
	case *ast.CallExpr:
		return g.call(x, c, k)
	case *ast.ParenExpr:
		return g.calls(x.X, c, k)
	case *ast.UnaryExpr:
		if x.Op == token.ARROW {
			return g.calls(x.X, c, func(c *ctx) *S { return seq(&S{K: "Block"}, k(c)) })
		}
		return g.calls(x.X, c, k)
	case *ast.BinaryExpr:
		return g.calls(x.X, c, func(c *ctx) *S { return g.calls(x.Y, c, k) })
	case *ast.SelectorExpr:
		g.access(x.Sel.Name, false, c, x)
		return g.calls(x.X, c, k)
	case *ast.StarExpr:
		return g.calls(x.X, c, k)
	case *ast.IndexExpr:
		return g.calls(x.X, c, func(c *ctx) *S { return g.calls(x.Index, c, k) })
	case *ast.SliceExpr:
		return g.calls(x.X, c, k)
	case *ast.TypeAssertExpr:
		return g.calls(x.X, c, k)
	case *ast.KeyValueExpr:
		return g.calls(x.Value, c, k)
	case *ast.CompositeLit:
		return g.exprList(x.Elts, c, k)
	case *ast.FuncLit:
		return k(c) // a function value that is not called here
	}
	return k(c)
}

func (g *gen) exprList(es []ast.Expr, c *ctx, k K) *S {
	if len(es) == 0 {
		return k(c)
	}
	return g.calls(es[0], c, func(c *ctx) *S { return g.exprList(es[1:], c, k) })
}

func (g *gen) runDefers(c *ctx) *S {
	r := skip()
	for i := len(c.defers) - 1; i >= 0; i-- {
		r = seq(r, c.defers[i])
	}
	return r
}

func (g *gen) ret(c *ctx) *S { return seq(g.runDefers(c), &S{K: "Ret"}) }

// inline translates the body of a resolved callee as a function frame.
func (g *gen) inline(cal *callee, call *ast.CallExpr, c *ctx) *S {
	if c.depth > 12 {
		return unknown("inlining depth exceeded at " + cal.name)
	}
	n := c.clone()
	n.depth = c.depth + 1
	n.defers = nil
	n.inLoop = false
	n.breakK, n.contK = nil, nil
	n.where = cal.name
	// the callee sees only its own parameters (plus, for closures, the enclosing frame)
	isClosure := cal.recv == nil && (strings.HasPrefix(cal.name, "funclit@") || strings.Contains(cal.name, "."))
	if _, top := g.p.funcs[cal.name]; top {
		isClosure = false
	}
	if !isClosure {
		n.bools = map[string]bool{}
		n.lockvars = map[string]int{}
		n.localFns = map[string]*ast.FuncLit{}
		n.fparams = map[string]bool{}
		nt := map[string]string{}
		n.types = nt
	}
	if cal.recv != nil && len(cal.recv.List) == 1 && len(cal.recv.List[0].Names) == 1 {
		n.types[cal.recv.List[0].Names[0].Name] = baseType(cal.recv.List[0].Type)
	}
	// closures bound in a constructor see the constructor's receiver variable
	if strings.Contains(cal.name, ".") && cal.recv == nil && !strings.HasPrefix(cal.name, "funclit@") {
		if ctor, ok := g.p.ctorOf[c.variant]; ok {
			g.bindCtorLocals(ctor, n)
		}
	}
	idx := 0
	if cal.ftype != nil && cal.ftype.Params != nil {
		for _, fl := range cal.ftype.Params.List {
			for _, nm := range fl.Names {
				tn := baseType(fl.Type)
				n.types[nm.Name] = tn
				delete(n.bools, nm.Name)
				delete(n.lockvars, nm.Name)
				if tn == "func" {
					n.fparams[nm.Name] = true
				}
				if call != nil && idx < len(call.Args) {
					switch a := call.Args[idx].(type) {
					case *ast.Ident:
						if a.Name == "true" {
							n.bools[nm.Name] = true
						} else if a.Name == "false" {
							n.bools[nm.Name] = false
						} else if b, ok := c.bools[a.Name]; ok {
							n.bools[nm.Name] = b
						}
						if v, ok := c.lockvars[a.Name]; ok {
							n.lockvars[nm.Name] = v
						}
						if fl2, ok := c.localFns[a.Name]; ok {
							n.localFns[nm.Name] = fl2
						}
					case *ast.FuncLit:
						n.localFns[nm.Name] = a
					}
				}
				idx++
			}
			if len(fl.Names) == 0 {
				idx++
			}
		}
	}
	body := g.block(cal.body.List, n, func(c2 *ctx) *S { return g.ret(c2) })
	return fun(body)
}

// bindCtorLocals gives closures of a constructor the types of the constructor's obvious locals
// (c := &T{...}).
func (g *gen) bindCtorLocals(ctor *ast.FuncDecl, n *ctx) {
	ast.Inspect(ctor.Body, func(nd ast.Node) bool {
		as, ok := nd.(*ast.AssignStmt)
		if !ok || as.Tok != token.DEFINE || len(as.Lhs) != 1 || len(as.Rhs) != 1 {
			return true
		}
		id, ok := as.Lhs[0].(*ast.Ident)
		if !ok {
			return true
		}
		rhs := as.Rhs[0]
		if u, ok := rhs.(*ast.UnaryExpr); ok {
			rhs = u.X
		}
		if cl, ok := rhs.(*ast.CompositeLit); ok {
			if _, isStruct := g.p.structs[baseType(cl.Type)]; isStruct {
				if _, have := n.types[id.Name]; !have {
					n.types[id.Name] = baseType(cl.Type)
				}
			}
		}
		return true
	})
}

func (g *gen) registerEntry(name string, variant string, fl *ast.FuncLit, c *ctx) {
	key := variant + "|" + g.pos(fl)
	if g.seenLit[key] {
		return
	}
	g.seenLit[key] = true
	snap := c.clone()
	g.pending = append(g.pending, func() {
		n := snap
		n.depth = 0
		n.defers = nil
		n.inLoop = false
		n.breakK, n.contK = nil, nil
		n.bools = map[string]bool{}
		n.lockvars = map[string]int{}
		if fl.Type.Params != nil {
			for _, f := range fl.Type.Params.List {
				for _, nm := range f.Names {
					n.types[nm.Name] = baseType(f.Type)
					if baseType(f.Type) == "func" {
						n.fparams[nm.Name] = true
					}
				}
			}
		}
		n.held = nil
		n.where = name
		body := g.block(fl.Body.List, n, func(c2 *ctx) *S { return g.ret(c2) })
		g.entries = append(g.entries, &entry{Name: name, Skel: body})
	})
}

func (g *gen) call(call *ast.CallExpr, c *ctx, k K) *S {
	// arguments first (function literals passed along become entries of their own)
	return g.exprList(call.Args, c, func(c *ctx) *S {
		// lock operations
		if sel, ok := call.Fun.(*ast.SelectorExpr); ok {
			if l, ok := g.lockOf(sel.X, c); ok {
				switch sel.Sel.Name {
				case "Lock", "RLock":
					c.acquire(l, modeOf(sel.Sel.Name))
					return seq(&S{K: "Acq", L: l}, k(c))
				case "Unlock", "RUnlock":
					c.release(l)
					return seq(&S{K: "Rel", L: l}, k(c))
				case "TryLock", "TryRLock":
					cs := c.clone()
					cs.acquire(l, modeOf(sel.Sel.Name))
					return &S{K: "Try", L: l, A: k(cs), B: k(c.clone())}
				case "RLocker":
					return unknown("RLocker at " + g.pos(call))
				}
			}
			// receiver expression may itself contain calls
			if _, isCall := sel.X.(*ast.CallExpr); isCall {
				if sel.Sel.Name == "Lock" || sel.Sel.Name == "RLock" || sel.Sel.Name == "Unlock" || sel.Sel.Name == "RUnlock" || sel.Sel.Name == "TryLock" {
					return unknown("lock operation on an unnamed lock at " + g.pos(call))
				}
			}
		}
		if id, ok := call.Fun.(*ast.Ident); ok {
			if id.Name == "panic" {
				return g.ret(c)
			}
			if id.Name == "delete" && len(call.Args) > 0 {
				if f, n, ok := g.guardedTarget(call.Args[0]); ok {
					g.access(f, true, c, n)
				}
			}
			if builtins[id.Name] {
				return k(c)
			}
			if c.yieldName != "" && id.Name == c.yieldName && c.yieldBody != nil {
				return seq(c.yieldBody(c), k(c))
			}
			if c.fparams[id.Name] {
				if _, bound := c.localFns[id.Name]; !bound {
					g.assumed["callback parameter "+id.Name+" called in "+c.where+" returns and does not re-enter the cache"] = true
					return seq(&S{K: "IO"}, k(c))
				}
			}
		}
		for _, a := range call.Args {
			if fl, ok := a.(*ast.FuncLit); ok {
				g.registerEntry(fmt.Sprintf("%s/callback@%s", c.where, g.pos(fl)), c.variant, fl, c)
			}
		}
		if cal := g.resolve(call, c); cal != nil {
			var pre *S = skip()
			if cal.recvX != nil {
				pre = g.calls(cal.recvX, c, func(*ctx) *S { return skip() })
			}
			return seq(pre, seq(g.inline(cal, call, c), k(c)))
		}
		// external
		name := ""
		switch f := call.Fun.(type) {
		case *ast.SelectorExpr:
			name = f.Sel.Name
			full := name
			if id, ok := f.X.(*ast.Ident); ok {
				full = id.Name + "." + name
				if t := c.types[id.Name]; t != "" && !g.p.imports[id.Name] {
					full = t + "." + name
				}
			} else if t := g.typeOf(f.X, c); t != "" {
				full = t + "." + name
			}
			g.external[full]++
			pre := g.calls(f.X, c, func(*ctx) *S { return skip() })
			if name == "Wait" {
				return seq(pre, seq(&S{K: "Block"}, k(c)))
			}
			if ioMethods[name] {
				return seq(pre, seq(&S{K: "IO"}, k(c)))
			}
			return seq(pre, k(c))
		case *ast.Ident:
			// conversion or unknown local function value
			if _, isType := g.p.structs[f.Name]; isType {
				return k(c)
			}
			switch f.Name {
			case "int", "int64", "int32", "uint32", "uint64", "uint", "float64", "string", "byte", "bool", "error", "any":
				return k(c)
			}
			if c.types[f.Name] == "func" {
				return unknown("call of local function value " + f.Name + " at " + g.pos(call))
			}
			g.external[f.Name]++
			return k(c)
		case *ast.ArrayType, *ast.MapType, *ast.ParenExpr, *ast.IndexExpr, *ast.IndexListExpr, *ast.InterfaceType:
			return k(c)
		}
		return unknown("unclassified call at " + g.pos(call))
	})
}

func (g *gen) cond(e ast.Expr, c *ctx) (known bool, val bool) {
	switch x := e.(type) {
	case *ast.Ident:
		if x.Name == "true" {
			return true, true
		}
		if x.Name == "false" {
			return true, false
		}
		if b, ok := c.bools[x.Name]; ok {
			return true, b
		}
	case *ast.UnaryExpr:
		if x.Op == token.NOT {
			k, v := g.cond(x.X, c)
			return k, !v
		}
	case *ast.ParenExpr:
		return g.cond(x.X, c)
	}
	return false, false
}

// tryOf recognises  L.TryLock()  and  !L.TryLock().
func (g *gen) tryOf(e ast.Expr, c *ctx) (lock string, neg bool, ok bool) {
	l, n, _, o := g.tryOfM(e, c)
	return l, n, o
}

func (g *gen) tryOfM(e ast.Expr, c *ctx) (lock string, neg bool, mode string, ok bool) {
	switch x := e.(type) {
	case *ast.ParenExpr:
		return g.tryOfM(x.X, c)
	case *ast.UnaryExpr:
		if x.Op == token.NOT {
			l, n, m, ok := g.tryOfM(x.X, c)
			return l, !n, m, ok
		}
	case *ast.CallExpr:
		if sel, ok := x.Fun.(*ast.SelectorExpr); ok && (sel.Sel.Name == "TryLock" || sel.Sel.Name == "TryRLock") {
			if l, ok := g.lockOf(sel.X, c); ok {
				return l, false, modeOf(sel.Sel.Name), true
			}
		}
	}
	return "", false, "", false
}

func (g *gen) block(stmts []ast.Stmt, c *ctx, k K) *S {
	if len(stmts) == 0 {
		return k(c)
	}
	return g.stmt(stmts[0], c, func(c *ctx) *S { return g.block(stmts[1:], c, k) })
}

func (g *gen) stmt(s ast.Stmt, c *ctx, k K) *S {
	g.steps++
	if g.steps > 400000 {
		return unknown("translation budget exceeded (too many paths) in " + c.where)
	}
	switch x := s.(type) {
	case nil:
		return k(c)
	case *ast.EmptyStmt:
		return k(c)
	case *ast.IncDecStmt:
		if f, n, ok := g.guardedTarget(x.X); ok {
			g.access(f, true, c, n)
		}
		return k(c)
	case *ast.ExprStmt:
		return g.calls(x.X, c, k)
	case *ast.SendStmt:
		return g.calls(x.Value, c, func(c *ctx) *S { return seq(&S{K: "Block"}, k(c)) })
	case *ast.DeclStmt:
		if gd, ok := x.Decl.(*ast.GenDecl); ok {
			var vals []ast.Expr
			for _, sp := range gd.Specs {
				if vs, ok := sp.(*ast.ValueSpec); ok {
					vals = append(vals, vs.Values...)
					for _, nm := range vs.Names {
						if vs.Type != nil {
							c.types[nm.Name] = baseType(vs.Type)
						}
					}
				}
			}
			return g.exprList(vals, c, k)
		}
		return k(c)
	case *ast.AssignStmt:
		for _, l := range x.Lhs {
			if f, n, ok := g.guardedTarget(l); ok {
				g.access(f, true, c, n)
			}
		}
		if len(x.Lhs) == 1 && len(x.Rhs) == 1 {
			if id, ok := x.Lhs[0].(*ast.Ident); ok {
				if call, ok := x.Rhs[0].(*ast.CallExpr); ok {
					if g.returnsShardLock(call, c, 0) {
						return g.exprList(call.Args, c, func(c *ctx) *S {
							v := g.nextVar
							g.nextVar++
							c.lockvars[id.Name] = v
							delete(c.bools, id.Name)
							return &S{K: "Bind", V: v, A: k(c)}
						})
					}
					if l, neg, mode, ok := g.tryOfM(call, c); ok && !neg {
						c1, c2 := c.clone(), c.clone()
						c1.acquire(l, mode)
						c1.bools[id.Name] = true
						c2.bools[id.Name] = false
						return &S{K: "Try", L: l, A: k(c1), B: k(c2)}
					}
				}
				if fl, ok := x.Rhs[0].(*ast.FuncLit); ok {
					c.localFns[id.Name] = fl
					c.types[id.Name] = "func"
					return k(c)
				}
				// plain assignment: forget what we knew about the variable, learn its type if obvious
				delete(c.bools, id.Name)
				if _, wasLock := c.lockvars[id.Name]; wasLock && x.Tok == token.ASSIGN {
					return unknown("lock variable " + id.Name + " reassigned at " + g.pos(x))
				}
				if t := g.typeOf(x.Rhs[0], c); t != "" && x.Tok == token.DEFINE {
					c.types[id.Name] = t
				}
				if kn, v := g.cond(x.Rhs[0], c); kn {
					c.bools[id.Name] = v
				}
			}
		} else {
			for _, l := range x.Lhs {
				if id, ok := l.(*ast.Ident); ok {
					delete(c.bools, id.Name)
				}
			}
		}
		return g.exprList(x.Rhs, c, k)
	case *ast.BlockStmt:
		return g.block(x.List, c, k)
	case *ast.IfStmt:
		return g.stmt(x.Init, c, func(c *ctx) *S {
			thenK := func(c *ctx) *S { return g.block(x.Body.List, c, k) }
			elseK := func(c *ctx) *S {
				if x.Else == nil {
					return k(c)
				}
				return g.stmt(x.Else, c, k)
			}
			if l, neg, mode, ok := g.tryOfM(x.Cond, c); ok {
				cs := c.clone()
				cs.acquire(l, mode)
				var a, b *S
				if neg {
					// if !L.TryLock() {then} else {else}: then runs on failure
					a, b = elseK(cs), thenK(c.clone())
				} else {
					a, b = thenK(cs), elseK(c.clone())
				}
				return &S{K: "Try", L: l, A: a, B: b}
			}
			if kn, v := g.cond(x.Cond, c); kn {
				if v {
					return thenK(c)
				}
				return elseK(c)
			}
			return g.calls(x.Cond, c, func(c *ctx) *S { return alt(thenK(c.clone()), elseK(c.clone())) })
		})
	case *ast.ForStmt:
		return g.stmt(x.Init, c, func(c *ctx) *S {
			n := c.clone()
			n.inLoop = true
			end := func(*ctx) *S { return skip() }
			n.breakK, n.contK = end, end
			var condS *S = skip()
			if x.Cond != nil {
				condS = g.calls(x.Cond, n, end)
			}
			body := g.block(x.Body.List, n, func(c2 *ctx) *S { return g.stmt(x.Post, c2, end) })
			return seq(star(seq(condS, body)), seq(condS, k(c)))
		})
	case *ast.RangeStmt:
		// range over a function-typed struct field: inline the iterator with the loop body as yield
		if call := (&ast.CallExpr{Fun: x.X}); true {
			if cal := g.resolve(call, c); cal != nil && cal.ftype != nil && cal.ftype.Params != nil && len(cal.ftype.Params.List) == 1 && len(cal.ftype.Params.List[0].Names) == 1 {
				yname := cal.ftype.Params.List[0].Names[0].Name
				outer := c
				bodyOf := func(ci *ctx) *S {
					n := outer.clone()
					n.depth = ci.depth + 1
					n.defers = nil
					n.inLoop = true
					r := func(c2 *ctx) *S { return g.ret(c2) }
					n.breakK, n.contK = r, r
					return fun(g.block(x.Body.List, n, r))
				}
				n := c.clone()
				n.yieldName, n.yieldBody = yname, bodyOf
				it := g.inlineIter(cal, n)
				return seq(it, k(c))
			}
		}
		return g.calls(x.X, c, func(c *ctx) *S {
			n := c.clone()
			n.inLoop = true
			end := func(*ctx) *S { return skip() }
			n.breakK, n.contK = end, end
			body := g.block(x.Body.List, n, end)
			return seq(star(body), k(c))
		})
	case *ast.ReturnStmt:
		for _, rexp := range x.Results {
			if fl, ok := rexp.(*ast.FuncLit); ok {
				g.registerEntry(fmt.Sprintf("%s/returned@%s", c.where, g.pos(fl)), c.variant, fl, c)
			}
		}
		return g.exprList(x.Results, c, func(c *ctx) *S { return g.ret(c) })
	case *ast.DeferStmt:
		if c.inLoop {
			return unknown("defer inside a loop at " + g.pos(x))
		}
		d := g.call(x.Call, c.clone(), func(*ctx) *S { return skip() })
		c.defers = append(c.defers, d)
		return k(c)
	case *ast.GoStmt:
		if fl, ok := x.Call.Fun.(*ast.FuncLit); ok {
			g.registerEntry(fmt.Sprintf("%s/go@%s", c.where, g.pos(fl)), c.variant, fl, c)
			return g.exprList(x.Call.Args, c, k)
		}
		if cal := g.resolve(x.Call, c); cal != nil {
			fl := &ast.FuncLit{Type: &ast.FuncType{Params: &ast.FieldList{}}, Body: &ast.BlockStmt{List: []ast.Stmt{&ast.ExprStmt{X: x.Call}}}}
			fl.Type.Func = x.Pos()
			g.registerEntry(fmt.Sprintf("%s/go@%s", c.where, g.pos(x)), c.variant, fl, c)
			return k(c)
		}
		g.external["go "+exprName(x.Call.Fun)]++
		return g.exprList(x.Call.Args, c, k)
	case *ast.BranchStmt:
		if x.Label != nil {
			return unknown("labelled branch at " + g.pos(x))
		}
		switch x.Tok {
		case token.BREAK:
			if c.breakK != nil {
				return c.breakK(c)
			}
		case token.CONTINUE:
			if c.contK != nil {
				return c.contK(c)
			}
		}
		return unknown("branch statement at " + g.pos(x))
	case *ast.SwitchStmt:
		return g.stmt(x.Init, c, func(c *ctx) *S {
			return g.calls(x.Tag, c, func(c *ctx) *S { return g.cases(x.Body.List, c, k, false) })
		})
	case *ast.TypeSwitchStmt:
		return g.stmt(x.Init, c, func(c *ctx) *S { return g.cases(x.Body.List, c, k, false) })
	case *ast.SelectStmt:
		hasDefault := false
		for _, cl := range x.Body.List {
			if cc, ok := cl.(*ast.CommClause); ok && cc.Comm == nil {
				hasDefault = true
			}
		}
		r := g.cases(x.Body.List, c, k, true)
		if !hasDefault {
			return seq(&S{K: "Block"}, r)
		}
		return r
	case *ast.LabeledStmt:
		return unknown("label at " + g.pos(x))
	}
	return unknown(fmt.Sprintf("statement %T at %s", s, g.pos(s)))
}

func exprName(e ast.Expr) string {
	switch x := e.(type) {
	case *ast.Ident:
		return x.Name
	case *ast.SelectorExpr:
		return exprName(x.X) + "." + x.Sel.Name
	}
	return "?"
}

// cases: alternatives of a switch / select; break leaves the statement.
func (g *gen) cases(list []ast.Stmt, c *ctx, k K, isSelect bool) *S {
	var res *S
	hasDefault := false
	for _, cl := range list {
		n := c.clone()
		n.breakK = k
		var body []ast.Stmt
		var pre ast.Stmt
		switch cc := cl.(type) {
		case *ast.CaseClause:
			body = cc.Body
			if cc.List == nil {
				hasDefault = true
			}
		case *ast.CommClause:
			body = cc.Body
			if cc.Comm == nil {
				hasDefault = true
			} else {
				pre = cc.Comm
			}
		}
		for _, b := range body {
			if br, ok := b.(*ast.BranchStmt); ok && br.Tok == token.FALLTHROUGH {
				return unknown("fallthrough at " + g.pos(br))
			}
		}
		var one *S
		if pre != nil {
			// the communication itself is covered by the select's SBlock; translate only nested calls
			one = g.commCalls(pre, n, func(c2 *ctx) *S { return g.block(body, c2, k) })
		} else {
			one = g.block(body, n, k)
		}
		if res == nil {
			res = one
		} else {
			res = alt(res, one)
		}
	}
	if !hasDefault && !isSelect {
		fall := k(c.clone())
		if res == nil {
			res = fall
		} else {
			res = alt(res, fall)
		}
	}
	if res == nil {
		return k(c)
	}
	return res
}

func (g *gen) commCalls(s ast.Stmt, c *ctx, k K) *S {
	switch x := s.(type) {
	case *ast.SendStmt:
		return g.calls(x.Value, c, k)
	case *ast.ExprStmt:
		if u, ok := x.X.(*ast.UnaryExpr); ok && u.Op == token.ARROW {
			return g.calls(u.X, c, k)
		}
	case *ast.AssignStmt:
		if len(x.Rhs) == 1 {
			if u, ok := x.Rhs[0].(*ast.UnaryExpr); ok && u.Op == token.ARROW {
				return g.calls(u.X, c, k)
			}
		}
	}
	return k(c)
}

func (g *gen) inlineIter(cal *callee, c *ctx) *S {
	n := c.clone()
	n.depth = c.depth + 1
	n.defers = nil
	n.inLoop = false
	n.breakK, n.contK = nil, nil
	n.where = cal.name
	if ctor, ok := g.p.ctorOf[c.variant]; ok {
		g.bindCtorLocals(ctor, n)
	}
	return fun(g.block(cal.body.List, n, func(c2 *ctx) *S { return g.ret(c2) }))
}

// ---------- driver ----------

func main() {
	dir := flag.String("dir", "", "package directory")
	out := flag.String("out", ".", "output directory")
	name := flag.String("name", "SkeletonRun", "module name of the generated .v file")
	guardFlag := flag.String("guard", "", "guarded fields: field=mu,field2=mu (mu = the struct's mutex field named mu)")
	allFuncs := flag.Bool("allfuncs", false, "take every function and method of the package as an entry (packages without backend constructors)")
	accessOnly := flag.Bool("accessonly", false, "emit only the access table and its obligation")
	flag.Parse()
	p, err := load(*dir)
	if err != nil {
		fmt.Fprintln(os.Stderr, "skel:", err)
		os.Exit(2)
	}
	g := &gen{p: p, seenLit: map[string]bool{}, external: map[string]int{}, assumed: map[string]bool{}, guarded: map[string]int{}, accSeen: map[string]bool{}}
	var gfields []string
	for _, kv := range strings.Split(*guardFlag, ",") {
		if kv = strings.TrimSpace(kv); kv != "" {
			gfields = append(gfields, strings.SplitN(kv, "=", 2)[0])
		}
	}
	sort.Strings(gfields)
	for i, f := range gfields {
		g.guarded[f] = i
	}
	var variants []string
	for v := range p.closures {
		variants = append(variants, v)
	}
	sort.Strings(variants)
	for _, v := range variants {
		base := func(where string) *ctx {
			return &ctx{variant: v, types: map[string]string{}, bools: map[string]bool{}, lockvars: map[string]int{},
				localFns: map[string]*ast.FuncLit{}, fparams: map[string]bool{}, where: where}
		}
		// constructor (registers goroutines and callbacks as further entries)
		ctor := p.ctorOf[v]
		c0 := base("New" + v)
		for _, fl := range ctor.Type.Params.List {
			for _, nm := range fl.Names {
				c0.types[nm.Name] = baseType(fl.Type)
			}
		}
		body := g.block(ctor.Body.List, c0, func(c2 *ctx) *S { return g.ret(c2) })
		g.entries = append(g.entries, &entry{Name: "New" + v, Skel: body})
		// exported methods
		var ms []string
		for m := range p.methods[v] {
			if ast.IsExported(m) {
				ms = append(ms, m)
			}
		}
		sort.Strings(ms)
		for _, m := range ms {
			fd := p.methods[v][m]
			c1 := base(v + "." + m)
			cal := &callee{body: fd.Body, ftype: fd.Type, recv: fd.Recv, name: v + "." + m}
			sk := g.inline(cal, nil, c1)
			g.entries = append(g.entries, &entry{Name: v + "." + m, Skel: sk, Stop: m == "Destroy"})
		}
		// eviction on its own (started from a store or from the janitor)
		for tn, mm := range p.methods {
			if fd, ok := mm["evict"]; ok {
				c1 := base(tn + ".evict[" + v + "]")
				cal := &callee{body: fd.Body, ftype: fd.Type, recv: fd.Recv, name: tn + ".evict"}
				sk := g.inline(cal, nil, c1)
				g.entries = append(g.entries, &entry{Name: tn + ".evict[" + v + "]", Skel: sk})
			}
		}
		for len(g.pending) > 0 {
			f := g.pending[0]
			g.pending = g.pending[1:]
			f()
		}
	}

	if *allFuncs {
		base := func(where string) *ctx {
			return &ctx{types: map[string]string{}, bools: map[string]bool{}, lockvars: map[string]int{},
				localFns: map[string]*ast.FuncLit{}, fparams: map[string]bool{}, where: where}
		}
		var names []string
		decls := map[string]*ast.FuncDecl{}
		for n, fd := range p.funcs {
			names = append(names, n)
			decls[n] = fd
		}
		for t, ms := range p.methods {
			for n, fd := range ms {
				names = append(names, t+"."+n)
				decls[t+"."+n] = fd
			}
		}
		sort.Strings(names)
		for _, n := range names {
			fd := decls[n]
			if fd.Body == nil {
				continue
			}
			cal := &callee{body: fd.Body, ftype: fd.Type, recv: fd.Recv, name: n}
			sk := g.inline(cal, nil, base(n))
			g.entries = append(g.entries, &entry{Name: n, Skel: sk})
			for len(g.pending) > 0 {
				f := g.pending[0]
				g.pending = g.pending[1:]
				f()
			}
		}
	}

	var sb strings.Builder
	fmt.Fprintf(&sb, "(* generated by harness/cmd/skel from %s - do not edit *)\n", *dir)
	sb.WriteString("From Reservoir Require Import Base.Prelude Model.Sync.\n")
	var names, stops, evicts []string
	type jent struct {
		Name     string   `json:"name"`
		Def      string   `json:"def"`
		Stop     bool     `json:"stop"`
		Unknowns []string `json:"unknowns"`
		Skel     string   `json:"skel"`
	}
	var jes []jent
	for i, e := range g.entries {
		def := fmt.Sprintf("e%d", i)
		fmt.Fprintf(&sb, "(* %s *)\nDefinition %s : skel := %s.\n", e.Name, def, e.Skel.String())
		names = append(names, def)
		if e.Stop {
			stops = append(stops, def)
		}
		if strings.Contains(e.Name, ".evict[") {
			evicts = append(evicts, def)
		}
		var unk []string
		e.Skel.unknowns(&unk)
		jes = append(jes, jent{Name: e.Name, Def: def, Stop: e.Stop, Unknowns: unk, Skel: e.Skel.String()})
	}
	fmt.Fprintf(&sb, "Definition entries : list skel := [%s].\n", strings.Join(names, "; "))
	fmt.Fprintf(&sb, "Definition stop_entries : list skel := [%s].\n", strings.Join(stops, "; "))
	fmt.Fprintf(&sb, "Definition evict_entries : list skel := [%s].\n", strings.Join(evicts, "; "))
	if len(gfields) > 0 {
		sb.WriteString("From Reservoir Require Import Model.Lockset.\n")
		var recs []string
		for _, a := range g.accesses {
			var hs []string
			for _, h := range a.Held {
				i := strings.LastIndex(h, ":")
				hs = append(hs, fmt.Sprintf("(%s, A%s)", h[:i], h[i+1:]))
			}
			w := "false"
			if a.Write {
				w = "true"
			}
			recs = append(recs, fmt.Sprintf("mk_access %d %s [%s] (* %s %s in %s *)", a.ID, w, strings.Join(hs, "; "), a.Field, a.Pos, a.Where))
		}
		fmt.Fprintf(&sb, "Definition accesses : list access :=\n [ %s ].\n", strings.Join(recs, "\n ; "))
		sb.WriteString("Definition guard (f : nat) : slock := SMu.\n")
		sb.WriteString("Lemma accesses_ok : forallb (access_ok guard) accesses = true.\nProof. vm_compute. reflexivity. Qed.\n")
		sb.WriteString("Print Assumptions accesses_ok.\n")
	}
	if *accessOnly {
		if err := os.MkdirAll(*out, 0755); err != nil {
			panic(err)
		}
		if err := os.WriteFile(filepath.Join(*out, *name+".v"), []byte(sb.String()), 0644); err != nil {
			panic(err)
		}
		js, _ := json.MarshalIndent(map[string]any{"dir": *dir, "accesses": g.accesses, "fields": gfields}, "", " ")
		os.WriteFile(filepath.Join(*out, *name+".json"), js, 0644)
		fmt.Printf("skel: %d guarded accesses in %d entries\n", len(g.accesses), len(g.entries))
		return
	}
	// proof obligations over the regenerated term, re-checked by coqc on every run
	sb.WriteString("From Reservoir Require Import Proofs.Sync.\n")
	sb.WriteString("Lemma entries_ok : forallb entry_ok entries = true.\nProof. vm_compute. reflexivity. Qed.\n")
	sb.WriteString("Lemma stop_ok : forallb waitfree_skel stop_entries = true.\nProof. vm_compute. reflexivity. Qed.\n")
	sb.WriteString("Lemma evict_ok : forallb no_shard_acq evict_entries = true.\nProof. vm_compute. reflexivity. Qed.\n")
	sb.WriteString("Definition cache_deadlock_free_now := fun ps sched s' => checked_entries_deadlock_free entries ps sched s' entries_ok.\n")
	sb.WriteString("Print Assumptions cache_deadlock_free_now.\n")
	if err := os.MkdirAll(*out, 0755); err != nil {
		panic(err)
	}
	if err := os.WriteFile(filepath.Join(*out, *name+".v"), []byte(sb.String()), 0644); err != nil {
		panic(err)
	}
	var ext []string
	for k, n := range g.external {
		ext = append(ext, fmt.Sprintf("%s x%d", k, n))
	}
	sort.Strings(ext)
	var asm []string
	for k := range g.assumed {
		asm = append(asm, k)
	}
	sort.Strings(asm)
	js, _ := json.MarshalIndent(map[string]any{"dir": *dir, "entries": jes, "external_calls": ext, "assumed": asm, "variants": variants, "accesses": g.accesses}, "", " ")
	if err := os.WriteFile(filepath.Join(*out, "skeleton.json"), js, 0644); err != nil {
		panic(err)
	}
	fmt.Printf("skel: %d entries, %d variants, %d external call names\n", len(g.entries), len(variants), len(ext))
}
