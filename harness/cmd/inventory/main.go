// inventory — the shared-state inventory translator of C15.
//
// It type-checks every non-test package of the repository under -dir (go/parser + go/types, standard library
// only) and emits, for EVERY struct field declared in the repository and EVERY package-level variable, the list
// of places where that memory location is written after the object can have been published:
//
//	slot   x.f = v, x.f += v, x.f++                      (the field itself)
//	elem   x.f[k] = v, delete(x.f, k), x.f.Set(..) on a  (what a map / slice / header-map field refers to)
//	       map-typed field, *x.f = v
//	addr   &x.f                                          (the location escapes: anything may write it)
//
// A write is FRESH (and not listed) when the object written is provably still private to the writing function:
// the root of the selector path is a local variable that this function created itself (composite literal, new,
// var declaration, or a by-value struct copy — the latter for slot writes only, reached without following a
// pointer), or, for package-level variables, when the write is in a package initialiser or func init.
//
// The output is a Coq term (gen/<name>.v) of records (location id, self-synchronised type?, post-publication
// writes) that Check/Inventory.v classifies: every location is read-only after publication, lock-guarded (then
// the lockset tables decide), of a self-synchronising type, or listed with a reason as confined to one goroutine.
package main

import (
	"encoding/json"
	"flag"
	"fmt"
	"go/ast"
	"go/build"
	"go/importer"
	"go/parser"
	"go/token"
	"go/types"
	"os"
	"path/filepath"
	"sort"
	"strings"
)

type write struct {
	Func string `json:"func"`
	Pos  string `json:"pos"`
	Kind string `json:"kind"` // slot | elem | addr
}

type location struct {
	ID       string  `json:"id"`   // pkg.Type.field or pkg.var
	Type     string  `json:"type"` // Go type of the slot
	SelfSync bool    `json:"selfsync"`
	Writes   []write `json:"writes"`
}

var (
	fset   = token.NewFileSet()
	locs   = map[string]*location{}
	objLoc = map[types.Object]string{}
	root   string
)

func rel(p token.Pos) string {
	pos := fset.Position(p)
	r, err := filepath.Rel(root, pos.Filename)
	if err != nil {
		r = pos.Filename
	}
	return fmt.Sprintf("%s:%d", r, pos.Line)
}

// selfSync: accesses to a value of this type are synchronised by the type itself.
func selfSync(t types.Type) bool {
	switch u := t.(type) {
	case *types.Pointer:
		return selfSync(u.Elem())
	case *types.Chan:
		return true
	case *types.Named:
		if o := u.Obj(); o != nil && o.Pkg() != nil {
			p := o.Pkg().Path()
			switch {
			case p == "sync" || p == "sync/atomic":
				return true
			case p == "golang.org/x/sync/singleflight":
				return true
			case strings.HasSuffix(p, "utils/atomics") || strings.HasSuffix(p, "utils/syncmap") || strings.HasSuffix(p, "utils/event"):
				return true
			case strings.HasSuffix(p, "/config") && strings.HasPrefix(o.Name(), "ConfigProp"):
				return true
			}
		}
	case *types.Alias:
		return selfSync(types.Unalias(u))
	}
	return false
}

func main() {
	dir := flag.String("dir", "", "repository root")
	out := flag.String("out", "", "output directory")
	name := flag.String("name", "Inventory", "Coq module name")
	flag.Parse()
	var err error
	root, err = filepath.Abs(*dir)
	if err != nil {
		fail(err)
	}
	if err := os.Chdir(root); err != nil {
		fail(err)
	}
	ctx := build.Default
	ctx.CgoEnabled = false
	var dirs []string
	filepath.Walk(root, func(p string, fi os.FileInfo, err error) error {
		if err != nil {
			return nil
		}
		if fi.IsDir() {
			b := fi.Name()
			if p != root && (strings.HasPrefix(b, ".") || b == "node_modules" || b == "testdata" || b == "frontend") {
				return filepath.SkipDir
			}
			dirs = append(dirs, p)
		}
		return nil
	})
	sort.Strings(dirs)
	imp := importer.ForCompiler(fset, "source", nil)
	type pkgInfo struct {
		path  string
		files []*ast.File
		info  *types.Info
		pkg   *types.Package
		errs  []string
	}
	var pkgs []*pkgInfo
	for _, d := range dirs {
		bp, err := ctx.ImportDir(d, 0)
		if err != nil || len(bp.GoFiles) == 0 {
			continue
		}
		r, _ := filepath.Rel(root, d)
		if r == "tests" || strings.HasPrefix(r, "tests"+string(filepath.Separator)) {
			continue // test support package
		}
		pi := &pkgInfo{path: filepath.ToSlash(r)}
		for _, f := range bp.GoFiles {
			af, err := parser.ParseFile(fset, filepath.Join(d, f), nil, parser.SkipObjectResolution)
			if err != nil {
				fail(err)
			}
			pi.files = append(pi.files, af)
		}
		pi.info = &types.Info{Defs: map[*ast.Ident]types.Object{}, Uses: map[*ast.Ident]types.Object{},
			Types: map[ast.Expr]types.TypeAndValue{}, Selections: map[*ast.SelectorExpr]*types.Selection{}}
		conf := types.Config{Importer: imp, Error: func(e error) { pi.errs = append(pi.errs, e.Error()) }}
		ipath := "reservoir"
		if pi.path != "." {
			ipath = "reservoir/" + pi.path
		}
		pi.pkg, _ = conf.Check(ipath, fset, pi.files, pi.info)
		pkgs = append(pkgs, pi)
	}
	// 1. locations
	for _, pi := range pkgs {
		short := pi.path
		for _, f := range pi.files {
			for _, d := range f.Decls {
				gd, ok := d.(*ast.GenDecl)
				if !ok {
					continue
				}
				for _, sp := range gd.Specs {
					switch s := sp.(type) {
					case *ast.TypeSpec:
						declStruct(pi.info, short, s.Name.Name, s.Type)
					case *ast.ValueSpec:
						if gd.Tok != token.VAR {
							continue
						}
						for _, n := range s.Names {
							if n.Name == "_" {
								continue
							}
							o := pi.info.Defs[n]
							if o == nil {
								continue
							}
							id := short + "." + n.Name
							locs[id] = &location{ID: id, Type: types.TypeString(o.Type(), qual), SelfSync: selfSync(o.Type())}
							objLoc[o] = id
						}
					}
				}
			}
		}
	}
	// 2. writes
	typeErrs := map[string][]string{}
	for _, pi := range pkgs {
		if len(pi.errs) > 0 {
			typeErrs[pi.path] = pi.errs
		}
		for _, f := range pi.files {
			for _, d := range f.Decls {
				fd, ok := d.(*ast.FuncDecl)
				if !ok || fd.Body == nil {
					continue
				}
				fname := fd.Name.Name
				if fd.Recv != nil && len(fd.Recv.List) > 0 {
					fname = recvName(fd.Recv.List[0].Type) + "." + fname
				}
				w := &walker{info: pi.info, fn: pi.path + ":" + fname, isInit: fd.Recv == nil && fd.Name.Name == "init", fresh: map[types.Object]string{}}
				w.collectFresh(fd.Body)
				ast.Inspect(fd.Body, w.visit)
			}
		}
	}
	var ids []string
	for id := range locs {
		ids = append(ids, id)
	}
	sort.Strings(ids)
	var list []*location
	for _, id := range ids {
		l := locs[id]
		sort.Slice(l.Writes, func(i, j int) bool { return l.Writes[i].Pos < l.Writes[j].Pos })
		list = append(list, l)
	}
	js, _ := json.MarshalIndent(map[string]any{"locations": list, "type_errors": typeErrs}, "", " ")
	if err := os.WriteFile(filepath.Join(*out, *name+".json"), js, 0o644); err != nil {
		fail(err)
	}
	var b strings.Builder
	b.WriteString("(* GENERATED by harness/cmd/inventory from the repository source. Do not edit. *)\n")
	b.WriteString("From Coq Require Import String.\nFrom Reservoir Require Import Base.Prelude Model.Inventory.\nOpen Scope string_scope.\n\n")
	b.WriteString("Definition locations : list inv_loc := [\n")
	for i, l := range list {
		var ws []string
		for _, w := range l.Writes {
			ws = append(ws, fmt.Sprintf("mk_w %s %s", coqStr(w.Func), kindCtor(w.Kind)))
		}
		sep := ";"
		if i == len(list)-1 {
			sep = ""
		}
		fmt.Fprintf(&b, "  mk_loc %s %s %v [%s]%s\n", coqStr(l.ID), coqStr(l.Type), l.SelfSync, strings.Join(ws, "; "), sep)
	}
	b.WriteString("].\n")
	if err := os.WriteFile(filepath.Join(*out, *name+".v"), []byte(b.String()), 0o644); err != nil {
		fail(err)
	}
	fmt.Printf("locations=%d written=%d type_error_packages=%d\n", len(list), countWritten(list), len(typeErrs))
}

func countWritten(l []*location) int {
	n := 0
	for _, x := range l {
		if len(x.Writes) > 0 {
			n++
		}
	}
	return n
}

func kindCtor(k string) string {
	switch k {
	case "slot":
		return "WSlot"
	case "elem":
		return "WElem"
	}
	return "WAddr"
}

func coqStr(s string) string {
	return "\"" + strings.ReplaceAll(s, "\"", "\"\"") + "\""
}

func qual(p *types.Package) string {
	if strings.HasPrefix(p.Path(), "reservoir/") {
		return strings.TrimPrefix(p.Path(), "reservoir/")
	}
	return p.Path()
}

func fail(err error) {
	fmt.Fprintln(os.Stderr, "inventory:", err)
	os.Exit(2)
}

func recvName(e ast.Expr) string {
	switch t := e.(type) {
	case *ast.StarExpr:
		return recvName(t.X)
	case *ast.IndexExpr:
		return recvName(t.X)
	case *ast.IndexListExpr:
		return recvName(t.X)
	case *ast.Ident:
		return t.Name
	}
	return "?"
}

func declStruct(info *types.Info, pkg, tname string, e ast.Expr) {
	st, ok := e.(*ast.StructType)
	if !ok {
		return
	}
	for _, fl := range st.Fields.List {
		if len(fl.Names) == 0 { // embedded
			var id *ast.Ident
			switch t := fl.Type.(type) {
			case *ast.Ident:
				id = t
			case *ast.StarExpr:
				if i, ok := t.X.(*ast.Ident); ok {
					id = i
				} else if s, ok := t.X.(*ast.SelectorExpr); ok {
					id = s.Sel
				}
			case *ast.SelectorExpr:
				id = t.Sel
			}
			if id != nil {
				addField(info, pkg, tname, id, fl.Type)
			}
			continue
		}
		for _, n := range fl.Names {
			if n.Name == "_" {
				continue
			}
			addField(info, pkg, tname, n, fl.Type)
		}
		// anonymous struct-typed fields: their own fields are locations too
		if inner, ok := fl.Type.(*ast.StructType); ok && len(fl.Names) > 0 {
			declStruct(info, pkg, tname+"."+fl.Names[0].Name, inner)
		}
	}
}

func addField(info *types.Info, pkg, tname string, n *ast.Ident, te ast.Expr) {
	id := pkg + "." + tname + "." + n.Name
	l := &location{ID: id}
	if o := info.Defs[n]; o != nil {
		l.Type = types.TypeString(o.Type(), qual)
		l.SelfSync = selfSync(o.Type())
		objLoc[o] = id
	} else if tv, ok := info.Types[te]; ok {
		l.Type = types.TypeString(tv.Type, qual)
		l.SelfSync = selfSync(tv.Type)
	}
	locs[id] = l
}

type walker struct {
	info   *types.Info
	fn     string
	isInit bool
	// local variables created by this function: "obj" (fresh object behind a pointer or a fresh value), "copy" (by-value copy of an existing struct)
	fresh map[types.Object]string
}

func isStructVal(t types.Type) bool {
	if t == nil {
		return false
	}
	_, ok := t.Underlying().(*types.Struct)
	return ok
}

func (w *walker) classifyInit(rhs ast.Expr) string {
	switch r := rhs.(type) {
	case *ast.CompositeLit:
		return "obj"
	case *ast.UnaryExpr:
		if r.Op == token.AND {
			if _, ok := r.X.(*ast.CompositeLit); ok {
				return "obj"
			}
		}
	case *ast.CallExpr:
		if id, ok := r.Fun.(*ast.Ident); ok && (id.Name == "new" || id.Name == "make") {
			if _, isB := w.info.Uses[id].(*types.Builtin); isB {
				return "obj"
			}
		}
		// a call returning a struct BY VALUE yields a private copy of the struct itself
		if tv, ok := w.info.Types[rhs]; ok && isStructVal(tv.Type) {
			return "copy"
		}
	case *ast.ParenExpr:
		return w.classifyInit(r.X)
	default:
		if tv, ok := w.info.Types[rhs]; ok && isStructVal(tv.Type) {
			return "copy" // *p, x.f, arr[i] … copied by value
		}
	}
	if tv, ok := w.info.Types[rhs]; ok && isStructVal(tv.Type) {
		return "copy"
	}
	return ""
}

func (w *walker) collectFresh(body *ast.BlockStmt) {
	// a variable is fresh only if EVERY assignment to it in this function is a fresh initialiser
	assigned := map[types.Object][]string{}
	note := func(id *ast.Ident, cls string) {
		o := w.info.Defs[id]
		if o == nil {
			o = w.info.Uses[id]
		}
		if o == nil {
			return
		}
		assigned[o] = append(assigned[o], cls)
	}
	ast.Inspect(body, func(n ast.Node) bool {
		switch s := n.(type) {
		case *ast.AssignStmt:
			if len(s.Lhs) == len(s.Rhs) {
				for i, l := range s.Lhs {
					if id, ok := l.(*ast.Ident); ok && id.Name != "_" {
						note(id, w.classifyInit(s.Rhs[i]))
					}
				}
			} else {
				for _, l := range s.Lhs {
					if id, ok := l.(*ast.Ident); ok && id.Name != "_" {
						cls := ""
						if o := w.info.Defs[id]; o != nil && isStructVal(o.Type()) {
							cls = "copy"
						} else if o := w.info.Uses[id]; o != nil && isStructVal(o.Type()) {
							cls = "copy"
						}
						note(id, cls)
					}
				}
			}
		case *ast.ValueSpec:
			for i, id := range s.Names {
				if id.Name == "_" {
					continue
				}
				if len(s.Values) == len(s.Names) {
					note(id, w.classifyInit(s.Values[i]))
				} else if len(s.Values) == 0 {
					o := w.info.Defs[id]
					if o != nil {
						if _, isPtr := o.Type().Underlying().(*types.Pointer); isPtr {
							note(id, "") // nil pointer, later assigned from elsewhere
						} else {
							note(id, "obj") // zero value owned by this function
						}
					}
				} else {
					note(id, "")
				}
			}
		case *ast.RangeStmt:
			for _, e := range []ast.Expr{s.Key, s.Value} {
				if id, ok := e.(*ast.Ident); ok && id.Name != "_" {
					cls := ""
					if o := w.info.Defs[id]; o != nil && isStructVal(o.Type()) {
						cls = "copy"
					}
					note(id, cls)
				}
			}
		}
		return true
	})
	for o, cl := range assigned {
		if _, isVar := o.(*types.Var); !isVar || o.Parent() == nil || o.Pkg() == nil || o.Parent() == o.Pkg().Scope() {
			continue
		}
		best := "obj"
		for _, c := range cl {
			if c == "" {
				best = ""
				break
			}
			if c == "copy" {
				best = "copy"
			}
		}
		if best != "" {
			w.fresh[o] = best
		}
	}
}

// target describes the written location(s) behind an lvalue expression.
func (w *walker) record(e ast.Expr, kind string, pos token.Pos) {
	// strip index / deref / paren: what is written is what the inner expression refers to
	for {
		switch x := e.(type) {
		case *ast.ParenExpr:
			e = x.X
			continue
		case *ast.IndexExpr:
			// writing an element of an ARRAY-valued field writes the field's own storage; of a map/slice, what it refers to
			e = x.X
			if kind == "slot" {
				kind = "elem"
			}
			continue
		case *ast.StarExpr:
			e = x.X
			if kind == "slot" {
				kind = "elem"
			}
			continue
		case *ast.SliceExpr:
			e = x.X
			continue
		}
		break
	}
	switch x := e.(type) {
	case *ast.Ident:
		o := w.info.Uses[x]
		if o == nil {
			o = w.info.Defs[x]
		}
		if id, ok := objLoc[o]; ok { // package-level variable
			if w.isInit {
				return
			}
			locs[id].Writes = append(locs[id].Writes, write{Func: w.fn, Pos: rel(pos), Kind: kind})
		}
	case *ast.SelectorExpr:
		sel := w.info.Selections[x]
		if sel == nil {
			// qualified identifier pkg.Var
			if id, ok := objLoc[w.info.Uses[x.Sel]]; ok {
				if w.isInit {
					return
				}
				locs[id].Writes = append(locs[id].Writes, write{Func: w.fn, Pos: rel(pos), Kind: kind})
			}
			return
		}
		if sel.Kind() != types.FieldVal {
			return
		}
		id, ok := objLoc[sel.Obj()]
		if !ok {
			// field of a generic instantiation: map back through Origin
			if v, isVar := sel.Obj().(*types.Var); isVar {
				id, ok = objLoc[v.Origin()]
			}
			if !ok {
				return
			}
		}
		if w.freshPath(x, kind) {
			return
		}
		locs[id].Writes = append(locs[id].Writes, write{Func: w.fn, Pos: rel(pos), Kind: kind})
	}
}

// freshPath: is the object whose field is written still private to this function?
func (w *walker) freshPath(x *ast.SelectorExpr, kind string) bool {
	// walk to the root, noting whether a pointer is followed after the root
	derefs := 0
	var e ast.Expr = x
	for {
		switch y := e.(type) {
		case *ast.SelectorExpr:
			if s := w.info.Selections[y]; s != nil {
				if s.Indirect() {
					derefs++
				}
				e = y.X
				continue
			}
			return false // qualified identifier: package-level variable of another package
		case *ast.ParenExpr:
			e = y.X
			continue
		case *ast.StarExpr:
			derefs++
			e = y.X
			continue
		case *ast.IndexExpr:
			derefs++ // element of a map/slice: shared backing store unless the container is fresh
			e = y.X
			continue
		case *ast.Ident:
			o := w.info.Uses[y]
			if o == nil {
				o = w.info.Defs[y]
			}
			cls, ok := w.fresh[o]
			if !ok {
				// by-value struct parameter / receiver: a private copy of the struct itself
				if v, isVar := o.(*types.Var); isVar && v.Pkg() != nil && v.Parent() != v.Pkg().Scope() && isStructVal(v.Type()) {
					cls = "copy"
				} else {
					return false
				}
			}
			switch cls {
			case "obj":
				// fresh object: the root may itself be a pointer to it (one deref) — fields reached through
				// FURTHER pointers belong to other objects
				_, rootIsPtr := o.Type().Underlying().(*types.Pointer)
				lim := 0
				if rootIsPtr {
					lim = 1
				}
				if derefs > lim {
					return false
				}
				return true // slot and elem writes: containers made for a fresh object are reached only through it
			case "copy":
				return derefs == 0 && kind == "slot"
			}
			return false
		default:
			return false
		}
	}
}

var mutators = map[string]bool{"Set": true, "Add": true, "Del": true}

func (w *walker) visit(n ast.Node) bool {
	switch s := n.(type) {
	case *ast.AssignStmt:
		if s.Tok == token.DEFINE {
			// := never writes a field or a package variable
			return true
		}
		for _, l := range s.Lhs {
			w.record(l, "slot", l.Pos())
		}
	case *ast.IncDecStmt:
		w.record(s.X, "slot", s.Pos())
	case *ast.RangeStmt:
		if s.Tok == token.ASSIGN {
			if s.Key != nil {
				w.record(s.Key, "slot", s.Pos())
			}
			if s.Value != nil {
				w.record(s.Value, "slot", s.Pos())
			}
		}
	case *ast.UnaryExpr:
		if s.Op == token.AND {
			if _, isLit := s.X.(*ast.CompositeLit); !isLit {
				// &x.f : only interesting when it names a field / package variable of a non self-synchronising type
				w.recordAddr(s.X, s.Pos())
			}
		}
	case *ast.CallExpr:
		if id, ok := s.Fun.(*ast.Ident); ok && (id.Name == "delete" || id.Name == "clear") && len(s.Args) >= 1 {
			if _, isB := w.info.Uses[id].(*types.Builtin); isB {
				w.record(s.Args[0], "elem", s.Pos())
			}
		}
		// mutating method on a map-typed field: x.f.Set(k, v) for http.Header / url.Values
		if se, ok := s.Fun.(*ast.SelectorExpr); ok && mutators[se.Sel.Name] {
			if tv, ok := w.info.Types[se.X]; ok {
				if _, isMap := tv.Type.Underlying().(*types.Map); isMap {
					w.record(se.X, "elem", s.Pos())
				}
			}
		}
	}
	return true
}

func (w *walker) recordAddr(e ast.Expr, pos token.Pos) {
	for {
		if p, ok := e.(*ast.ParenExpr); ok {
			e = p.X
			continue
		}
		break
	}
	var o types.Object
	switch x := e.(type) {
	case *ast.Ident:
		o = w.info.Uses[x]
	case *ast.SelectorExpr:
		if s := w.info.Selections[x]; s != nil && s.Kind() == types.FieldVal {
			o = s.Obj()
			if w.freshPath(x, "addr") {
				return
			}
		} else {
			o = w.info.Uses[x.Sel]
		}
	default:
		return
	}
	if v, ok := o.(*types.Var); ok {
		o = v.Origin()
	}
	id, ok := objLoc[o]
	if !ok || locs[id].SelfSync {
		return
	}
	if w.isInit {
		return
	}
	locs[id].Writes = append(locs[id].Writes, write{Func: w.fn, Pos: rel(pos), Kind: "addr"})
}
