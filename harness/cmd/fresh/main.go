// fresh: end-to-end correspondence harness for C03 / C04.
//
// It starts the REAL proxy (proxy.NewProxy) in-process behind an httptest server, a
// scripted origin that logs every request it receives, and plays sequential request
// histories for one resource each: requests of several methods, clock advances
// (realised by ageing every stored instant with the VerifAge hook - never by
// sleeping), cache-policy switches, and origin answers that change from request to
// request. Per request it records status, X-Cache, Cache-Status, Age, the version of
// the body and what the origin saw, and prints the history as a Gallina term for
// Check/FreshHistory.v.
//
// Usage: fresh -prop C03|C04 -seed N -tier quick|thorough -out DIR
package main

import (
	"context"
	"crypto/tls"
	"errors"
	"flag"
	"fmt"
	"io"
	"log/slog"
	"net/http"
	"net/http/httptest"
	"net/url"
	"os"
	"path/filepath"
	"regexp"
	"strconv"
	"strings"
	"sync"
	"time"

	"reservoir/config"
	"reservoir/proxy"
	"reservoir/utils/duration"
	"verifharness/emit"
	"verifharness/freshlib"
)

var (
	flagProp  = flag.String("prop", "C03", "C03|C04 (selects the property checker)")
	flagSeed  = flag.Int64("seed", 1, "PRNG seed")
	flagTier  = flag.String("tier", "quick", "quick|thorough")
	flagOut   = flag.String("out", ".", "output directory")
	flagN     = flag.Int("n", 0, "number of histories per backend (0 = tier default)")
	flagDbg   = flag.Bool("debug", false, "write the proxy's log to stderr")
	flagSleep = flag.Bool("sleep", false, "also run the real-sleep batch (always on in thorough)")
)

// ---------- a CA the proxy never needs (no CONNECT in these histories) ----------

type noCA struct{}

func (noCA) GetCertForHost(string) (*tls.Certificate, error) {
	return nil, errors.New("fresh harness: no CONNECT expected")
}

// ---------- scripted origin ----------

type answer struct {
	Status  int
	HV      freshlib.HView
	Version int64
	Age     *int64
	R304    bool
	// wire-level variations the freshness decision must not depend on
	HasDate  bool
	DateSkew time.Duration // Date header = now - DateSkew
	Chunked  bool          // body sent without Content-Length
}

type origin struct {
	mu      sync.Mutex
	answers map[string]answer // path -> what to answer now
	log     map[string][]int  // path -> statuses answered since the last reset
}

func (o *origin) ServeHTTP(w http.ResponseWriter, r *http.Request) {
	o.mu.Lock()
	a, ok := o.answers[r.URL.Path]
	o.mu.Unlock()
	if !ok {
		http.Error(w, "unscripted", 599)
		return
	}
	status := a.Status
	conditional := r.Header.Get("If-None-Match") != "" || r.Header.Get("If-Modified-Since") != ""
	if conditional && a.R304 {
		status = http.StatusNotModified
	}
	o.mu.Lock()
	o.log[r.URL.Path] = append(o.log[r.URL.Path], status)
	o.mu.Unlock()
	if status == http.StatusNotModified {
		w.WriteHeader(status)
		return
	}
	h := w.Header()
	for k, vs := range a.HV.Header() {
		for _, v := range vs {
			h.Add(k, v)
		}
	}
	h.Set("ETag", fmt.Sprintf("\"v%d\"", a.Version))
	h.Set("X-Origin-Version", strconv.FormatInt(a.Version, 10))
	h.Set("Content-Type", "text/plain")
	if a.Age != nil {
		h.Set("Age", strconv.FormatInt(*a.Age, 10))
	}
	if a.HasDate {
		h.Set("Date", time.Now().Add(-a.DateSkew).UTC().Format(http.TimeFormat))
	}
	w.WriteHeader(status)
	if r.Method != http.MethodHead {
		if a.Chunked {
			if f, ok := w.(http.Flusher); ok {
				f.Flush() // headers leave without Content-Length: the body is chunked
			}
		}
		fmt.Fprintf(w, "v%d", a.Version)
	}
}

func (o *origin) set(path string, a answer) {
	o.mu.Lock()
	o.answers[path] = a
	o.log[path] = nil
	o.mu.Unlock()
}

func (o *origin) seen(path string) []int {
	o.mu.Lock()
	defer o.mu.Unlock()
	return append([]int{}, o.log[path]...)
}

// ---------- environment: proxy + origin + client ----------

type env struct {
	backend string
	cfg     *config.Config
	px      *proxy.Proxy
	pxSrv   *httptest.Server
	orig    *origin
	orSrv   *httptest.Server
	client  *http.Client
	shift   time.Duration // total ageing so far: virtual now = real now + shift
	cancel  context.CancelFunc
}

func newEnv(backend string) *env {
	cfg := config.NewDefault()
	cfg.Proxy.UpstreamDefaultHttps.Overwrite(false)
	cfg.Proxy.RetryOnRange416.Overwrite(false)
	cfg.Cache.LockShards.Overwrite(32)
	cfg.Cache.CleanupInterval.Overwrite(duration.Duration(1000 * time.Hour)) // the janitor never runs during a check
	cwd, _ := os.Getwd()
	dir := filepath.Join(cwd, "fresh-cache-"+backend)
	os.RemoveAll(dir)
	os.MkdirAll(dir, 0755)
	cfg.Cache.File.Dir.Overwrite(dir)
	if backend == "file" {
		cfg.Cache.Type.Overwrite(config.CacheTypeFile)
	} else {
		cfg.Cache.Type.Overwrite(config.CacheTypeMemory)
	}
	ctx, cancel := context.WithCancel(context.Background())
	px, err := proxy.NewProxy(cfg, noCA{}, ctx)
	if err != nil {
		panic(err)
	}
	e := &env{backend: backend, cfg: cfg, px: px, cancel: cancel}
	e.orig = &origin{answers: map[string]answer{}, log: map[string][]int{}}
	e.orSrv = httptest.NewServer(e.orig)
	e.pxSrv = httptest.NewServer(px)
	pu, _ := url.Parse(e.pxSrv.URL)
	e.client = &http.Client{Timeout: 20 * time.Second, Transport: &http.Transport{Proxy: http.ProxyURL(pu), DisableCompression: true}}
	return e
}

func (e *env) close() {
	e.client.CloseIdleConnections()
	e.pxSrv.Close()
	e.orSrv.Close()
	time.Sleep(50 * time.Millisecond)
	e.px.Destroy()
	e.cancel()
}

func (e *env) setPolicy(p freshlib.Policy) {
	e.cfg.Proxy.CachePolicy.IgnoreCacheControl.Overwrite(p.Ignore)
	e.cfg.Proxy.CachePolicy.ForceDefaultMaxAge.Overwrite(p.Force)
	e.cfg.Proxy.CachePolicy.DefaultMaxAge.Overwrite(duration.Duration(p.Default))
}

func (e *env) vnow() time.Time { return time.Now().Add(e.shift) }

func (e *env) advance(d time.Duration) {
	e.px.VerifCache().VerifAge(d)
	e.shift += d
}

type obs struct {
	status  int
	version int64
	xcache  string
	cs      string
	age     string
	hasAge  bool
	origin  []int
	err     string
}

var methods = []struct{ s, coq string }{{"GET", "GET"}, {"HEAD", "HEAD"}, {"POST", "POST"}, {"PUT", "OTHER"}, {"DELETE", "OTHER"}}

func (e *env) request(method, path string) obs {
	req, _ := http.NewRequest(method, e.orSrv.URL+path, nil)
	resp, err := e.client.Do(req)
	if err != nil {
		return obs{status: -1, version: -1, err: err.Error(), origin: e.orig.seen(path)}
	}
	body, _ := io.ReadAll(resp.Body)
	resp.Body.Close()
	o := obs{status: resp.StatusCode, version: -1, xcache: resp.Header.Get("X-Cache"), cs: resp.Header.Get("Cache-Status")}
	if _, ok := resp.Header["Age"]; ok {
		o.hasAge, o.age = true, resp.Header.Get("Age")
	}
	if v := resp.Header.Get("X-Origin-Version"); v != "" {
		if n, err := strconv.ParseInt(v, 10, 64); err == nil {
			o.version = n
			// the body must be that version's body (GET-like methods)
			if method != http.MethodHead && string(body) != "v"+v {
				o.version = -2
			}
		}
	}
	o.origin = e.orig.seen(path)
	return o
}

func (o obs) coq() string {
	cs := "None"
	csOK := true
	if o.cs != "" {
		p := freshlib.ParseCacheStatus(o.cs)
		if p.OK {
			cs = "(Some " + p.Coq() + ")"
		} else {
			csOK = false
		}
	}
	age := "None"
	if o.hasAge {
		if n, err := strconv.ParseInt(o.age, 10, 64); err == nil {
			age = "(Some " + emit.Z(n) + ")"
		} else {
			age = "(Some (-99))"
		}
	}
	xc := int64(-1)
	if o.xcache != "" {
		xc = freshlib.XCacheCode(o.xcache)
		if xc < 0 {
			xc = -2
		}
	}
	sts := make([]string, len(o.origin))
	for i, s := range o.origin {
		sts[i] = strconv.Itoa(s)
	}
	return fmt.Sprintf("(Build_hobs %s %s %s %s %s %s %s)", emit.Z(int64(o.status)), emit.Z(o.version), emit.Z(xc), cs, emit.Bool(csOK), age, emit.List(sts))
}

// ---------- history generation ----------

var e2eDefaults = []time.Duration{time.Hour, 90 * time.Second, 10 * time.Second, 0, -time.Second, 30 * 24 * time.Hour}

func e2ePolicy(r *emit.Rand) freshlib.Policy {
	p := freshlib.RandPolicy(r)
	p.Default = emit.Pick(r, e2eDefaults)
	return p
}

var simpleCC = []string{"max-age=5", "max-age=60", "max-age=60", "max-age=3600", "Max-Age=60", "public, max-age=30", "max-age=60, public",
	"max-age=0", "no-store", "no-cache", "private", "private, max-age=60", "No-Store, max-age=60", "max-age=60, no-cache", "public",
	"max-age=abc", "no-store, max-age=abc", "max-age=9223372037", "max-age=99999999999999999999", "max-age=5, max-age=100", "must-revalidate, max-age=10"}

var numRe = regexp.MustCompile(`[0-9]+`)

var dateSkews = []time.Duration{time.Hour, 26 * time.Hour, 10 * time.Second, -time.Hour, 400 * 24 * time.Hour}

// profiles: 0 general; 1 unusable lifetime information (the stored expiry is the parser's "already expired" value);
// 2 lifetime from an Expires date while the origin's Date header lags or leads
func randAnswerProfile(r *emit.Rand, version int64, now time.Time, profile int) answer {
	a := randAnswer(r, version, now)
	switch profile {
	case 1:
		a.Status = 200
		a.HV.CC = nil
		if r.Chance(50) {
			a.HV.CC = []string{emit.Pick(r, []string{"max-age=abc", "public", "max-age=", "must-revalidate"})}
		}
		a.HV.Exp = freshlib.Expires{Kind: freshlib.ExpUnparseable, Line: emit.Pick(r, freshlib.BadDates), Form: "bad"}
		a.HV = freshlib.WireSafe(a.HV)
	case 2:
		a.Status = 200
		a.HV.CC = nil
		if r.Chance(30) {
			a.HV.CC = []string{"public"}
		}
		off := emit.Pick(r, []time.Duration{20 * time.Second, 2 * time.Minute, 30 * time.Minute, 3 * time.Hour})
		at := now.Add(off).Truncate(time.Second).Add(time.Second)
		a.HV.Exp = freshlib.Expires{Kind: freshlib.ExpAt, Line: freshlib.DateLine(at, "imf"), At: at, Form: "imf", Offset: off}
		a.HV = freshlib.WireSafe(a.HV)
		a.HasDate, a.DateSkew = true, emit.Pick(r, dateSkews)
	}
	a.alignAge()
	return a
}

// alignAge: the proxy derives the Age it reports from the origin's Date header (apparent age = store time - Date,
// RFC 9111 4.2.3) and takes the larger of that and the origin's Age field. The model knows no Date header (it takes
// the fetch instant), so an answer whose Date lags by s seconds also carries Age: s (or a larger one): both routes
// then give the same corrected age, and the freshness DECISION — which must not look at Date — is what is compared.
func (a *answer) alignAge() {
	if a.HasDate && a.DateSkew > 0 {
		s := int64(a.DateSkew / time.Second)
		if a.Age == nil || *a.Age < s {
			a.Age = &s
		}
	}
}

func randAnswer(r *emit.Rand, version int64, now time.Time) answer {
	a := answer{Status: 200, Version: version, R304: r.Chance(50)}
	if r.Chance(12) {
		a.HasDate, a.DateSkew = true, emit.Pick(r, dateSkews)
	}
	a.Chunked = r.Chance(15)
	if r.Chance(14) {
		a.Status = emit.Pick(r, []int{201, 203, 404, 410, 500, 503})
	}
	switch k := r.Intn(100); {
	case k < 12: // no Cache-Control
	case k < 62:
		a.HV.CC = []string{emit.Pick(r, simpleCC)}
	case k < 72:
		a.HV.CC = []string{emit.Pick(r, simpleCC), emit.Pick(r, simpleCC)}
	default:
		a.HV.CC = freshlib.RandCCLines(r, nil)
	}
	a.HV.Exp = freshlib.Expires{Kind: freshlib.ExpAbsent, Form: "absent"}
	if r.Chance(35) {
		a.HV.Exp = freshlib.RandExpires(r, now, 0)
	}
	a.HV = freshlib.WireSafe(a.HV)
	if r.Chance(15) {
		v := int64(emit.Pick(r, []int{0, 3, 100, 100000}))
		a.Age = &v
	}
	a.alignAge()
	return a
}

var gaps = []time.Duration{3 * time.Second, 8 * time.Second, 30 * time.Second, 57 * time.Second, 63 * time.Second, 100 * time.Second,
	10 * time.Minute, 59 * time.Minute, 61 * time.Minute, 2 * time.Hour, 26 * time.Hour, 31 * 24 * time.Hour, 400 * 24 * time.Hour}

// dangers: virtual instants at which some entry of this history may change from fresh to stale
type dangers []time.Time

func (d *dangers) addAnswer(t time.Time, a answer, pol freshlib.Policy, shift time.Duration) {
	*d = append(*d, t, t.Add(pol.Default))
	for _, l := range a.HV.CC {
		for _, m := range numRe.FindAllString(l, -1) {
			if len(m) <= 10 {
				n, _ := strconv.ParseInt(m, 10, 64)
				*d = append(*d, t.Add(time.Duration(n)*time.Second))
			}
		}
	}
	if a.HV.Exp.Kind == freshlib.ExpAt {
		*d = append(*d, a.HV.Exp.At.Add(shift)) // same instant on the virtual clock
	}
}

func (d dangers) near(t time.Time) bool {
	for _, x := range d {
		if diff := t.Sub(x); diff > -2500*time.Millisecond && diff < 2500*time.Millisecond {
			return true
		}
	}
	return false
}

type histStats struct{ requests, advances, switches int }

// playHistory runs one history on path and returns its Gallina term and a readable form.
func playHistory(e *env, r *emit.Rand, path string, nsteps int, meta *emit.Meta) (string, map[string]any, histStats) {
	var st histStats
	pol := e2ePolicy(r)
	profile := 0
	switch r.Intn(12) {
	case 0:
		profile = 1
		pol.Ignore, pol.Force = true, false
	case 1:
		profile = 2
		pol.Ignore, pol.Force = false, false
	}
	meta.Count("history_profile", strconv.Itoa(profile))
	pol0 := pol
	e.setPolicy(pol)
	// every history has its own resource, so its virtual clock can start at the real time again
	// (a shift accumulated over thousands of histories would overflow time.Duration)
	e.shift = 0
	start := e.vnow()
	last := start
	items := []string{}
	readable := []any{}
	var dg dangers
	version := int64(1 + r.Intn(3))
	exps := map[string]bool{}
	for i := 0; i < nsteps; i++ {
		k := r.Intn(100)
		switch {
		case i > 0 && k < 24: // clock advance
			d := emit.Pick(r, gaps)
			for tries := 0; dg.near(e.vnow().Add(d)) && tries < 50; tries++ {
				d += 5 * time.Second
			}
			e.advance(d)
			st.advances++
			readable = append(readable, map[string]any{"advance": d.String()})
			meta.Count("gap", d.Round(time.Second).String())
		case i > 0 && k < 30 && profile == 0: // policy switch
			pol = e2ePolicy(r)
			e.setPolicy(pol)
			st.switches++
			items = append(items, "ISetPolicy "+pol.Coq())
			readable = append(readable, map[string]any{"set_policy": pol.Readable()})
		default:
			if r.Chance(30) {
				version++
			}
			mi := 0
			if r.Chance(12) {
				mi = r.Intn(len(methods))
			}
			a := randAnswerProfile(r, version, time.Now(), profile)
			e.orig.set(path, a)
			now := e.vnow()
			dg.addAnswer(now, a, pol, e.shift)
			o := e.request(methods[mi].s, path)
			// the model clock: exact virtual time between consecutive requests (ageing + real time)
			items = append(items, "IAdvance "+emit.Z(int64(now.Sub(last))))
			last = now
			hv := a.HV
			if hv.Exp.Kind == freshlib.ExpAt { // the same instant on the virtual clock
				hv.Exp.At = hv.Exp.At.Add(e.shift)
			}
			age := "None"
			if a.Age != nil {
				age = "(Some " + emit.Z(*a.Age) + ")"
			}
			oa := fmt.Sprintf("(Build_oanswer %s %s %s %s)", emit.Z(int64(a.Status)), hv.Coq(), emit.Z(a.Version), age)
			items = append(items, fmt.Sprintf("IRequest %s %s %s %s", methods[mi].coq, oa, emit.Bool(a.R304), o.coq()))
			rd := a.HV.Readable()
			rd["request"] = methods[mi].s
			rd["origin_status"] = a.Status
			rd["origin_version"] = a.Version
			rd["origin_304_on_conditional"] = a.R304
			if a.HasDate {
				rd["origin_date_skew"] = a.DateSkew.String()
			}
			rd["origin_chunked"] = a.Chunked
			rd["seen"] = map[string]any{"status": o.status, "version": o.version, "x_cache": o.xcache, "cache_status": o.cs, "age": o.age, "origin_log": o.origin, "error": o.err}
			readable = append(readable, rd)
			st.requests++
			meta.Count("method", methods[mi].s)
			meta.Count("origin_status", strconv.Itoa(a.Status))
			meta.Count("x_cache", o.xcache)
			meta.Count("origin_requests", strconv.Itoa(len(o.origin)))
			exps[a.HV.Exp.Form] = true
		}
	}
	for f := range exps {
		meta.Count("expires_form_in_history", f)
	}
	term := fmt.Sprintf("HC %s %s %s", pol0.Coq(), freshlib.NanosZ(start), emit.List(items))
	return term, map[string]any{"backend": e.backend, "path": path, "policy": pol0.Readable(), "steps": readable}, st
}

// playSleepBatch validates the ageing hook: the same kind of history, but the clock really
// advances (time.Sleep) and VerifAge is not used. The histories of the batch are interleaved
// so that the whole batch costs two sleeps.
func playSleepBatch(e *env, w *emit.Writer, meta *emit.Meta) {
	pol := freshlib.Policy{Default: 4 * time.Second}
	e.setPolicy(pol)
	type variant struct {
		cc   []string
		exp  string // "" | form of an Expires 4 s ahead
		age  int64  // -1 none
		r304 bool
	}
	vars := []variant{
		{[]string{"max-age=4"}, "", -1, true}, {[]string{"max-age=4"}, "", -1, false}, {nil, "imf", -1, true}, {nil, "rfc850", -1, false},
		{nil, "", -1, true}, {[]string{"Max-Age=4, public"}, "", 2, true}, {[]string{"max-age=60"}, "", -1, true}, {[]string{"max-age=4", "no-store"}, "", -1, false},
	}
	type hist struct {
		path  string
		items []string
		rd    []any
		last  time.Time
		start time.Time
	}
	hs := make([]*hist, len(vars))
	for i := range vars {
		hs[i] = &hist{path: fmt.Sprintf("/%s/sleep%d", e.backend, i)}
	}
	round := func(version int64) {
		for i, v := range vars {
			h := hs[i]
			a := answer{Status: 200, Version: version, R304: v.r304}
			a.HV.CC = v.cc
			a.HV.Exp = freshlib.Expires{Kind: freshlib.ExpAbsent, Form: "absent"}
			if v.exp != "" {
				at := time.Now().Add(5 * time.Second).Truncate(time.Second)
				a.HV.Exp = freshlib.Expires{Kind: freshlib.ExpAt, Line: freshlib.DateLine(at, v.exp), At: at, Form: v.exp}
			}
			if v.age >= 0 {
				ag := v.age
				a.Age = &ag
			}
			e.orig.set(h.path, a)
			now := e.vnow()
			if h.start.IsZero() {
				h.start, h.last = now, now
			}
			o := e.request("GET", h.path)
			h.items = append(h.items, "IAdvance "+emit.Z(int64(now.Sub(h.last))))
			h.last = now
			hv := a.HV
			if hv.Exp.Kind == freshlib.ExpAt {
				hv.Exp.At = hv.Exp.At.Add(e.shift)
			}
			age := "None"
			if a.Age != nil {
				age = "(Some " + emit.Z(*a.Age) + ")"
			}
			oa := fmt.Sprintf("(Build_oanswer 200 %s %s %s)", hv.Coq(), emit.Z(a.Version), age)
			h.items = append(h.items, fmt.Sprintf("IRequest GET %s %s %s", oa, emit.Bool(a.R304), o.coq()))
			rd := a.HV.Readable()
			rd["request"] = "GET"
			rd["real_sleep"] = true
			rd["seen"] = map[string]any{"status": o.status, "version": o.version, "x_cache": o.xcache, "cache_status": o.cs, "age": o.age, "origin_log": o.origin}
			h.rd = append(h.rd, rd)
			meta.Count("x_cache_real_sleep", o.xcache)
		}
	}
	round(1)
	time.Sleep(1500 * time.Millisecond)
	round(2)
	time.Sleep(5000 * time.Millisecond)
	round(3)
	round(3)
	for _, h := range hs {
		w.Add(fmt.Sprintf("HC %s %s %s", pol.Coq(), freshlib.NanosZ(h.start), emit.List(h.items)))
		meta.Count("backend", e.backend+"-real-sleep")
		meta.Record(e.backend+h.path, true, map[string]any{"backend": e.backend, "path": h.path, "real_sleep": true, "steps": h.rd})
	}
}

func main() {
	flag.Parse()
	if err := os.MkdirAll(*flagOut, 0755); err != nil {
		panic(err)
	}
	if *flagDbg {
		slog.SetDefault(slog.New(slog.NewTextHandler(os.Stderr, &slog.HandlerOptions{Level: slog.LevelDebug})))
	} else {
		slog.SetDefault(slog.New(slog.NewTextHandler(io.Discard, &slog.HandlerOptions{Level: slog.LevelError + 4})))
	}
	checkFn := "check_hist_c03"
	if *flagProp == "C04" {
		checkFn = "check_hist_c04"
	}
	r := emit.NewRand(*flagSeed)
	meta := emit.NewMeta("fresh/"+*flagProp, *flagSeed, *flagTier)
	w := &emit.Writer{Dir: *flagOut, Prefix: "hist", ShardSize: 100,
		Imports:  "From Reservoir Require Import Base.Prelude Model.Freshness Model.FreshnessSpec Model.FreshHistory Check.Freshness Check.FreshHistory.",
		CaseType: "hist_case", CheckFn: checkFn}
	meta.Rule = "sequential request histories (4-12 steps) for one resource each against the real proxy (memory backend; file backend too in thorough): steps = request (GET 88%, HEAD/POST/PUT/DELETE) with a fresh origin answer (status 200 86%, Cache-Control from common forms or the structured generator, Expires forms, optional Age, version bump 30%, 304-on-conditional 50%) | clock advance from {3s..400d} realised by the VerifAge hook and kept >= 2.5 s away from every candidate expiry instant | cache-policy switch. distinct = every history; non-trivial = history with at least one response served without origin contact or one revalidation"

	backends := []string{"memory"}
	n := 260
	if *flagTier == "thorough" {
		backends = []string{"memory", "file"}
		n = 2500
	}
	if *flagN > 0 {
		n = *flagN
	}
	total := histStats{}
	for _, b := range backends {
		e := newEnv(b)
		for i := 0; i < n; i++ {
			path := fmt.Sprintf("/%s/h%d", b, i)
			nsteps := 4 + r.Intn(9)
			term, rd, st := playHistory(e, r, path, nsteps, meta)
			w.Add(term)
			total.requests += st.requests
			total.advances += st.advances
			total.switches += st.switches
			nontrivial := strings.Contains(term, "[])") // some request the origin did not see
			meta.Count("backend", b)
			meta.Count("steps", strconv.Itoa(nsteps))
			meta.Record(b+path, nontrivial || strings.Contains(term, "HsRevalidated"), rd)
		}
		if *flagTier == "thorough" || *flagSleep {
			playSleepBatch(e, w, meta)
		}
		e.close()
	}
	w.Flush()
	meta.Write(*flagOut, w.Files)
	fmt.Printf("fresh/%s: %d histories (%d requests, %d advances, %d policy switches) in %d files\n", *flagProp, w.Total, total.requests, total.advances, total.switches, len(w.Files))
}
