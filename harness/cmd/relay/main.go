// relay: end-to-end correspondence harness for C08 (relayed traffic is faithful)
// and C10 (tunnel exchanges are isolated and equal plain proxying).
//
// It starts the REAL proxy (proxy.NewProxy behind net/http servers) three times,
// each in front of its own scripted origin, and sends the same generated
// histories of requests (a) by plain HTTP proxying, one connection per request,
// (b) through ONE kept-alive CONNECT tunnel carrying the whole history,
// (c) through one CONNECT tunnel per request.  The origin records every request
// it receives (method, raw request-target, header map, body) and answers with a
// scripted status / header block / body (sized, chunked, empty, large).  The
// clients are raw sockets, so every response is parsed from the bytes on the
// wire (status, header map with per-name value order, framing, body).
//
// Usage: relay -prop C08|C10 -seed N -tier quick|thorough -out DIR
package main

import (
	"bufio"
	"bytes"
	"context"
	"crypto/ecdsa"
	"crypto/elliptic"
	"crypto/rand"
	"crypto/sha256"
	"crypto/tls"
	"crypto/x509"
	"crypto/x509/pkix"
	"flag"
	"fmt"
	"io"
	"log/slog"
	"math/big"
	"net"
	"net/http"
	"net/http/httptest"
	"os"
	"regexp"
	"strconv"
	"strings"
	"sync"
	"time"

	"reservoir/config"
	"reservoir/proxy"
	"verifharness/e2elib"
	"verifharness/emit"
)

var (
	flagProp = flag.String("prop", "C08", "C08|C10")
	flagSeed = flag.Int64("seed", 1, "PRNG seed")
	flagTier = flag.String("tier", "quick", "quick|thorough")
	flagOut  = flag.String("out", ".", "output directory")
)

// ---------------------------------------------------------------- CA

type fixedCA struct{ cert *tls.Certificate }

func newCA() *fixedCA {
	priv, err := ecdsa.GenerateKey(elliptic.P256(), rand.Reader)
	if err != nil {
		panic(err)
	}
	tmpl := x509.Certificate{SerialNumber: big.NewInt(1), Subject: pkix.Name{Organization: []string{"relay-harness"}},
		NotBefore: time.Now().Add(-time.Hour), NotAfter: time.Now().Add(24 * time.Hour),
		KeyUsage: x509.KeyUsageDigitalSignature, ExtKeyUsage: []x509.ExtKeyUsage{x509.ExtKeyUsageServerAuth}, BasicConstraintsValid: true}
	der, err := x509.CreateCertificate(rand.Reader, &tmpl, &tmpl, &priv.PublicKey, priv)
	if err != nil {
		panic(err)
	}
	return &fixedCA{&tls.Certificate{Certificate: [][]byte{der}, PrivateKey: priv}}
}
func (c *fixedCA) GetCertForHost(string) (*tls.Certificate, error) { return c.cert, nil }

// ---------------------------------------------------------------- scripted origin

type resource struct {
	id      string
	status  int
	lines   [][2]string // header lines in wire order (names in arbitrary case); no framing lines
	body    []byte
	chunked bool
	abort   bool
	// derived
	parsed http.Header // header map as net/http parses the scripted response (Content-Length included, Transfer-Encoding not)
	lmIMF  bool
}

func (rs *resource) wire(head bool) []byte {
	var b bytes.Buffer
	fmt.Fprintf(&b, "HTTP/1.1 %d %s\r\n", rs.status, http.StatusText(rs.status))
	for _, l := range rs.lines {
		fmt.Fprintf(&b, "%s: %s\r\n", l[0], l[1])
	}
	bodyless := rs.status == 204 || rs.status == 304 || rs.status < 200
	switch {
	case bodyless:
	case rs.chunked:
		b.WriteString("Transfer-Encoding: chunked\r\n")
	default:
		fmt.Fprintf(&b, "Content-Length: %d\r\n", len(rs.body))
	}
	b.WriteString("\r\n")
	if head || bodyless {
		return b.Bytes()
	}
	if rs.chunked {
		rest := rs.body
		n := 1
		for len(rest) > 0 {
			k := n
			if k > len(rest) {
				k = len(rest)
			}
			fmt.Fprintf(&b, "%x\r\n", k)
			b.Write(rest[:k])
			b.WriteString("\r\n")
			rest = rest[k:]
			n = n*7 + 3
			if n > 16384 {
				n = 16384
			}
		}
		b.WriteString("0\r\n\r\n")
	} else {
		b.Write(rs.body)
	}
	return b.Bytes()
}

type upRec struct {
	method, target string
	hdr            http.Header
	body           []byte
}

type origin struct {
	ln   net.Listener
	mu   sync.Mutex
	res  map[string]*resource
	recs []upRec
}

var idRe = regexp.MustCompile(`^/(r[0-9]+x[0-9]+)`)

func newOrigin() *origin {
	ln, err := net.Listen("tcp", "127.0.0.1:0")
	if err != nil {
		panic(err)
	}
	o := &origin{ln: ln, res: map[string]*resource{}}
	go func() {
		for {
			c, err := ln.Accept()
			if err != nil {
				return
			}
			go o.serve(c)
		}
	}()
	return o
}

func (o *origin) serve(c net.Conn) {
	defer c.Close()
	br := bufio.NewReader(c)
	for {
		c.SetReadDeadline(time.Now().Add(60 * time.Second))
		req, err := http.ReadRequest(br)
		if err != nil {
			return
		}
		body, _ := io.ReadAll(req.Body)
		o.mu.Lock()
		o.recs = append(o.recs, upRec{req.Method, req.RequestURI, req.Header.Clone(), body})
		var rs *resource
		if m := idRe.FindStringSubmatch(req.RequestURI); m != nil {
			rs = o.res[m[1]]
		}
		o.mu.Unlock()
		if rs == nil {
			c.Write([]byte("HTTP/1.1 599 Unscripted\r\nContent-Length: 0\r\n\r\n"))
			continue
		}
		if rs.abort {
			return
		}
		if _, err := c.Write(rs.wire(req.Method == "HEAD")); err != nil {
			return
		}
	}
}

func (o *origin) take() []upRec {
	o.mu.Lock()
	defer o.mu.Unlock()
	r := o.recs
	o.recs = nil
	return r
}

// ---------------------------------------------------------------- environment: origin + proxy

type env struct {
	o     *origin
	ps    *httptest.Server
	p     *proxy.Proxy
	paddr string
	ohost string
}

func newEnv(ctx context.Context, ca *fixedCA) *env {
	cfg := config.NewDefault()
	cfg.Proxy.UpstreamDefaultHttps.Overwrite(false)
	cfg.Proxy.RetryOnRange416.Overwrite(false)
	cfg.Proxy.RetryOnInvalidRange.Overwrite(false)
	cfg.Proxy.CachePolicy.IgnoreCacheControl.Overwrite(false)
	cfg.Proxy.CachePolicy.ForceDefaultMaxAge.Overwrite(false)
	cfg.Cache.Type.Overwrite(config.CacheTypeMemory)
	cfg.Cache.LockShards.Overwrite(32)
	p, err := proxy.NewProxy(cfg, ca, ctx)
	if err != nil {
		panic(err)
	}
	ps := httptest.NewServer(p)
	o := newOrigin()
	return &env{o: o, ps: ps, p: p, paddr: strings.TrimPrefix(ps.URL, "http://"), ohost: o.ln.Addr().String()}
}

// ---------------------------------------------------------------- client side

type reqSpec struct {
	res     *resource
	method  string
	rawpath string
	query   string
	lines   [][2]string // header lines in wire order, no Host / framing
	body    []byte
	hasBody bool
	chunked bool
	// derived
	parsed http.Header
}

func (q *reqSpec) bytes(ohost string, absolute bool) []byte {
	var b bytes.Buffer
	t := q.rawpath
	if q.query != "" {
		t += "?" + q.query
	}
	if absolute {
		t = "http://" + ohost + t
	}
	fmt.Fprintf(&b, "%s %s HTTP/1.1\r\nHost: %s\r\n", q.method, t, ohost)
	for _, l := range q.lines {
		fmt.Fprintf(&b, "%s: %s\r\n", l[0], l[1])
	}
	if q.hasBody {
		if q.chunked {
			b.WriteString("Transfer-Encoding: chunked\r\n\r\n")
			rest := q.body
			for len(rest) > 0 {
				k := 1 + len(rest)/2
				fmt.Fprintf(&b, "%x\r\n", k)
				b.Write(rest[:k])
				b.WriteString("\r\n")
				rest = rest[k:]
			}
			b.WriteString("0\r\n\r\n")
		} else {
			fmt.Fprintf(&b, "Content-Length: %d\r\n\r\n", len(q.body))
			b.Write(q.body)
		}
	} else {
		b.WriteString("\r\n")
	}
	return b.Bytes()
}

type obs struct {
	ok      bool
	status  int
	hdr     http.Header
	framing string // "FLen n" | FChunked | FClose | FBare
	body    []byte
	err     string
}

func readObs(c net.Conn, br *bufio.Reader, method string) obs {
	c.SetReadDeadline(time.Now().Add(15 * time.Second))
	resp, err := http.ReadResponse(br, &http.Request{Method: method})
	if err != nil {
		return obs{err: err.Error()}
	}
	bodyless := method == "HEAD" || resp.StatusCode == 204 || resp.StatusCode == 304 || resp.StatusCode < 200
	fr := "FClose"
	switch {
	case len(resp.TransferEncoding) > 0 && resp.TransferEncoding[0] == "chunked":
		fr = "FChunked"
	case resp.Header.Get("Content-Length") != "":
		n, e := strconv.ParseInt(resp.Header.Get("Content-Length"), 10, 64)
		if e != nil {
			return obs{err: "bad Content-Length on the wire"}
		}
		fr = "(FLen " + emit.Z(n) + ")"
	case bodyless:
		fr = "FBare"
	}
	if fr == "FClose" {
		// would block on a kept-alive connection; bounded wait
		c.SetReadDeadline(time.Now().Add(2 * time.Second))
	}
	body, err := io.ReadAll(resp.Body)
	if err != nil && fr != "FClose" {
		return obs{err: "body: " + err.Error()}
	}
	return obs{ok: true, status: resp.StatusCode, hdr: resp.Header.Clone(), framing: fr, body: body}
}

func dialTunnel(e *env) (net.Conn, *bufio.Reader, error) {
	c, err := net.Dial("tcp", e.paddr)
	if err != nil {
		return nil, nil, err
	}
	fmt.Fprintf(c, "CONNECT %s HTTP/1.1\r\nHost: %s\r\n\r\n", e.ohost, e.ohost)
	br := bufio.NewReader(c)
	c.SetReadDeadline(time.Now().Add(10 * time.Second))
	resp, err := http.ReadResponse(br, &http.Request{Method: "CONNECT"})
	if err != nil || resp.StatusCode != 200 {
		c.Close()
		return nil, nil, fmt.Errorf("CONNECT failed: %v", err)
	}
	c.SetReadDeadline(time.Time{})
	tc := tls.Client(c, &tls.Config{InsecureSkipVerify: true})
	if err := tc.Handshake(); err != nil {
		c.Close()
		return nil, nil, err
	}
	return tc, bufio.NewReader(tc), nil
}

type exchangeObs struct {
	o   obs
	ups []upRec
}

// runHistory sends the history over one transport: 0 plain, 1 one tunnel, 2 tunnel per request.
func runHistory(e *env, transport int, hist []*reqSpec) []exchangeObs {
	out := make([]exchangeObs, len(hist))
	var tc net.Conn
	var tbr *bufio.Reader
	defer func() {
		if tc != nil {
			tc.Close()
		}
	}()
	for i, q := range hist {
		e.o.take()
		var ob obs
		switch transport {
		case 0:
			c, err := net.Dial("tcp", e.paddr)
			if err != nil {
				ob = obs{err: err.Error()}
				break
			}
			c.Write(q.bytes(e.ohost, true))
			ob = readObs(c, bufio.NewReader(c), q.method)
			c.Close()
		default:
			if tc == nil || transport == 2 {
				if tc != nil {
					tc.Close()
					tc = nil
				}
				var err error
				tc, tbr, err = dialTunnel(e)
				if err != nil {
					ob = obs{err: err.Error()}
					tc = nil
					break
				}
			}
			tc.Write(q.bytes(e.ohost, false))
			ob = readObs(tc, tbr, q.method)
			if !ob.ok || ob.framing == "FClose" {
				tc.Close()
				tc = nil
			}
		}
		// the proxy may still be finishing its upstream bookkeeping; the records are complete once the response is read,
		// except for a connection the proxy is about to close: give the origin a moment to log what it already got
		time.Sleep(2 * time.Millisecond)
		out[i] = exchangeObs{o: ob, ups: e.o.take()}
	}
	return out
}

// ---------------------------------------------------------------- generators

var thorough bool

const imfDate = "Sun, 06 Nov 1994 08:49:37 GMT"
const rfc850Date = "Sunday, 06-Nov-94 08:49:37 GMT"

func randCase(r *emit.Rand, s string) string {
	b := []byte(s)
	for i := range b {
		switch r.Intn(3) {
		case 0:
			b[i] = bytes.ToLower(b[i : i+1])[0]
		case 1:
			b[i] = bytes.ToUpper(b[i : i+1])[0]
		}
	}
	return string(b)
}

func randValue(r *emit.Rand) string {
	const al = "abcdefXYZ0123456789 ,;=\"/-_.:*()<>@[]{}?!'"
	n := 1 + r.Intn(18)
	b := make([]byte, n)
	for i := range b {
		if r.Chance(3) {
			b[i] = byte(0x80 + r.Intn(0x80))
		} else {
			b[i] = al[r.Intn(len(al))]
		}
	}
	s := strings.Trim(string(b), " ")
	if s == "" {
		s = "v"
	}
	return s
}

func genBody(r *emit.Rand, allowHuge bool) []byte {
	var n int
	switch x := r.Intn(100); {
	case x < 12:
		n = 0
	case x < 20:
		n = 1
	case x < 70:
		n = 2 + r.Intn(60)
	case x < 85:
		n = 300 + r.Intn(3000)
	case x < 97:
		n = 60000 + r.Intn(20000)
	default:
		n = 1 << 20
		if !allowHuge {
			n = 4097
		}
	}
	b := make([]byte, n)
	seed := r.U64()
	for i := range b {
		seed = seed*6364136223846793005 + 1442695040888963407
		b[i] = byte(seed >> 56)
	}
	return b
}

var hugeBudget int

func genResource(r *emit.Rand, id string) *resource {
	rs := &resource{id: id, status: 200}
	if r.Chance(30) {
		rs.status = emit.Pick(r, []int{201, 202, 203, 204, 400, 401, 403, 404, 410, 418, 500, 503})
	}
	if r.Chance(4) {
		rs.abort = true
	}
	add := func(k, v string) { rs.lines = append(rs.lines, [2]string{randCase(r, k), v}) }
	if r.Chance(55) {
		add("Cache-Control", "max-age=3600")
	} else {
		add("Cache-Control", "no-store")
	}
	if r.Chance(70) {
		add("Content-Type", emit.Pick(r, []string{"text/plain", "application/octet-stream", "text/html; charset=utf-8", "application/json"}))
	}
	for i := r.Intn(4); i > 0; i-- {
		add("Set-Cookie", emit.Pick(r, []string{"a=1; Path=/", "b=2; HttpOnly", "c=x,y; Expires=Wed, 21 Oct 2026 07:28:00 GMT", "d=" + randValue(r)}))
	}
	for i := r.Intn(3); i > 0; i-- {
		add("Link", emit.Pick(r, []string{"</a>; rel=\"next\"", "</b>; rel=prev, </c>; rel=last", "<https://x/y?z=1>; rel=\"canonical\""}))
	}
	for i := r.Intn(3); i > 0; i-- {
		add("Vary", emit.Pick(r, []string{"Accept-Encoding", "Accept-Language, Cookie", "*", "accept"}))
	}
	for i := r.Intn(4); i > 0; i-- {
		name := "X-Custom-" + strconv.Itoa(r.Intn(3))
		for j := 1 + r.Intn(3); j > 0; j-- {
			add(name, randValue(r))
		}
	}
	if rs.status == 401 {
		add("WWW-Authenticate", "Basic realm=\"a\"")
		add("WWW-Authenticate", "Bearer")
	}
	if r.Chance(50) {
		add("ETag", emit.Pick(r, []string{"\"v1\"", "W/\"weak-7\"", "\"" + randValue(r) + "\""}))
	}
	rs.lmIMF = true
	if r.Chance(50) {
		if r.Chance(15) {
			add("Last-Modified", rfc850Date)
			rs.lmIMF = false
		} else {
			add("Last-Modified", imfDate)
		}
	}
	if r.Chance(25) {
		add("Date", "Tue, 15 Nov 1994 08:12:31 GMT")
	}
	if r.Chance(10) {
		add("Age", "7")
	}
	if r.Chance(12) {
		add("Via", "1.1 upstream-a")
		if r.Bool() {
			add("Via", "1.0 upstream-b (x)")
		}
	}
	if r.Chance(6) {
		add("X-Cache", "ORIGIN")
	}
	if r.Chance(6) {
		add("Cache-Status", "OriginCache; hit")
	}
	if r.Chance(10) {
		add("Accept-Ranges", "none")
	}
	if r.Chance(45) {
		// hop-by-hop material, every value a marker that the proxy never produces itself
		toks := []string{}
		for i := 1 + r.Intn(2); i > 0; i-- {
			n := "X-Hop-" + emit.Pick(r, []string{"A", "B", "C"})
			toks = append(toks, emit.Pick(r, []string{"", " ", "\t"})+randCase(r, n)+emit.Pick(r, []string{"", " "}))
			if r.Chance(80) {
				add(n, "hop-secret-"+strconv.Itoa(r.Intn(100)))
			}
		}
		if r.Chance(30) {
			toks = append(toks, emit.Pick(r, []string{"close", "keep-alive", ""}))
		}
		add("Connection", strings.Join(toks, ","))
		if r.Chance(50) {
			add("Keep-Alive", "timeout=5, max=77")
		}
		if r.Chance(40) {
			add("Proxy-Authenticate", "Basic realm=\"origin-marker\"")
		}
		if r.Chance(30) {
			add("Upgrade", "h2c-marker")
		}
		if r.Chance(30) {
			add("Proxy-Connection", "keep-alive-marker")
		}
	}
	// shuffle lines (per-name order is whatever results; the expectation is parsed from the same bytes)
	for i := len(rs.lines) - 1; i > 0; i-- {
		j := r.Intn(i + 1)
		rs.lines[i], rs.lines[j] = rs.lines[j], rs.lines[i]
	}
	if rs.status != 204 {
		allowHuge := hugeBudget > 0
		rs.body = genBody(r, allowHuge)
		if len(rs.body) >= 1<<20 {
			hugeBudget--
		}
		rs.chunked = r.Chance(40)
	}
	resp, err := http.ReadResponse(bufio.NewReader(bytes.NewReader(rs.wire(true))), &http.Request{Method: "HEAD"})
	if err != nil {
		panic("scripted response does not parse: " + err.Error())
	}
	rs.parsed = resp.Header.Clone()
	return rs
}

var pchars = "abcdefgXYZ0189-_~!$&'()*+,;=:@"

func genSuffix(r *emit.Rand) string {
	var sb strings.Builder
	for s := r.Intn(3); s > 0; s-- {
		sb.WriteByte('/')
		sb.WriteByte("abcxyz"[r.Intn(6)]) // a letter first: never a dot segment
		for k := r.Intn(6); k > 0; k-- {
			switch x := r.Intn(100); {
			case x < 60:
				sb.WriteByte(pchars[r.Intn(len(pchars))])
			case x < 70:
				sb.WriteByte('.')
			case x < 82:
				sb.WriteString(emit.Pick(r, []string{"%2F", "%2f", "%20", "%25", "%41", "%C3%A9", "%3F", "%23", "%7C", "%00", "%ff"}))
			default:
				fmt.Fprintf(&sb, "%%%c%c", "013456789ABCDEFabcdef"[r.Intn(21)], "0123456789ABCDFabcdf"[r.Intn(20)]) // never %2E / %2e
			}
		}
	}
	if r.Chance(10) {
		sb.WriteByte('/')
	}
	return sb.String()
}

type variant struct{ suffix, query string }

func genRequest(r *emit.Rand, rs *resource, variants []variant) *reqSpec {
	q := &reqSpec{res: rs}
	switch x := r.Intn(100); {
	case x < 58:
		q.method = "GET"
	case x < 68:
		q.method = "HEAD"
	case x < 80:
		q.method = "POST"
	case x < 86:
		q.method = "PUT"
	case x < 91:
		q.method = "DELETE"
	case x < 96:
		q.method = "PATCH"
	default:
		q.method = "OPTIONS"
	}
	v := emit.Pick(r, variants)
	q.rawpath = "/" + rs.id + v.suffix
	q.query = v.query
	add := func(k, v string) { q.lines = append(q.lines, [2]string{randCase(r, k), v}) }
	if r.Chance(85) {
		add("User-Agent", "relay-harness/1.0 (x; y)")
	}
	if r.Chance(85) {
		add("Accept-Encoding", emit.Pick(r, []string{"identity", "gzip, br", "identity;q=1, *;q=0"}))
	}
	for i := r.Intn(3); i > 0; i-- {
		add("Accept", emit.Pick(r, []string{"text/html", "application/json;q=0.9, */*;q=0.1", "*/*"}))
	}
	for i := r.Intn(3); i > 0; i-- {
		add("Cookie", emit.Pick(r, []string{"sid=abc", "a=1; b=2", "t=" + randValue(r)}))
	}
	for i := r.Intn(3); i > 0; i-- {
		name := "X-Req-" + strconv.Itoa(r.Intn(3))
		for j := 1 + r.Intn(3); j > 0; j-- {
			add(name, randValue(r))
		}
	}
	if r.Chance(20) {
		add("Authorization", "Bearer tok-"+strconv.Itoa(r.Intn(1000)))
	}
	if r.Chance(45) {
		toks := []string{}
		for i := 1 + r.Intn(2); i > 0; i-- {
			n := "X-Bar-" + emit.Pick(r, []string{"A", "B", "C"})
			toks = append(toks, emit.Pick(r, []string{"", " ", "\t"})+randCase(r, n)+emit.Pick(r, []string{"", " "}))
			if r.Chance(80) {
				add(n, "req-secret-"+strconv.Itoa(r.Intn(100)))
			}
		}
		if r.Chance(30) {
			toks = append(toks, emit.Pick(r, []string{"keep-alive", "TE", ""}))
		}
		add("Connection", strings.Join(toks, ","))
		if r.Chance(40) {
			add("Proxy-Authorization", "Basic cmVxLW1hcmtlcg==")
		}
		if r.Chance(30) {
			add("Proxy-Connection", "keep-alive-req-marker")
		}
		if r.Chance(30) {
			add("Keep-Alive", "timeout=9, max=123")
		}
		if r.Chance(30) {
			add("TE", "trailers, deflate;q=0.5")
		}
		if r.Chance(20) {
			add("Upgrade", "websocket-req-marker")
		}
	}
	if r.Chance(5) {
		add("If-None-Match", "\"client-tag\"")
	}
	if q.method == "GET" && len(rs.body) > 0 && len(rs.body) <= 200 && r.Chance(30) {
		n := len(rs.body)
		switch r.Intn(5) {
		case 0:
			add("Range", fmt.Sprintf("bytes=%d-%d", n+5, n+9)) // unsatisfiable
		case 1:
			add("Range", fmt.Sprintf("bytes=-%d", 1+r.Intn(n)))
		case 2:
			add("Range", fmt.Sprintf("bytes=%d-", r.Intn(n)))
		default:
			a := r.Intn(n)
			add("Range", fmt.Sprintf("bytes=%d-%d", a, a+r.Intn(n-a)))
		}
	}
	for i := len(q.lines) - 1; i > 0; i-- {
		j := r.Intn(i + 1)
		q.lines[i], q.lines[j] = q.lines[j], q.lines[i]
	}
	switch q.method {
	case "POST", "PUT", "PATCH":
		q.hasBody = true
	case "DELETE", "OPTIONS":
		q.hasBody = r.Chance(30)
	}
	if q.hasBody {
		q.body = genBody(r, false)
		q.chunked = r.Chance(35) && len(q.body) > 0
	}
	pr, err := http.ReadRequest(bufio.NewReader(bytes.NewReader(q.bytes("origin.test", false))))
	if err != nil {
		panic("generated request does not parse: " + err.Error())
	}
	q.parsed = pr.Header.Clone()
	return q
}

// ---------------------------------------------------------------- Gallina emission

func abbr(b []byte) string {
	if len(b) <= 200 {
		return emit.Bytes(b)
	}
	h := sha256.Sum256(b)
	s := append([]byte{1, 'B'}, []byte(strconv.Itoa(len(b)))...)
	s = append(s, ':')
	s = append(s, h[:8]...)
	return emit.Bytes(s)
}

func mclass(m string) string {
	switch m {
	case "HEAD":
		return "MHead"
	case "POST", "PUT", "PATCH":
		return "MPost"
	}
	return "MPlain"
}

func lastVal(h http.Header, k string) string {
	v := h.Values(k)
	if len(v) == 0 {
		return ""
	}
	return v[len(v)-1]
}

var crRe = regexp.MustCompile(`^bytes (\d+)-(\d+)/(\d+)$`)

// descriptor: which branch of processRequest produced this response, read off the response itself
// (status, X-Cache, Cache-Status) -- cache decisions are not what C08/C10 are about -- plus the
// clock-dependent strings (Cache-Status, Age, formatted Last-Modified) copied from the response.
func descriptor(q *reqSpec, ob obs) (string, string) {
	rs := q.res
	origin := emit.Hdrs(rs.parsed)
	kind := ""
	name := ""
	h := ob.hdr
	if h == nil {
		h = http.Header{}
	}
	etag := rs.parsed.Get("Etag")
	hasRange := q.parsed.Get("Range") != ""
	switch {
	case rs.abort:
		kind, name = "KBadGateway", "badgateway"
	case ob.ok && ob.status == 206 && hasRange && rs.status != 206:
		section := ob.body
		if m := crRe.FindStringSubmatch(h.Get("Content-Range")); m != nil {
			a, _ := strconv.Atoi(m[1])
			b, _ := strconv.Atoi(m[2])
			if a <= b && b < len(rs.body) {
				section = rs.body[a : b+1]
			}
		}
		kind = fmt.Sprintf("(KPartial %s %s %s %s %s %s)", origin, emit.Str(etag), emit.Str(h.Get("Last-Modified")),
			emit.Str(h.Get("Content-Range")), emit.Str(h.Get("Content-Length")), abbr(section))
		name = "partial"
	case ob.ok && ob.status == 416 && hasRange && rs.status != 416:
		kind, name = fmt.Sprintf("(KRefuse %s)", emit.Str(h.Get("Content-Range"))), "refuse416"
	case ob.ok && (lastVal(h, "X-Cache") == "HIT" || lastVal(h, "X-Cache") == "REVALIDATED"):
		hs := "HHit"
		if lastVal(h, "X-Cache") == "REVALIDATED" {
			hs = "HRevalidated"
		}
		kind = fmt.Sprintf("(KStored %s %s %s %s %s %s)", hs, origin, emit.Str(etag), emit.Str(h.Get("Last-Modified")),
			emit.Str(lastVal(h, "Cache-Status")), emit.Str(h.Get("Age")))
		name = "stored-hit"
	case ob.ok && lastVal(h, "X-Cache") == "MISS" && strings.Contains(lastVal(h, "Cache-Status"), "; stored"):
		kind = fmt.Sprintf("(KStored HMiss %s %s %s %s %s)", origin, emit.Str(etag), emit.Str(h.Get("Last-Modified")),
			emit.Str(lastVal(h, "Cache-Status")), emit.Str(""))
		name = "stored-miss"
	default:
		kind = fmt.Sprintf("(KDirect %d %s %s)", rs.status, origin, emit.Str(lastVal(h, "Cache-Status")))
		name = "direct"
	}
	x := fmt.Sprintf("{| x_meth := %s; x_proto := %s; x_kind := %s; x_body := %s |}", mclass(q.method), emit.Str("HTTP/1.1"), kind, abbr(rs.body))
	return x, name
}

func obsTerm(ob obs) string {
	if !ob.ok {
		return "ONone"
	}
	return fmt.Sprintf("(OResp %d %s %s %s)", ob.status, emit.Hdrs(ob.hdr), ob.framing, abbr(ob.body))
}

func creqTerm(q *reqSpec) string {
	return fmt.Sprintf("{| c_method := %s; c_rawpath := %s; c_query := %s; c_hdrs := %s; c_body := %s |}",
		emit.Str(q.method), emit.Str(q.rawpath), emit.Str(q.query), emit.Hdrs(q.parsed), abbr(q.body))
}

func upsTerm(ups []upRec) string {
	items := make([]string, 0, len(ups))
	for _, u := range ups {
		items = append(items, fmt.Sprintf("{| q_method := %s; q_target := %s; q_hdrs := %s; q_body := %s |}",
			emit.Str(u.method), emit.Str(u.target), emit.Hdrs(u.hdr), abbr(u.body)))
	}
	return emit.List(items)
}

func readableExchange(q *reqSpec, transport int, ob obs, ups []upRec, kind string) map[string]any {
	m := map[string]any{
		"transport": []string{"plain", "one-tunnel", "tunnel-per-request"}[transport],
		"method":    q.method, "path": emit.Printable(q.rawpath), "query": emit.Printable(q.query),
		"request_headers": emit.HdrsReadable(q.parsed), "request_body_len": len(q.body),
		"origin_status": q.res.status, "origin_headers": emit.HdrsReadable(q.res.parsed),
		"origin_body_len": len(q.res.body), "origin_chunked": q.res.chunked, "origin_abort": q.res.abort,
		"branch": kind,
	}
	if ob.ok {
		m["response"] = map[string]any{"status": ob.status, "headers": emit.HdrsReadable(ob.hdr), "framing": ob.framing, "body_len": len(ob.body)}
	} else {
		m["response"] = "none: " + ob.err
	}
	var us []any
	for _, u := range ups {
		us = append(us, map[string]any{"method": u.method, "target": emit.Printable(u.target), "headers": emit.HdrsReadable(u.hdr), "body_len": len(u.body)})
	}
	m["origin_saw"] = us
	return m
}

// ---------------------------------------------------------------- main

func main() {
	flag.Parse()
	thorough = *flagTier == "thorough"
	slog.SetDefault(slog.New(e2elib.DebugDiscard{})) // every level enabled, nothing written
	if err := os.MkdirAll(*flagOut, 0755); err != nil {
		panic(err)
	}
	r := emit.NewRand(*flagSeed)
	ctx, cancel := context.WithCancel(context.Background())
	defer cancel()
	ca := newCA()
	envs := []*env{newEnv(ctx, ca), newEnv(ctx, ca), newEnv(ctx, ca)}

	meta := emit.NewMeta("relay/"+*flagProp, *flagSeed, *flagTier)
	var w *emit.Writer
	if *flagProp == "C08" {
		w = &emit.Writer{Dir: *flagOut, Prefix: "e2e", ShardSize: 60,
			Imports:  "From Reservoir Require Import Base.Prelude Model.Relay Model.Tunnel Check.Relay.",
			CaseType: "rcase", CheckFn: "check_e2e"}
		meta.Rule = "one case per (exchange, transport): histories of 3-8 requests over 2-4 scripted resources sent by plain proxying, over one kept-alive CONNECT tunnel and over one tunnel per request against three identically configured real proxies; methods GET/HEAD/POST/PUT/DELETE/PATCH/OPTIONS, raw paths with pct-encoded octets (%2F...), queries, multi-valued and arbitrarily cased request fields, hop-by-hop and Connection-nominated request fields, sized/chunked request bodies; origin statuses 200/201/202/203/204/4xx/5xx/abort, multi-valued Set-Cookie/Link/Vary/X-Custom, hop-by-hop and nominated response fields, ETag/Last-Modified/Date/Age/Via, bodies empty/1/small/KB/64KB/1MiB sized or chunked. distinct by printed case; non-trivial = origin answered (no abort) and the response or the request carries a multi-valued field, a hop-by-hop field or a pct-encoded path"
	} else {
		w = &emit.Writer{Dir: *flagOut, Prefix: "hist", ShardSize: 8,
			Imports:  "From Reservoir Require Import Base.Prelude Model.Relay Model.Tunnel Check.Relay Check.Tunnel.",
			CaseType: "tcase", CheckFn: "check_tunnel"}
		meta.Rule = "one case per history (3-8 requests over 2-4 scripted resources: hits and misses, Range 206/416 from the store, HEAD, non-GET methods, 204/4xx/5xx, origin aborts, sized and chunked bodies up to 1 MiB) sent over one kept-alive CONNECT tunnel, over one tunnel per request and by plain proxying against three identically configured real proxies. distinct by printed case; non-trivial = at least two exchanges on the shared tunnel with different branch or different response header sets"
	}

	nHist := 36
	hugeBudget = 1
	if thorough {
		nHist = 400
		hugeBudget = 6
	}
	for hi := 0; hi < nHist; hi++ {
		nres := 2 + r.Intn(3)
		var ress []*resource
		var vars [][]variant
		for k := 0; k < nres; k++ {
			rs := genResource(r, fmt.Sprintf("r%dx%d", hi, k))
			ress = append(ress, rs)
			for _, e := range envs {
				e.o.mu.Lock()
				e.o.res[rs.id] = rs
				e.o.mu.Unlock()
			}
			vs := []variant{{"", ""}}
			for j := r.Intn(2); j >= 0; j-- {
				q := ""
				if r.Chance(50) {
					q = emit.Pick(r, []string{"x=1", "a=b&c=d", "q=%2F%20", "k", "a=b?c", "%C3%A9=1&z"})
				}
				vs = append(vs, variant{genSuffix(r), q})
			}
			vars = append(vars, vs)
		}
		n := 3 + r.Intn(6)
		var hist []*reqSpec
		for i := 0; i < n; i++ {
			k := r.Intn(nres)
			hist = append(hist, genRequest(r, ress[k], vars[k]))
		}
		var results [3][]exchangeObs
		var wg sync.WaitGroup
		for t := 0; t < 3; t++ {
			wg.Add(1)
			go func(t int) {
				defer wg.Done()
				results[t] = runHistory(envs[t], t, hist)
			}(t)
		}
		wg.Wait()

		if *flagProp == "C08" {
			for t := 0; t < 3; t++ {
				for i, q := range hist {
					eo := results[t][i]
					x, kname := descriptor(q, eo.o)
					c := fmt.Sprintf("RC %d %s %d %s %s %s %s %s %s %s", t, creqTerm(q), q.res.status, emit.Hdrs(q.res.parsed), abbr(q.res.body),
						emit.Bool(q.res.abort), emit.Bool(q.res.lmIMF), x, upsTerm(eo.ups), obsTerm(eo.o))
					w.Add(c)
					multi := false
					for _, v := range q.res.parsed {
						if len(v) > 1 {
							multi = true
						}
					}
					for _, v := range q.parsed {
						if len(v) > 1 {
							multi = true
						}
					}
					nontrivial := !q.res.abort && (multi || q.res.parsed.Get("Connection") != "" || q.parsed.Get("Connection") != "" || strings.Contains(q.rawpath, "%"))
					meta.Count("transport", []string{"plain", "one-tunnel", "tunnel-per-request"}[t])
					meta.Count("method", q.method)
					meta.Count("branch", kname)
					meta.Count("origin_status", strconv.Itoa(q.res.status))
					meta.Count("origin_body", sizeBin(len(q.res.body))+map[bool]string{true: " chunked", false: " sized"}[q.res.chunked])
					if q.hasBody {
						meta.Count("request_body", sizeBin(len(q.body))+map[bool]string{true: " chunked", false: " sized"}[q.chunked])
					}
					meta.Record(c, nontrivial, readableExchange(q, t, eo.o, eo.ups, kname))
				}
			}
		} else {
			var lists [3]string
			kinds := map[string]bool{}
			for t := 0; t < 3; t++ {
				items := []string{}
				for i, q := range hist {
					x, kname := descriptor(q, results[t][i].o)
					if t == 1 {
						kinds[kname+"/"+q.res.id] = true
						meta.Count("branch", kname)
						meta.Count("method", q.method)
					}
					items = append(items, "("+x+", "+obsTerm(results[t][i].o)+")")
				}
				lists[t] = emit.List(items)
			}
			c := fmt.Sprintf("TC %s %s %s", lists[0], lists[1], lists[2])
			w.Add(c)
			meta.Count("history_len", strconv.Itoa(len(hist)))
			var rd []any
			for i, q := range hist {
				_, kname := descriptor(q, results[1][i].o)
				m := readableExchange(q, 1, results[1][i].o, nil, kname)
				delete(m, "origin_saw")
				m["response_tunnel_per_request"] = readableObs(results[2][i].o)
				m["response_plain"] = readableObs(results[0][i].o)
				rd = append(rd, m)
			}
			meta.Record(c, len(kinds) >= 2, map[string]any{"history": rd})
		}
	}
	w.Flush()
	meta.Write(*flagOut, w.Files)
	for _, e := range envs {
		e.ps.Close()
		e.o.ln.Close()
	}
	cancel()
	fmt.Printf("relay/%s: %d cases in %d files\n", *flagProp, w.Total, len(w.Files))
}

func readableObs(ob obs) any {
	if !ob.ok {
		return "none: " + ob.err
	}
	return map[string]any{"status": ob.status, "headers": emit.HdrsReadable(ob.hdr), "framing": ob.framing, "body_len": len(ob.body)}
}

func sizeBin(n int) string {
	switch {
	case n == 0:
		return "0"
	case n == 1:
		return "1"
	case n <= 200:
		return "2-200"
	case n <= 4096:
		return "201-4096"
	case n < 1<<20:
		return "4KB-1MiB"
	default:
		return "1MiB"
	}
}
