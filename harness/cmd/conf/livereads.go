package main

import (
	"context"
	"fmt"
	"io"
	"net/http"
	"net/http/httptest"
	"net/url"
	"sync"

	"reservoir/config"
	"reservoir/proxy"
	"verifharness/emit"
)

// liveReads drives a real proxy: the switch proxy.retry_on_range_416 is changed through the
// update API between requests; after every change one ranged request to a fresh URL whose origin
// answers 416 to ranged and 200 (uncacheable) to plain requests.
func liveReads(r *emit.Rand) (string, map[string]any) {
	var mu sync.Mutex
	with := map[string]int{}
	without := map[string]int{}
	origin := httptest.NewServer(http.HandlerFunc(func(w http.ResponseWriter, req *http.Request) {
		mu.Lock()
		if req.Header.Get("Range") != "" {
			with[req.URL.Path]++
		} else {
			without[req.URL.Path]++
		}
		mu.Unlock()
		w.Header().Set("Cache-Control", "no-store")
		if req.Header.Get("Range") != "" {
			w.Header().Set("Content-Range", "bytes */10")
			w.WriteHeader(http.StatusRequestedRangeNotSatisfiable)
			return
		}
		w.WriteHeader(http.StatusOK)
		io.WriteString(w, "0123456789")
	}))
	defer origin.Close()

	cfg := config.NewDefault()
	cfg.Proxy.UpstreamDefaultHttps.Overwrite(false)
	cfg.Cache.LockShards.Overwrite(8)
	ctx, cancel := context.WithCancel(context.Background())
	defer cancel()
	p, err := proxy.NewProxy(cfg, nil, ctx)
	if err != nil {
		panic(err)
	}
	defer p.Destroy()
	ps := httptest.NewServer(p)
	defer ps.Close()
	pu, _ := url.Parse(ps.URL)
	tr := &http.Transport{Proxy: http.ProxyURL(pu)}
	defer tr.CloseIdleConnections()
	client := &http.Client{Transport: tr}

	n := 3 + r.Intn(6)
	var steps []string
	var desc []map[string]any
	for i := 0; i < n; i++ {
		setting := r.Bool()
		status, uerr := config.UpdatePartialFromConfig(cfg, nested("proxy.retry_on_range_416", setting))
		if uerr != nil || status == config.UpdateStatusFailed {
			panic(fmt.Sprintf("conf: valid update rejected: %v", uerr))
		}
		path := fmt.Sprintf("/lr/%d/%d", r.Intn(1<<30), i)
		req, _ := http.NewRequest("GET", origin.URL+path, nil)
		req.Header.Set("Range", "bytes=20-29")
		code := 0
		if resp, rerr := client.Do(req); rerr == nil {
			io.Copy(io.Discard, resp.Body)
			resp.Body.Close()
			code = resp.StatusCode
		}
		mu.Lock()
		w, wo := with[path], without[path]
		mu.Unlock()
		steps = append(steps, fmt.Sprintf("LS %s %d %d", emit.Bool(setting), w, wo))
		desc = append(desc, map[string]any{"retry_on_range_416": setting, "origin_ranged": w, "origin_plain": wo, "client_status": code})
	}
	return "LR " + emit.List(steps), map[string]any{"case": "LR", "switch": "proxy.retry_on_range_416", "steps": desc}
}
