// conf: correspondence harness for the config package and utils/event.
// Usage: conf -prop C17|C19 -seed N -tier quick|thorough -out DIR
// Runs in a scratch cwd (package config creates var/ there at init).
package main

import (
	"flag"
	"fmt"
	"io"
	"log/slog"
	"os"
)

var (
	flagProp = flag.String("prop", "", "property id")
	flagSeed = flag.Int64("seed", 1, "PRNG seed")
	flagTier = flag.String("tier", "quick", "quick|thorough")
	flagOut  = flag.String("out", ".", "output directory for case files and meta.json")
)

var props = map[string]func(){}

func main() {
	flag.Parse()
	f, ok := props[*flagProp]
	if !ok {
		fmt.Fprintf(os.Stderr, "conf: unknown property %q\n", *flagProp)
		os.Exit(2)
	}
	if err := os.MkdirAll(*flagOut, 0755); err != nil {
		panic(err)
	}
	slog.SetDefault(slog.New(slog.NewTextHandler(io.Discard, nil)))
	f()
}

func thorough() bool { return *flagTier == "thorough" }
