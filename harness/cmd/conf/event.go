package main

import (
	"context"
	"fmt"
	"math"
	"runtime"
	"sort"
	"strconv"
	"sync"
	"time"

	"reservoir/cache"
	"reservoir/config"
	"reservoir/utils/bytesize"
	"reservoir/utils/duration"
	"reservoir/utils/event"
	"verifharness/emit"
)

func init() { props["C19"] = runC19 }

// ---------- one event with instrumented listeners ----------

type listener struct {
	id      int
	log     []int64
	blocked bool
	gate    chan struct{}
	unsub   event.Unsubscribe
	h       any // subscription handle (verif hook)
}

type rig struct {
	mu    sync.Mutex
	ev    *event.Event[int64]
	ls    []*listener
	gated bool
	seed  uint64
}

func mix(a, b, c uint64) uint64 {
	z := a*0x9E3779B97F4A7C15 ^ b*0xBF58476D1CE4E5B9 ^ c*0x94D049BB133111EB
	z = (z ^ (z >> 30)) * 0xBF58476D1CE4E5B9
	z = (z ^ (z >> 27)) * 0x94D049BB133111EB
	return z ^ (z >> 31)
}

func (r *rig) subscribe() {
	l := &listener{id: len(r.ls), gate: make(chan struct{})}
	r.ls = append(r.ls, l)
	l.unsub = r.ev.Subscribe(func(v int64) {
		r.mu.Lock()
		l.log = append(l.log, v)
		gated := r.gated
		if gated {
			l.blocked = true
		}
		r.mu.Unlock()
		if gated {
			<-l.gate
			return
		}
		// a listener that yields: lets later deliveries overtake if they can
		switch mix(r.seed, uint64(l.id), uint64(v)) % 8 {
		case 0, 1, 2:
			runtime.Gosched()
		case 3:
			time.Sleep(time.Duration(20+mix(r.seed, uint64(v), 7)%200) * time.Microsecond)
		}
	})
	l.h = r.ev.VerifLast()
}

func (r *rig) release(k int) {
	if k < 0 || k >= len(r.ls) {
		return
	}
	l := r.ls[k]
	r.mu.Lock()
	b := l.blocked
	l.blocked = false
	r.mu.Unlock()
	if b {
		l.gate <- struct{}{}
	}
}

// quiescent: every delivery goroutine has exited or sits inside a listener call the harness holds.
func (r *rig) quiescent() bool {
	for _, l := range r.ls {
		active, running, pending := r.ev.VerifSubState(l.h)
		r.mu.Lock()
		blocked := l.blocked
		r.mu.Unlock()
		if running && !blocked {
			return false
		}
		if !running && active && pending > 0 {
			return false // a delivery goroutine must be on its way (or a wake-up was lost: the wait times out)
		}
	}
	return true
}

func (r *rig) wait() {
	deadline := time.Now().Add(20 * time.Second)
	for {
		if r.quiescent() {
			// confirm: the state must be stable, not a transient between two reads
			runtime.Gosched()
			if r.quiescent() {
				return
			}
		}
		if time.Now().After(deadline) {
			panic("conf: event deliveries did not settle within 20 s (lost wake-up or stuck listener)")
		}
		time.Sleep(20 * time.Microsecond)
	}
}

func (r *rig) drain() {
	for {
		r.wait()
		any := false
		for k := range r.ls {
			r.mu.Lock()
			b := r.ls[k].blocked
			r.mu.Unlock()
			if b {
				any = true
				r.release(k)
			}
		}
		if !any {
			return
		}
	}
}

type hact struct {
	kind string // Sub Unsub Fire Release Drain
	k    int
	v    int64
}

func (a hact) gallina() string {
	switch a.kind {
	case "Sub":
		return "HSub"
	case "Unsub":
		return "(HUnsub " + strconv.Itoa(a.k) + ")"
	case "Fire":
		return "(HFire " + emit.Z(a.v) + ")"
	case "Release":
		return "(HRelease " + strconv.Itoa(a.k) + ")"
	default:
		return "HDrain"
	}
}

func (a hact) String() string {
	switch a.kind {
	case "Unsub", "Release":
		return a.kind + " " + strconv.Itoa(a.k)
	case "Fire":
		return "Fire " + strconv.FormatInt(a.v, 10)
	}
	return a.kind
}

// do executes one action, returning 1 if it panicked.
func (r *rig) do(a hact) (panicked int) {
	defer func() {
		if rec := recover(); rec != nil {
			panicked = 1
		}
	}()
	switch a.kind {
	case "Sub":
		r.subscribe()
	case "Unsub":
		if a.k >= 0 && a.k < len(r.ls) {
			r.ls[a.k].unsub()
		}
	case "Fire":
		r.ev.Fire(a.v)
	case "Release":
		r.release(a.k)
	case "Drain":
		r.drain()
	}
	return 0
}

func (r *rig) observe(panics int) string {
	type pos struct{ p, id int }
	var ps []pos
	for _, l := range r.ls {
		if p := r.ev.VerifPosition(l.h); p >= 0 {
			ps = append(ps, pos{p, l.id})
		}
	}
	sort.Slice(ps, func(i, j int) bool { return ps[i].p < ps[j].p })
	var order []string
	for _, p := range ps {
		order = append(order, strconv.Itoa(p.id))
	}
	if n := r.ev.VerifLen(); n != len(ps) {
		// a subscription in the list that belongs to no listener of the harness
		order = append(order, "(-1)")
	}
	var logs []string
	r.mu.Lock()
	for _, l := range r.ls {
		var vs []string
		for _, v := range l.log {
			vs = append(vs, emit.Z(v))
		}
		logs = append(logs, emit.List(vs))
	}
	r.mu.Unlock()
	return fmt.Sprintf("EO %s %s %d", emit.List(order), emit.List(logs), panics)
}

// runScript executes segments (bursts) and prints the case.
func runScript(gated bool, seed uint64, segs [][]hact) string {
	r := &rig{ev: event.New[int64](), gated: gated, seed: seed}
	var out []string
	for _, seg := range segs {
		panics := 0
		var as []string
		for _, a := range seg {
			panics += r.do(a)
			as = append(as, a.gallina())
		}
		r.wait()
		out = append(out, fmt.Sprintf("SG %s (%s)", emit.List(as), r.observe(panics)))
	}
	// let every goroutine of this case finish
	r.mu.Lock()
	r.gated = false
	r.mu.Unlock()
	for k := range r.ls {
		r.do(hact{kind: "Unsub", k: k}) // recovers: a panic here has already been observed by the case itself or is not its business
	}
	r.drain()
	return fmt.Sprintf("EC %s %s", emit.Bool(gated), emit.List(out))
}

func describe(gated bool, family string, segs [][]hact) map[string]any {
	var ss [][]string
	subs, unsubs := 0, []int{}
	for _, seg := range segs {
		var s []string
		for _, a := range seg {
			s = append(s, a.String())
			if a.kind == "Sub" {
				subs++
			}
			if a.kind == "Unsub" {
				unsubs = append(unsubs, a.k)
			}
		}
		ss = append(ss, s)
	}
	return map[string]any{"case": "EC", "family": family, "gated": gated, "listeners": subs, "unsub_order": unsubs, "segments": ss}
}

// ---------- generators ----------

type fireCtr struct{ n int64 }

func (f *fireCtr) next() hact { f.n++; return hact{kind: "Fire", v: f.n} }

// unsubscribe-order family: n listeners, one change, then the given unsubscribe
// sequence (repeats allowed) with a change after every unsubscribe.
func orderScript(n int, order []int, gated bool, r *emit.Rand) [][]hact {
	var segs [][]hact
	fc := &fireCtr{}
	for i := 0; i < n; i++ {
		segs = append(segs, []hact{{kind: "Sub"}})
	}
	segs = append(segs, []hact{fc.next()})
	for _, k := range order {
		if gated && r.Chance(50) {
			segs = append(segs, []hact{{kind: "Release", k: r.Intn(n)}})
		}
		segs = append(segs, []hact{{kind: "Unsub", k: k}})
		segs = append(segs, []hact{fc.next()})
	}
	segs = append(segs, []hact{{kind: "Drain"}})
	return segs
}

func allSeqs(n, maxLen int, f func([]int)) {
	var rec func(cur []int)
	rec = func(cur []int) {
		f(append([]int{}, cur...))
		if len(cur) == maxLen {
			return
		}
		for k := 0; k < n; k++ {
			rec(append(cur, k))
		}
	}
	rec(nil)
}

func perms(n int, f func([]int)) {
	a := make([]int, n)
	for i := range a {
		a[i] = i
	}
	var rec func(k int)
	rec = func(k int) {
		if k == n {
			f(append([]int{}, a...))
			return
		}
		for i := k; i < n; i++ {
			a[k], a[i] = a[i], a[k]
			rec(k + 1)
			a[k], a[i] = a[i], a[k]
		}
	}
	rec(0)
}

func randomGated(r *emit.Rand) [][]hact {
	var segs [][]hact
	fc := &fireCtr{}
	n := 0
	steps := 6 + r.Intn(25)
	segs = append(segs, []hact{{kind: "Sub"}})
	n++
	for i := 0; i < steps; i++ {
		c := r.Intn(100)
		switch {
		case c < 12 && n < 6:
			segs = append(segs, []hact{{kind: "Sub"}})
			n++
		case c < 30:
			segs = append(segs, []hact{{kind: "Unsub", k: r.Intn(n)}})
		case c < 65:
			segs = append(segs, []hact{fc.next()})
		case c < 95:
			segs = append(segs, []hact{{kind: "Release", k: r.Intn(n)}})
		default:
			segs = append(segs, []hact{{kind: "Drain"}})
		}
	}
	segs = append(segs, []hact{{kind: "Drain"}})
	return segs
}

// back-to-back changes with free-running listeners that yield; listeners come and go inside the burst
func randomBurst(r *emit.Rand) [][]hact {
	var segs [][]hact
	fc := &fireCtr{}
	n := 1 + r.Intn(4)
	var first []hact
	for i := 0; i < n; i++ {
		first = append(first, hact{kind: "Sub"})
	}
	segs = append(segs, first)
	bursts := 1 + r.Intn(3)
	for b := 0; b < bursts; b++ {
		var burst []hact
		m := 10 + r.Intn(70)
		for i := 0; i < m; i++ {
			c := r.Intn(100)
			switch {
			case c < 4 && n < 8:
				burst = append(burst, hact{kind: "Sub"})
				n++
			case c < 10:
				burst = append(burst, hact{kind: "Unsub", k: r.Intn(n)})
			default:
				burst = append(burst, fc.next())
			}
		}
		segs = append(segs, burst)
	}
	return segs
}

// ---------- the real component: cache size limit follows cache.max_cache_size ----------

func realComponent(r *emit.Rand, file bool) (string, map[string]any) {
	cfg := config.NewDefault()
	ctx, cancel := context.WithCancel(context.Background())
	defer cancel()
	var c interface {
		VerifLimit() int64
		Destroy()
	}
	if file {
		c = cache.NewFileCache[int](cfg, "var/c19cache", 1<<20, time.Hour, 4, ctx)
	} else {
		mc := cache.NewMemoryCache[int](cfg, 50, 1<<20, time.Hour, 4, ctx)
		mc.VerifSetMemoryCap(math.MaxInt64) // VerifLimit is min(limit, memory cap): take the cap out of the way
		c = mc
	}
	p := &cfg.Cache.MaxCacheSize
	h := p.VerifEvent().VerifLast()
	idle := func() bool {
		_, running, pending := p.VerifEvent().VerifSubState(h)
		return !running && pending == 0
	}
	n := 2 + r.Intn(40)
	var fired []string
	var firedN []int64
	for i := 0; i < n; i++ {
		v := genSize(r, 1)
		// through the API path (update -> stage -> commit) or directly
		if r.Chance(30) {
			status, err := config.UpdatePartialFromConfig(cfg, nested("cache.max_cache_size", strconv.FormatInt(v, 10)+"B"))
			if err != nil || status == config.UpdateStatusFailed {
				panic(fmt.Sprintf("conf: valid update rejected: %v", err))
			}
		} else {
			p.Stage(bytesize.ByteSize(v))
			p.CommitStaged()
		}
		fired = append(fired, emit.Z(v))
		firedN = append(firedN, v)
	}
	waitIdle(idle)
	final := c.VerifLimit()
	// shutdown order: Destroy alone, or the context cancelled first (the cleanup task has already ended when Destroy runs)
	cancelFirst := r.Bool()
	if cancelFirst {
		cancel()
		time.Sleep(3 * time.Millisecond)
	}
	c.Destroy()
	p.Stage(bytesize.ByteSize(12345))
	p.CommitStaged()
	cfg.Cache.CleanupInterval.Stage(duration.Duration(3 * time.Hour))
	cfg.Cache.CleanupInterval.CommitStaged()
	waitIdle(idle)
	time.Sleep(200 * time.Microsecond)
	after := c.VerifLimit()
	// listeners the destroyed component still has on ANY setting it follows
	lenAfter := p.VerifEvent().VerifLen() + cfg.Cache.CleanupInterval.VerifEvent().VerifLen() + cfg.Cache.Memory.MemoryBudgetPercent.VerifEvent().VerifLen()
	backend := "memory"
	if file {
		backend = "file"
	}
	return fmt.Sprintf("ER %s %s %s %d", emit.List(fired), emit.Z(final), emit.Z(after), lenAfter),
		map[string]any{"case": "ER", "backend": backend, "changes": firedN, "final": final, "after_destroy": after, "subscribers_after_destroy": lenAfter, "context_cancelled_before_destroy": cancelFirst}
}

// budgetSequence: a MemoryCache built with budget p0 follows cache.memory.memory_budget_percent through a sequence that
// returns to earlier values; after every change (listeners idle) the effective limit must be the one observed the first
// time that percentage was in force (max_cache_size is out of the way, so the limit IS the memory cap).
func budgetSequence(r *emit.Rand) map[string]any {
	cfg := config.NewDefault()
	ctx, cancel := context.WithCancel(context.Background())
	defer cancel()
	p0 := emit.Pick(r, []int{50, 75, 30})
	cfg.Cache.Memory.MemoryBudgetPercent.Stage(p0)
	cfg.Cache.Memory.MemoryBudgetPercent.CommitStaged()
	fromFile := r.Bool()
	if fromFile {
		// what a real start does: the configuration is decoded from its file
		if err := config.VerifPersist(cfg); err == nil {
			if loaded, err := config.VerifLoad(config.VerifConfigPath()); err == nil {
				cfg = loaded
			}
		}
	}
	mc := cache.NewMemoryCache[int](cfg, p0, 1<<62, time.Hour, 4, ctx)
	defer mc.Destroy()
	p := &cfg.Cache.Memory.MemoryBudgetPercent
	h := p.VerifEvent().VerifLast()
	idle := func() bool {
		_, running, pending := p.VerifEvent().VerifSubState(h)
		return !running && pending == 0
	}
	limitOf := map[int]int64{p0: mc.VerifLimit()}
	seq := []int{emit.Pick(r, []int{40, 10, 90}), p0, emit.Pick(r, []int{20, 60}), p0}
	if r.Bool() {
		seq = append([]int{p0}, seq...)
	}
	if r.Bool() {
		seq = append([]int{0}, seq...) // the zero value of the setting's type, as the first change
	}
	var done []int
	prevV, prevLimit := p0, limitOf[p0]
	for _, v := range seq {
		if r.Bool() {
			status, err := config.UpdatePartialFromConfig(cfg, nested("cache.memory.memory_budget_percent", v))
			if err != nil || status == config.UpdateStatusFailed {
				panic(fmt.Sprintf("conf: valid budget update rejected: %v", err))
			}
		} else {
			p.Stage(v)
			p.CommitStaged()
		}
		done = append(done, v)
		waitIdle(idle)
		time.Sleep(200 * time.Microsecond)
		got := mc.VerifLimit()
		if want, seen := limitOf[v]; seen && got != want {
			return map[string]any{"kind": "budget-not-followed", "built_with": p0, "changes": done,
				"what": fmt.Sprintf("memory budget set to %d %% (setting reads %d): the cache uses a cap of %d bytes, the cap for %d %% is %d", v, p.Read(), got, v, want)}
		} else if !seen {
			limitOf[v] = got
		}
		if v != prevV && got == prevLimit {
			return map[string]any{"kind": "budget-not-followed", "built_with": p0, "changes": done, "configuration_decoded_from_file": fromFile,
				"what": fmt.Sprintf("memory budget changed from %d %% to %d %% (setting reads %d), but the cache's cap did not move (%d bytes)", prevV, v, p.Read(), got)}
		}
		prevV, prevLimit = v, got
	}
	return nil
}

// ---------- the stage ----------

func runC19() {
	r := emit.NewRand(*flagSeed)
	meta := emit.NewMeta("conf/C19", *flagSeed, *flagTier)
	w := &emit.Writer{Dir: *flagOut, Prefix: "ev", ShardSize: 120,
		Imports:  "From Reservoir Require Import Base.Prelude Model.Event Check.Event.",
		CaseType: "ev_case", CheckFn: "check_ev"}
	meta.Rule = "event histories against the real utils/event: (orders) n=1..4 listeners, one change, every unsubscribe sequence with repeats up to length n+1 (n<=3 exhaustive in quick, n=4: all 24 permutations + a random sample; thorough: n=4 exhaustive), a change after every unsubscribe, free-running and gated listeners; (gated) random single-step histories over Sub/Unsub/Fire/Release with listeners that block until released; (burst) back-to-back changes with listeners that yield or sleep, listeners subscribing/unsubscribing inside the burst; (real) a MemoryCache/FileCache following cache.max_cache_size through 2-41 back-to-back changes, then Destroy (alone, or after the context was cancelled) and one more change of the size limit and of the cleanup interval, counting the listeners left on all three settings the cache follows; (live-read) a real proxy whose switch proxy.retry_on_range_416 is changed through the update API between ranged requests to an origin that answers 416. distinct by printed case; non-trivial = at least two listeners and one unsubscribe, or a burst of >= 10 changes"

	add := func(family string, gated bool, segs [][]hact) {
		c := runScript(gated, r.U64(), segs)
		d := describe(gated, family, segs)
		w.Add(c)
		meta.Count("family", family)
		meta.Count("gated", strconv.FormatBool(gated))
		meta.Count("listeners", strconv.Itoa(d["listeners"].(int)))
		nontrivial := (d["listeners"].(int) >= 2 && len(d["unsub_order"].([]int)) >= 1) || family == "burst"
		meta.Record(c, nontrivial, d)
	}

	// orders
	maxFull := 3
	if thorough() {
		maxFull = 4
	}
	for n := 1; n <= maxFull; n++ {
		allSeqs(n, n+1, func(order []int) {
			add("orders", false, orderScript(n, order, false, r))
			add("orders", true, orderScript(n, order, true, r))
		})
	}
	if !thorough() {
		perms(4, func(order []int) {
			add("orders", false, orderScript(4, order, false, r))
			add("orders", true, orderScript(4, order, true, r))
		})
		for i := 0; i < 120; i++ {
			l := r.Intn(6)
			order := make([]int, l)
			for j := range order {
				order[j] = r.Intn(4)
			}
			g := r.Bool()
			add("orders", g, orderScript(4, order, g, r))
		}
	}
	nG, nB, nR := 250, 150, 30
	if thorough() {
		nG, nB, nR = 4000, 2500, 300
	}
	for i := 0; i < nG; i++ {
		add("gated", true, randomGated(r))
	}
	for i := 0; i < nB; i++ {
		add("burst", false, randomBurst(r))
	}
	for i := 0; i < nR; i++ {
		c, d := realComponent(r, i%2 == 1)
		w.Add(c)
		meta.Count("family", "real")
		meta.Record(c, true, d)
	}

	nL := 12
	if thorough() {
		nL = 120
	}
	for i := 0; i < nL; i++ {
		c, d := liveReads(r)
		w.Add(c)
		meta.Count("family", "live-read")
		meta.Record(c, true, d)
	}

	// the memory budget: sequences of changes that come BACK to an earlier value (also the one the cache was built
	// with); the budget in force must be the one last set. Decided here (direct): equal budgets give equal limits.
	for trial := 0; trial < 6; trial++ {
		if f := budgetSequence(r); f != nil {
			meta.DirectFail(f)
		}
		meta.Count("budget_sequences", "run")
	}
	if meta.Direct != nil {
		meta.Direct.Total = 6
	}
	w.Flush()
	meta.Write(*flagOut, w.Files)
	fmt.Printf("conf/C19: %d cases in %d files\n", w.Total, len(w.Files))
}
