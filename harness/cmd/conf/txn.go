package main

// C18 (and the configuration slice of C16): the update transaction of package config.
//
//	conf -prop C18 -stage fields -out DIR   regenerate the field table (DIR/ConfigFieldsRun.v)
//	conf -prop C18 [-stage txn] ...         histories of update documents, overrides and write
//	                                         faults against the real UpdatePartialFromConfig /
//	                                         LoadOrDefault, each history in its own child process
//	                                         with live listeners and (mostly) a running proxy,
//	                                         memory cache and janitor; verify on boundary values;
//	                                         child processes that start a proxy under every accepted
//	                                         boundary configuration and serve requests.
//
// The children are this same binary (-child txn|start); a child that dies is an observation
// (so_alive = false / started = false), not a crash of the harness.

import (
	"bufio"
	"bytes"
	"context"
	"encoding/json"
	"flag"
	"fmt"
	"io"
	"log/slog"
	"math"
	"net"
	"net/http"
	"net/http/httptest"
	"net/url"
	"os"
	"os/exec"
	"os/signal"
	"path/filepath"
	"reflect"
	"sort"
	"strconv"
	"strings"
	"sync"
	"syscall"
	"time"

	"reservoir/config"
	"reservoir/proxy"
	"reservoir/utils/bytesize"
	"reservoir/utils/duration"
	"verifharness/emit"
)

func init() { props["C18"] = runC18 }

var (
	flagStage = flag.String("stage", "txn", "C18: txn (case files) | fields (regenerate the field table)")
	flagChild = flag.String("child", "", "internal: run as a child process of the txn stage (txn|start)")
	flagName  = flag.String("name", "ConfigFieldsRun", "C18 -stage fields: module name of the generated .v file")
)

// ---------- the field table, by reflection over config.Config ----------

type fieldRef struct {
	segs    []string // json tags from the root
	kind    string   // KStr KBool KInt KSize KDur KLevel
	typ     reflect.Type
	ptr     reflect.Value // *ConfigProp[T]
	restart bool
}

func (f fieldRef) path() string { return strings.Join(f.segs, ".") }

func walkFields(val reflect.Value, prefix []string, out *[]fieldRef) {
	if val.Kind() == reflect.Pointer {
		val = val.Elem()
	}
	typ := val.Type()
	for i := 0; i < val.NumField(); i++ {
		f := val.Field(i)
		if f.Kind() != reflect.Struct || !f.CanAddr() {
			continue
		}
		tag, tagged := typ.Field(i).Tag.Lookup("json")
		segs := append(append([]string{}, prefix...), tag)
		addr := f.Addr()
		rd := addr.MethodByName("Read")
		if rd.IsValid() && addr.MethodByName("Stage").IsValid() {
			if !tagged {
				panic("conf: configuration property without a json tag: " + typ.Field(i).Name)
			}
			t := rd.Type().Out(0)
			restart := addr.MethodByName("VerifRequiresRestart").Call(nil)[0].Bool()
			*out = append(*out, fieldRef{segs: segs, kind: kindOf(t), typ: t, ptr: addr, restart: restart})
			continue
		}
		if !tagged {
			continue // not reachable by an update document
		}
		walkFields(addr, segs, out)
	}
}

func fieldsOf(cfg *config.Config) []fieldRef {
	var fs []fieldRef
	walkFields(reflect.ValueOf(cfg), nil, &fs)
	return fs
}

func (f fieldRef) read() reflect.Value { return f.ptr.MethodByName("Read").Call(nil)[0] }
func (f fieldRef) setBase(v reflect.Value) {
	f.ptr.MethodByName("Stage").Call([]reflect.Value{v})
	f.ptr.MethodByName("CommitStaged").Call(nil)
}
func (f fieldRef) overwrite(v reflect.Value) {
	f.ptr.MethodByName("Overwrite").Call([]reflect.Value{v})
}

// val is a property value in transit between child and parent.
type val struct {
	K string `json:"k"` // s b z
	S string `json:"s,omitempty"`
	B bool   `json:"b,omitempty"`
	Z int64  `json:"z,omitempty"`
}

func valOf(v reflect.Value) val {
	switch v.Kind() {
	case reflect.String:
		return val{K: "s", S: v.String()}
	case reflect.Bool:
		return val{K: "b", B: v.Bool()}
	default:
		return val{K: "z", Z: v.Int()}
	}
}

func (v val) coq() string {
	switch v.K {
	case "s":
		return "(VS " + emit.Str(v.S) + ")"
	case "b":
		return "(VB " + emit.Bool(v.B) + ")"
	}
	return "(VZ " + emit.Z(v.Z) + ")"
}

func (v val) reflect(t reflect.Type) reflect.Value {
	r := reflect.New(t).Elem()
	switch v.K {
	case "s":
		r.SetString(v.S)
	case "b":
		r.SetBool(v.B)
	default:
		r.SetInt(v.Z)
	}
	return r
}

func valsCoq(vs []val) string {
	items := make([]string, len(vs))
	for i, v := range vs {
		items[i] = v.coq()
	}
	return emit.List(items)
}

func pathCoq(segs []string) string {
	items := make([]string, len(segs))
	for i, s := range segs {
		items[i] = emit.Str(s)
	}
	return emit.List(items)
}

func tableCoq(fs []fieldRef) string {
	var rows []string
	for _, f := range fs {
		rows = append(rows, fmt.Sprintf("{| f_path := %s; f_kind := %s; f_restart := %s; f_default := %s |}",
			pathCoq(f.segs), f.kind, emit.Bool(f.restart), valOf(f.read()).coq()))
	}
	return "[ " + strings.Join(rows, ";\n   ") + " ]"
}

func runFields() {
	cfg := config.NewDefault()
	fs := fieldsOf(cfg)
	var sb strings.Builder
	sb.WriteString("(* generated by harness/cmd/conf (-prop C18 -stage fields) by reflection over config.NewDefault() - do not edit *)\n")
	sb.WriteString("From Reservoir Require Import Base.Prelude Model.ConfigProp Model.ConfigTxn Proofs.ConfigTxn.\nOpen Scope Z_scope.\n")
	sb.WriteString("Definition cfg_table : table :=\n " + tableCoq(fs) + ".\n")
	sb.WriteString("(* obligations over the table as it is in the source now *)\n")
	sb.WriteString("(* every setting is known to the hand-written part of the model (verify, consumers), with its kind; the table is well-formed *)\n")
	sb.WriteString("Example cfg_fields_covered : fields_covered cfg_table = true.\nProof. vm_compute. reflexivity. Qed.\n")
	sb.WriteString("(* the defaults are a configuration every start accepts (listen addresses: see the first step of every history) *)\n")
	sb.WriteString("Example cfg_defaults_load : load (fun _ => true) cfg_table (FGood (defaults cfg_table)) = Ok (defaults cfg_table).\nProof. vm_compute. reflexivity. Qed.\n")
	sb.WriteString("Print Assumptions cfg_fields_covered.\nPrint Assumptions cfg_defaults_load.\n")
	name := *flagName + ".v"
	if err := os.WriteFile(filepath.Join(*flagOut, name), []byte(sb.String()), 0644); err != nil {
		panic(err)
	}
	var rows []map[string]any
	for _, f := range fs {
		rows = append(rows, map[string]any{"path": f.path(), "kind": f.kind, "restart": f.restart, "type": f.typ.String()})
	}
	b, _ := json.MarshalIndent(map[string]any{"fields": rows}, "", " ")
	os.WriteFile(filepath.Join(*flagOut, "fields.json"), b, 0644)
	fmt.Printf("conf/C18 fields: %d properties\n", len(fs))
}

// ---------- update documents as Gallina ----------

// numCoq: the model sees a number as json.Marshal prints the float64 the document was decoded into
// (shortest digits that round-trip, 'f' form below 1e21): an integer literal (JNum) or not (JFrac).
func numCoq(f float64) string {
	if math.IsInf(f, 0) || math.IsNaN(f) || math.Abs(f) >= 1e21 {
		return "JFrac"
	}
	s := strconv.FormatFloat(f, 'f', -1, 64)
	if strings.ContainsAny(s, ".eE") {
		return "JFrac"
	}
	if s == "-0" {
		s = "0"
	}
	if strings.HasPrefix(s, "-") {
		s = "(" + s + ")"
	}
	return "(JNum " + s + ")"
}

func jsonCoq(v any) string {
	switch x := v.(type) {
	case nil:
		return "JNull"
	case bool:
		return "(JBool " + emit.Bool(x) + ")"
	case float64:
		return numCoq(x)
	case string:
		return "(JStr " + emit.Str(x) + ")"
	case []any:
		return "JArr"
	case map[string]any:
		return "(JObj " + mapCoq(x) + ")"
	}
	panic(fmt.Sprintf("conf: JSON value of unexpected Go type %T", v))
}

func mapCoq(m map[string]any) string {
	keys := make([]string, 0, len(m))
	for k := range m {
		keys = append(keys, k)
	}
	sort.Strings(keys)
	s := "MNil"
	for i := len(keys) - 1; i >= 0; i-- {
		s = "(MCons " + emit.Str(keys[i]) + " " + jsonCoq(m[keys[i]]) + " " + s + ")"
	}
	return s
}

func collectStrings(v any, into map[string]bool) {
	switch x := v.(type) {
	case string:
		into[x] = true
	case []any:
		for _, e := range x {
			collectStrings(e, into)
		}
	case map[string]any:
		for _, e := range x {
			collectStrings(e, into)
		}
	}
}

// ---------- library oracles ----------

func addrOK(s string) bool {
	_, port, err := net.SplitHostPort(s)
	if err != nil {
		return false
	}
	_, err = net.LookupPort("tcp", port)
	return err == nil
}

func durOracle(s string) (int64, bool) {
	d, err := time.ParseDuration(s)
	return int64(d), err == nil
}

func levelOracle(s string) (int64, bool) {
	b, _ := json.Marshal(s)
	var l slog.Level
	if err := json.Unmarshal(b, &l); err != nil {
		return 0, false
	}
	return int64(l), true
}

func oracleCoq(strs map[string]bool) (dur, lvl, addr string) {
	keys := make([]string, 0, len(strs))
	for s := range strs {
		keys = append(keys, s)
	}
	sort.Strings(keys)
	var d, l, a []string
	for _, s := range keys {
		if z, ok := durOracle(s); ok {
			d = append(d, "("+emit.Str(s)+", Some "+emit.Z(z)+")")
		}
		if z, ok := levelOracle(s); ok {
			l = append(l, "("+emit.Str(s)+", Some "+emit.Z(z)+")")
		}
		if addrOK(s) {
			a = append(a, "("+emit.Str(s)+", true)")
		}
	}
	return emit.List(d), emit.List(l), emit.List(a)
}

// ---------- the child protocol ----------

type stepIn struct {
	Kind  string `json:"kind"`  // update | override | live
	Doc   string `json:"doc"`   // update: JSON text of the document ("null" = nil map)
	Limit int64  `json:"limit"` // update: RLIMIT_FSIZE during the call, -1 = none
	Idx   int    `json:"idx"`   // override: index in the field table
	Val   val    `json:"val"`   // override
	Flag  string `json:"flag"`  // override: when set, the override is given as this command-line argument and goes through config.OverrideFromFlags
}

type fileObs struct {
	Kind   string `json:"kind"` // good | torn | absent
	N      int64  `json:"n"`
	Leaves []leaf `json:"leaves"`
}

type leaf struct {
	K string `json:"k"` // t n b x
	S string `json:"s,omitempty"`
	Z int64  `json:"z,omitempty"`
	B bool   `json:"b,omitempty"`
}

type stepObs struct {
	Status int     `json:"status"`
	Eff    []val   `json:"eff"`
	Told   [][]val `json:"told"`
	File   fileObs `json:"file"`
	Load   []val   `json:"load"` // nil = load failed
	LoadOK bool    `json:"load_ok"`
	Comp   []int64 `json:"comp"`
	Wlen   int64   `json:"wlen"`
	Note   string  `json:"note,omitempty"`
	Leak   string  `json:"leak,omitempty"` // a concurrent reader saw a value that was neither in force before nor after the update
}

func (l leaf) coq() string {
	switch l.K {
	case "t":
		return "(LText " + emit.Str(l.S) + ")"
	case "n":
		return "(LNum " + emit.Z(l.Z) + ")"
	case "b":
		return "(LBool " + emit.Bool(l.B) + ")"
	}
	return "LBad"
}

func (f fileObs) coq() string {
	switch f.Kind {
	case "good":
		return "(OGood " + patchLeaves(f.Leaves) + ")"
	case "torn":
		return "(OTorn " + emit.Z(f.N) + ")"
	}
	return "OAbsent"
}

// base lists of the compact notation (Check/ConfigTxn.v patch / sparse): the defaults and the leaves of
// the default file, defined once in the preamble of every case file as base_vals / base_leaves
var baseVals []val
var baseLeaves []leaf

func patchVals(vs []val) string {
	if len(vs) != len(baseVals) {
		return valsCoq(vs)
	}
	var d []string
	for i, v := range vs {
		if v != baseVals[i] {
			d = append(d, fmt.Sprintf("(%d, %s)", i, v.coq()))
		}
	}
	return "(patch base_vals " + emit.List(d) + ")"
}

func patchLeaves(ls []leaf) string {
	if len(ls) != len(baseLeaves) {
		items := make([]string, len(ls))
		for i, l := range ls {
			items[i] = l.coq()
		}
		return emit.List(items)
	}
	var d []string
	for i, l := range ls {
		if l != baseLeaves[i] {
			d = append(d, fmt.Sprintf("(%d, %s)", i, l.coq()))
		}
	}
	return "(patch base_leaves " + emit.List(d) + ")"
}

func (o stepObs) coq(alive bool) string {
	var td []string
	for i, t := range o.Told {
		if len(t) > 0 {
			td = append(td, fmt.Sprintf("(%d, %s)", i, valsCoq(t)))
		}
	}
	told := []string{}
	toldS := "(sparse base_vals " + emit.List(td) + ")"
	if len(o.Told) != len(baseVals) {
		for _, t := range o.Told {
			told = append(told, valsCoq(t))
		}
		toldS = emit.List(told)
	}
	load := "None"
	if o.LoadOK {
		load = "(Some " + patchVals(o.Load) + ")"
	}
	comp := make([]string, len(o.Comp))
	for i, c := range o.Comp {
		comp[i] = emit.Z(c)
	}
	return fmt.Sprintf("(SO %d %s %s %s %s %s %s)", o.Status, patchVals(o.Eff), toldS, o.File.coq(), load, emit.List(comp), emit.Bool(alive))
}

// readFileObs reads var/config.json with a generic decoder: complete (an object holding exactly one
// leaf of the right JSON type for every property) or torn.
func readFileObs(path string, fs []fieldRef) fileObs {
	b, err := os.ReadFile(path)
	if err != nil {
		return fileObs{Kind: "absent"}
	}
	torn := fileObs{Kind: "torn", N: int64(len(b))}
	dec := json.NewDecoder(bytes.NewReader(b))
	dec.UseNumber()
	var doc any
	if err := dec.Decode(&doc); err != nil {
		return torn
	}
	if _, err := dec.Token(); err != io.EOF {
		return torn
	}
	nleaves := 0
	var count func(v any)
	count = func(v any) {
		if m, ok := v.(map[string]any); ok {
			for _, c := range m {
				count(c)
			}
			return
		}
		nleaves++
	}
	count(doc)
	out := fileObs{Kind: "good"}
	for _, f := range fs {
		var cur any = doc
		for _, s := range f.segs {
			m, ok := cur.(map[string]any)
			if !ok {
				cur = nil
				break
			}
			cur = m[s]
		}
		l := leaf{K: "x"}
		switch x := cur.(type) {
		case string:
			switch f.kind {
			case "KStr", "KSize":
				l = leaf{K: "t", S: x}
			case "KDur":
				if z, ok := durOracle(x); ok {
					l = leaf{K: "n", Z: z}
				}
			case "KLevel":
				if z, ok := levelOracle(x); ok {
					l = leaf{K: "n", Z: z}
				}
			}
		case json.Number:
			if z, err := strconv.ParseInt(x.String(), 10, 64); err == nil && f.kind == "KInt" {
				l = leaf{K: "n", Z: z}
			}
		case bool:
			if f.kind == "KBool" {
				l = leaf{K: "b", B: x}
			}
		}
		out.Leaves = append(out.Leaves, l)
	}
	if nleaves != len(fs) {
		return torn // leaves that belong to no property, or properties missing
	}
	return out
}

// ---------- child: one history ----------

type captureHandler struct {
	mu       sync.Mutex
	resets   int
	interval int64
}

func (h *captureHandler) Enabled(context.Context, slog.Level) bool { return true }
func (h *captureHandler) Handle(_ context.Context, rec slog.Record) error {
	switch rec.Message {
	case "Cache cleanup ticker reset", "Cache cleanup task started":
		rec.Attrs(func(a slog.Attr) bool {
			if a.Key == "new_interval" || a.Key == "interval" {
				if d, ok := a.Value.Any().(time.Duration); ok {
					h.mu.Lock()
					h.interval = int64(d)
					if rec.Message == "Cache cleanup ticker reset" {
						h.resets++
					}
					h.mu.Unlock()
				}
			}
			return true
		})
	}
	return nil
}
func (h *captureHandler) WithAttrs([]slog.Attr) slog.Handler { return h }
func (h *captureHandler) WithGroup(string) slog.Handler      { return h }

type recorder struct {
	mu   sync.Mutex
	told [][]val
	n    []int
}

// subscribe adds a recording listener to the property and returns a function that tells whether all
// subscribers known so far have nothing running or queued.
func subscribeRecorder(f fieldRef, i int, rec *recorder) (handle any, idle func(h any) bool) {
	add := func(v val) {
		rec.mu.Lock()
		rec.told[i] = append(rec.told[i], v)
		rec.n[i]++
		rec.mu.Unlock()
	}
	switch p := f.ptr.Interface().(type) {
	case *config.ConfigProp[string]:
		p.OnChange(func(v string) { add(val{K: "s", S: v}) })
		return p.VerifEvent().VerifLast(), func(h any) bool { _, r, n := p.VerifEvent().VerifSubState(h); return !r && n == 0 }
	case *config.ConfigProp[config.CacheType]:
		p.OnChange(func(v config.CacheType) { add(val{K: "s", S: string(v)}) })
		return p.VerifEvent().VerifLast(), func(h any) bool { _, r, n := p.VerifEvent().VerifSubState(h); return !r && n == 0 }
	case *config.ConfigProp[bool]:
		p.OnChange(func(v bool) { add(val{K: "b", B: v}) })
		return p.VerifEvent().VerifLast(), func(h any) bool { _, r, n := p.VerifEvent().VerifSubState(h); return !r && n == 0 }
	case *config.ConfigProp[int]:
		p.OnChange(func(v int) { add(val{K: "z", Z: int64(v)}) })
		return p.VerifEvent().VerifLast(), func(h any) bool { _, r, n := p.VerifEvent().VerifSubState(h); return !r && n == 0 }
	case *config.ConfigProp[bytesize.ByteSize]:
		p.OnChange(func(v bytesize.ByteSize) { add(val{K: "z", Z: int64(v)}) })
		return p.VerifEvent().VerifLast(), func(h any) bool { _, r, n := p.VerifEvent().VerifSubState(h); return !r && n == 0 }
	case *config.ConfigProp[duration.Duration]:
		p.OnChange(func(v duration.Duration) { add(val{K: "z", Z: int64(v)}) })
		return p.VerifEvent().VerifLast(), func(h any) bool { _, r, n := p.VerifEvent().VerifSubState(h); return !r && n == 0 }
	case *config.ConfigProp[slog.Level]:
		p.OnChange(func(v slog.Level) { add(val{K: "z", Z: int64(v)}) })
		return p.VerifEvent().VerifLast(), func(h any) bool { _, r, n := p.VerifEvent().VerifSubState(h); return !r && n == 0 }
	}
	panic("conf: configuration property of a type the harness does not know: " + f.typ.String())
}

func lastHandle(f fieldRef) any {
	ev := f.ptr.MethodByName("VerifEvent").Call(nil)[0]
	return ev.MethodByName("VerifLast").Call(nil)[0].Interface()
}

func memTotal() int64 {
	b, err := os.ReadFile("/proc/meminfo")
	if err != nil {
		return 0
	}
	for _, line := range strings.Split(string(b), "\n") {
		if strings.HasPrefix(line, "MemTotal:") {
			fs := strings.Fields(line)
			if len(fs) >= 2 {
				n, _ := strconv.ParseInt(fs[1], 10, 64)
				return n * 1024
			}
		}
	}
	return 0
}

func setFileLimit(n int64) {
	var cur syscall.Rlimit
	if err := syscall.Getrlimit(syscall.RLIMIT_FSIZE, &cur); err != nil {
		panic(err)
	}
	lim := syscall.Rlimit{Cur: cur.Max, Max: cur.Max}
	if n >= 0 {
		lim.Cur = uint64(n)
	}
	if err := syscall.Setrlimit(syscall.RLIMIT_FSIZE, &lim); err != nil {
		panic(err)
	}
}

func safeUpdate(cfg *config.Config, m map[string]any) (status int) {
	defer func() {
		if r := recover(); r != nil {
			status = 3
		}
	}()
	st, _ := config.UpdatePartialFromConfig(cfg, m)
	switch st {
	case config.UpdateStatusSuccess:
		return 1
	case config.UpdateStatusRestartRequired:
		return 2
	}
	return 0
}

func parseDoc(text string) (map[string]any, bool) {
	var m map[string]any
	if err := json.Unmarshal([]byte(text), &m); err != nil {
		return nil, false
	}
	return m, true
}

func childTxn() {
	signal.Ignore(syscall.SIGXFSZ)
	capt := &captureHandler{}
	slog.SetDefault(slog.New(capt))
	var steps []stepIn
	if err := json.NewDecoder(os.Stdin).Decode(&steps); err != nil {
		panic(err)
	}
	out := bufio.NewWriter(os.Stdout)
	cfgPath := "var/config.json"
	shadowPath := "var/shadow.json"
	config.VerifSetConfigPath(cfgPath)
	cfg, err := config.LoadOrDefault(cfgPath)
	if err != nil {
		panic(err)
	}
	fs := fieldsOf(cfg)
	rec := &recorder{told: make([][]val, len(fs)), n: make([]int, len(fs))}
	type sub struct {
		h    any
		idle func(h any) bool
	}
	var subs []sub
	idles := make([]func(h any) bool, len(fs))
	for i, f := range fs {
		h, idle := subscribeRecorder(f, i, rec)
		idles[i] = idle
		subs = append(subs, sub{h, idle})
	}
	total := memTotal()
	var px *proxy.Proxy
	intervalIdx := -1
	for i, f := range fs {
		if f.path() == "cache.cleanup_interval" {
			intervalIdx = i
		}
	}
	toldAtLive := 0
	ctx, cancel := context.WithCancel(context.Background())
	defer cancel()

	for _, st := range steps {
		var obs stepObs
		switch st.Kind {
		case "live":
			// what main does after OverrideFromFlags: create the proxy with its cache and janitor
			p, err := proxy.NewProxy(cfg, nil, ctx)
			if err != nil {
				panic(err)
			}
			px = p
			for i, f := range fs {
				switch f.path() {
				case "cache.max_cache_size", "cache.memory.memory_budget_percent", "cache.cleanup_interval":
					subs = append(subs, sub{lastHandle(f), idles[i]})
				}
			}
			rec.mu.Lock()
			toldAtLive = rec.n[intervalIdx]
			rec.mu.Unlock()
			for dl := time.Now().Add(10 * time.Second); time.Now().Before(dl); time.Sleep(20 * time.Microsecond) {
				capt.mu.Lock()
				started := capt.interval != 0
				capt.mu.Unlock()
				if started {
					break
				}
			}
			continue
		case "override":
			if st.Flag != "" {
				// the real command-line layer: a fresh flag set, one argument, config.OverrideFromFlags
				flag.CommandLine = flag.NewFlagSet("reservoir", flag.PanicOnError)
				os.Args = []string{"reservoir", st.Flag}
				config.OverrideFromFlags(cfg)
			} else {
				fs[st.Idx].overwrite(st.Val.reflect(fs[st.Idx].typ))
			}
			obs.Status = 1
		case "update":
			var m map[string]any
			if st.Doc != "null" {
				var ok bool
				if m, ok = parseDoc(st.Doc); !ok {
					panic("conf: child got a document that is not a JSON object: " + st.Doc)
				}
			}
			if st.Limit >= 0 && m != nil {
				// the length the complete file would have: the same document applied to a copy of
				// the saved configuration that writes to another file
				was := config.IsRestartNeeded()
				if b, err := os.ReadFile(cfgPath); err == nil {
					os.WriteFile(shadowPath, b, 0644)
					if sh, err := config.VerifLoad(shadowPath); err == nil {
						config.VerifSetConfigPath(shadowPath)
						if s := safeUpdate(sh, m); s == 1 || s == 2 {
							if fi, err := os.Stat(shadowPath); err == nil {
								obs.Wlen = fi.Size()
							}
						}
						config.VerifSetConfigPath(cfgPath)
					}
					os.Remove(shadowPath)
				}
				if !was {
					config.VerifResetRestartNeeded()
				}
			}
			// a concurrent reader: while the update is checked, written and committed, every Read() returns either the
			// value in force before the update or the one in force after it — never a value that is only staged
			before := make([]val, len(fs))
			for i, f := range fs {
				before[i] = valOf(f.read())
			}
			seenVals := make([]map[val]bool, len(fs))
			stopPoll := make(chan struct{})
			polled := make(chan struct{})
			go func() {
				defer close(polled)
				for {
					for i, f := range fs {
						v := valOf(f.read())
						if v != before[i] {
							if seenVals[i] == nil {
								seenVals[i] = map[val]bool{}
							}
							seenVals[i][v] = true
						}
					}
					select {
					case <-stopPoll:
						return
					default:
					}
				}
			}()
			setFileLimit(st.Limit)
			obs.Status = safeUpdate(cfg, m)
			setFileLimit(-1)
			close(stopPoll)
			<-polled
			for i, f := range fs {
				after := valOf(f.read())
				for v := range seenVals[i] {
					if v != after && obs.Leak == "" {
						obs.Leak = fmt.Sprintf("%s read as %v while the update ran; in force before: %v, after: %v", f.path(), v, before[i], after)
					}
				}
			}
		}
		// quiescence: every listener (recorders and the cache's own) has been handed everything
		deadline := time.Now().Add(10 * time.Second)
		for {
			busy := false
			for _, s := range subs {
				if !s.idle(s.h) {
					busy = true
				}
			}
			if !busy {
				break
			}
			if time.Now().After(deadline) {
				obs.Note = "listener deliveries did not settle within 10 s"
				break
			}
			time.Sleep(20 * time.Microsecond)
		}
		if px != nil {
			// the janitor takes interval changes from a channel: wait until it has reset its ticker as
			// often as the setting's listeners were told
			for {
				rec.mu.Lock()
				want := rec.n[intervalIdx] - toldAtLive
				rec.mu.Unlock()
				capt.mu.Lock()
				got := capt.resets
				capt.mu.Unlock()
				if got >= want {
					break
				}
				if time.Now().After(deadline) {
					obs.Note = "janitor did not take the interval change within 10 s"
					break
				}
				time.Sleep(20 * time.Microsecond)
			}
		}
		for _, f := range fs {
			obs.Eff = append(obs.Eff, valOf(f.read()))
		}
		rec.mu.Lock()
		obs.Told = rec.told
		rec.told = make([][]val, len(fs))
		rec.mu.Unlock()
		for i := range obs.Told {
			if obs.Told[i] == nil {
				obs.Told[i] = []val{}
			}
		}
		obs.File = readFileObs(cfgPath, fs)
		if loaded, err := config.VerifLoad(cfgPath); err == nil {
			obs.LoadOK = true
			for _, f := range fieldsOf(loaded) {
				obs.Load = append(obs.Load, valOf(f.read()))
			}
		}
		if px != nil {
			hooks := px.VerifCache().(interface {
				VerifMaxCacheSize() int64
				VerifMemoryCap() int64
			})
			capt.mu.Lock()
			iv := capt.interval
			capt.mu.Unlock()
			obs.Comp = []int64{hooks.VerifMaxCacheSize(), hooks.VerifMemoryCap(), total, iv}
		} else {
			obs.Comp = []int64{}
		}
		b, _ := json.Marshal(obs)
		out.Write(b)
		out.WriteByte('\n')
		out.Flush()
	}
	if px != nil {
		px.Destroy()
	}
	fmt.Fprintln(out, "done")
	out.Flush()
}

// ---------- child: start a proxy under a saved configuration and serve requests ----------

// childRefused: start-up over an EXISTING configuration file that has to be refused and that carries non-default values.
// "Resetting to defaults" must put the defaults in force — every setting — and leave a file that loads and says the same.
// One line per kind of refused file: "<kind> ok" | "<kind> bad <what>" | "<kind> accepted" (the file was not refused).
func childRefused() {
	slog.SetDefault(slog.New(slog.NewTextHandler(io.Discard, nil)))
	cfgPath := "var/config.json"
	config.VerifSetConfigPath(cfgPath)
	def := fieldsOf(config.NewDefault())
	for _, kind := range []string{"verify-failure", "unknown-key", "ill-typed"} {
		c0 := config.NewDefault()
		fs := fieldsOf(c0)
		set := func(path string, v reflect.Value) {
			for _, f := range fs {
				if f.path() == path {
					f.setBase(v)
				}
			}
		}
		// non-default values that are fine in themselves
		set("proxy.listen", reflect.ValueOf(":1234"))
		set("logging.max_backups", reflect.ValueOf(9))
		set("proxy.retry_on_range_416", reflect.ValueOf(false))
		if kind == "verify-failure" {
			set("cache.lock_shards", reflect.ValueOf(0))
		}
		if err := config.VerifPersist(c0); err != nil {
			fmt.Println(kind + " bad cannot write the file: " + err.Error())
			continue
		}
		text, _ := os.ReadFile(cfgPath)
		switch kind {
		case "unknown-key":
			text = []byte(strings.Replace(string(text), "{", "{\"setting_of_another_version\": 1,", 1))
		case "ill-typed":
			text = []byte(strings.Replace(string(text), "\"max_backups\": 9", "\"max_backups\": \"nine\"", 1))
		}
		os.WriteFile(cfgPath, text, 0644)
		if _, err := config.VerifLoad(cfgPath); err == nil {
			fmt.Println(kind + " accepted")
			continue
		}
		cfg, err := config.LoadOrDefault(cfgPath)
		if err != nil {
			fmt.Println(kind + " bad LoadOrDefault failed: " + err.Error())
			continue
		}
		bad := ""
		for i, f := range fieldsOf(cfg) {
			if valOf(f.read()) != valOf(def[i].read()) {
				bad += fmt.Sprintf(" %s=%v (default %v)", f.path(), valOf(f.read()), valOf(def[i].read()))
			}
		}
		if re, err := config.VerifLoad(cfgPath); err != nil {
			bad += " the file left behind does not load: " + err.Error()
		} else {
			for i, f := range fieldsOf(re) {
				if valOf(f.read()) != valOf(def[i].read()) {
					bad += fmt.Sprintf(" file:%s=%v", f.path(), valOf(f.read()))
				}
			}
		}
		if bad != "" {
			fmt.Println(kind + " bad" + bad)
		} else {
			fmt.Println(kind + " ok")
		}
	}
}

func childStart() {
	slog.SetDefault(slog.New(slog.NewTextHandler(io.Discard, nil)))
	text, err := io.ReadAll(os.Stdin)
	if err != nil {
		panic(err)
	}
	cfgPath := "var/config.json"
	if err := os.WriteFile(cfgPath, text, 0644); err != nil {
		panic(err)
	}
	if _, err := config.VerifLoad(cfgPath); err != nil {
		fmt.Println("notloaded " + err.Error())
		return
	}
	cfg, err := config.LoadOrDefault(cfgPath)
	if err != nil {
		panic(err)
	}
	origin := httptest.NewServer(http.HandlerFunc(func(w http.ResponseWriter, r *http.Request) {
		w.Header().Set("Cache-Control", "max-age=60")
		io.WriteString(w, "hello from the origin "+r.URL.Path)
	}))
	defer origin.Close()
	ctx, cancel := context.WithCancel(context.Background())
	defer cancel()
	p, err := proxy.NewProxy(cfg, nil, ctx)
	if err != nil {
		panic(err) // main panics too
	}
	// main: p.Listen(cfg.Proxy.Listen.Read(), ...); here only where the address names this machine and
	// any free port, so that the outcome does not depend on what else runs on the host
	var proxyURL string
	addr := cfg.Proxy.Listen.Read()
	host, port, _ := net.SplitHostPort(addr)
	local := map[string]bool{"": true, "localhost": true, "127.0.0.1": true, "0.0.0.0": true, "::1": true, "::": true}
	var srv *http.Server
	if local[host] && (port == "0" || port == "") {
		l, err := net.Listen("tcp", addr)
		if err != nil {
			panic(err) // main: errChan -> panic
		}
		srv = &http.Server{Handler: p}
		go srv.Serve(l)
		_, lp, _ := net.SplitHostPort(l.Addr().String())
		proxyURL = "http://" + net.JoinHostPort("localhost", lp)
		if host == "127.0.0.1" || host == "0.0.0.0" {
			proxyURL = "http://127.0.0.1:" + lp
		} else if host == "::1" || host == "::" {
			proxyURL = "http://[::1]:" + lp
		}
	} else {
		ts := httptest.NewServer(p)
		defer ts.Close()
		proxyURL = ts.URL
	}
	pu, _ := url.Parse(proxyURL)
	tr := &http.Transport{Proxy: http.ProxyURL(pu)}
	client := &http.Client{Transport: tr, Timeout: 10 * time.Second}
	codes := []string{}
	for i := 0; i < 3; i++ {
		resp, err := client.Get(origin.URL + "/res" + strconv.Itoa(i%2))
		if err != nil {
			codes = append(codes, "err:"+err.Error())
			continue
		}
		io.Copy(io.Discard, resp.Body)
		resp.Body.Close()
		codes = append(codes, strconv.Itoa(resp.StatusCode))
	}
	// let the janitor run a few cycles if its interval is tiny
	time.Sleep(5 * time.Millisecond)
	tr.CloseIdleConnections()
	if srv != nil {
		srv.Close()
	}
	p.Destroy()
	fmt.Println("started " + strings.Join(codes, ","))
}

// ---------- parent: running children ----------

var selfPath string
var childSeq int
var childMu sync.Mutex

func runChild(mode string, stdin []byte, timeout time.Duration) (stdout []byte, errText string) {
	childMu.Lock()
	childSeq++
	dir := filepath.Join("children", fmt.Sprintf("c%05d", childSeq))
	childMu.Unlock()
	if err := os.MkdirAll(dir, 0755); err != nil {
		panic(err)
	}
	defer os.RemoveAll(dir)
	ctx, cancel := context.WithTimeout(context.Background(), timeout)
	defer cancel()
	cmd := exec.CommandContext(ctx, selfPath, "-prop", "C18", "-child", mode)
	cmd.Dir = dir
	cmd.Stdin = bytes.NewReader(stdin)
	var so, se bytes.Buffer
	cmd.Stdout = &so
	cmd.Stderr = &se
	err := cmd.Run()
	if err != nil {
		tail := se.String()
		if len(tail) > 1500 {
			tail = tail[:700] + "\n...\n" + tail[len(tail)-700:]
		}
		errText = err.Error() + "\n" + tail
	}
	return so.Bytes(), errText
}

// ---------- parent: generators ----------

type gen struct {
	r  *emit.Rand
	fs []fieldRef
	by map[string]int
}

var listenValid = []string{":9999", "localhost:8080", ":0", "127.0.0.1:0", "[::1]:8080", ":http", "localhost:", "example.org:443", "0.0.0.0:65535", ":1"}
var listenInvalid = []string{"", "localhost", "::1", ":65536", ":-1", "a:b:c", ":nosuchservice", "8080", "[::1]", "host:80:90"}
var durValid = []string{"1ns", "1s", "90m", "2562047h47m16.854775807s", "1h30m", "1.5s", "250ms", "1us", "24h"}
var durInvalid = []string{"0s", "-1s", "-1ns", "0", "0h0m"}
var durIllFormed = []string{"abc", "1", "", "1e3s", "1 s", "s", "9223372036854775808ns", "1d"}
var sizeValid = []string{"1B", "10G", "1K", "1536B", "500M", "9223372036854775807B", "8191P", "3T", "1025B"}
var sizeIllFormed = []string{"10K5", "K", "", "-1B", "9223372036854775808B", "10KB", "123", "1 K", "9007199254740993K"}
var levelValid = []string{"INFO", "DEBUG", "WARN", "ERROR", "INFO+2", "debug-3", "Error", "WARN+100", "INFO-4"}
var levelIllFormed = []string{"TRACE", "", "INFO+x", "5", "IN FO"}
var strValid = []string{"a", "ssl/ca.crt", "var/cache/", "/tmp/x y", "é", "日本語", "\"q\"", "<&>", "dir/", "var/proxy.log", "back\\slash", " "}

func (g *gen) field(path string) fieldRef { return g.fs[g.by[path]] }

// validJSON returns a JSON value of the right type that config.verify accepts for the field on its own.
func (g *gen) validJSON(f fieldRef) any {
	r := g.r
	switch f.path() {
	case "proxy.listen", "webserver.listen":
		return emit.Pick(r, listenValid)
	case "cache.type":
		return emit.Pick(r, []string{"file", "memory"})
	case "cache.lock_shards":
		return emit.Pick(r, []any{1, 2, 8, 1024, 1048576, 65536, 1000})
	case "cache.memory.memory_budget_percent":
		return emit.Pick(r, []any{0, 1, 50, 75, 99, 100})
	case "cache.cleanup_interval":
		return emit.Pick(r, durValid)
	case "cache.max_cache_size":
		return emit.Pick(r, sizeValid)
	case "logging.max_size":
		return emit.Pick(r, append([]string{"0B"}, sizeValid...))
	case "logging.file":
		return emit.Pick(r, append([]string{""}, strValid...))
	case "logging.max_backups":
		return emit.Pick(r, []any{0, 1, 3, -1, 9007199254740992, json.Number("9007199254740993"), 1e3, json.Number("-9223372036854775808"), 100})
	case "webserver.api_disabled":
		return false // true needs dashboard_disabled too: generated as a combination
	}
	switch f.kind {
	case "KStr":
		return emit.Pick(r, strValid)
	case "KBool":
		return r.Bool()
	case "KInt":
		return r.Intn(1000)
	case "KSize":
		return emit.Pick(r, sizeValid)
	case "KDur":
		return emit.Pick(r, append(append([]string{}, durValid...), durInvalid...)) // no constraint on other durations
	case "KLevel":
		return emit.Pick(r, levelValid)
	}
	panic("conf: kind " + f.kind)
}

// refusedJSON returns a JSON value the update must refuse for this field: out of range, ill-formed or of
// the wrong JSON type. ok=false if every value of the right type is acceptable and r chose "in range".
func (g *gen) refusedJSON(f fieldRef) (any, string) {
	r := g.r
	wrongType := func() any {
		switch f.kind {
		case "KStr", "KSize", "KDur", "KLevel":
			return emit.Pick(r, []any{5, true, []any{"x"}, map[string]any{"": 5}, map[string]any{"a": map[string]any{"b": 1}}, 1.5})
		case "KBool":
			return emit.Pick(r, []any{"true", 1, 0, []any{}, map[string]any{}})
		default:
			return emit.Pick(r, []any{"8", 1.5, true, []any{1}, map[string]any{"": 1}, 1e21, json.Number("9223372036854775808"), 1e300})
		}
	}
	if r.Chance(35) {
		return wrongType(), "ill-typed"
	}
	switch f.path() {
	case "proxy.listen", "webserver.listen":
		return emit.Pick(r, listenInvalid), "invalid"
	case "proxy.ca_cert", "proxy.ca_key", "cache.file.dir":
		return "", "invalid"
	case "cache.type":
		return emit.Pick(r, []string{"disk", "", "Memory", "file "}), "invalid"
	case "cache.lock_shards":
		return emit.Pick(r, []any{0, -1, 1048577, 4294967296, json.Number("-9223372036854775808"), 2147483648}), "invalid"
	case "cache.memory.memory_budget_percent":
		return emit.Pick(r, []any{-1, 101, 1000, -100}), "invalid"
	case "cache.cleanup_interval":
		if r.Bool() {
			return emit.Pick(r, durInvalid), "invalid"
		}
		return emit.Pick(r, durIllFormed), "ill-formed"
	case "cache.max_cache_size":
		if r.Chance(30) {
			return "0B", "invalid"
		}
		return emit.Pick(r, sizeIllFormed), "ill-formed"
	case "webserver.api_disabled":
		return true, "invalid-combination" // refused unless the dashboard is (being) disabled
	}
	switch f.kind {
	case "KSize":
		return emit.Pick(r, sizeIllFormed), "ill-formed"
	case "KDur":
		return emit.Pick(r, durIllFormed), "ill-formed"
	case "KLevel":
		return emit.Pick(r, levelIllFormed), "ill-formed"
	}
	return wrongType(), "ill-typed"
}

func setPath(doc map[string]any, segs []string, v any) {
	cur := doc
	for i, s := range segs {
		if i == len(segs)-1 {
			cur[s] = v
			return
		}
		next, ok := cur[s].(map[string]any)
		if !ok {
			next = map[string]any{}
			cur[s] = next
		}
		cur = next
	}
}

var garbageDocs = []string{
	`{"proxy":{"listen":{"":5}}}`,
	`{"proxy":{"listen":{"":{"":1}}}}`,
	`{"proxy":{"listen":{"x":{"y":[1,2]}}}}`,
	`{"cache":{"lock_shards":{"":{"":{"":1}}}}}`,
	`{"logging":{"level":{"":"INFO"}}}`,
	`{"cache":[1,2]}`,
	`{"cache":"off"}`,
	`{"cache":null}`,
	`{"":{"":1}}`,
	`{"":5}`,
	`{"proxy":{"":{"":1}}}`,
	`{"proxy":{"cache_policy":{"":{}}}}`,
	`{"proxy":{"cache_policy":5}}`,
	`{"proxy.listen":":1234"}`,
	`{"Proxy":{"Listen":":1234"}}`,
	`{"cache":{"file":{"dir":{"dir":"x"}}}}`,
	`{"cache":{"memory":{"memory_budget_percent":{"value":50}}}}`,
	`{"a":{"b":{"c":{"d":{"e":{"f":{"g":1}}}}}}}`,
	`{"cache":{"file":{}}}`,
	`{"logging":{}}`,
	`{"value":1,"onChange":2,"requiresRestart":true}`,
	`{"proxy":{"listen":{"value":":1"}}}`,
	`{"cache":{"max_cache_size":{"comittedValue":"1G"}}}`,
	`{"logging":{"compress":null}}`,
	`{"cache":{"lock_shards":null}}`,
	`{"logging":{"max_backups":null,"file":null}}`,
	`{"cache":{"cleanup_interval":null}}`,
	`{"cache":{"max_cache_size":null}}`,
	`{"logging":{"level":null}}`,
	`{"proxy":{"listen":null}}`,
}

// genDoc produces one update document (JSON text) and a short description of its family.
func (g *gen) genDoc() (string, string) {
	r := g.r
	doc := map[string]any{}
	family := ""
	pickField := func() fieldRef { return g.fs[r.Intn(len(g.fs))] }
	switch c := r.Intn(100); {
	case c < 22:
		family = "valid-one"
		f := pickField()
		setPath(doc, f.segs, g.validJSON(f))
	case c < 40:
		family = "valid-many"
		for k := 2 + r.Intn(4); k > 0; k-- {
			f := pickField()
			setPath(doc, f.segs, g.validJSON(f))
		}
	case c < 52:
		family = "refused-one"
		f := pickField()
		v, why := g.refusedJSON(f)
		family += ":" + why
		setPath(doc, f.segs, v)
	case c < 70:
		family = "many-one-refused"
		n := 2 + r.Intn(4)
		bad := r.Intn(n)
		seen := map[string]bool{}
		for k := 0; k < n; k++ {
			f := pickField()
			if seen[f.path()] {
				continue
			}
			seen[f.path()] = true
			if k == bad {
				v, why := g.refusedJSON(f)
				family += ":" + why
				setPath(doc, f.segs, v)
			} else {
				setPath(doc, f.segs, g.validJSON(f))
			}
		}
	case c < 78:
		family = "unknown-keys"
		if r.Bool() {
			f := pickField()
			setPath(doc, f.segs, g.validJSON(f))
		}
		switch r.Intn(4) {
		case 0:
			doc["nope"] = 1
		case 1:
			setPath(doc, []string{"cache", "nope"}, "x")
		case 2:
			setPath(doc, []string{"proxy", "cache_policy", "extra"}, map[string]any{"a": 1})
		default:
			setPath(doc, []string{"logging", "Level"}, "DEBUG")
		}
	case c < 88:
		family = "garbage"
		return emit.Pick(r, garbageDocs), family
	case c < 92:
		family = "combination"
		api, dash := r.Bool(), r.Bool()
		switch r.Intn(3) {
		case 0:
			setPath(doc, []string{"webserver", "api_disabled"}, api)
		case 1:
			setPath(doc, []string{"webserver", "dashboard_disabled"}, dash)
		default:
			setPath(doc, []string{"webserver", "api_disabled"}, api)
			setPath(doc, []string{"webserver", "dashboard_disabled"}, dash)
		}
	case c < 95:
		family = "empty"
	case c < 97:
		return "null", "nil-map"
	default:
		family = "boundary-pair"
		setPath(doc, []string{"cache", "lock_shards"}, emit.Pick(r, []any{0, 1, 1048576, 1048577}))
		setPath(doc, []string{"cache", "cleanup_interval"}, emit.Pick(r, []string{"0s", "1ns", "-1s", "1s"}))
	}
	b, err := json.Marshal(doc)
	if err != nil {
		panic(err)
	}
	return string(b), family
}

type txnCase struct {
	steps  []stepIn
	family string
	live   bool
}

func (g *gen) genOverride() stepIn {
	r := g.r
	type ov struct {
		path string
		v    val
	}
	choices := []ov{
		{"cache.max_cache_size", val{K: "z", Z: int64(1+r.Intn(4096)) << 20}},
		{"cache.max_cache_size", val{K: "z", Z: 1536}},
		{"cache.cleanup_interval", val{K: "z", Z: int64(1+r.Intn(3600)) * int64(time.Second)}},
		{"cache.memory.memory_budget_percent", val{K: "z", Z: int64(r.Intn(101))}},
		{"cache.lock_shards", val{K: "z", Z: int64(1 + r.Intn(64))}},
		{"proxy.listen", val{K: "s", S: emit.Pick(r, listenValid)}},
		{"proxy.listen", val{K: "s", S: emit.Pick(r, listenInvalid)}}, // an override nobody validated: every update is refused
		{"webserver.listen", val{K: "s", S: emit.Pick(r, listenValid)}},
		{"proxy.ca_cert", val{K: "s", S: emit.Pick(r, strValid)}},
		{"logging.level", val{K: "z", Z: int64(r.Intn(17) - 8)}},
		{"logging.max_backups", val{K: "z", Z: int64(r.Intn(10))}},
		{"logging.to_stdout", val{K: "b", B: false}},
		{"webserver.dashboard_disabled", val{K: "b", B: true}},
		{"webserver.api_disabled", val{K: "b", B: true}}, // without --no-dashboard: no configuration is workable
		{"proxy.retry_on_range_416", val{K: "b", B: r.Bool()}},
		{"cache.file.dir", val{K: "s", S: "cachedir/"}},
		// values equal to the DECLARED DEFAULT of the corresponding command-line flag: still an override
		{"proxy.listen", val{K: "s", S: ":9999"}},
		{"webserver.listen", val{K: "s", S: "localhost:8080"}},
		{"logging.max_backups", val{K: "z", Z: 3}},
		{"logging.compress", val{K: "b", B: true}},
		{"logging.compress", val{K: "b", B: false}},
		{"proxy.ca_cert", val{K: "s", S: "ssl/ca.crt"}},
		{"proxy.ca_key", val{K: "s", S: emit.Pick(r, strValid)}},
		{"proxy.ca_key", val{K: "s", S: "ssl/ca.key"}},
		{"logging.file", val{K: "s", S: emit.Pick(r, strValid)}},
	}
	c := emit.Pick(r, choices)
	st := stepIn{Kind: "override", Idx: g.by[c.path], Val: c.v, Limit: -1}
	if name, ok := flagOf[c.path]; ok && r.Chance(60) {
		switch c.v.K {
		case "s":
			st.Flag = "--" + name + "=" + c.v.S
		case "b":
			st.Flag = fmt.Sprintf("--%s=%v", name, c.v.B)
		default:
			st.Flag = fmt.Sprintf("--%s=%d", name, c.v.Z)
		}
	}
	return st
}

// command-line flag (config/overrides.go) of a setting, where the flag's value has the setting's own form
var flagOf = map[string]string{
	"proxy.listen": "listen", "proxy.ca_cert": "ca-cert", "proxy.ca_key": "ca-key", "logging.file": "log-file", "cache.file.dir": "cache-dir", "webserver.listen": "webserver-listen",
	"webserver.dashboard_disabled": "no-dashboard", "webserver.api_disabled": "no-api",
	"logging.max_backups": "log-file-max-backups", "logging.compress": "log-file-compress", "logging.to_stdout": "log-to-stdout",
}

func (g *gen) limitNear(l0 int64) int64 {
	r := g.r
	switch r.Intn(8) {
	case 0:
		return 0
	case 1:
		return int64(1 + r.Intn(20))
	case 2:
		return l0 / 2
	case 3:
		return l0 - 1 - int64(r.Intn(3))
	case 4:
		return l0 + int64(r.Intn(3))
	case 5:
		return l0 + 200
	default:
		return l0 - 60 + int64(r.Intn(100))
	}
}

func (g *gen) genHistory(l0 int64) txnCase {
	r := g.r
	c := txnCase{family: "docs", live: r.Chance(80)}
	c.steps = append(c.steps, stepIn{Kind: "update", Doc: "{}", Limit: -1})
	if r.Chance(35) {
		c.family = "docs+overrides"
		for k := 1 + r.Intn(3); k > 0; k-- {
			c.steps = append(c.steps, g.genOverride())
		}
	}
	if c.live && r.Chance(18) {
		// the file cache (in the child's own directory) instead of the memory cache
		c.family += "+filecache"
		c.steps = append(c.steps, stepIn{Kind: "override", Idx: g.by["cache.type"], Val: val{K: "s", S: "file"}, Limit: -1})
		c.steps = append(c.steps, stepIn{Kind: "override", Idx: g.by["cache.file.dir"], Val: val{K: "s", S: "cachedir/"}, Limit: -1})
	}
	if c.live {
		c.steps = append(c.steps, stepIn{Kind: "live"})
	}
	for k := 3 + r.Intn(8); k > 0; k-- {
		doc, _ := g.genDoc()
		lim := int64(-1)
		if r.Chance(22) {
			lim = g.limitNear(l0)
		}
		c.steps = append(c.steps, stepIn{Kind: "update", Doc: doc, Limit: lim})
		if lim >= 0 && r.Chance(50) {
			// the fault is gone and the very same update is sent again
			c.steps = append(c.steps, stepIn{Kind: "update", Doc: doc, Limit: -1})
		}
	}
	return c
}

// ---------- parent: turning a history into a Gallina case ----------

type txnResult struct {
	coq      string
	readable map[string]any
	status   map[string]int
	died     bool
	nontriv  bool
	leaks    []string
}

func (g *gen) runHistory(c txnCase) txnResult {
	in, _ := json.Marshal(c.steps)
	out, errText := runChild("txn", in, 60*time.Second)
	var obs []stepObs
	done := false
	for _, line := range bytes.Split(out, []byte("\n")) {
		if len(line) == 0 {
			continue
		}
		if string(line) == "done" {
			done = true
			continue
		}
		var o stepObs
		if err := json.Unmarshal(line, &o); err != nil {
			break
		}
		obs = append(obs, o)
	}
	strs := map[string]bool{}
	for _, f := range g.fs {
		if v := valOf(f.read()); v.K == "s" {
			strs[v.S] = true
		}
	}
	var steps []string
	var readable []map[string]any
	res := txnResult{status: map[string]int{}}
	k := 0
	died := !done
	for _, st := range c.steps {
		if st.Kind == "live" {
			continue
		}
		var o stepObs
		alive := true
		if k < len(obs) {
			o = obs[k]
		} else if died {
			// the child died while (or right after) executing this step
			if k > 0 {
				o = obs[len(obs)-1]
				o.Told = make([][]val, len(g.fs))
				for i := range o.Told {
					o.Told[i] = []val{}
				}
			}
			o.Status = 0
			alive = false
		}
		k++
		var sin string
		rd := map[string]any{"status": o.Status}
		switch st.Kind {
		case "override":
			sin = fmt.Sprintf("IOverride %d %s", st.Idx, st.Val.coq())
			rd["override"] = g.fs[st.Idx].path()
			rd["value"] = st.Val
			if st.Flag != "" {
				rd["given_as_command_line_argument"] = st.Flag
			}
			if st.Val.K == "s" {
				strs[st.Val.S] = true
			}
		case "update":
			lim := "None"
			if st.Limit >= 0 {
				lim = "(Some " + emit.Z(st.Limit) + ")"
				rd["limit"] = st.Limit
				rd["wlen"] = o.Wlen
			}
			doc := "None"
			if st.Doc != "null" {
				m, _ := parseDoc(st.Doc)
				collectStrings(m, strs)
				doc = "(Some " + mapCoq(m) + ")"
			}
			sin = fmt.Sprintf("IUpdate %s %s %s", doc, lim, emit.Z(o.Wlen))
			rd["doc"] = st.Doc
			res.status[strconv.Itoa(o.Status)]++
			if o.Status == 0 && st.Doc != "{}" {
				res.nontriv = true
			}
		}
		for _, v := range o.Eff {
			if v.K == "s" {
				strs[v.S] = true
			}
		}
		for _, v := range o.Load {
			if v.K == "s" {
				strs[v.S] = true
			}
		}
		if o.Note != "" {
			rd["note"] = o.Note
		}
		if o.Leak != "" {
			rd["concurrent_reader"] = o.Leak
			res.leaks = append(res.leaks, o.Leak)
		}
		if !alive {
			rd["process"] = "died"
			rd["stderr"] = errText
		}
		steps = append(steps, "("+sin+", "+o.coq(alive)+")")
		readable = append(readable, rd)
		if !alive {
			break
		}
	}
	if died && k <= len(obs) && len(obs) > 0 {
		// every step was reported, then the process died (while shutting down or a moment after the last update)
		last := obs[len(obs)-1]
		i := strings.LastIndex(steps[len(steps)-1], ", (SO ")
		steps[len(steps)-1] = steps[len(steps)-1][:i] + ", " + last.coq(false) + ")"
		readable[len(readable)-1]["process"] = "died"
		readable[len(readable)-1]["stderr"] = errText
	}
	dur, lvl, addr := oracleCoq(strs)
	res.coq = fmt.Sprintf("TX %s %s %s %s %s", dur, lvl, addr, emit.Bool(c.live), emit.List(steps))
	res.readable = map[string]any{"case": "TX", "family": c.family, "live": c.live, "steps": readable}
	res.died = died
	return res
}

// ---------- parent: verify on boundary values, and starting under what it accepts ----------

type vfCase struct {
	bases map[string]val // path -> base value (others: default)
	overs map[string]val
	start bool
	note  string
}

func (g *gen) boundaryVals(f fieldRef) []val {
	s := func(xs ...string) []val {
		var o []val
		for _, x := range xs {
			o = append(o, val{K: "s", S: x})
		}
		return o
	}
	z := func(xs ...int64) []val {
		var o []val
		for _, x := range xs {
			o = append(o, val{K: "z", Z: x})
		}
		return o
	}
	switch f.path() {
	case "proxy.listen":
		return s(":0", "127.0.0.1:0", "localhost:0", "[::1]:0", "localhost:", ":", "", "localhost", ":65536", ":-1", "::1", "example.org:80", ":nosuchservice", "0.0.0.0:0")
	case "webserver.listen":
		return s("localhost:8080", ":0", "", "localhost", ":65536", "x:y:z", ":https")
	case "proxy.ca_cert", "proxy.ca_key":
		return s("", "a", "ssl/ca.crt")
	case "cache.file.dir":
		return s("", "cachedir", "cachedir/", "a/b/c", "./c", "dir with space/")
	case "cache.type":
		return s("file", "memory", "", "disk", "Memory", "FILE")
	case "cache.lock_shards":
		return z(-1, 0, 1, 2, 3, 1024, 1048575, 1048576, 1048577, 4294967296, math.MaxInt64, math.MinInt64)
	case "cache.memory.memory_budget_percent":
		return z(-1, 0, 1, 50, 100, 101, math.MaxInt64)
	case "cache.cleanup_interval":
		return z(math.MinInt64, -1, 0, 1, 1000, int64(time.Millisecond), int64(time.Hour), math.MaxInt64)
	case "cache.max_cache_size":
		return z(-1, 0, 1, 1024, 1536, 10<<30, math.MaxInt64)
	case "logging.max_size":
		return z(0, 1, 500<<20, math.MaxInt64)
	case "logging.max_backups":
		return z(math.MinInt64, -1, 0, 3, math.MaxInt64)
	case "logging.level":
		return z(-8, -4, 0, 4, 8, 12, math.MaxInt32)
	case "logging.file":
		return s("", "var/proxy.log")
	case "proxy.cache_policy.default_max_age":
		return z(math.MinInt64, -1, 0, 1, int64(time.Hour), math.MaxInt64)
	}
	switch f.kind {
	case "KBool":
		return []val{{K: "b", B: false}, {K: "b", B: true}}
	case "KStr":
		return s("", "x")
	case "KInt", "KSize", "KDur", "KLevel":
		return z(math.MinInt64, -1, 0, 1, math.MaxInt64)
	}
	return nil
}

// safeToStart: the child really opens the listen address and clears the cache directory
func safeToStart(c vfCase) bool {
	if len(c.overs) > 0 {
		return false
	}
	if v, ok := c.bases["cache.file.dir"]; ok {
		if v.S == "" || strings.HasPrefix(v.S, "/") || strings.Contains(v.S, "..") {
			return false
		}
	}
	return true
}

func (g *gen) vfCases(quick bool) []vfCase {
	r := g.r
	var cs []vfCase
	cs = append(cs, vfCase{bases: map[string]val{}, overs: map[string]val{}, start: true, note: "defaults"})
	for _, f := range g.fs {
		for _, b := range g.boundaryVals(f) {
			c := vfCase{bases: map[string]val{f.path(): b}, overs: map[string]val{}, note: "base " + f.path()}
			if f.path() == "cache.file.dir" {
				c.bases["cache.type"] = val{K: "s", S: "file"}
			}
			c.start = true
			cs = append(cs, c)
			// the same value as a command-line override over a default base, and a default override over it
			if !quick || r.Chance(40) {
				cs = append(cs, vfCase{bases: map[string]val{}, overs: map[string]val{f.path(): b}, note: "override " + f.path()})
				cs = append(cs, vfCase{bases: map[string]val{f.path(): b}, overs: map[string]val{f.path(): valOf(f.read())}, note: "base under default override " + f.path()})
			}
		}
	}
	for _, api := range []bool{false, true} {
		for _, dash := range []bool{false, true} {
			b := map[string]val{"webserver.api_disabled": {K: "b", B: api}, "webserver.dashboard_disabled": {K: "b", B: dash}}
			cs = append(cs, vfCase{bases: b, overs: map[string]val{}, start: true, note: "combination"})
			for _, api2 := range []bool{false, true} {
				for _, dash2 := range []bool{false, true} {
					o := map[string]val{"webserver.api_disabled": {K: "b", B: api2}, "webserver.dashboard_disabled": {K: "b", B: dash2}}
					cs = append(cs, vfCase{bases: b, overs: o, note: "combination under overrides"})
				}
			}
		}
	}
	// several boundaries at once
	n := 100
	if !quick {
		n = 2000
	}
	for k := 0; k < n; k++ {
		c := vfCase{bases: map[string]val{}, overs: map[string]val{}, note: "multi"}
		for j := 2 + r.Intn(4); j > 0; j-- {
			f := g.fs[r.Intn(len(g.fs))]
			bv := g.boundaryVals(f)
			if r.Chance(75) {
				c.bases[f.path()] = emit.Pick(r, bv)
			} else {
				c.overs[f.path()] = emit.Pick(r, bv)
			}
		}
		c.start = r.Chance(30)
		cs = append(cs, c)
	}
	return cs
}

type vfResult struct {
	coq      string
	readable map[string]any
	accepted bool
	started  string
	file     []byte // non-nil: start a child under this file
	finish   func(started string, ok bool) (string, map[string]any)
}

func (g *gen) runVF(c vfCase) vfResult {
	cfg := config.NewDefault()
	fs := fieldsOf(cfg)
	for p, v := range c.bases {
		f := fs[g.by[p]]
		f.setBase(v.reflect(f.typ))
	}
	strs := map[string]bool{}
	saved := make([]val, len(fs))
	for i, f := range fs {
		saved[i] = valOf(f.read())
	}
	for p, v := range c.overs {
		f := fs[g.by[p]]
		f.overwrite(v.reflect(f.typ))
	}
	eff := make([]val, len(fs))
	for i, f := range fs {
		eff[i] = valOf(f.read())
		for _, v := range []val{eff[i], saved[i]} {
			if v.K == "s" {
				strs[v.S] = true
			}
		}
	}
	accepted := config.VerifVerify(cfg) == nil
	var file []byte
	if accepted && c.start && safeToStart(c) {
		// the file an accepted update would leave: the saved values
		tmp := filepath.Join("children", fmt.Sprintf("vf%d.json", g.r.U64()))
		os.MkdirAll("children", 0755)
		config.VerifSetConfigPath(tmp)
		clone := config.NewDefault()
		cfs := fieldsOf(clone)
		for i, f := range cfs {
			f.setBase(saved[i].reflect(f.typ))
		}
		if err := config.VerifPersist(clone); err != nil {
			panic(err)
		}
		file, _ = os.ReadFile(tmp)
		os.Remove(tmp)
		config.VerifSetConfigPath("var/config.json")
	}
	_, _, addr := oracleCoq(strs)
	res := vfResult{accepted: accepted, file: file}
	res.finish = func(started string, ok bool) (string, map[string]any) {
		return fmt.Sprintf("VF %s %s %s %s %s", addr, patchVals(eff), patchVals(saved), emit.Bool(accepted), emit.Bool(ok)),
			map[string]any{"case": "VF", "note": c.note, "bases": c.bases, "overrides": c.overs, "verify_accepts": accepted, "start": started}
	}
	return res
}

// ---------- the stage ----------

func runC18() {
	switch *flagChild {
	case "txn":
		childTxn()
		return
	case "start":
		childStart()
		return
	case "refused":
		childRefused()
		return
	}
	if *flagStage == "fields" {
		runFields()
		return
	}
	var err error
	if selfPath, err = os.Executable(); err != nil {
		panic(err)
	}
	r := emit.NewRand(*flagSeed)
	cfg0 := config.NewDefault()
	fs := fieldsOf(cfg0)
	g := &gen{r: r, fs: fs, by: map[string]int{}}
	for i, f := range fs {
		g.by[f.path()] = i
	}
	meta := emit.NewMeta("conf/C18", *flagSeed, *flagTier)
	meta.Rule = "TX: one child process per history: LoadOrDefault on an absent file, an empty update, 0-3 command-line overrides (valid ones on cache/listen/log settings, sometimes an unworkable one), then (80%) proxy.NewProxy with its memory cache and janitor, then 3-10 update documents (one valid key / several valid keys / one refused value: out of range, ill-formed, wrong JSON type / several keys of which one is refused / unknown keys / nested garbage incl. objects given to properties and nulls / api-dashboard combinations / empty / nil map / boundary pairs), 22% of them under RLIMIT_FSIZE near the file length; plus sweeps with the limit at every byte count of the file. After every step: Read() of every property, what a recording listener on every property was told (after quiescence through the event hooks), var/config.json leaf by leaf, load() of the file, the cache's limit / memory cap / janitor interval, liveness. VF: config.verify on every boundary value of every property as base, as override and under an override, all api/dashboard combinations, random multi-boundary configurations; for the accepted base-only ones a child process that loads the file, starts proxy.NewProxy (cache + janitor), listens on the configured address when it is a local any-port address, serves 3 requests and shuts down. distinct by printed case; non-trivial = TX with a refused non-empty update, VF accepted"

	// the default file: fault limits are chosen around its length, its leaves are the base of the compact notation
	probe, _ := json.Marshal([]stepIn{{Kind: "update", Doc: "{}", Limit: 1 << 40}})
	pout, perr := runChild("txn", probe, 60*time.Second)
	var pobs stepObs
	if err := json.Unmarshal(bytes.SplitN(pout, []byte("\n"), 2)[0], &pobs); err != nil {
		panic("conf: probe child failed: " + perr + string(pout))
	}
	l0 := pobs.Wlen
	if l0 == 0 {
		l0 = 850
	}
	for _, f := range fs {
		baseVals = append(baseVals, valOf(f.read()))
	}
	baseLeaves = pobs.File.Leaves
	var bl []string
	for _, l := range baseLeaves {
		bl = append(bl, l.coq())
	}
	w := &emit.Writer{Dir: *flagOut, Prefix: "txn", ShardSize: 24,
		Imports: "From Reservoir Require Import Base.Prelude Model.ByteSize Model.ConfigProp Model.ConfigTxn Check.ConfigTxn.\n" +
			"Definition tbl : table :=\n " + tableCoq(fs) + ".\n" +
			"Definition base_vals : list fval := defaults tbl.\n" +
			"Definition base_leaves : list leaf := " + emit.List(bl) + ".",
		CaseType: "txn_case", CheckFn: "check_txn tbl"}

	nHist, sweepStep := 360, int64(1)
	if thorough() {
		nHist = 9000
	}
	var hists []txnCase
	for i := 0; i < nHist; i++ {
		hists = append(hists, g.genHistory(l0))
	}
	// sweeps: the write limit at every byte count 0 .. L+3 of the file, the document toggling settings so
	// that every accepted step changes the file
	sweepDocs := []string{`{"logging":{"compress":%t},"cache":{"max_cache_size":"%dK"}}`,
		`{"proxy":{"retry_on_range_416":%t},"cache":{"cleanup_interval":"%dm","lock_shards":7}}`,
		`{"webserver":{"dashboard_disabled":%t},"logging":{"max_backups":%d,"file":""}}`}
	if !thorough() {
		sweepDocs = sweepDocs[:1]
	}
	var sweep txnCase
	var sweeps []txnCase
	flush := func() {
		if len(sweep.steps) > 2 {
			sweeps = append(sweeps, sweep)
		}
	}
	newSweep := func(live bool) txnCase {
		c := txnCase{family: "fault-sweep", live: live}
		c.steps = append(c.steps, stepIn{Kind: "update", Doc: "{}", Limit: -1})
		if live {
			c.steps = append(c.steps, stepIn{Kind: "live"})
		}
		return c
	}
	tog := 0
	for _, sd := range sweepDocs {
		sweep = newSweep(true)
		for n := int64(0); n <= l0+12; n += sweepStep {
			tog++
			doc := fmt.Sprintf(sd, tog%2 == 0, 1+tog%7)
			sweep.steps = append(sweep.steps, stepIn{Kind: "update", Doc: doc, Limit: n})
			if len(sweep.steps) >= 90 {
				flush()
				sweep = newSweep(len(sweeps)%2 == 0)
			}
		}
		flush()
	}
	// spread the (long) sweeps evenly over the case files
	if len(sweeps) > 0 {
		gap := len(hists)/len(sweeps) + 1
		var merged []txnCase
		k := 0
		for i, h := range hists {
			if i%gap == 0 && k < len(sweeps) {
				merged = append(merged, sweeps[k])
				k++
			}
			merged = append(merged, h)
		}
		merged = append(merged, sweeps[k:]...)
		hists = merged
	}

	// run the histories, a few children at a time
	results := make([]txnResult, len(hists))
	sem := make(chan struct{}, 6)
	var wg sync.WaitGroup
	for i := range hists {
		wg.Add(1)
		sem <- struct{}{}
		go func(i int) {
			defer wg.Done()
			results[i] = g.runHistory(hists[i])
			<-sem
		}(i)
	}
	wg.Wait()
	for i, res := range results {
		w.Add(res.coq)
		meta.Count("case", "TX")
		meta.Count("family", hists[i].family)
		meta.Count("live", strconv.FormatBool(hists[i].live))
		for s, n := range res.status {
			for k := 0; k < n; k++ {
				meta.Count("update-status", map[string]string{"0": "refused", "1": "success", "2": "restart-required", "3": "panicked"}[s])
			}
		}
		for _, st := range hists[i].steps {
			if st.Kind == "update" && st.Limit >= 0 {
				meta.Count("write-limit", "set")
			}
		}
		if res.died {
			meta.Count("child", "died")
		}
		meta.Record(res.coq, res.nontriv, res.readable)
		if len(res.leaks) > 0 {
			meta.DirectFail(map[string]any{"kind": "staged-value-visible", "what": "while an update was being checked, written and committed, a concurrent Read() returned a value that was in force neither before nor after it",
				"observations": res.leaks, "history": res.readable})
		}
	}

	// verify on boundary values (the generator draws from r: sequentially), starts in parallel
	vcs := g.vfCases(!thorough())
	vres := make([]vfResult, len(vcs))
	for i, c := range vcs {
		vres[i] = g.runVF(c)
	}
	for i := range vres {
		wg.Add(1)
		sem <- struct{}{}
		go func(i int) {
			defer wg.Done()
			defer func() { <-sem }()
			started, ok := "not-run", true
			if vres[i].file != nil {
				out, errText := runChild("start", vres[i].file, 30*time.Second)
				started = strings.TrimSpace(string(out))
				if !strings.HasPrefix(started, "started ") {
					ok = false
					started = "died: " + started + " " + errText
				}
			}
			vres[i].started = started
			vres[i].coq, vres[i].readable = vres[i].finish(started, ok)
		}(i)
	}
	wg.Wait()
	for i, res := range vres {
		w.Add(res.coq)
		meta.Count("case", "VF")
		meta.Count("vf", strings.SplitN(vcs[i].note, " ", 2)[0])
		meta.Count("verify", map[bool]string{true: "accepts", false: "rejects"}[res.accepted])
		if res.started != "not-run" {
			meta.Count("start-child", map[bool]string{true: "started", false: "died"}[strings.HasPrefix(res.started, "started ")])
		}
		meta.Record(res.coq, res.accepted, res.readable)
	}
	// start-up over a refused file that carries non-default values (direct)
	if out, errText := runChild("refused", nil, 30*time.Second); true {
		lines := strings.Split(strings.TrimSpace(string(out)), "\n")
		if len(lines) < 3 {
			meta.DirectFail(map[string]any{"kind": "refused-file-start", "what": "the start-up over a refused configuration file did not complete", "output": string(out), "stderr": errText})
		}
		for _, l := range lines {
			f := strings.SplitN(l, " ", 3)
			if len(f) >= 2 {
				meta.Count("refused_file_start", f[0]+" "+f[1])
				if f[1] == "bad" {
					meta.DirectFail(map[string]any{"kind": "refused-file-start", "file": f[0], "what": "start-up over an existing configuration file that is refused: the defaults are not what is in force / what the file left behind says", "detail": l})
				}
			}
		}
	}
	os.RemoveAll("children")
	w.Flush()
	meta.Write(*flagOut, w.Files)
	fmt.Printf("conf/C18: %d cases in %d files (default file %d bytes)\n", w.Total, len(w.Files), l0)
}
