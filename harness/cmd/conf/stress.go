package main

// C19stress: back-to-back changes of one setting with a swept tiny gap, many rounds, against the REAL
// utils/event. After every pair the subscriber must end up with the second value; a value left queued
// while no delivery goroutine is alive (running=false, pending>0) is a stranded notification.
// Decided by the harness itself ("direct" stage): the window between a drainer's last look at its
// queue and its retirement cannot be forced from outside, it can only be hit by volume.

import (
	"encoding/json"
	"fmt"
	"os"
	"path/filepath"
	"reservoir/config"
	"runtime"
	"sync"
	"sync/atomic"
	"time"

	"reservoir/utils/event"
)

func init() { props["C19stress"] = runC19Stress }

func runC19Stress() {
	rounds := 150000
	if thorough() {
		rounds = 2000000
	}
	type failure struct {
		Case  string `json:"case"`
		Round int    `json:"round"`
		What  string `json:"what"`
	}
	failures := []failure{}
	total := 0
	for _, listeners := range []int{1, 3} {
		ev := event.New[int]()
		last := make([]atomic.Int64, listeners)
		handles := make([]any, listeners)
		for i := 0; i < listeners; i++ {
			i := i
			ev.Subscribe(func(v int) { last[i].Store(int64(v)) })
			handles[i] = ev.VerifLast()
		}
		v := 0
		for round := 0; round < rounds && len(failures) < 3; round++ {
			total++
			v += 2
			ev.Fire(v - 1)
			for g := 0; g < round%64; g++ { // swept gap
				runtime.Gosched()
			}
			ev.Fire(v)
			deadline := time.Now().Add(2 * time.Second)
			for i := 0; i < listeners; i++ {
				for last[i].Load() != int64(v) {
					if _, running, pending := ev.VerifSubState(handles[i]); !running && pending > 0 {
						// give a just-started drainer a moment before calling it stranded
						time.Sleep(2 * time.Millisecond)
						if _, running2, pending2 := ev.VerifSubState(handles[i]); !running2 && pending2 > 0 && last[i].Load() != int64(v) {
							failures = append(failures, failure{"back-to-back", round, fmt.Sprintf("listener %d of %d: value %d stays queued (pending=%d) with no delivery goroutine alive; the listener still follows %d", i, listeners, v, pending2, last[i].Load())})
							break
						}
					}
					if time.Now().After(deadline) {
						failures = append(failures, failure{"back-to-back", round, fmt.Sprintf("listener %d of %d: fired %d then %d; 2s later it still follows %d", i, listeners, v-1, v, last[i].Load())})
						break
					}
					runtime.Gosched()
				}
				if len(failures) > 0 {
					break
				}
			}
		}
	}
	// shutting one component down while a change is being announced: every OTHER live listener still gets the
	// change, exactly once
	rounds2 := 10000
	if thorough() {
		rounds2 = 100000
	}
	for round := 0; round < rounds2 && len(failures) < 3; round++ {
		total++
		const n = 24
		ev := event.New[int]()
		var got [n]atomic.Int64
		unsubs := make([]event.Unsubscribe, n)
		for i := 0; i < n; i++ {
			i := i
			unsubs[i] = ev.Subscribe(func(v int) { got[i].Add(1) })
		}
		victim := round % 3 // an early subscriber: its removal shifts the later ones
		var wg sync.WaitGroup
		wg.Add(2)
		go func() { defer wg.Done(); ev.Fire(round) }()
		go func() {
			defer wg.Done()
			for g := 0; g < round%17; g++ {
				runtime.Gosched()
			}
			unsubs[victim]()
		}()
		wg.Wait()
		deadline := time.Now().Add(2 * time.Second)
		for i := 0; i < n; i++ {
			if i == victim {
				continue
			}
			for got[i].Load() < 1 && time.Now().Before(deadline) {
				runtime.Gosched()
			}
		}
		time.Sleep(50 * time.Microsecond)
		for i := 0; i < n; i++ {
			if i == victim {
				continue
			}
			if c := got[i].Load(); c != 1 {
				failures = append(failures, failure{"fire-vs-unsubscribe", round, fmt.Sprintf("listener %d of %d (still subscribed) received the change %d times while listener %d was being unsubscribed", i, n, c, victim)})
				break
			}
		}
	}
	// settings without a listener (the retry switches, the cache policy) are followed by READING them on every request:
	// two readers spin on a real property while it is changed many times; after each committed change the value read
	// is the new one (a reader that lands inside a commit must not pin the old value)
	{
		cfg := config.NewDefault()
		p := &cfg.Proxy.RetryOnRange416
		stop := make(chan struct{})
		var rd sync.WaitGroup
		var reads atomic.Int64
		for g := 0; g < 2; g++ {
			rd.Add(1)
			go func() {
				defer rd.Done()
				for {
					select {
					case <-stop:
						return
					default:
						p.Read()
						reads.Add(1)
					}
				}
			}()
		}
		rounds3 := 300000
		if thorough() {
			rounds3 = 3000000
		}
		v := p.Read()
		for round := 0; round < rounds3 && len(failures) < 3; round++ {
			total++
			v = !v
			p.Stage(v)
			p.CommitStaged()
			if got := p.Read(); got != v {
				time.Sleep(20 * time.Millisecond)
				failures = append(failures, failure{"read-vs-commit", round, fmt.Sprintf("proxy.retry_on_range_416 was committed as %v while two request-path readers were reading it; read back right after the commit: %v, 20 ms later: %v", v, got, p.Read())})
			}
		}
		close(stop)
		rd.Wait()
	}
	out := map[string]any{
		"harness": "conf/C19stress", "seed": *flagSeed, "tier": *flagTier, "total": total, "distinct": total, "distinct_nontrivial": total,
		"rule":         "a real property changed 300000 times (Stage+CommitStaged) under two spinning Read()ers: the value read right after each change is the new one; rounds of a Fire racing with the Unsubscribe of an early subscriber among 24 (every other listener gets the value exactly once); pairs of back-to-back Fire calls on one real Event with a swept scheduling gap (0-63 yields), 1 and 3 listeners; after every pair each listener must end on the second value; running=false with pending>0 = stranded",
		"distribution": map[string]any{"rounds": map[string]int{"pairs": total}},
		"samples":      []any{map[string]any{"case": "back-to-back", "listeners": 1}},
		"files":        []string{}, "readable": []any{},
		"direct": map[string]any{"total": total, "failures": failures, "mismatches": []any{}},
	}
	b, _ := json.MarshalIndent(out, "", " ")
	if err := os.WriteFile(filepath.Join(*flagOut, "meta.json"), b, 0644); err != nil {
		panic(err)
	}
	fmt.Printf("conf/C19stress: %d pairs, %d failures\n", total, len(failures))
}
