package main

import (
	"encoding/json"
	"flag"
	"fmt"
	"os"
	"reflect"
	"sort"
	"strconv"
	"strings"

	"reservoir/config"
	"verifharness/emit"
)

func init() { props["C17f"] = runFlagTable }

// Coq string literal
func cq(s string) string { return "\"" + strings.ReplaceAll(s, "\"", "\"\"") + "\"" }

// registeredFlags runs the real flag layer without arguments and lists what it registered.
func registeredFlags() (names []string, isBool map[string]bool, isInt map[string]bool) {
	cfg := config.NewDefault()
	flag.CommandLine = flag.NewFlagSet("reservoir", flag.PanicOnError)
	saved := os.Args
	os.Args = []string{"reservoir"}
	config.OverrideFromFlags(cfg)
	os.Args = saved
	isBool, isInt = map[string]bool{}, map[string]bool{}
	flag.CommandLine.VisitAll(func(f *flag.Flag) {
		names = append(names, f.Name)
		if b, ok := f.Value.(interface{ IsBoolFlag() bool }); ok && b.IsBoolFlag() {
			isBool[f.Name] = true
		} else if strings.Contains(reflect.TypeOf(f.Value).String(), "intValue") {
			isInt[f.Name] = true
		}
	})
	sort.Strings(names)
	return
}

// flagText: an argument for the flag and the text the flag carries (what follows '='; "true" for a bare boolean flag)
func flagText(r *emit.Rand, name string, isBool, isInt bool) (arg, raw string) {
	switch {
	case isBool:
		raw = emit.Pick(r, []string{"", "true", "false", "1", "0", "T", "F", "TRUE", "False", "t", "f", "True", "FALSE"})
		if raw == "" {
			return "--" + name, "true"
		}
	case isInt:
		raw = emit.Pick(r, []string{"0", "1", "3", "7", "+5", "-2", strconv.Itoa(r.Intn(100000)), strconv.Itoa(r.Intn(1 << 30))})
	case name == "log-level":
		raw = emit.Pick(r, []string{"DEBUG", "INFO", "WARN", "ERROR", "debug", "info", "warn", "error", "Debug", "Warn", "eRRoR"})
	case name == "log-file-max-size":
		raw = fmt.Sprintf("%d%c", r.Intn(5000), "BKMGT"[r.Intn(5)])
		if r.Chance(15) {
			raw = emit.Pick(r, []string{"0B", "1B", "500M", "1024K", "007G", "8388607T"})
		}
	case strings.HasSuffix(name, "listen"):
		raw = genListen(r)
		if r.Chance(25) {
			raw = emit.Pick(r, []string{":9999", "localhost:8080"}) // the declared defaults: still an override
		}
	default:
		raw = genString(r)
		if r.Chance(25) {
			raw = emit.Pick(r, []string{"ssl/ca.crt", "ssl/ca.key", "var/cache/"}) // declared defaults
		}
	}
	return "--" + name + "=" + raw, raw
}

func kvList(prs []propRef) string {
	var xs []string
	for _, p := range prs {
		xs = append(xs, fmt.Sprintf("(%s, %s)", cq(p.path), fval(p.read())))
	}
	return emit.List(xs)
}

func loadedList(cfgPath string) string {
	loaded, err := config.VerifLoad(cfgPath)
	if err != nil {
		return "[]"
	}
	var prs []propRef
	walkProps(reflect.ValueOf(loaded), "", &prs)
	return kvList(prs)
}

// docValue: the JSON form of a typed property value, as an API client would send it
func docValue(v reflect.Value) any {
	b, err := json.Marshal(v.Interface())
	if err != nil {
		panic(err)
	}
	dec := json.NewDecoder(strings.NewReader(string(b)))
	dec.UseNumber() // integers keep every digit
	var doc any
	if err := dec.Decode(&doc); err != nil {
		panic(err)
	}
	return doc
}

func runFlagTable() {
	r := emit.NewRand(*flagSeed)
	meta := emit.NewMeta("conf/C17f", *flagSeed, *flagTier)
	w := &emit.Writer{Dir: *flagOut, Prefix: "flags", ShardSize: 60,
		Imports:  "From Reservoir Require Import Base.Prelude Model.ByteSize Model.ConfigProp Model.Flags Check.Flags.\nFrom Coq Require Import String.\nOpen Scope string_scope.",
		CaseType: "flag_case", CheckFn: "check_flags"}
	meta.Rule = "FReg: the flags config.OverrideFromFlags registers with the flag package. FL: a random valid configuration (every property found by reflection), saved; one registered flag (every one in turn, then random) with a value of its domain (booleans in every spelling strconv.ParseBool accepts and bare; decimal ints with sign; sizes digits+unit; the four level names in any case; listen addresses; arbitrary non-empty strings; declared defaults included) given to the REAL flag layer (fresh flag set, os.Args, config.OverrideFromFlags); observed: every property's effective value afterwards; the values a flag-less process loads from the file saved afterwards; then an accepted API update (60% of the setting the flag changed) and the same two observations. non-trivial = the flag changed a value"

	cfgPath := "var/config.json"
	config.VerifSetConfigPath(cfgPath)

	names, isBool, isInt := registeredFlags()
	var qn []string
	for _, n := range names {
		qn = append(qn, cq(n))
	}
	c := "FReg " + emit.List(qn)
	w.Add(c)
	meta.Count("case", "FReg")
	meta.Record(c, true, map[string]any{"registered": names})

	var usable []string
	for _, n := range names {
		if n != "version" {
			usable = append(usable, n)
		}
	}
	n := 6 * len(usable)
	if thorough() {
		n = 150 * len(usable)
	}
	for i := 0; i < n; i++ {
		name := usable[i%len(usable)]
		if i >= 3*len(usable) {
			name = emit.Pick(r, usable)
		}
		os.Remove(cfgPath)
		cfg := config.NewDefault()
		config.VerifResetRestartNeeded()
		var prs []propRef
		walkProps(reflect.ValueOf(cfg), "", &prs)
		byPath := map[string]propRef{}
		for _, p := range prs {
			byPath[p.path] = p
			if i%len(usable) != 0 || i >= len(usable) { // the very first round keeps the defaults
				p.setBase(genValue(r, p))
			}
		}
		// the one combination rule of config.verify (api_disabled requires dashboard_disabled) has to hold before
		// and after the flag
		if d, ok := byPath["webserver.dashboard_disabled"]; ok {
			if a, ok := byPath["webserver.api_disabled"]; ok {
				if name == "no-dashboard" || (a.read().Bool() && !d.read().Bool()) {
					a.setBase(reflect.ValueOf(false))
				}
				if name == "no-api" {
					d.setBase(reflect.ValueOf(true))
				}
			}
		}
		if st, err := config.UpdatePartialFromConfig(cfg, map[string]any{}); err != nil || st == config.UpdateStatusFailed {
			panic(fmt.Sprintf("conf: saving a valid configuration failed: %v", err))
		}
		before := kvList(prs)
		beforeVals := map[string]any{}
		for _, p := range prs {
			beforeVals[p.path] = p.read().Interface()
		}
		arg, raw := flagText(r, name, isBool[name], isInt[name])
		overrideViaFlag(cfg, arg)
		after := kvList(prs)
		var changed []string
		for _, p := range prs {
			if p.read().Interface() != beforeVals[p.path] {
				changed = append(changed, p.path)
			}
		}
		if st, err := config.UpdatePartialFromConfig(cfg, map[string]any{}); err != nil || st == config.UpdateStatusFailed {
			panic(fmt.Sprintf("conf: saving after %s failed: %v", arg, err))
		}
		loaded1 := loadedList(cfgPath)

		// an accepted API update
		var cand []propRef
		for _, p := range prs {
			if p.path != "webserver.api_disabled" && p.path != "webserver.dashboard_disabled" {
				cand = append(cand, p)
			}
		}
		up := emit.Pick(r, cand)
		if len(changed) > 0 && r.Chance(60) {
			if p := byPath[changed[0]]; p.path != "webserver.api_disabled" && p.path != "webserver.dashboard_disabled" {
				up = p
			}
		}
		uv := genValue(r, up)
		if st, err := config.UpdatePartialFromConfig(cfg, nested(up.path, docValue(uv))); err != nil || st == config.UpdateStatusFailed {
			panic(fmt.Sprintf("conf: valid update of %s to %v after %s rejected: %v", up.path, uv.Interface(), arg, err))
		}
		afterUpd := kvList(prs)
		loaded2 := loadedList(cfgPath)

		c := fmt.Sprintf("FL %s %s %s %s %s %s %s %s %s", cq(name), emit.Str(raw), before, after, loaded1, cq(up.path), fval(uv), afterUpd, loaded2)
		w.Add(c)
		meta.Count("case", "FL")
		meta.Count("flag", name)
		meta.Count("changed", strconv.Itoa(len(changed)))
		meta.Count("update_addresses_changed_setting", strconv.FormatBool(len(changed) > 0 && up.path == changed[0]))
		meta.Record(c, len(changed) > 0, map[string]any{"arg": arg, "changed": changed, "then_update": up.path})
	}
	w.Flush()
	meta.Write(*flagOut, w.Files)
	fmt.Printf("conf/C17f: %d cases in %d files\n", w.Total, len(w.Files))
}
