package main

import (
	"encoding/json"
	"flag"
	"fmt"
	"log/slog"
	"math"
	"os"
	"reflect"
	"strconv"
	"strings"
	"time"
	"unicode/utf8"

	"reservoir/config"
	"reservoir/utils/bytesize"
	"reservoir/utils/duration"
	"verifharness/emit"
)

func init() { props["C17"] = runC17 }

// ---------- reflection over config.Config: every ConfigProp, in declaration order ----------

type propRef struct {
	path string        // dotted json path
	ptr  reflect.Value // *ConfigProp[T]
	kind string        // KStr KBool KInt KSize KDur KLevel
	typ  reflect.Type  // T
}

func walkProps(val reflect.Value, prefix string, out *[]propRef) {
	if val.Kind() == reflect.Pointer {
		val = val.Elem()
	}
	typ := val.Type()
	for i := 0; i < val.NumField(); i++ {
		f := val.Field(i)
		tag, _ := typ.Field(i).Tag.Lookup("json")
		p := tag
		if prefix != "" {
			p = prefix + "." + tag
		}
		if f.Kind() != reflect.Struct || !f.CanAddr() {
			continue
		}
		addr := f.Addr()
		rd := addr.MethodByName("Read")
		if rd.IsValid() && addr.MethodByName("Stage").IsValid() {
			t := rd.Type().Out(0)
			*out = append(*out, propRef{path: p, ptr: addr, kind: kindOf(t), typ: t})
			continue
		}
		walkProps(addr, p, out)
	}
}

func kindOf(t reflect.Type) string {
	switch t {
	case reflect.TypeOf(bytesize.ByteSize(0)):
		return "KSize"
	case reflect.TypeOf(duration.Duration(0)):
		return "KDur"
	case reflect.TypeOf(slog.Level(0)):
		return "KLevel"
	}
	switch t.Kind() {
	case reflect.String:
		return "KStr"
	case reflect.Bool:
		return "KBool"
	case reflect.Int, reflect.Int64:
		return "KInt"
	}
	panic("conf: config property of a type the harness does not know: " + t.String())
}

func (p propRef) read() reflect.Value { return p.ptr.MethodByName("Read").Call(nil)[0] }
func (p propRef) setBase(v reflect.Value) {
	p.ptr.MethodByName("Stage").Call([]reflect.Value{v})
	p.ptr.MethodByName("CommitStaged").Call(nil)
}
func (p propRef) overwrite(v reflect.Value) {
	p.ptr.MethodByName("Overwrite").Call([]reflect.Value{v})
}

// overrideViaFlag gives one command-line argument to the real flag layer (a fresh flag set, config.OverrideFromFlags).
func overrideViaFlag(cfg *config.Config, arg string) {
	flag.CommandLine = flag.NewFlagSet("reservoir", flag.PanicOnError)
	saved := os.Args
	os.Args = []string{"reservoir", arg}
	config.OverrideFromFlags(cfg)
	os.Args = saved
}

// fval prints a property value as a Gallina fval.
func fval(v reflect.Value) string {
	switch v.Kind() {
	case reflect.String:
		return "(VS " + emit.Str(v.String()) + ")"
	case reflect.Bool:
		return "(VB " + emit.Bool(v.Bool()) + ")"
	default:
		return "(VZ " + emit.Z(v.Int()) + ")"
	}
}

// ---------- generators of valid values ----------

var c17Strings = []string{"a", ":9999", "localhost:8080", "ssl/ca.crt", "var/cache/", "/tmp/x y", "C:\\dir\\file", "\"quoted\"", "<&>", "tab\there",
	"nl\nline", "é", "日本語", "\u2028sep", "emoji😀", "nul\x00byte", "back\\slash", "/", " ", "%2F", "ctrl\x01\x1f", "\u007f"}

func genString(r *emit.Rand) string {
	if r.Chance(40) {
		return emit.Pick(r, c17Strings)
	}
	n := 1 + r.Intn(12)
	var sb strings.Builder
	for i := 0; i < n; i++ {
		switch r.Intn(6) {
		case 0:
			sb.WriteRune(rune(r.Intn(0x80)))
		case 1:
			sb.WriteRune(rune(0x80 + r.Intn(0x780)))
		case 2:
			c := rune(0x800 + r.Intn(0xF800))
			if c >= 0xD800 && c <= 0xDFFF {
				c = 'x'
			}
			sb.WriteRune(c)
		case 3:
			sb.WriteRune(rune(0x10000 + r.Intn(0x100000)))
		default:
			sb.WriteByte("abcXYZ019/._-:"[r.Intn(14)])
		}
	}
	s := sb.String()
	if !utf8.ValidString(s) {
		panic("generator produced invalid UTF-8")
	}
	return s
}

func genSize(r *emit.Rand, min int64) int64 {
	units := []int64{1, 1 << 10, 1 << 20, 1 << 30, 1 << 40}
	var n int64
	switch r.Intn(6) {
	case 0:
		n = int64(r.Intn(5000))
	case 1:
		u := emit.Pick(r, units)
		n = int64(1+r.Intn(2000)) * u
	case 2:
		u := emit.Pick(r, units)
		n = int64(1+r.Intn(2000))*u + int64(r.Intn(3)) - 1
	case 3:
		n = int64(r.U64() >> 1)
	case 4:
		n = int64(r.U64() >> uint(1+r.Intn(63)))
	default:
		n = emit.Pick(r, []int64{1, 1023, 1024, 1025, 1536, math.MaxInt64, math.MaxInt64 - 1, 1<<40 + 1<<39, 10 << 30, 500 << 20})
	}
	if n < min {
		n = min
	}
	return n
}

func genDuration(r *emit.Rand, positive bool) int64 {
	var n int64
	switch r.Intn(6) {
	case 0:
		n = int64(r.Intn(1000)) * int64(time.Second)
	case 1:
		n = int64(r.Intn(100000))*int64(time.Millisecond) + int64(r.Intn(1000))
	case 2:
		n = int64(r.U64() >> 1)
	case 3:
		n = int64(r.U64() >> uint(1+r.Intn(63)))
	case 4:
		n = emit.Pick(r, []int64{1, 999, 1000, 1001, 999999, 1000000, 1500000000, int64(90 * time.Minute), int64(time.Hour), math.MaxInt64, math.MaxInt64 - 1, 0})
	default:
		n = int64(r.Intn(72)) * int64(time.Hour)
	}
	if positive {
		if n <= 0 {
			n = 1
		}
		return n
	}
	if r.Chance(25) {
		n = -n
	}
	if r.Chance(2) {
		n = math.MinInt64
	}
	return n
}

func genLevel(r *emit.Rand) int64 {
	switch r.Intn(4) {
	case 0:
		return emit.Pick(r, []int64{-4, 0, 4, 8})
	case 1:
		return int64(r.Intn(25)) - 8
	case 2:
		return int64(r.Intn(2001)) - 1000
	default:
		return emit.Pick(r, []int64{math.MaxInt32, math.MinInt32, 1 << 40, -(1 << 40), 12, -5, 1, 7})
	}
}

func genInt(r *emit.Rand) int64 {
	switch r.Intn(4) {
	case 0:
		return int64(r.Intn(10))
	case 1:
		return int64(r.Intn(100000))
	case 2:
		return int64(r.U64())
	default:
		return emit.Pick(r, []int64{0, 1, -1, 1024, math.MaxInt64, math.MinInt64, math.MaxInt32, 1 << 53, 1<<53 + 1})
	}
}

// genListen produces a listen address config.verify accepts: host:port with a numeric or well-known port.
func genListen(r *emit.Rand) string {
	host := emit.Pick(r, []string{"", "localhost", "127.0.0.1", "0.0.0.0", "[::1]", "[::]", "example.org", "h-" + strconv.Itoa(r.Intn(1000)), "été.example", "[fe80::1%25eth0]"})
	port := emit.Pick(r, []string{"0", "1", "80", "8080", "9999", "65535", "http", "https", "", "0080", strconv.Itoa(r.Intn(65536))})
	return host + ":" + port
}

// genValue produces a value that config.verify accepts for the property at path.
func genValue(r *emit.Rand, p propRef) reflect.Value {
	v := reflect.New(p.typ).Elem()
	switch p.kind {
	case "KStr":
		switch p.path {
		case "cache.type":
			v.SetString(emit.Pick(r, []string{"file", "memory"}))
		case "proxy.listen", "webserver.listen":
			v.SetString(genListen(r))
		default:
			v.SetString(genString(r)) // never empty
		}
	case "KBool":
		v.SetBool(r.Bool())
	case "KInt":
		switch p.path {
		case "cache.memory.memory_budget_percent":
			v.SetInt(int64(r.Intn(101)))
		case "cache.lock_shards":
			v.SetInt(int64(1 + r.Intn(4096)))
		default:
			v.SetInt(genInt(r))
		}
	case "KSize":
		min := int64(0)
		if p.path == "cache.max_cache_size" {
			min = 1
		}
		v.SetInt(genSize(r, min))
	case "KDur":
		v.SetInt(genDuration(r, p.path == "cache.cleanup_interval"))
	case "KLevel":
		v.SetInt(genLevel(r))
	}
	return v
}

// ---------- reading the saved file ----------

func readLeaves(path string) (map[string]string, error) {
	b, err := os.ReadFile(path)
	if err != nil {
		return nil, err
	}
	dec := json.NewDecoder(strings.NewReader(string(b)))
	dec.UseNumber()
	var doc any
	if err := dec.Decode(&doc); err != nil {
		return nil, err
	}
	out := map[string]string{}
	var walk func(prefix string, v any)
	walk = func(prefix string, v any) {
		switch x := v.(type) {
		case map[string]any:
			for k, c := range x {
				p := k
				if prefix != "" {
					p = prefix + "." + k
				}
				walk(p, c)
			}
		case string:
			out[prefix] = x
		case json.Number:
			out[prefix] = x.String()
		case bool:
			out[prefix] = strconv.FormatBool(x)
		default:
			out[prefix] = fmt.Sprint(x)
		}
	}
	walk("", doc)
	return out, nil
}

func nested(path string, value any) map[string]any {
	parts := strings.Split(path, ".")
	var cur any = value
	for i := len(parts) - 1; i >= 0; i-- {
		cur = map[string]any{parts[i]: cur}
	}
	return cur.(map[string]any)
}

// ---------- the stage ----------

func runC17() {
	r := emit.NewRand(*flagSeed)
	meta := emit.NewMeta("conf/C17", *flagSeed, *flagTier)
	w := &emit.Writer{Dir: *flagOut, Prefix: "cfg", ShardSize: 150,
		Imports:  "From Reservoir Require Import Base.Prelude Model.ByteSize Model.ConfigProp Check.ConfigProp.",
		CaseType: "cfg_case", CheckFn: "check_cfg"}
	meta.Rule = "RT: a random valid configuration (every property of config.Config found by reflection; sizes incl. non-unit-multiples, int64 durations, arbitrary slog levels, valid-UTF-8 strings with controls/quotes/non-BMP), optionally with CLI overrides on a random subset, saved through UpdatePartialFromConfig and loaded with load(); SQ: one property (max_cache_size, log max_size, max_backups, memory_budget_percent, log level) through 1-10 operations Overwrite/Update(API)/Stage/Commit/Save with a listener, observing Read, the file and what the listener was told after every step. distinct by printed case; non-trivial = RT with an override or a non-unit-multiple size, SQ with an update after an override"

	cfgPath := "var/config.json"
	config.VerifSetConfigPath(cfgPath)

	nRT, nSQ := 150, 450
	if thorough() {
		nRT, nSQ = 2500, 8000
	}

	// ----- RT
	for i := 0; i < nRT; i++ {
		cfg := config.NewDefault()
		var prs []propRef
		walkProps(reflect.ValueOf(cfg), "", &prs)
		bases := make([]reflect.Value, len(prs))
		overs := make([]bool, len(prs))
		withOver := r.Chance(50)
		nontrivial := false
		for j, p := range prs {
			if i == 0 {
				bases[j] = p.read() // the defaults
			} else {
				bases[j] = genValue(r, p)
				p.setBase(bases[j])
			}
			if p.kind == "KSize" {
				n := bases[j].Int()
				if n > 1024 && n%1024 != 0 {
					nontrivial = true
				}
			}
		}
		if withOver {
			for j, p := range prs {
				if r.Chance(35) {
					ov := genValue(r, p)
					if ov.Interface() == bases[j].Interface() {
						continue
					}
					p.overwrite(ov)
					overs[j] = true
					nontrivial = true
				}
			}
		}
		// the one combination rule of config.verify (webserver.api_disabled requires dashboard_disabled) must hold
		// for the saved and for the effective values: where it does not, the dashboard is switched off too
		for j, p := range prs {
			if p.path != "webserver.dashboard_disabled" {
				continue
			}
			for k, q := range prs {
				if q.path != "webserver.api_disabled" {
					continue
				}
				if bases[k].Bool() && !bases[j].Bool() {
					bases[j] = reflect.ValueOf(true)
					p.setBase(bases[j])
				}
				if q.read().Bool() && !p.read().Bool() {
					p.overwrite(reflect.ValueOf(true))
					overs[j] = true
				}
			}
		}
		config.VerifResetRestartNeeded()
		status, err := config.UpdatePartialFromConfig(cfg, map[string]any{})
		if err != nil || status == config.UpdateStatusFailed {
			panic(fmt.Sprintf("conf: saving a valid configuration failed: %v", err))
		}
		leaves, err := readLeaves(cfgPath)
		if err != nil {
			leaves = map[string]string{}
		}
		loaded, lerr := config.VerifLoad(cfgPath)
		var lprs []propRef
		if lerr == nil {
			walkProps(reflect.ValueOf(loaded), "", &lprs)
		}
		var fields []string
		desc := map[string]any{"case": "RT", "overrides": withOver}
		sizes := map[string]any{}
		for j, p := range prs {
			lv := "(VS [0])" // impossible for a loaded value of any other kind; for strings see below
			if lerr == nil && j < len(lprs) {
				lv = fval(lprs[j].read())
			} else if p.kind == "KStr" {
				lv = "(VB false)"
			}
			fields = append(fields, fmt.Sprintf("FO %s %s %s %s", p.kind, fval(bases[j]), emit.Str(leaves[p.path]), lv))
			if p.kind == "KSize" {
				sizes[p.path] = map[string]any{"bytes": bases[j].Int(), "file": leaves[p.path], "overridden": overs[j]}
			}
		}
		desc["sizes"] = sizes
		desc["load_ok"] = lerr == nil
		c := fmt.Sprintf("RT %s %s", emit.List(fields), emit.Bool(lerr == nil))
		w.Add(c)
		meta.Count("case", "RT")
		meta.Count("overrides", strconv.FormatBool(withOver))
		meta.Record(c, nontrivial, desc)
	}

	// ----- SQ
	for i := 0; i < nSQ; i++ {
		c, desc, nontrivial := runSQ(r, cfgPath)
		w.Add(c)
		meta.Count("case", "SQ")
		meta.Count("prop", desc["prop"].(string))
		meta.Count("steps", strconv.Itoa(len(desc["ops"].([]string))))
		meta.Record(c, nontrivial, desc)
	}

	w.Flush()
	meta.Write(*flagOut, w.Files)
	fmt.Printf("conf/C17: %d cases in %d files\n", w.Total, len(w.Files))
}

// sqProp abstracts the typed API of one property for the history cases.
type sqProp struct {
	path      string
	kind      string
	gen       func(r *emit.Rand) int64
	read      func() int64
	overwrite func(v int64)
	stage     func(v int64)
	commit    func()
	doc       func(r *emit.Rand, v int64) any // JSON value an API client would send
	told      *[]int64
	idle      func() bool
}

func sizeDoc(r *emit.Rand, v int64) any {
	units := []struct {
		c byte
		u int64
	}{{'T', 1 << 40}, {'G', 1 << 30}, {'M', 1 << 20}, {'K', 1 << 10}}
	if r.Chance(60) {
		for _, u := range units {
			if v >= u.u && v%u.u == 0 && r.Chance(70) {
				return strconv.FormatInt(v/u.u, 10) + string(u.c)
			}
		}
	}
	s := strconv.FormatInt(v, 10)
	if r.Chance(10) {
		s = "00" + s
	}
	return s + "B"
}

func waitIdle(idle func() bool) {
	deadline := time.Now().Add(20 * time.Second)
	for !idle() {
		if time.Now().After(deadline) {
			panic("conf: listener deliveries did not settle within 20 s")
		}
		time.Sleep(50 * time.Microsecond)
	}
}

func runSQ(r *emit.Rand, cfgPath string) (string, map[string]any, bool) {
	os.Remove(cfgPath)
	cfg := config.NewDefault()
	config.VerifResetRestartNeeded()
	var sp sqProp
	var mu = make(chan struct{}, 1)
	mu <- struct{}{}
	told := []int64{}
	record := func(v int64) { <-mu; told = append(told, v); mu <- struct{}{} }
	switch r.Intn(5) {
	case 0, 1:
		p := &cfg.Cache.MaxCacheSize
		path := "cache.max_cache_size"
		min := int64(1)
		if r.Bool() {
			p = &cfg.Logging.MaxSize
			path = "logging.max_size"
			min = 0
		}
		p.OnChange(func(v bytesize.ByteSize) { record(int64(v)) })
		h := p.VerifEvent().VerifLast()
		sp = sqProp{path: path, kind: "KSize",
			gen:       func(r *emit.Rand) int64 { return genSize(r, min) },
			read:      func() int64 { return int64(p.Read()) },
			overwrite: func(v int64) { p.Overwrite(bytesize.ByteSize(v)) },
			stage:     func(v int64) { p.Stage(bytesize.ByteSize(v)) },
			commit:    p.CommitStaged,
			doc:       sizeDoc,
			idle: func() bool {
				_, running, pending := p.VerifEvent().VerifSubState(h)
				return !running && pending == 0
			}}
	case 2, 3:
		p := &cfg.Logging.MaxBackups
		path := "logging.max_backups"
		gen := genInt
		if r.Bool() {
			p = &cfg.Cache.Memory.MemoryBudgetPercent
			path = "cache.memory.memory_budget_percent"
			gen = func(r *emit.Rand) int64 { return int64(r.Intn(101)) }
		}
		if path == "logging.max_backups" {
			// 3 is the declared default of --log-file-max-backups: giving it is still an override
			plain := gen
			gen = func(r *emit.Rand) int64 {
				if r.Chance(30) {
					return 3
				}
				return plain(r)
			}
		}
		viaFlag := path == "logging.max_backups"
		p.OnChange(func(v int) { record(int64(v)) })
		h := p.VerifEvent().VerifLast()
		sp = sqProp{path: path, kind: "KInt", gen: gen,
			read: func() int64 { return int64(p.Read()) },
			overwrite: func(v int64) {
				if viaFlag && v%2 == 1 { // odd values go through the real command-line layer
					overrideViaFlag(cfg, fmt.Sprintf("--log-file-max-backups=%d", v))
				} else {
					p.Overwrite(int(v))
				}
			},
			stage:  func(v int64) { p.Stage(int(v)) },
			commit: p.CommitStaged,
			doc:    func(r *emit.Rand, v int64) any { return v },
			idle: func() bool {
				_, running, pending := p.VerifEvent().VerifSubState(h)
				return !running && pending == 0
			}}
	default:
		p := &cfg.Logging.Level
		p.OnChange(func(v slog.Level) { record(int64(v)) })
		h := p.VerifEvent().VerifLast()
		sp = sqProp{path: "logging.level", kind: "KLevel", gen: genLevel,
			read:      func() int64 { return int64(p.Read()) },
			overwrite: func(v int64) { p.Overwrite(slog.Level(v)) },
			stage:     func(v int64) { p.Stage(slog.Level(v)) },
			commit:    p.CommitStaged,
			doc:       func(r *emit.Rand, v int64) any { return slog.Level(v).String() },
			idle: func() bool {
				_, running, pending := p.VerifEvent().VerifSubState(h)
				return !running && pending == 0
			}}
	}
	init := sp.read()
	n := 1 + r.Intn(10)
	staged := false
	var steps []string
	var ops []string
	seenOver, nontrivial := false, false
	for k := 0; k < n; k++ {
		var op string
		choice := r.Intn(10)
		if staged && choice < 3 {
			choice = 8 // no override while a value is staged: commit instead
		}
		switch {
		case choice < 3:
			v := sp.gen(r)
			sp.overwrite(v)
			op = "(SOverride " + emit.Z(v) + ")"
			seenOver = true
		case choice < 6:
			v := sp.gen(r)
			status, err := config.UpdatePartialFromConfig(cfg, nested(sp.path, sp.doc(r, v)))
			if err != nil || status == config.UpdateStatusFailed {
				panic(fmt.Sprintf("conf: valid update of %s to %d rejected: %v", sp.path, v, err))
			}
			op = "(SUpdate " + emit.Z(v) + ")"
			staged = false
			nontrivial = nontrivial || seenOver
		case choice < 7:
			v := sp.gen(r)
			sp.stage(v)
			op = "(SStage " + emit.Z(v) + ")"
			staged = true
			nontrivial = nontrivial || seenOver
		case choice < 9:
			sp.commit()
			op = "SCommit"
			staged = false
		default:
			status, err := config.UpdatePartialFromConfig(cfg, map[string]any{})
			if err != nil || status == config.UpdateStatusFailed {
				panic(fmt.Sprintf("conf: save rejected: %v", err))
			}
			op = "SSave"
		}
		waitIdle(sp.idle)
		<-mu
		got := told
		told = []int64{}
		mu <- struct{}{}
		var tl []string
		for _, v := range got {
			tl = append(tl, emit.Z(v))
		}
		file := "FAbsent"
		if leaves, err := readLeaves(cfgPath); err == nil {
			txt := leaves[sp.path]
			switch sp.kind {
			case "KSize":
				file = "(FText " + emit.Str(txt) + ")"
			case "KInt":
				z, perr := strconv.ParseInt(txt, 10, 64)
				if perr != nil {
					file = "(FText " + emit.Str(txt) + ")"
				} else {
					file = "(FNum " + emit.Z(z) + ")"
				}
			case "KLevel":
				var l slog.Level
				if perr := l.UnmarshalText([]byte(txt)); perr != nil {
					file = "(FText " + emit.Str(txt) + ")"
				} else {
					file = "(FNum " + emit.Z(int64(l)) + ")"
				}
			}
		}
		steps = append(steps, fmt.Sprintf("SS %s %s %s %s", op, emit.Z(sp.read()), file, emit.List(tl)))
		ops = append(ops, op)
	}
	c := fmt.Sprintf("SQ %s %s %s", sp.kind, emit.Z(init), emit.List(steps))
	return c, map[string]any{"case": "SQ", "prop": sp.path, "init": init, "ops": ops}, nontrivial
}
