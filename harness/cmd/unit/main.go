// unit: correspondence harness for the pure functions of reservoir.
// Usage: unit -prop C07 -seed N -tier quick|thorough -out DIR
package main

import (
	"flag"
	"fmt"
	"os"
)

var (
	flagProp = flag.String("prop", "", "property id")
	flagSeed = flag.Int64("seed", 1, "PRNG seed")
	flagTier = flag.String("tier", "quick", "quick|thorough")
	flagOut  = flag.String("out", ".", "output directory for case files and meta.json")
)

var props = map[string]func(){}

func main() {
	flag.Parse()
	f, ok := props[*flagProp]
	if !ok {
		fmt.Fprintf(os.Stderr, "unit: unknown property %q\n", *flagProp)
		os.Exit(2)
	}
	if err := os.MkdirAll(*flagOut, 0755); err != nil {
		panic(err)
	}
	f()
}

func thorough() bool { return *flagTier == "thorough" }
