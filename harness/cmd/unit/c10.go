package main

import (
	"bufio"
	"bytes"
	"fmt"
	"io"
	"log/slog"
	"net/http"
	"net/http/httputil"
	"strconv"
	"strings"

	"reservoir/proxy/responder"
	"verifharness/e2elib"
	"verifharness/emit"
)

func init() { props["C10"] = runC10 }

// One responder call of a script, in Gallina and as an action on a real responder.
type c10op struct {
	term string
	run  func(r responder.Responder)
	desc string
}

func c10Obs(raw []byte) string {
	if len(raw) == 0 {
		return "ONone"
	}
	resp, err := http.ReadResponse(bufio.NewReader(bytes.NewReader(raw)), &http.Request{Method: "POST"})
	if err != nil {
		return "ONone"
	}
	fr := "FClose"
	bodyless := resp.StatusCode == 204 || resp.StatusCode == 304 || resp.StatusCode < 200
	switch {
	case len(resp.TransferEncoding) > 0 && resp.TransferEncoding[0] == "chunked":
		fr = "FChunked"
	case resp.Header.Get("Content-Length") != "":
		n, e := strconv.ParseInt(resp.Header.Get("Content-Length"), 10, 64)
		if e != nil {
			return "ONone"
		}
		fr = "(FLen " + emit.Z(n) + ")"
	case bodyless:
		fr = "FBare"
	}
	var body []byte
	if bodyless && fr != "FChunked" {
		// net/http does not read a body here; whatever follows the header block is what was put on the wire
		i := bytes.Index(raw, []byte("\r\n\r\n"))
		body = raw[i+4:]
	} else if bodyless {
		i := bytes.Index(raw, []byte("\r\n\r\n"))
		rest := raw[i+4:]
		cr := bufio.NewReader(bytes.NewReader(rest))
		b, err := io.ReadAll(httputil.NewChunkedReader(cr))
		if err != nil {
			return "ONone"
		}
		body = b
	} else {
		b, err := io.ReadAll(resp.Body)
		if err != nil && err != io.ErrUnexpectedEOF {
			return "ONone"
		}
		body = b
	}
	return fmt.Sprintf("(OResp %d %s %s %s)", resp.StatusCode, emit.Hdrs(resp.Header), fr, emit.Bytes(body))
}

func runC10() {
	slog.SetDefault(slog.New(e2elib.DebugDiscard{})) // every level enabled, nothing written
	r := emit.NewRand(*flagSeed)
	meta := emit.NewMeta("unit/C10", *flagSeed, *flagTier)
	w := &emit.Writer{Dir: *flagOut, Prefix: "raw", ShardSize: 150,
		Imports:  "From Reservoir Require Import Base.Prelude Model.Relay Model.Tunnel Check.Relay Check.Tunnel.",
		CaseType: "uraw", CheckFn: "check_raw"}
	meta.Rule = "sequences of 1-4 scripts of responder calls (SetHeader/AddHeader/SetHeaders with multi-valued fields and declared Content-Length values of every shape, then Write(status, body) or WriteError) run against the real RawHTTPResponder, either one responder for the whole sequence or one per script; every response parsed back from the bytes written. distinct by printed case; non-trivial = at least two scripts"
	n := 400
	if thorough() {
		n = 6000
	}
	names := []string{"Content-Length", "Content-Range", "X-A", "Set-Cookie", "Content-Type", "Etag", "Via", "X-Cache", "Transfer-Encoding", "Trailer"}
	for i := 0; i < n; i++ {
		reuse := r.Bool()
		ns := 1 + r.Intn(4)
		var scriptTerms []string
		var scripts [][]c10op
		var descs []any
		for s := 0; s < ns; s++ {
			var ops []c10op
			var d []string
			body := make([]byte, []int{0, 1, 4, 11, 40}[r.Intn(5)])
			for j := range body {
				body[j] = byte('a' + r.Intn(26))
			}
			clVal := func() string {
				switch r.Intn(8) {
				case 0:
					return "0"
				case 1:
					return strconv.Itoa(r.Intn(50))
				case 2:
					return emit.Pick(r, []string{"", "abc", "-5", "+3", "1_0", " 4", "99999999999999999999", "9223372036854775807", "007"})
				default:
					return strconv.Itoa(len(body))
				}
			}
			for k := r.Intn(5); k > 0; k-- {
				name := emit.Pick(r, names)
				key := name
				if r.Chance(30) {
					key = strings.ToLower(name)
				}
				val := c08Value(r)
				if name == "Content-Length" {
					val = clVal()
				}
				switch r.Intn(3) {
				case 0:
					kk, vv := key, val
					ops = append(ops, c10op{fmt.Sprintf("RSet %s %s", emit.Str(kk), emit.Str(vv)), func(rr responder.Responder) { rr.SetHeader(kk, vv) }, "Set " + kk})
				case 1:
					kk, vv := key, val
					ops = append(ops, c10op{fmt.Sprintf("RAdd %s %s", emit.Str(kk), emit.Str(vv)), func(rr responder.Responder) { rr.AddHeader(kk, vv) }, "Add " + kk})
				default:
					h := http.Header{}
					for m := 1 + r.Intn(3); m > 0; m-- {
						nm := emit.Pick(r, names)
						if _, ok := h[nm]; ok {
							continue
						}
						for q := 1 + r.Intn(2); q > 0; q-- {
							v := c08Value(r)
							if nm == "Content-Length" {
								v = clVal()
							}
							h[nm] = append(h[nm], v)
						}
					}
					hh := h
					ops = append(ops, c10op{fmt.Sprintf("RSetAll %s", emit.Hdrs(hh)), func(rr responder.Responder) { rr.SetHeaders(hh) }, "SetHeaders"})
				}
			}
			if r.Chance(85) {
				st := emit.Pick(r, []int{200, 200, 200, 206, 201, 204, 304, 404, 500})
				b := body
				if st == 204 || st == 304 {
					b = nil
				}
				bb := b
				ops = append(ops, c10op{fmt.Sprintf("RWrite %d %s", st, emit.Bytes(bb)), func(rr responder.Responder) { rr.Write(st, bytes.NewReader(bb)) }, "Write " + strconv.Itoa(st)})
			} else {
				msg := emit.Pick(r, []string{"invalid Range header", "Error fetching resource"})
				code := emit.Pick(r, []int{416, 502, 500})
				ops = append(ops, c10op{fmt.Sprintf("RWriteError %s %d", emit.Str(msg), code), func(rr responder.Responder) { rr.WriteError(msg, code) }, "WriteError " + strconv.Itoa(code)})
			}
			var ts []string
			for _, o := range ops {
				ts = append(ts, o.term)
				d = append(d, o.desc)
			}
			scriptTerms = append(scriptTerms, "(MPlain, "+emit.List(ts)+")")
			scripts = append(scripts, ops)
			descs = append(descs, d)
		}
		// run against the real responder(s)
		var buf bytes.Buffer
		var shared responder.Responder = responder.NewRawHTTPResponder(&buf)
		var obsLists []string
		for _, ops := range scripts {
			rr := shared
			if !reuse {
				rr = responder.NewRawHTTPResponder(&buf)
			}
			var outs []string
			for _, o := range ops {
				buf.Reset()
				o.run(rr)
				if strings.HasPrefix(o.term, "RWrite") {
					outs = append(outs, c10Obs(append([]byte(nil), buf.Bytes()...)))
				}
			}
			obsLists = append(obsLists, emit.List(outs))
		}
		c := fmt.Sprintf("URaw %s %s %s", emit.Bool(reuse), emit.List(scriptTerms), emit.List(obsLists))
		w.Add(c)
		meta.Count("reuse", emit.Bool(reuse))
		meta.Count("scripts", strconv.Itoa(ns))
		meta.Record(c, ns >= 2, map[string]any{"reuse": reuse, "scripts": descs})
	}
	w.Flush()
	meta.Write(*flagOut, w.Files)
	fmt.Printf("unit/C10: %d cases in %d files\n", w.Total, len(w.Files))
}
