package main

import (
	"encoding/base64"
	"fmt"
	"strconv"
	"strings"

	"reservoir/utils/phc"
	"verifharness/emit"
)

// Stage "C16phc": ParsePHC (utils/phc/phc.go) on stored password-hash strings.
// Cases PC: the string and what ParsePHC did (fields read back through String(), error, or panic);
// cases DC: base64.RawStdEncoding.Decode into a buffer of a given size (validates the model of the
// one library call of ParsePHC that can panic).
func init() { props["C16phc"] = runPhc }

func phcObserve(s string) (obs string, outcome string) {
	var p *phc.PHC
	var err error
	panicked := false
	func() {
		defer func() {
			if r := recover(); r != nil {
				panicked = true
			}
		}()
		p, err = phc.ParsePHC(s)
	}()
	if panicked {
		return "PPanic", "panic"
	}
	if err != nil || p == nil {
		return "PErr", "err"
	}
	// An accepted hash is then used by login / change-password: verifying a password against it must not
	// panic either (cheap parameters only; the verification result itself is not the subject here).
	if verifyPanics(p) {
		return "PPanic", "panic-at-verify"
	}
	// "$argon2id$v=%d$m=%d,t=%d,p=%d,l=%d$%s$%s"
	parts := strings.Split(p.String(), "$")
	if len(parts) != 6 || parts[1] != "argon2id" {
		return "PErr", "unreadable"
	}
	v, e1 := strconv.ParseInt(strings.TrimPrefix(parts[2], "v="), 10, 64)
	var m, t, pp, l uint64
	n, e2 := fmt.Sscanf(parts[3], "m=%d,t=%d,p=%d,l=%d", &m, &t, &pp, &l)
	salt, e3 := base64.RawStdEncoding.DecodeString(parts[4])
	hash, e4 := base64.RawStdEncoding.DecodeString(parts[5])
	if e1 != nil || e2 != nil || n != 4 || e3 != nil || e4 != nil {
		return "PErr", "unreadable"
	}
	return fmt.Sprintf("(POk %s %s %s %s %s %s %s)", emit.Z(v), emit.ZU(m), emit.ZU(t), emit.ZU(pp), emit.ZU(l),
		emit.PBytes(salt), emit.PBytes(hash)), "ok"
}

func verifyPanics(p *phc.PHC) (panicked bool) {
	parts := strings.Split(p.String(), "$")
	if len(parts) != 6 {
		return false
	}
	var m, t, pp, l uint64
	if n, _ := fmt.Sscanf(parts[3], "m=%d,t=%d,p=%d,l=%d", &m, &t, &pp, &l); n != 4 || m > 1<<16 || t > 4 || pp > 64 || l > 1024 {
		return false // too expensive to run here
	}
	defer func() {
		if r := recover(); r != nil {
			panicked = true
		}
	}()
	p.VerifyArgon2id("not the password")
	return false
}

func decodeObserve(capacity int, src string) (obs string, outcome string) {
	dst := make([]byte, capacity)
	var n int
	var err error
	panicked := false
	func() {
		defer func() {
			if r := recover(); r != nil {
				panicked = true
			}
		}()
		n, err = base64.RawStdEncoding.Decode(dst, []byte(src))
	}()
	if panicked {
		return "Panic", "panic"
	}
	if err != nil {
		return "Err", "err"
	}
	return "(Ok " + emit.PBytes(dst[:n]) + ")", "ok"
}

func runPhc() {
	r := emit.NewRand(*flagSeed)
	meta := emit.NewMeta("unit/C16phc", *flagSeed, *flagTier)
	w := &emit.Writer{Dir: *flagOut, Prefix: "phc", ShardSize: 1500,
		Imports:  "From Coq Require Import Uint63.\nFrom Reservoir Require Import Base.Prelude Base.Packed Model.Phc Check.Phc.",
		CaseType: "phc_case", CheckFn: "check_phc"}
	meta.Rule = "PHC strings: bounded-exhaustive field shapes (salt of 0..40 bytes x hash length x l parameter; every id/version/parameter/part-count/whitespace variant alone and pairwise with the salt sweep), byte mutations of valid strings, random strings over the PHC alphabet and random bytes; raw-base64 decodes into buffers of 0..24 bytes. distinct by input; non-trivial = at least 4 '$'-separated parts (PC) or a non-empty source (DC)"

	addPC := func(kind, s string) {
		obs, outcome := phcObserve(s)
		w.Add(fmt.Sprintf("PC %s %s", emit.PStr(s), obs))
		meta.Count("kind", kind)
		meta.Count("outcome", outcome)
		meta.Count("len", lenBin(len(s)))
		meta.Record("PC\x00"+s, strings.Count(s, "$") >= 3, map[string]any{"fn": "ParsePHC", "input": strconv.Quote(s), "kind": kind, "outcome": outcome})
	}
	addDC := func(capacity int, src string) {
		obs, outcome := decodeObserve(capacity, src)
		w.Add(fmt.Sprintf("DC %d %s %s", capacity, emit.PStr(src), obs))
		meta.Count("kind", "decode")
		meta.Count("decode_outcome", outcome)
		meta.Record(fmt.Sprintf("DC\x00%d\x00%s", capacity, src), src != "", map[string]any{"fn": "base64.RawStdEncoding.Decode", "cap": capacity, "input": strconv.Quote(src), "outcome": outcome})
	}

	b64 := func(n int, fill byte) string {
		b := make([]byte, n)
		for i := range b {
			b[i] = fill + byte(i)
		}
		return base64.RawStdEncoding.EncodeToString(b)
	}
	ids := []string{"argon2id", "argon2i", "", "Argon2id", "argon2id ", "scrypt"}
	vers := []string{"v=19", "v=", "v=x", "19", "v=-1", "v=+19", "v=0", "v=9223372036854775807", "v=9223372036854775808",
		"v=-9223372036854775808", "v=-9223372036854775809", "V=19", "v=1_9", "v= 19", "v=19 ", "v=+", "v=-", "v=0x13", "v=00000000000000000000019"}
	pars := []string{"m=65536,t=1,p=4,l=32", "m=65536,t=1,p=4", "m=8,t=1,p=1", "m=0,t=1,p=1", "m=8,t=0,p=1", "m=8,t=1,p=0", "",
		"t=1,p=1", "m=8,p=1", "m=8,t=1", "m=8,t=1,p=1,m=9", "m=8,t=1,p=1,m=0", ",m=8,,t=1,p=1,", ",", "m=4294967295,t=1,p=1",
		"m=4294967296,t=1,p=1", "m=8,t=4294967296,p=1", "m=8,t=1,p=255", "m=8,t=1,p=256", "m=8,t=1,p=1,l=4294967296", "m=8,t=1,p=1,l=0",
		"m=8,t=1,p=1,x=1", "m=8,t=1,p=1,x", "m=8,t=1,p=1,x=", "m=8,t=1,p=1,=", "m=8,t=1,p=1,=5", "m,t=1,p=1", "m=,t=1,p=1", "m=1=2,t=1,p=1",
		" m=8,t=1,p=1", "m=8 ,t=1,p=1", "m=+8,t=1,p=1", "m=-8,t=1,p=1", "m=8,t=1,p=1,l=-1", "M=8,t=1,p=1", "m=8;t=1;p=1", "m=08,t=01,p=001",
		"m=99999999999999999999999,t=1,p=1", "m=8,t=1,p=1,l=32,l=31", "mm=8,t=1,p=1"}
	hashLens := []int{0, 1, 2, 31, 32, 33}
	mk := func(lead bool, id, ver, par, salt, hash string) string {
		s := id + "$" + ver + "$" + par + "$" + salt + "$" + hash
		if lead {
			s = "$" + s
		}
		return s
	}

	// 1. bounded-exhaustive: salt sweep x hash length x l
	for sl := 0; sl <= 40; sl++ {
		for _, hl := range hashLens {
			for _, par := range []string{"m=8,t=1,p=1", "m=8,t=1,p=1,l=32", "m=8,t=1,p=1,l=0", "m=8,t=1,p=1,l=31"} {
				addPC("salt-sweep", mk(true, "argon2id", "v=19", par, b64(sl, 1), b64(hl, 7)))
			}
		}
	}
	// raw salt *text* lengths 0..56 (not only canonical encodings), with and without a valid hash
	for tl := 0; tl <= 56; tl++ {
		addPC("salt-text", mk(true, "argon2id", "v=19", "m=8,t=1,p=1", strings.Repeat("A", tl), b64(32, 7)))
		addPC("salt-text", mk(false, "argon2id", "v=19", "m=8,t=1,p=1", strings.Repeat("/", tl), ""))
	}
	// every single-field variant alone, and with a short / exact / long salt
	for _, sl := range []int{16, 0, 15, 17, 18, 40} {
		for _, id := range ids {
			addPC("id", mk(true, id, "v=19", "m=8,t=1,p=1", b64(sl, 1), b64(32, 7)))
		}
		for _, v := range vers {
			addPC("version", mk(true, "argon2id", v, "m=8,t=1,p=1", b64(sl, 1), b64(32, 7)))
		}
		for _, p := range pars {
			addPC("params", mk(true, "argon2id", "v=19", p, b64(sl, 1), b64(32, 7)))
		}
	}
	// part counts and dollars
	valid := mk(true, "argon2id", "v=19", "m=65536,t=1,p=4,l=32", b64(16, 1), b64(32, 7))
	for _, s := range []string{"", "$", "$$", "$$$$", "$$$$$", "$$$$$$", "argon2id", "$argon2id", "$argon2id$v=19", "$argon2id$v=19$m=8,t=1,p=1",
		"$argon2id$v=19$m=8,t=1,p=1$" + b64(16, 1), valid + "$", valid + "$x", "$" + valid, valid[1:], "$argon2id$v=19$m=65536,t=1,p=4,l=32$onlysalt",
		"$argon2id$v=x$m=65536,t=1,p=4,l=32$abc$def"} {
		addPC("parts", s)
	}
	// white space around (strings.TrimSpace is Unicode-aware) and inside
	wss := []string{" ", "\t", "\n", "\v", "\f", "\r", "\u0085", "\u00a0", "\u1680", "\u2000", "\u2001", "\u2005", "\u200a", "\u2028", "\u2029", "\u202f", "\u205f", "\u3000",
		"\u200b", "\u180e", "\ufeff", "\xc2", "\x85", "\xa0", "\xe2\x80", "\x80\x80", "\xe2\x80\x8b", "\xc2\xa0\xc2", "\xe1\x9a\x81", "\xe3\x80\x81", "\xe2\x81\x9f\x9f", "\xf0\x9f\x98\x80", "\x00", "\x1f", "\xff"}
	for _, a := range wss {
		addPC("space", a+valid)
		addPC("space", valid+a)
		addPC("space", a+valid+a+a)
		addPC("space", a+" "+a+valid[1:]+" "+a)
		addPC("space", a)
		addPC("space", a+a)
		addPC("space", strings.Replace(valid, "$v=", a+"$v=", 1))
		addPC("space", strings.Replace(valid, "$AQ", "$"+a+"AQ", 1))
	}
	// newlines inside the base64 fields are skipped by the decoder
	for _, pos := range []int{0, 1, 5, 21, 22} {
		sa := b64(16, 1)
		addPC("newline", mk(true, "argon2id", "v=19", "m=8,t=1,p=1", sa[:pos]+"\n"+sa[pos:], b64(32, 7)))
		addPC("newline", mk(true, "argon2id", "v=19", "m=8,t=1,p=1", sa[:pos]+"\r\n"+sa[pos:], "\n"+b64(32, 7)+"\r"))
		addPC("newline", mk(true, "argon2id", "v=19", "m=8,t=1,p=1", b64(17, 1)[:pos]+"\n"+b64(17, 1)[pos:], b64(32, 7)))
		addPC("newline", mk(true, "argon2id", "v=19", "m=8,t=1,p=1", sa[:pos]+"="+sa[pos:], b64(32, 7)))
	}
	addPC("padding", mk(true, "argon2id", "v=19", "m=8,t=1,p=1", b64(16, 1)+"==", b64(32, 7)))
	addPC("padding", mk(true, "argon2id", "v=19", "m=8,t=1,p=1", b64(16, 1), b64(32, 7)+"="))

	// 2. random combinations of the field variants
	n := 1200
	if thorough() {
		n = 40000
	}
	rndB64 := func(maxBytes int) string {
		l := r.Intn(maxBytes + 1)
		b := make([]byte, l)
		for i := range b {
			b[i] = byte(r.Intn(256))
		}
		s := base64.RawStdEncoding.EncodeToString(b)
		switch r.Intn(12) {
		case 0:
			if len(s) > 0 {
				s = s[:len(s)-1]
			}
		case 1:
			s += "A"
		case 2:
			if len(s) > 0 {
				i := r.Intn(len(s))
				s = s[:i] + string("=\n\r !-_$."[r.Intn(9)]) + s[i:]
			}
		case 3:
			s = base64.StdEncoding.EncodeToString(b)
		case 4:
			s = base64.RawURLEncoding.EncodeToString(b)
		}
		return s
	}
	for i := 0; i < n; i++ {
		id := "argon2id"
		if r.Chance(8) {
			id = emit.Pick(r, ids)
		}
		ver := "v=19"
		if r.Chance(20) {
			ver = emit.Pick(r, vers)
		}
		par := emit.Pick(r, pars[:3])
		if r.Chance(35) {
			par = emit.Pick(r, pars)
		} else if r.Chance(30) {
			par = fmt.Sprintf("m=%d,t=%d,p=%d", r.Intn(70000), r.Intn(4), r.Intn(300))
			if r.Bool() {
				par += fmt.Sprintf(",l=%d", r.Intn(40))
			}
		}
		salt := rndB64(40)
		if r.Chance(50) {
			salt = rndB64(0) + base64.RawStdEncoding.EncodeToString(make([]byte, 14+r.Intn(5)))
		}
		hash := rndB64(40)
		s := mk(r.Chance(85), id, ver, par, salt, hash)
		if r.Chance(10) {
			s = emit.Pick(r, wss) + s + emit.Pick(r, wss)
		}
		addPC("random-fields", s)
	}

	// 3. byte mutations of valid strings
	m := 600
	if thorough() {
		m = 20000
	}
	for i := 0; i < m; i++ {
		b := []byte(mk(r.Chance(80), "argon2id", "v=19", emit.Pick(r, pars[:3]), b64(emit.Pick(r, []int{16, 16, 16, 15, 17, 18, 24, 32}), byte(r.Intn(200))), b64(emit.Pick(r, []int{32, 32, 16, 1}), 9)))
		for k := 0; k <= r.Intn(3); k++ {
			if len(b) == 0 {
				break
			}
			j := r.Intn(len(b))
			switch r.Intn(5) {
			case 0:
				b[j] = byte(r.Intn(256))
			case 1:
				b[j] = "$=,vmtpl019Az+/ \n"[r.Intn(17)]
			case 2:
				b = append(b[:j], b[j+1:]...)
			case 3:
				b = append(b[:j], append([]byte{"$=,A/\n9"[r.Intn(7)]}, b[j:]...)...)
			default:
				b = b[:j]
			}
		}
		addPC("mutation", string(b))
	}

	// 4. random strings
	q := 400
	if thorough() {
		q = 10000
	}
	for i := 0; i < q; i++ {
		l := r.Intn(60)
		b := make([]byte, l)
		for j := range b {
			if r.Chance(85) {
				b[j] = "$$$=,,vmtpl0123456789AQaz+/ \nargon2id"[r.Intn(37)]
			} else {
				b[j] = byte(r.Intn(256))
			}
		}
		addPC("random-bytes", string(b))
	}

	// 5. the library decoder on buffers of every small size
	srcs := []string{"", "A", "AA", "AAA", "AAAA", "AAAAA", "AAAAAA", "AAAAAAA", "AAAAAAAA", "A\nA", "\n", "\r\n", "AA\n", "A=", "AA=", "AA==", "AAA=", "!", "AAAA!", "AAAAAAAAAAAAAAAAAAAAAAAA!", "AAAAAAAAAAAAAAAAAAAAAA", "AAAAAAAAAAAAAAAAAAAAAAA", "AAAAAAAAAAAAAAAAAAAAAAAA", "////", "++++", "-_-_", "Zm9vYmFy", "Zm9vYmE", "Zm9vYg"}
	for _, s := range srcs {
		for _, c := range []int{0, 1, 2, 3, 4, 5, 6, 7, 8, 15, 16, 17, 18, 24} {
			addDC(c, s)
		}
	}
	d := 600
	if thorough() {
		d = 15000
	}
	for i := 0; i < d; i++ {
		s := rndB64(24)
		addDC(r.Intn(25), s)
		if r.Chance(50) {
			addDC(16, s)
		}
	}

	w.Flush()
	meta.Write(*flagOut, w.Files)
	fmt.Printf("unit/C16phc: %d cases (%d distinct, %d non-trivial) in %d files\n", meta.Total, meta.Distinct, meta.Nontrivial, len(w.Files))
}
