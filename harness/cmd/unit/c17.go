package main

import (
	"fmt"
	"math"
	"strconv"

	"reservoir/utils/bytesize"
	"verifharness/emit"
)

func init() { props["C17"] = runC17 }

func resZ(v int64, err error, panicked bool) string {
	switch {
	case panicked:
		return "Panic"
	case err != nil:
		return "Err"
	default:
		return "(Ok " + emit.Z(v) + ")"
	}
}

func c17Parse(s string) (v int64, err error, panicked bool) {
	defer func() {
		if r := recover(); r != nil {
			panicked = true
		}
	}()
	b, e := bytesize.Parse(s)
	return int64(b), e, false
}

func c17String(n int64) (s string, panicked bool) {
	defer func() {
		if r := recover(); r != nil {
			panicked = true
		}
	}()
	return bytesize.ByteSize(n).String(), false
}

var c17Units = []int64{1, 1 << 10, 1 << 20, 1 << 30, 1 << 40}

func runC17() {
	r := emit.NewRand(*flagSeed)
	meta := emit.NewMeta("unit/C17", *flagSeed, *flagTier)
	w := &emit.Writer{Dir: *flagOut, Prefix: "unit", ShardSize: 1500,
		Imports:  "From Reservoir Require Import Base.Prelude Model.ByteSize Check.ByteSize.",
		CaseType: "bs_case", CheckFn: "check_bs"}
	meta.Rule = "ByteSize: String+Parse for every byte count in [0,4100], unit multiples +-1, powers of two +-1, random 63-bit values, a few negatives; Parse on bounded-exhaustive strings over {0,1,9,K,M,B,k,blank,-} (|s|<=4 quick, <=5 thorough), digits+unit with 64-bit boundary numbers and their mutations, random bytes. distinct by (kind,input); non-trivial = value >= 1024 or string with at least one digit and one letter"

	addString := func(kind string, n int64) {
		printed, p := c17String(n)
		if p {
			// String never panics in the model: emit an impossible printed form so the case mismatches
			printed = "\x00panic"
		}
		v, err, pp := c17Parse(printed)
		w.Add(fmt.Sprintf("BS %s %s %s", emit.Z(n), emit.Str(printed), resZ(v, err, pp)))
		meta.Count("kind", kind)
		meta.Count("op", "String")
		meta.Record("S"+strconv.FormatInt(n, 10), n >= 1024, map[string]any{"op": "String", "n": n, "printed": printed, "kind": kind})
	}
	addParse := func(kind, s string) {
		v, err, p := c17Parse(s)
		w.Add(fmt.Sprintf("BP %s %s", emit.Str(s), resZ(v, err, p)))
		meta.Count("kind", kind)
		meta.Count("op", "Parse")
		hasD, hasL := false, false
		for i := 0; i < len(s); i++ {
			if s[i] >= '0' && s[i] <= '9' {
				hasD = true
			}
			if s[i] >= 'A' && s[i] <= 'Z' {
				hasL = true
			}
		}
		meta.Record("P"+s, hasD && hasL, map[string]any{"op": "Parse", "s": s, "kind": kind})
	}

	// --- String: all small byte counts
	for n := int64(0); n <= 4100; n++ {
		addString("small", n)
	}
	// unit multiples +-1
	mults := []int64{1, 2, 3, 5, 10, 500, 1000, 1023, 1024, 1025, 1536, 4095, 8191}
	for _, u := range c17Units {
		for _, m := range mults {
			if m > math.MaxInt64/u {
				continue
			}
			for _, d := range []int64{-1, 0, 1} {
				addString("unit-multiple", m*u+d)
			}
		}
		// u + u/2: a value that the largest fitting unit does not divide
		addString("unit-and-half", u+u/2)
	}
	for k := uint(0); k < 63; k++ {
		for _, d := range []int64{-1, 0, 1} {
			addString("pow2", int64(1)<<k+d)
		}
	}
	for _, n := range []int64{math.MaxInt64, math.MaxInt64 - 1, math.MaxInt64 - 1023, (math.MaxInt64 >> 40) << 40, 8388607 << 40} {
		addString("max", n)
	}
	for _, n := range []int64{-1, -2, -1023, -1024, -1025, -1 << 20, math.MinInt64, math.MinInt64 + 1} {
		addString("negative", n)
	}
	nr := 600
	if thorough() {
		nr = 20000
	}
	for i := 0; i < nr; i++ {
		var n int64
		switch r.Intn(4) {
		case 0:
			n = int64(r.U64() >> 1)
		case 1:
			n = int64(r.U64() >> uint(1+r.Intn(63)))
		case 2: // multiple of a random unit
			u := emit.Pick(r, c17Units)
			n = int64(r.U64()>>1) / u * u
		default: // multiple of a unit plus a small remainder
			u := emit.Pick(r, c17Units)
			n = int64(r.U64()>>1)/u*u + int64(r.Intn(3)) - 1
			if n < 0 {
				n = 0
			}
		}
		addString("random", n)
	}

	// --- Parse: bounded-exhaustive
	alpha := []byte{'0', '1', '9', 'K', 'M', 'B', 'k', ' ', '-'}
	maxLen := 4
	if thorough() {
		maxLen = 5
	}
	var gen func(prefix []byte)
	gen = func(prefix []byte) {
		addParse("exhaustive", string(prefix))
		if len(prefix) == maxLen {
			return
		}
		for _, c := range alpha {
			gen(append(append([]byte{}, prefix...), c))
		}
	}
	gen(nil)

	// digits + unit with boundary numbers, and mutations of each
	nums := append([]string{}, boundaryNums...)
	nums = append(nums, "8388607", "8388608", "8589934591", "8589934592", "8796093022207", "8796093022208",
		"9007199254740991", "9007199254740992", "9007199254740993", "0000", "00000000000000000000000000001", "")
	for _, num := range nums {
		for _, u := range []string{"B", "K", "M", "G", "T"} {
			base := num + u
			addParse("digits-unit", base)
			for _, m := range []string{base + "5", base + "B", base + u, base + " ", " " + base, "+" + base, "-" + base,
				num + " " + u, num + string(u[0]+32), num + "i" + u, num + u + "iB", num + "." + "5" + u, num, u + num, base + "\x00", base + "\xc3\xa9", num + "\xe2\x84\xaa"} {
				addParse("mutation", m)
			}
		}
	}
	for _, s := range []string{"", "B", "K", "M", "G", "T", "KB", "10KB", "10K5", "123", "0", "1e3K", "1_000K", "0x10K", "１K", "1Ｋ", "\xff", "1\xff", "1K\xff", "٣K", "P", "1P", "1E", "1b", "1 K", "1\tK", "1\nK", "1K\n"} {
		addParse("literal", s)
	}
	m := 400
	if thorough() {
		m = 10000
	}
	for i := 0; i < m; i++ {
		l := r.Intn(8)
		b := make([]byte, l)
		for j := range b {
			if r.Chance(75) {
				b[j] = "0123456789BKMGTkb -"[r.Intn(19)]
			} else {
				b[j] = byte(r.Intn(256))
			}
		}
		addParse("random", string(b))
	}
	// random well-formed: random digits of random length + unit
	for i := 0; i < m; i++ {
		l := 1 + r.Intn(22)
		b := make([]byte, l)
		for j := range b {
			b[j] = byte('0' + r.Intn(10))
		}
		addParse("random-wellformed", string(b)+emit.Pick(r, []string{"B", "K", "M", "G", "T"}))
	}

	w.Flush()
	meta.Exhaustive = false
	meta.Write(*flagOut, w.Files)
	fmt.Printf("unit/C17: %d cases in %d files\n", w.Total, len(w.Files))
}
