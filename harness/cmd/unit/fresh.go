package main

// Unit-level correspondence for C03 / C04: the freshness and storability decision
// (proxy/headers: parseCacheControl, ParseHeaderDirective, ShouldCache,
// GetExpiresOrDefault; proxy: shouldResponseBeCached) and the label computation
// (proxy/cache_status_headers.go).

import (
	"fmt"
	"net/http"
	"strconv"
	"strings"
	"time"

	"reservoir/config"
	"reservoir/proxy"
	"reservoir/proxy/headers"
	"reservoir/utils/duration"
	"verifharness/emit"
	"verifharness/freshlib"
)

func init() {
	props["C03"] = func() { runFresh("C03", "check_fresh_c03") }
	props["C04"] = func() { runFresh("C04", "check_fresh_c04") }
	props["C03label"] = runLabels
}

var freshMethods = []struct {
	s   string
	coq string
}{{"GET", "GET"}, {"HEAD", "HEAD"}, {"POST", "POST"}, {"PUT", "OTHER"}, {"DELETE", "OTHER"}, {"OPTIONS", "OTHER"}, {"get", "OTHER"}, {"", "OTHER"}}

var freshStatuses = []int{201, 203, 204, 206, 301, 304, 404, 410, 416, 500, 503, 0, 199, 299, 2000}

var freshCfg *config.Config

func freshSetPolicy(p freshlib.Policy) *config.Config {
	if freshCfg == nil {
		freshCfg = config.NewDefault()
	}
	freshCfg.Proxy.CachePolicy.IgnoreCacheControl.Overwrite(p.Ignore)
	freshCfg.Proxy.CachePolicy.ForceDefaultMaxAge.Overwrite(p.Force)
	freshCfg.Proxy.CachePolicy.DefaultMaxAge.Overwrite(duration.Duration(p.Default))
	return freshCfg
}

// freshObserve runs the real decision on hv under pol and prints the case.
func freshObserve(pol freshlib.Policy, methIdx int, status int, hv freshlib.HView) string {
	cfg := freshSetPolicy(pol)
	var d headers.VerifFreshDecision
	for try := 0; try < 5; try++ {
		d = headers.VerifDecideFresh(hv.Header(), pol.Ignore, pol.Force, pol.Default)
		if d.After.Sub(d.Before) < 50*time.Millisecond {
			break
		}
	}
	storable, p2 := proxy.VerifShouldResponseBeCached(cfg, freshMethods[methIdx].s, status, hv.Header())
	cc := "None"
	if d.CCPresent {
		cc = fmt.Sprintf("(Some (%s, %s))", emit.Bool(d.NoCache), emit.Z(int64(d.MaxAge)))
	}
	exp := "None"
	if d.ExpPresent {
		exp = "(Some " + freshlib.NanosZ(d.Expires) + ")"
	}
	obs := fmt.Sprintf("(Build_fresh_obs %s %s %s %s %s %s)", emit.Bool(d.Panicked || p2), cc, exp,
		emit.Bool(d.Should), emit.Bool(storable), freshlib.NanosZ(d.ExpiresAt))
	return fmt.Sprintf("FC %s %s %s %s %s %s", pol.Coq(), freshMethods[methIdx].coq, emit.Z(int64(status)), hv.Coq(), freshlib.NanosZ(d.Before), obs)
}

func runFresh(prop, checkFn string) {
	r := emit.NewRand(*flagSeed)
	meta := emit.NewMeta("unit/"+prop, *flagSeed, *flagTier)
	w := &emit.Writer{Dir: *flagOut, Prefix: "fresh", ShardSize: 1000,
		Imports:  "From Reservoir Require Import Base.Prelude Model.Freshness Model.FreshnessSpec Check.Freshness.",
		CaseType: "fresh_case", CheckFn: checkFn}
	meta.Rule = "response header sets x cache policies x method x status: (1) bounded-exhaustive Cache-Control over a 9-token directive alphabet (<=3 directives on one line, or two lines) x the four ignore/force policies; (2) directed witnesses; (3) random structured header sets: 0-3 Cache-Control lines of 0-3 directives (names in any letter case, ASCII/Unicode/invalid padding, boundary and malformed max-age values) x Expires forms (absent, IMF-fixdate/RFC 850/asctime past and future, malformed) x policy (ignore, force, default in {1h,90s,1s,0,-1s,30d}) x method x status. distinct by (header set, policy, method, status); non-trivial = carries a Cache-Control or Expires line"

	now := time.Now()
	add := func(kind string, pol freshlib.Policy, methIdx, status int, hv freshlib.HView) {
		w.Add(freshObserve(pol, methIdx, status, hv))
		rd := hv.Readable()
		rd["policy"] = pol.Readable()
		rd["method"] = freshMethods[methIdx].s
		rd["status"] = status
		rd["kind"] = kind
		meta.Count("kind", kind)
		meta.Count("cc_lines", strconv.Itoa(len(hv.CC)))
		meta.Count("expires", hv.Exp.Form)
		meta.Count("policy", fmt.Sprintf("ignore=%v,force=%v", pol.Ignore, pol.Force))
		meta.Count("default", pol.Default.String())
		meta.Count("method", freshMethods[methIdx].s)
		if status == 200 {
			meta.Count("status", "200")
		} else {
			meta.Count("status", "other")
		}
		key := hv.Key() + "\x03" + fmt.Sprint(pol) + "\x03" + freshMethods[methIdx].s + "\x03" + strconv.Itoa(status)
		meta.Record(key, len(hv.CC) > 0 || hv.Exp.Kind != freshlib.ExpAbsent, rd)
	}
	policies4 := []freshlib.Policy{{Default: time.Hour}, {Ignore: true, Default: time.Hour}, {Force: true, Default: time.Hour}, {Ignore: true, Force: true, Default: time.Hour}}

	// 1. bounded-exhaustive directive sequences
	alpha := []string{"no-store", "No-Cache", "private", "max-age=0", "max-age=60", "max-age=abc", "public", "", "MAX-AGE=5"}
	var seqs [][]string
	var gen func(prefix []string, depth int)
	maxDepth := 2
	if thorough() {
		maxDepth = 3
	}
	gen = func(prefix []string, depth int) {
		if len(prefix) > 0 {
			seqs = append(seqs, append([]string{}, prefix...))
		}
		if depth == maxDepth {
			return
		}
		for _, a := range alpha {
			gen(append(append([]string{}, prefix...), a), depth+1)
		}
	}
	gen(nil, 0)
	for _, sq := range seqs {
		for _, pol := range policies4 {
			if !thorough() && (pol.Ignore || pol.Force) && len(sq) > 1 {
				continue
			}
			add("exhaustive-one-line", pol, 0, 200, freshlib.HView{CC: []string{strings.Join(sq, ", ")}})
			if len(sq) == 2 {
				add("exhaustive-two-lines", pol, 0, 200, freshlib.HView{CC: []string{sq[0], sq[1]}})
			}
			if len(sq) == 3 && thorough() {
				add("exhaustive-two-lines", pol, 0, 200, freshlib.HView{CC: []string{sq[0] + "," + sq[1], sq[2]}})
			}
		}
	}

	// 2. directed witnesses (the forms named in the property and DESIGN.md section 7)
	type wit struct {
		cc  []string
		exp string // "" absent, else a literal line; "+N"/"-N" = IMF date N seconds from now
	}
	wits := []wit{
		{[]string{"private, max-age=60"}, ""}, {[]string{"No-Store, max-age=60"}, ""}, {[]string{"max-age=60", "no-store"}, ""},
		{[]string{"no-store, max-age=abc"}, ""}, {[]string{"max-age=abc, no-store"}, ""}, {nil, "0"}, {nil, "-1"}, {[]string{"max-age=60"}, "0"},
		{[]string{"max-age=9223372037"}, ""}, {[]string{"max-age=9223372036"}, ""}, {[]string{"max-age=99999999999999999999"}, ""},
		{[]string{"max-age=60"}, ""}, {[]string{"MAX-AGE=60"}, ""}, {[]string{"max-age=0"}, ""}, {[]string{"public"}, ""}, {[]string{""}, ""}, {nil, ""},
		{nil, "+3600"}, {nil, "-3600"}, {[]string{"max-age=60"}, "-3600"}, {[]string{"max-age=60"}, "+3600"}, {[]string{"max-age=5, max-age=100"}, ""},
		{[]string{"max-age=100, max-age=5"}, ""}, {[]string{"max-age=100", "max-age=abc"}, ""}, {[]string{"max-age=-5, max-age=60"}, ""},
		{[]string{"\u00a0no-store, max-age=60"}, ""}, {[]string{"pr\u0130vate, max-age=60"}, ""}, {[]string{"max-age=\"60\""}, ""},
	}
	for _, wt := range wits {
		for _, pol := range policies4 {
			for _, dflt := range []time.Duration{time.Hour, time.Second} {
				pol.Default = dflt
				hv := freshlib.HView{CC: wt.cc}
				switch {
				case wt.exp == "":
					hv.Exp = freshlib.Expires{Kind: freshlib.ExpAbsent, Form: "absent"}
				case wt.exp[0] == '+' || (wt.exp[0] == '-' && len(wt.exp) > 2):
					n, _ := strconv.Atoi(wt.exp)
					at := now.Add(time.Duration(n) * time.Second).Truncate(time.Second)
					for _, form := range []string{"imf", "rfc850", "asctime"} {
						hv.Exp = freshlib.Expires{Kind: freshlib.ExpAt, Line: freshlib.DateLine(at, form), At: at, Form: form}
						add("witness", pol, 0, 200, hv)
					}
					continue
				default:
					hv.Exp = freshlib.Expires{Kind: freshlib.ExpUnparseable, Line: wt.exp, Form: "bad"}
				}
				add("witness", pol, 0, 200, hv)
			}
		}
	}

	// 3. random structured header sets
	n := 1600
	if thorough() {
		n = 40000
	}
	for i := 0; i < n; i++ {
		hv := freshlib.HView{}
		hv.CC = freshlib.RandCCLines(r, func(cls string) { meta.Count("directive", cls) })
		hv.Exp = freshlib.RandExpires(r, time.Now(), 0)
		if r.Chance(3) {
			if r.Bool() {
				hv.RangeLine, hv.RespRange = "bytes=0-1", true
			} else {
				hv.RangeLine, hv.RespRange = "garbage", false
			}
		}
		methIdx, status := 0, 200
		if r.Chance(12) {
			methIdx = r.Intn(len(freshMethods))
		}
		if r.Chance(12) {
			status = emit.Pick(r, freshStatuses)
		}
		add("random", freshlib.RandPolicy(r), methIdx, status, hv)
	}

	w.Flush()
	meta.Write(*flagOut, w.Files)
	fmt.Printf("unit/%s: %d cases in %d files\n", prop, w.Total, len(w.Files))
}

// ---------- labels: X-Cache / Cache-Status / Age ----------

func runLabels() {
	r := emit.NewRand(*flagSeed)
	meta := emit.NewMeta("unit/C03label", *flagSeed, *flagTier)
	w := &emit.Writer{Dir: *flagOut, Prefix: "label", ShardSize: 1500,
		Imports:  "From Reservoir Require Import Base.Prelude Model.Freshness Model.FreshnessSpec Check.Freshness.",
		CaseType: "label_case", CheckFn: "check_label"}
	meta.Rule = "fetch results: hit status {miss,revalidated,hit} x upstream status x with/without entry x expiry offset x time since store (all offsets end in .5 s) x stored Date (absent, k seconds before the store, malformed) x stored Age (absent, valid integers incl. negative/+signed/huge, malformed); exhaustive over the listed value sets in thorough, sampled in quick. non-trivial = result carries an entry"

	expOffs := []time.Duration{-3600*time.Second - 500*time.Millisecond, -2500 * time.Millisecond, 2500 * time.Millisecond, 59*time.Second + 500*time.Millisecond, 3600*time.Second + 500*time.Millisecond, 87600*time.Hour + 500*time.Millisecond}
	residents := []time.Duration{500 * time.Millisecond, 2500 * time.Millisecond, 100*time.Second + 500*time.Millisecond, 86400*time.Second + 500*time.Millisecond, 87600*time.Hour + 500*time.Millisecond}
	type ageForm struct {
		s  string
		ok bool
		v  int64
	}
	ages := []ageForm{{"", false, 0}, {"0", true, 0}, {"5", true, 5}, {"100000", true, 100000}, {"-5", true, -5}, {"+7", true, 7},
		{"9223372036854775807", true, 9223372036854775807}, {"99999999999999999999", false, 0}, {"abc", false, 0}, {" 5", false, 0}, {"5.0", false, 0}}
	dateKinds := []int{-1, 0, 5, 100, -2} // -1 absent, -2 malformed, k >= 0: k seconds before the store
	statuses := []int{200, 304, 404, 500, 0}

	one := func(hs, us int, cached bool, eo, res time.Duration, dk int, af ageForm) {
		now := time.Now()
		exp := now.Add(eo)
		written := now.Add(-res)
		stored := http.Header{}
		date := "None"
		switch {
		case dk == -2:
			stored.Set("Date", "yesterday")
		case dk >= 0:
			dt := written.Add(-time.Duration(dk) * time.Second).Truncate(time.Second)
			stored.Set("Date", dt.UTC().Format(http.TimeFormat))
			date = "(Some " + freshlib.NanosZ(dt) + ")"
		}
		upAge := "None"
		if af.s != "" {
			stored.Set("Age", af.s)
		}
		if af.ok {
			upAge = "(Some " + emit.Z(af.v) + ")"
		}
		csLine, xc, ageLine := proxy.VerifCacheLabels(hs, us, cached, exp, written, stored)
		var ageObs int64
		if cached {
			ageObs = int64(proxy.VerifCurrentAge(stored, written))
			if hs != 0 && ageLine != strconv.FormatInt(ageObs, 10) {
				// the Age field must be what getCurrentAge computed (up to a second tick between the two calls)
				if v, err := strconv.ParseInt(ageLine, 10, 64); err != nil || v-ageObs > 1 || ageObs-v > 1 {
					ageObs = -1 << 40
				}
			}
		} else {
			ageObs = int64(proxy.VerifCurrentAge(stored, written))
		}
		cs := freshlib.ParseCacheStatus(csLine)
		xcode := freshlib.XCacheCode(xc)
		csCoq := "(Build_cache_status HsMiss false None false None)"
		if cs.OK {
			csCoq = cs.Coq()
		} else {
			xcode = -1
		}
		obs := fmt.Sprintf("(Build_label_obs %s %s %s)", emit.Z(xcode), csCoq, emit.Z(ageObs))
		w.Add(fmt.Sprintf("LC %s %s %s %s %s %s %s %s %s", []string{"HsMiss", "HsRevalidated", "HsHit"}[hs], emit.Z(int64(us)), emit.Bool(cached),
			freshlib.NanosZ(exp), freshlib.NanosZ(written), freshlib.NanosZ(now), date, upAge, obs))
		rd := map[string]any{"hit_status": hs, "upstream_status": us, "cached": cached, "expires_in": eo.String(), "stored_ago": res.String(),
			"date_kind": dk, "age": af.s, "cache_status": csLine, "x_cache": xc, "age_field": ageLine}
		meta.Count("hit_status", strconv.Itoa(hs))
		meta.Count("cached", strconv.FormatBool(cached))
		meta.Count("age_form", af.s)
		meta.Count("date_kind", strconv.Itoa(dk))
		meta.Record(fmt.Sprint(hs, us, cached, eo, res, dk, af.s), cached, rd)
	}

	if thorough() {
		for hs := 0; hs < 3; hs++ {
			for _, cached := range []bool{true, false} {
				for _, eo := range expOffs {
					for _, res := range residents {
						for _, dk := range dateKinds {
							for _, af := range ages {
								one(hs, emit.Pick(r, statuses), cached, eo, res, dk, af)
							}
						}
					}
				}
			}
		}
		meta.Exhaustive = true
	} else {
		for i := 0; i < 1200; i++ {
			one(r.Intn(3), emit.Pick(r, statuses), r.Chance(80), emit.Pick(r, expOffs), emit.Pick(r, residents), emit.Pick(r, dateKinds), emit.Pick(r, ages))
		}
	}
	w.Flush()
	meta.Write(*flagOut, w.Files)
	fmt.Printf("unit/C03label: %d cases in %d files\n", w.Total, len(w.Files))
}
