package main

import (
	"bufio"
	"crypto/tls"
	"fmt"
	"net/http"
	"path"
	"strings"

	"reservoir/cache"
	"verifharness/emit"
)

func init() { props["C02"] = runC02 }

// A request as the proxy sees it: built by the real http.ReadRequest from raw bytes, so the
// split of the request target into URL.Path (decoded) and URL.RawQuery is the real one.
type c02Req struct {
	rawMethod, rawTarget, rawHost string
	tls                           bool
	r                             *http.Request
	pre                           string
	hex                           string
}

func c02Parse(method, target, host string, useTLS bool) *c02Req {
	raw := method + " " + target + " HTTP/1.1\r\nHost: " + host + "\r\n\r\n"
	r, err := http.ReadRequest(bufio.NewReader(strings.NewReader(raw)))
	if err != nil {
		return nil
	}
	if useTLS {
		r.TLS = &tls.ConnectionState{}
	}
	pre, key, ok := cache.VerifKeyString(r)
	if !ok {
		panic("cache.VerifKeyString: MakeFromRequest no longer reports its key string")
	}
	return &c02Req{rawMethod: method, rawTarget: target, rawHost: host, tls: useTLS, r: r, pre: pre, hex: key.Hex}
}

func (q *c02Req) gallina() string {
	return fmt.Sprintf("(RQ %s %s %s %s %s)", emit.Bool(q.tls), emit.Str(q.r.Method), emit.Str(q.r.Host),
		emit.Str(q.r.URL.EscapedPath()), emit.Str(q.r.URL.RawQuery))
}

func (q *c02Req) readable() map[string]any {
	return map[string]any{"method": q.rawMethod, "target": q.rawTarget, "host_header": q.rawHost, "tls": q.tls,
		"Host": q.r.Host, "Path": q.r.URL.EscapedPath(), "RawQuery": q.r.URL.RawQuery}
}

func (q *c02Req) id() string {
	return fmt.Sprintf("%v\x00%s\x00%s\x00%s", q.tls, q.rawMethod, q.rawTarget, q.rawHost)
}

var c02Methods = []string{"GET", "GET", "GET", "GET", "HEAD", "POST", "get", "GET|a", "GET|3", "G"}
var c02Hosts = []string{"example.com", "example.com", "EXAMPLE.com", "Example.Com:8080", "example.com:8080", "a", "A", "a|b", "b",
	"h|/a", "3:a", "1:a|1:b", "[::1]:80", "xn--bcher-kva.example", "XN--BCHER-KVA.example", "sub.example.com", "example.com.", "", "b\xc3\xbccher.example"}
var c02Segs = []string{"a", "a", "b", "dir", "file.txt", ".", ".", "..", "..", "", "", "a|b", "|", "%7C", "%7c", "%2F", "%2e", "%2E%2e", "%3F",
	"...", "..a", "a..", ".a", "%20", "c|", "|c", "1:a", "0:", "%00", "%25", "A", "*"}
var c02Queries = []string{"", "", "", "?", "?c", "?b|c", "?|", "?a=1&b=2", "?/..", "?%7C", "?c|", "?a/../b", "?0:", "??", "?/", "?C", "?c/"}

func c02Target(r *emit.Rand) string {
	n := r.Intn(5)
	var sb strings.Builder
	sb.WriteByte('/')
	for i := 0; i < n; i++ {
		if i > 0 {
			sb.WriteByte('/')
		}
		sb.WriteString(emit.Pick(r, c02Segs))
	}
	if n > 0 && r.Chance(35) {
		sb.WriteByte('/')
	}
	return sb.String() + emit.Pick(r, c02Queries)
}

func splitTarget(t string) (p, q string) {
	if i := strings.IndexByte(t, '?'); i >= 0 {
		return t[:i], t[i:]
	}
	return t, ""
}

var c02Enc = map[byte]string{'|': "%7C", '/': "%2F", '.': "%2E", '?': "%3F", 'a': "%61", ':': "%3A"}

// c02Mutate derives an adversarially related (method, target, host) from a base triple.
func c02Mutate(r *emit.Rand, m, t, h string) (string, string, string, string) {
	p, q := splitTarget(t)
	slashes := []int{}
	for i := 0; i < len(p); i++ {
		if p[i] == '/' {
			slashes = append(slashes, i)
		}
	}
	switch r.Intn(17) {
	case 0:
		return "identical", m, t, h
	case 1: // host letter case
		b := []byte(h)
		for i := range b {
			if r.Bool() {
				if b[i] >= 'a' && b[i] <= 'z' {
					b[i] -= 32
				} else if b[i] >= 'A' && b[i] <= 'Z' {
					b[i] += 32
				}
			}
		}
		return "host-case", m, t, string(b)
	case 2:
		return "host-other", m, t, emit.Pick(r, c02Hosts)
	case 3: // trailing slash toggled
		if strings.HasSuffix(p, "/") && len(p) > 1 {
			return "trailing-slash", m, p[:len(p)-1] + q, h
		}
		return "trailing-slash", m, p + "/" + q, h
	case 4: // duplicate a slash
		i := emit.Pick(r, slashes)
		return "dup-slash", m, p[:i] + strings.Repeat("/", 1+r.Intn(2)) + p[i:] + q, h
	case 5: // insert a "." segment
		i := emit.Pick(r, slashes)
		return "dot-segment", m, p[:i] + "/." + p[i:] + q, h
	case 6: // insert "seg/.."
		i := emit.Pick(r, slashes)
		return "dotdot-segment", m, p[:i] + "/" + emit.Pick(r, []string{"x", "a", "|", "..."}) + "/.." + p[i:] + q, h
	case 7: // append a dot-segment at the end
		return "dot-tail", m, strings.TrimSuffix(p, "/") + emit.Pick(r, []string{"/.", "/..", "/./", "/../", "/x/..", "/x/../"}) + q, h
	case 8: // swap a '|' with the '?'
		i := strings.IndexByte(t, '?')
		js := []int{}
		for j := 0; j < len(t); j++ {
			if t[j] == '|' {
				js = append(js, j)
			}
		}
		if i < 0 || len(js) == 0 {
			return "pipe-swap", m, "/a|b?c", h
		}
		b := []byte(t)
		j := emit.Pick(r, js)
		b[i], b[j] = b[j], b[i]
		return "pipe-swap", m, string(b), h
	case 9: // move the '?' (characters cross the path/query boundary)
		s := p + strings.TrimPrefix(q, "?")
		i := 1 + r.Intn(len(s))
		return "query-mark-moved", m, s[:i] + "?" + s[i:], h
	case 10: // percent-encode one character of the target
		idx := []int{}
		for i := 1; i < len(t); i++ {
			if _, ok := c02Enc[t[i]]; ok {
				idx = append(idx, i)
			}
		}
		if len(idx) == 0 {
			return "pct-encode", m, t + "%7C", h
		}
		i := emit.Pick(r, idx)
		return "pct-encode", m, t[:i] + c02Enc[t[i]] + t[i+1:], h
	case 11: // re-cut the old '|'-joined tuple at other pipes (characters cross any component boundary)
		s := m + "|" + h + "|" + p + "|" + strings.TrimPrefix(q, "?")
		cuts := []int{}
		for i := 0; i < len(s); i++ {
			if s[i] == '|' {
				cuts = append(cuts, i)
			}
		}
		for try := 0; try < 8; try++ {
			a, b, c := emit.Pick(r, cuts), emit.Pick(r, cuts), emit.Pick(r, cuts)
			if a < b && b < c && a > 0 {
				nm, nh, np, nq := s[:a], s[a+1:b], s[b+1:c], s[c+1:]
				if strings.HasPrefix(np, "/") {
					if nq != "" {
						nq = "?" + nq
					}
					return "recut", nm, np + nq, nh
				}
			}
		}
		return "recut", m + "|" + h, t, "x"
	case 12: // query only
		return "query-other", m, p + emit.Pick(r, c02Queries), h
	case 13:
		return "method-other", emit.Pick(r, c02Methods), t, h
	case 14: // absolute form of the same target (Host header then ignored by net/http)
		return "absolute-form", m, "http://" + h + t, "ignored.example"
	case 15: // length-prefix look-alikes moved between components
		return "prefix-lookalike", m, p + emit.Pick(r, []string{"|1:a", "|0:", "1:", ":"}) + q, h
	default: // unrelated
		return "unrelated", emit.Pick(r, c02Methods), c02Target(r), emit.Pick(r, c02Hosts)
	}
}

func runC02() {
	r := emit.NewRand(*flagSeed)
	meta := emit.NewMeta("unit/C02", *flagSeed, *flagTier)
	w := &emit.Writer{Dir: *flagOut, Prefix: "unit", ShardSize: 1500,
		Imports:  "From Reservoir Require Import Base.Prelude Model.Key Check.Key.",
		CaseType: "key_case", CheckFn: "check_key"}
	meta.Rule = "KClean: path.Clean vs clean_go on every string over {/,.,a,|} up to length 7 (quick) / 8 (thorough) plus random longer paths. " +
		"KPair: pairs of requests parsed by the real http.ReadRequest from raw request lines; all pairs of targets '/'+w, w over {a,|,?,/,.}, |w|<=2 (quick; a random third of |w|<=3 in addition) / <=3 (thorough), " +
		"and structured requests (method/host/segment/query pools with separators, percent-encodings, dot-segments, empty components, length-prefix look-alikes) paired with one of 17 adversarial mutations. " +
		"KOne: the captured pre-hash string of every distinct request. distinct by raw (method,target,host,tls) tuple(s); non-trivial = KPair whose two raw requests differ, KClean whose path contains '/', every KOne"

	// ---- A. path.Clean contract ----
	maxLen := 7
	if thorough() {
		maxLen = 8
	}
	alpha := []byte{'/', '.', 'a', '|'}
	addClean := func(kind, p string) {
		w.Add(fmt.Sprintf("KClean %s %s", emit.Str(p), emit.Str(path.Clean(p))))
		meta.Count("kind", "clean-"+kind)
		meta.Record("C\x00"+p, strings.Contains(p, "/"), map[string]any{"kind": "clean", "path": p, "cleaned": path.Clean(p)})
	}
	var gen func(prefix []byte)
	gen = func(prefix []byte) {
		addClean("exhaustive", string(prefix))
		if len(prefix) == maxLen {
			return
		}
		for _, c := range alpha {
			gen(append(append([]byte{}, prefix...), c))
		}
	}
	gen(nil)
	nLong := 300
	if thorough() {
		nLong = 6000
	}
	for i := 0; i < nLong; i++ {
		l := 9 + r.Intn(30)
		b := make([]byte, l)
		for j := range b {
			switch r.Intn(10) {
			case 0, 1, 2:
				b[j] = '/'
			case 3, 4, 5:
				b[j] = '.'
			case 6:
				b[j] = byte(r.Intn(256))
			default:
				b[j] = "ab|?%:* "[r.Intn(8)]
			}
		}
		if r.Chance(70) {
			b[0] = '/'
		}
		addClean("random-long", string(b))
	}

	// ---- B. requests ----
	seenOne := map[string]bool{}
	addOne := func(q *c02Req) {
		if seenOne[q.id()] {
			return
		}
		seenOne[q.id()] = true
		w.Add(fmt.Sprintf("KOne %s %s", q.gallina(), emit.Str(q.pre)))
		meta.Count("kind", "one")
		rd := q.readable()
		rd["kind"] = "one"
		rd["prehash"] = q.pre
		meta.Record("O\x00"+q.id(), true, rd)
	}
	addPair := func(kind string, a, b *c02Req) {
		addOne(a)
		addOne(b)
		w.Add(fmt.Sprintf("KPair %s %s %s", a.gallina(), b.gallina(), emit.Bool(a.hex == b.hex)))
		meta.Count("kind", "pair-"+kind)
		if a.hex == b.hex {
			meta.Count("hex", "equal")
		} else {
			meta.Count("hex", "different")
		}
		meta.Record("P\x00"+a.id()+"\x01"+b.id(), a.id() != b.id(),
			map[string]any{"kind": "pair-" + kind, "a": a.readable(), "b": b.readable(), "hex_equal": a.hex == b.hex})
	}

	// B1. every pair of small targets
	var targets []string
	talpha := []byte{'a', '|', '?', '/', '.'}
	var tgen func(prefix []byte, max int)
	tgen = func(prefix []byte, max int) {
		targets = append(targets, "/"+string(prefix))
		if len(prefix) == max {
			return
		}
		for _, c := range talpha {
			tgen(append(append([]byte{}, prefix...), c), max)
		}
	}
	tgen(nil, 3)
	parsed := make([]*c02Req, len(targets))
	for i, t := range targets {
		parsed[i] = c02Parse("GET", t, "example.com", false)
		if parsed[i] == nil {
			meta.Count("rejected", "exhaustive-target")
		}
	}
	for i := range targets {
		for j := i; j < len(targets); j++ {
			if parsed[i] == nil || parsed[j] == nil {
				continue
			}
			small := len(targets[i]) <= 3 && len(targets[j]) <= 3
			if !thorough() && !small && r.Intn(3) != 0 {
				continue
			}
			addPair("exhaustive", parsed[i], parsed[j])
		}
	}

	// B1b. long targets (pre-signed / tokenised URLs) that differ only far into the path, the query or the host:
	// every byte of every component must reach the key, however long the target is
	{
		nl := 60
		if thorough() {
			nl = 600
		}
		for i := 0; i < nl; i++ {
			total := emit.Pick(r, []int{120, 300, 511, 512, 513, 700, 1500, 4000})
			mk := func(seed byte, n int) string {
				b := make([]byte, n)
				for j := range b {
					b[j] = "abcdefghijklmnopqrstuvwxyz0123456789-_"[(int(seed)+j*7+j/13)%38]
				}
				return string(b)
			}
			long := mk(byte(i), total)
			pos := total - 1 - r.Intn(1+total/8) // the difference sits in the last eighth
			if r.Chance(30) {
				pos = r.Intn(total)
			}
			other := long[:pos] + string("ABCDEFG"[r.Intn(7)]) + long[pos+1:]
			var ta, tb, ha, hb string
			ha, hb = "example.com", "example.com"
			switch r.Intn(4) {
			case 0:
				ta, tb = "/blob/"+long+"/part", "/blob/"+other+"/part"
			case 1:
				ta, tb = "/download?policy="+long+"&f=1", "/download?policy="+other+"&f=1"
			case 2:
				ta, tb = "/"+long, "/"+other
			default:
				ta, tb = "/p?"+long, "/p?"+other
			}
			a, b := c02Parse("GET", ta, ha, false), c02Parse("GET", tb, hb, false)
			if a == nil || b == nil {
				meta.Count("rejected", "long-target")
				continue
			}
			addPair("long-target", a, b)
			addPair("long-target-same", a, c02Parse("GET", ta, strings.ToUpper(ha), false))
		}
	}

	// B2. structured requests with adversarial mutations
	n := 2500
	if thorough() {
		n = 60000
	}
	for i := 0; i < n; i++ {
		m, t, h := emit.Pick(r, c02Methods), c02Target(r), emit.Pick(r, c02Hosts)
		kind, m2, t2, h2 := c02Mutate(r, m, t, h)
		tlsA, tlsB := false, false
		if r.Chance(3) {
			tlsA = true
			tlsB = r.Bool()
			kind += "+tls"
		}
		a := c02Parse(m, t, h, tlsA)
		b := c02Parse(m2, t2, h2, tlsB)
		if a == nil || b == nil {
			meta.Count("rejected", kind)
			continue
		}
		addPair(kind, a, b)
	}

	// B3. fixed witnesses of the two repaired defects and their relatives
	fixed := [][6]string{
		{"GET", "/a|b?c", "example.com", "GET", "/a?b|c", "example.com"},
		{"GET", "/dir/", "example.com", "GET", "/dir", "example.com"},
		{"GET", "/|", "h", "GET", "/?|", "h"},
		{"GET|a", "/", "b", "GET", "/", "a|b"},
		{"GET", "/x", "a|/y", "GET", "/y|/x", "a"},
		{"GET", "/a/.", "h", "GET", "/a/", "h"},
		{"GET", "/a/.", "h", "GET", "/a", "h"},
		{"GET", "/a/b/..", "h", "GET", "/a/", "h"},
		{"GET", "/a/b/..", "h", "GET", "/a", "h"},
		{"GET", "/..", "h", "GET", "/", "h"},
		{"GET", "/", "h", "GET", "http://h", "x"},
		{"OPTIONS", "*", "h", "OPTIONS", "/*", "h"},
		{"OPTIONS", "*", "h", "OPTIONS", "*", "H"},
		{"GET", "/a%2Fb", "h", "GET", "/a/b", "h"},
		{"GET", "/a%7Cb?c", "h", "GET", "/a|b?c", "h"},
		{"GET", "/a%3Fb", "h", "GET", "/a?b", "h"},
		{"GET", "/a?", "h", "GET", "/a", "h"},
		{"GET", "/A", "h", "GET", "/a", "h"},
		{"GET", "/a?B", "h", "GET", "/a?b", "h"},
		{"GET", "/a", "h", "get", "/a", "h"},
		{"GET", "/a", "h:80", "GET", "/a", "h"},
		{"GET", "/a", "h.", "GET", "/a", "h"},
	}
	for _, f := range fixed {
		a := c02Parse(f[0], f[1], f[2], false)
		b := c02Parse(f[3], f[4], f[5], false)
		if a == nil || b == nil {
			meta.Count("rejected", "witness")
			continue
		}
		addPair("witness", a, b)
	}

	w.Flush()
	meta.Exhaustive = true
	meta.Write(*flagOut, w.Files)
	fmt.Printf("unit/C02: %d cases in %d files\n", w.Total, len(w.Files))
}
