package main

import (
	"fmt"
	"math"
	"strconv"
	"strings"

	"reservoir/proxy/headers"
	"verifharness/emit"
)

func init() { props["C07"] = runC07 }

var boundaryNums = []string{
	"0", "1", "2", "9", "10", "499", "500", "999", "1000", "1001",
	"2147483647", "2147483648", "4294967295", "4294967296", "9007199254740993",
	"9223372036854775806", "9223372036854775807", "9223372036854775808",
	"18446744073709551615", "18446744073709551616", "18446744073709551617", "18446744073709551618",
	"99999999999999999999", "123456789012345678901234567890", "00000000000000000000000000000001", "007",
}

func c07Observe(hdr string, size int64) string {
	start, end, err, panicked := headers.VerifParseRange(hdr)
	parse := "Err"
	slice := "None"
	if panicked {
		parse = "Panic"
	} else if err == nil {
		parse = fmt.Sprintf("(Ok (%s, %s))", emit.Z(start), emit.Z(end))
		s, e, serr, sp := headers.VerifSliceSize(start, end, size)
		if sp {
			parse = "Panic"
		} else if serr == nil {
			slice = fmt.Sprintf("(Some (%s, %s))", emit.Z(s), emit.Z(e))
		}
	}
	return fmt.Sprintf("UC %s %s %s %s", emit.Str(hdr), emit.Z(size), parse, slice)
}

func runC07() {
	r := emit.NewRand(*flagSeed)
	meta := emit.NewMeta("unit/C07", *flagSeed, *flagTier)
	w := &emit.Writer{Dir: *flagOut, Prefix: "unit", ShardSize: 1500,
		Imports:  "From Reservoir Require Import Base.Prelude Model.Range Check.Range.",
		CaseType: "unit_case", CheckFn: "check_unit"}
	meta.Rule = "Range header strings: bounded-exhaustive 'bytes='+w over {0,1,9,-,comma,blank,x} (|w|<=4 quick, <=6 thorough) x sizes; unit/'=' mutations; structured specs with 64-bit boundary numbers; random bytes. distinct by (header,size); non-trivial = header contains '=' and at least one digit or dash after it"

	add := func(kind, hdr string, size int64) {
		w.Add(c07Observe(hdr, size))
		nontrivial := false
		if i := strings.IndexByte(hdr, '='); i >= 0 {
			nontrivial = strings.ContainsAny(hdr[i+1:], "0123456789-")
		}
		meta.Count("kind", kind)
		meta.Count("size", strconv.FormatInt(size, 10))
		meta.Count("len", lenBin(len(hdr)))
		meta.Record(hdr+"\x00"+strconv.FormatInt(size, 10), nontrivial, map[string]any{"header": hdr, "size": size, "kind": kind})
	}

	// 1. bounded-exhaustive tails
	alpha := []byte{'0', '1', '9', '-', ',', ' ', 'x'}
	maxLen := 4
	exSizes := []int64{0, 1, 10, 1000}
	if thorough() {
		maxLen = 6
		exSizes = []int64{0, 1, 2, 10, 1000}
	}
	var gen func(prefix []byte, depth int)
	gen = func(prefix []byte, depth int) {
		for _, sz := range exSizes {
			add("exhaustive", "bytes="+string(prefix), sz)
		}
		if depth == maxLen {
			return
		}
		for _, c := range alpha {
			gen(append(append([]byte{}, prefix...), c), depth+1)
		}
	}
	gen(nil, 0)

	sizes := []int64{0, 1, 2, 10, 1000, 1001, math.MaxInt64}

	// 2. unit / separator mutations
	muts := []string{"", "=", "bytes", "bytes=", "bytes==0-1", "Bytes=0-1", "BYTES=0-1", "bytes =0-1", " bytes=0-1",
		"items=0-10", "bytes0-10", "byte=0-1", "bytess=0-1", "=0-1", "bytes=0-1=2", "bytes=0=1", "bytes:0-1",
		"bytes=\x000-1", "bytes=0-1\x00", "bytes=\xff", "bytes=0\xc3\xa9-1", "bytes=\t0-\t1", "bytes=0 0-1 1", "bytes=--1", "bytes=-", "bytes=- 1",
		"bytes=-1-", "bytes=-1,", "bytes=1-2,", "bytes=1-2-3", "bytes=1-2x", "bytes=5", "bytes=5 ", "bytes= ", "bytes=  -", "bytes= -5", "bytes=+1-2"}
	for _, m := range muts {
		for _, sz := range sizes {
			add("mutation", m, sz)
		}
	}

	// 3. structured specs with boundary and random numbers
	n := 1500
	if thorough() {
		n = 40000
	}
	num := func() string {
		switch r.Intn(4) {
		case 0:
			return emit.Pick(r, boundaryNums)
		case 1:
			return strconv.Itoa(r.Intn(1100))
		case 2:
			return strconv.FormatUint(r.U64(), 10)
		default:
			return strconv.Itoa(r.Intn(12))
		}
	}
	for i := 0; i < n; i++ {
		var spec string
		switch r.Intn(6) {
		case 0:
			spec = num() + "-" + num()
		case 1:
			spec = num() + "-"
		case 2:
			spec = "-" + num()
		case 3:
			spec = num() + "-" + num() + "," + num() + "-" + num()
		case 4: // blanks sprinkled
			spec = emit.Pick(r, []string{"", " ", "\t"}) + num() + emit.Pick(r, []string{"", " "}) + "-" + emit.Pick(r, []string{"", " "}) + num() + emit.Pick(r, []string{"", " ", "x", ",", "-"})
		default:
			a, _ := strconv.Atoi(strconv.Itoa(r.Intn(1000)))
			spec = strconv.Itoa(a) + "-" + strconv.Itoa(a+r.Intn(50))
		}
		add("structured", "bytes="+spec, emit.Pick(r, sizes))
	}

	// 3b. numbers around the overflow boundary of the accumulation num*10+digit:
	// prefixes MaxInt64/10 - 1 .. + 1, every last digit, optionally one or two more digits
	{
		base := []string{"922337203685477579", "922337203685477580", "922337203685477581", "1844674407370955161", "184467440737095516"}
		var nums []string
		for _, b := range base {
			for d := 0; d <= 9; d++ {
				n1 := b + strconv.Itoa(d)
				nums = append(nums, n1)
				for e := 0; e <= 9; e++ {
					nums = append(nums, n1+strconv.Itoa(e))
				}
				nums = append(nums, n1+"05", n1+"85")
			}
		}
		for _, n := range nums {
			add("overflow-boundary", "bytes=0-"+n, emit.Pick(r, []int64{10, 1000}))
			add("overflow-boundary", "bytes=-"+n, emit.Pick(r, []int64{10, 1000}))
			add("overflow-boundary", "bytes="+n+"-", emit.Pick(r, []int64{10, 1000, math.MaxInt64}))
		}
	}

	// 4. random bytes after a (mostly) valid prefix
	m := 300
	if thorough() {
		m = 5000
	}
	for i := 0; i < m; i++ {
		l := r.Intn(12)
		b := make([]byte, l)
		for j := range b {
			if r.Chance(60) {
				b[j] = "0123456789-, =x"[r.Intn(15)]
			} else {
				b[j] = byte(r.Intn(256))
			}
		}
		prefix := "bytes="
		if r.Chance(15) {
			prefix = ""
		}
		add("random", prefix+string(b), emit.Pick(r, sizes))
	}

	w.Flush()
	meta.Exhaustive = false
	meta.Write(*flagOut, w.Files)
	fmt.Printf("unit/C07: %d cases in %d files\n", w.Total, len(w.Files))
}

func lenBin(n int) string {
	switch {
	case n <= 6:
		return "0-6"
	case n <= 10:
		return "7-10"
	case n <= 20:
		return "11-20"
	default:
		return "21+"
	}
}
