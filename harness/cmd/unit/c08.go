package main

import (
	"bytes"
	"fmt"
	"log/slog"
	"net/http"
	"net/url"
	"strings"

	"reservoir/proxy"
	"reservoir/proxy/responder"
	"verifharness/e2elib"
	"verifharness/emit"
)

func init() { props["C08"] = runC08 }

var c08HopNames = []string{"Connection", "Proxy-Connection", "Keep-Alive", "Proxy-Authenticate", "Proxy-Authorization", "Te", "Trailer", "Transfer-Encoding", "Upgrade"}
var c08Custom = []string{"X-Foo", "X-Bar", "Set-Cookie", "Link", "Vary", "Cache-Control", "Accept", "X-Hop-1", "Content-Type", "Etag", "Via", "Age", "Warning"}
var c08Spaces = []string{" ", "\t", "  ", "\n", "\r", "\v", "\f", "\xc2\xa0", "\xc2\x85", "\xe1\x9a\x80", "\xe2\x80\x80", "\xe2\x80\x8a", "\xe2\x80\xa8", "\xe2\x80\xa9", "\xe2\x80\xaf", "\xe2\x81\x9f", "\xe3\x80\x80"}
var c08NearSpaces = []string{"\xc2", "\xa0", "\xc2\xa1", "\xe2\x80", "\xe2\x80\x8b", "\xe2\x80\x7f", "\xe3\x80\x81", "\xe1\x9a\x81", "\x85", "\xe2", "\xe2\x81\x9e", "\xf0\x9f\x80\x80"}

func c08Case(name string, r *emit.Rand) string {
	// arbitrary casing of a header name
	b := []byte(name)
	for i := range b {
		switch r.Intn(3) {
		case 0:
			b[i] = bytes.ToLower(b[i : i+1])[0]
		case 1:
			b[i] = bytes.ToUpper(b[i : i+1])[0]
		}
	}
	return string(b)
}

func c08Value(r *emit.Rand) string {
	const al = "abcXYZ019 ,;=\"/-_.:*()"
	n := 1 + r.Intn(12)
	b := make([]byte, n)
	for i := range b {
		if r.Chance(4) {
			b[i] = byte(0x80 + r.Intn(0x80))
		} else {
			b[i] = al[r.Intn(len(al))]
		}
	}
	s := strings.Trim(string(b), " ")
	if s == "" {
		s = "v"
	}
	return s
}

func cloneHeader(h http.Header) http.Header {
	o := http.Header{}
	for k, v := range h {
		o[k] = append([]string(nil), v...)
	}
	return o
}

func runC08() {
	slog.SetDefault(slog.New(e2elib.DebugDiscard{})) // every level enabled, nothing written
	r := emit.NewRand(*flagSeed)
	meta := emit.NewMeta("unit/C08", *flagSeed, *flagTier)
	w := &emit.Writer{Dir: *flagOut, Prefix: "unit", ShardSize: 700,
		Imports:  "From Reservoir Require Import Base.Prelude Model.Relay Model.Tunnel Check.Relay.",
		CaseType: "ucase", CheckFn: "check_unit"}
	meta.Rule = "canon: bounded-exhaustive header names over {a,B,-,1,blank,_,:,0xC3} + random; trim: strings.TrimSpace on compositions of ASCII/Unicode blanks, near-miss UTF-8 and tokens; hop: random header maps (hop-by-hop names, Connection values with nominated names in any case, blanks of every kind, empty tokens, self-nomination, non-canonical keys) through removeHopByHopHeaders; setall: Responder.SetHeaders on both responders with multi-valued fields over a pre-filled header; esc: all 256 bytes through URL.EscapedPath; target: request targets (valid RFC 3986 paths with pct-encoded octets incl. %2F, malformed escapes, bytes outside pchar, empty and odd queries, bad hosts) through url.ParseRequestURI + changeRequestToTarget. distinct by printed case; non-trivial = hop map with a Connection field / multi-valued setall / target with a '%' or non-pchar byte / canon or trim input that changes"
	mult := 1
	if thorough() {
		mult = 12
	}
	add := func(kind, c string, nontrivial bool, readable map[string]any) {
		w.Add(c)
		meta.Count("kind", kind)
		readable["kind"] = kind
		meta.Record(c, nontrivial, readable)
	}

	// ---- canon
	canon := func(s string) {
		out := http.CanonicalHeaderKey(s)
		add("canon", fmt.Sprintf("UCanon %s %s", emit.Str(s), emit.Str(out)), out != s, map[string]any{"in": emit.Printable(s)})
	}
	alpha := []byte{'a', 'B', '-', '1', ' ', '_', ':', 0xC3}
	maxLen := 3
	if thorough() {
		maxLen = 5
	}
	var gen func(p []byte, d int)
	gen = func(p []byte, d int) {
		canon(string(p))
		if d == maxLen {
			return
		}
		for _, c := range alpha {
			gen(append(append([]byte{}, p...), c), d+1)
		}
	}
	gen(nil, 0)
	for i := 0; i < 200*mult; i++ {
		n := emit.Pick(r, append(append([]string{}, c08HopNames...), c08Custom...))
		s := c08Case(n, r)
		if r.Chance(15) {
			s += emit.Pick(r, []string{" ", ":", "\x00", "\xff", "(", "é", "~", "|"})
		}
		canon(s)
	}

	// ---- trim
	trim := func(s string) {
		out := strings.TrimSpace(s)
		add("trim", fmt.Sprintf("UTrim %s %s", emit.Str(s), emit.Str(out)), out != s, map[string]any{"in": emit.Printable(s)})
	}
	parts := append(append(append([]string{}, c08Spaces...), c08NearSpaces...), "a", "x-foo", "Keep-Alive", "", "b c")
	for i := 0; i < 700*mult; i++ {
		n := r.Intn(5)
		var sb strings.Builder
		for j := 0; j < n; j++ {
			sb.WriteString(emit.Pick(r, parts))
		}
		trim(sb.String())
	}
	for _, a := range parts {
		for _, b := range parts {
			trim(a + b)
		}
	}

	// ---- hop
	for i := 0; i < 500*mult; i++ {
		h := http.Header{}
		wf := true
		nk := r.Intn(7)
		var present []string
		for j := 0; j < nk; j++ {
			var k string
			if r.Chance(45) {
				k = emit.Pick(r, c08HopNames)
			} else {
				k = emit.Pick(r, c08Custom)
			}
			if r.Chance(8) {
				k = c08Case(k, r) // possibly non-canonical map key (only reachable by direct map writes)
			}
			if http.CanonicalHeaderKey(k) != k {
				wf = false
			}
			nv := 1 + r.Intn(3)
			for v := 0; v < nv; v++ {
				h[k] = append(h[k], c08Value(r))
			}
			present = append(present, k)
		}
		if r.Chance(75) {
			nv := 1 + r.Intn(2)
			var vals []string
			for v := 0; v < nv; v++ {
				nt := r.Intn(4)
				var toks []string
				for t := 0; t < nt; t++ {
					var tok string
					switch r.Intn(6) {
					case 0:
						tok = emit.Pick(r, []string{"close", "keep-alive", "Upgrade", "connection", "TE"})
					case 1:
						tok = ""
					case 2:
						tok = emit.Pick(r, []string{"x foo", "x:y", "é", "X-Foo\x00"})
					default:
						if len(present) > 0 && r.Chance(70) {
							tok = c08Case(emit.Pick(r, present), r)
						} else {
							tok = c08Case(emit.Pick(r, c08Custom), r)
						}
					}
					sp := func() string {
						if r.Chance(50) {
							return ""
						}
						if r.Chance(85) {
							return emit.Pick(r, []string{" ", "\t", "  "})
						}
						return emit.Pick(r, c08Spaces)
					}
					toks = append(toks, sp()+tok+sp())
				}
				vals = append(vals, strings.Join(toks, ","))
			}
			key := "Connection"
			if r.Chance(4) {
				key = "connection"
				wf = false
			}
			h[key] = append(h[key], vals...)
		}
		in := cloneHeader(h)
		proxy.VerifRemoveHopByHop(h)
		_, hasConn := in["Connection"]
		add("hop", fmt.Sprintf("UHop %s %s %s", emit.Bool(wf), emit.Hdrs(in), emit.Hdrs(h)), hasConn,
			map[string]any{"header": emit.HdrsReadable(in), "after": emit.HdrsReadable(h)})
	}

	// ---- SetHeaders on both responders
	for i := 0; i < 250*mult; i++ {
		var rsp responder.Responder
		raw := r.Bool()
		var buf bytes.Buffer
		if raw {
			rsp = responder.NewRawHTTPResponder(&buf)
		} else {
			rsp = responder.NewHTTPResponder(&fakeWriter{h: http.Header{}})
		}
		pool := append(append([]string{}, c08Custom...), "Keep-Alive", "Content-Length")
		for j := r.Intn(5); j > 0; j-- {
			k := c08Case(emit.Pick(r, pool), r)
			if r.Bool() {
				rsp.SetHeader(k, c08Value(r))
			} else {
				rsp.AddHeader(k, c08Value(r))
			}
		}
		dst := cloneHeader(rsp.GetHeaders())
		src := http.Header{}
		multi := false
		for j := r.Intn(6); j > 0; j-- {
			k := emit.Pick(r, pool)
			if _, ok := src[k]; ok {
				continue
			}
			nv := 1 + r.Intn(3)
			if nv > 1 {
				multi = true
			}
			for v := 0; v < nv; v++ {
				src[k] = append(src[k], c08Value(r))
			}
		}
		rsp.SetHeaders(src)
		out := cloneHeader(rsp.GetHeaders())
		add("setall", fmt.Sprintf("USetAll %s %s %s", emit.Hdrs(src), emit.Hdrs(dst), emit.Hdrs(out)), multi,
			map[string]any{"raw_responder": raw, "src": emit.HdrsReadable(src), "dst": emit.HdrsReadable(dst), "after": emit.HdrsReadable(out)})
	}

	// ---- escape table
	for c := 0; c < 256; c++ {
		s := string([]byte{byte(c)})
		u := url.URL{Path: "/" + s}
		esc := u.EscapedPath() != "/"+s
		add("esc", fmt.Sprintf("UEsc %d %s", c, emit.Bool(esc)), true, map[string]any{"byte": c})
	}

	// ---- request targets
	pchars := "abcXYZ0189-._~!$&'()*+,;=:@"
	target := func(p, q, host string) {
		t := p
		if q != "" {
			t += "?" + q
		}
		_, herr := url.Parse("http://" + host)
		hostOK := herr == nil
		u, err := url.ParseRequestURI(t)
		parsed := "None"
		out := "Err"
		if err == nil {
			parsed = fmt.Sprintf("(Some (%s, %s))", emit.Str(u.Path), emit.Str(u.RawPath))
			req := &http.Request{Method: "GET", URL: u, Host: host, Header: http.Header{}, RequestURI: t}
			if e := proxy.VerifChangeRequestToTarget(req, false); e == nil {
				out = "(Ok " + emit.Str(req.URL.RequestURI()) + ")"
			}
		}
		nontrivial := strings.ContainsAny(p, "%\"<>\\^`{|}[]") || !isASCII(p)
		add("target", fmt.Sprintf("UTarget %s %s %s %s %s", emit.Str(p), emit.Str(q), emit.Bool(hostOK), parsed, out), nontrivial,
			map[string]any{"path": emit.Printable(p), "query": emit.Printable(q), "host": host})
	}
	hosts := []string{"example.com", "127.0.0.1:8080", "[::1]:443", "h"}
	badHosts := []string{"bad host", "[::1", "a%zz", "exa mple.com:80"}
	fixed := []string{"/", "/a%2Fb", "/a%2fb", "/a/b", "/a%252Fb", "/%41", "/a%20b", "/a+b", "/a;p=1/b,c", "/*", "/a%", "/a%2", "/a%zz", "/%", "//a", "/a//b/", "/a|b", "/a\"b", "/é", "/%C3%A9", "/[x]", "/{x}", "/a^b", "/a`b", "/a\\b", "/a<b>", "/a%2F%2Fb", "/a:b@c", "/~u/.well-known/x"}
	for _, p := range fixed {
		for _, q := range []string{"", "x=1", "a=%2F&b=c+d", "?", "%zz"} {
			target(p, q, emit.Pick(r, hosts))
		}
	}
	for i := 0; i < 600*mult; i++ {
		var sb strings.Builder
		segs := 1 + r.Intn(4)
		for s := 0; s < segs; s++ {
			sb.WriteByte('/')
			for k := r.Intn(6); k > 0; k-- {
				switch x := r.Intn(100); {
				case x < 60:
					sb.WriteByte(pchars[r.Intn(len(pchars))])
				case x < 85:
					fmt.Fprintf(&sb, "%%%c%c", "0123456789ABCDEFabcdef"[r.Intn(22)], "0123456789ABCDEFabcdef"[r.Intn(22)])
				case x < 88:
					sb.WriteString("%2F")
				case x < 92:
					sb.WriteString(emit.Pick(r, []string{"%", "%4", "%G1", "%1G"}))
				case x < 97:
					sb.WriteString(emit.Pick(r, []string{"|", "\"", "<", ">", "\\", "^", "`", "{", "}", "[", "]"}))
				default:
					sb.WriteByte(byte(0x80 + r.Intn(0x80)))
				}
			}
		}
		q := ""
		if r.Chance(50) {
			q = emit.Pick(r, []string{"x=1", "a=b&c=d", "q=%2F", "k", "a=%", "x=y?z", "%C3%A9=1"})
		}
		host := emit.Pick(r, hosts)
		if r.Chance(5) {
			host = emit.Pick(r, badHosts)
		}
		target(sb.String(), q, host)
	}

	w.Flush()
	meta.Write(*flagOut, w.Files)
	fmt.Printf("unit/C08: %d cases in %d files\n", w.Total, len(w.Files))
}

func isASCII(s string) bool {
	for i := 0; i < len(s); i++ {
		if s[i] >= 0x80 {
			return false
		}
	}
	return true
}

// fakeWriter is the smallest http.ResponseWriter: HTTPResponder only touches its header map here.
type fakeWriter struct{ h http.Header }

func (f *fakeWriter) Header() http.Header         { return f.h }
func (f *fakeWriter) Write(b []byte) (int, error) { return len(b), nil }
func (f *fakeWriter) WriteHeader(int)             {}
