// sessrace: forced interleavings of logout with session lookup/extension on the REAL
// webserver/auth package (C20: "a session is live only from a successful login until logout").
// Sequential programs that realise the interleavings at call granularity, plus one that uses the
// session.beforeExtend yield point.  Decided by the harness itself ("direct" stage).
// Usage: sessrace -seed N -tier quick|thorough -out DIR
package main

import (
	"encoding/json"
	"flag"
	"fmt"
	"io"
	"log/slog"
	"os"
	"path/filepath"
	"sync"
	"time"

	"reservoir/webserver/auth"
)

var (
	flagSeed = flag.Int64("seed", 1, "PRNG seed")
	flagTier = flag.String("tier", "quick", "quick|thorough")
	flagOut  = flag.String("out", ".", "output directory")
)

type failure struct {
	Scenario string `json:"scenario"`
	Shift    string `json:"age_at_lookup"`
	What     string `json:"what"`
}

func main() {
	flag.Parse()
	slog.SetDefault(slog.New(slog.NewTextHandler(io.Discard, nil)))
	if err := os.MkdirAll(*flagOut, 0755); err != nil {
		panic(err)
	}
	failures := []failure{}
	total := 0
	dist := map[string]int{}
	// ages at which the concurrent lookup happens: far from expiry (no extension) and inside the extend window
	shifts := []time.Duration{0, 20 * time.Minute, 49 * time.Minute, 51 * time.Minute, 55 * time.Minute, 59 * time.Minute}
	for _, sh := range shifts {
		// 1. logout that resolved its session BEFORE a concurrent request looked the session up (and possibly extended it)
		auth.VerifResetSessions()
		s := auth.CreateSession(1)
		auth.VerifShiftSessions(sh)
		handle, ok := auth.GetSession(s.ID) // the logout request resolves its session
		if !ok {
			failures = append(failures, failure{"stale-handle-logout", sh.String(), "a live session was refused"})
		} else {
			auth.VerifShiftSessions(time.Minute)
			auth.GetSession(s.ID) // a concurrent request of the same user (extends inside the window)
			handle.Destroy()      // ... the logout completes
			if _, alive := auth.GetSession(s.ID); alive {
				failures = append(failures, failure{"stale-handle-logout", sh.String(), "the cookie still authorises after its logout completed (logout deleted nothing: it held the record from before a concurrent extension)"})
			}
			if n := auth.VerifSessionCount(); n != 0 {
				failures = append(failures, failure{"stale-handle-logout", sh.String(), fmt.Sprintf("session table still has %d entries after logout", n)})
			}
		}
		total++
		dist["stale-handle-logout"]++

		// 2. logout landing INSIDE a lookup that is about to publish an extension
		auth.VerifResetSessions()
		s2 := auth.CreateSession(2)
		auth.VerifShiftSessions(sh)
		fired := false
		auth.VerifSetYield(func(point string) {
			if point == "session.beforeExtend" && !fired {
				fired = true
				s2.Destroy()
			}
		})
		auth.GetSession(s2.ID)
		auth.VerifSetYield(nil)
		if _, alive := auth.GetSession(s2.ID); alive && fired {
			failures = append(failures, failure{"logout-during-extension", sh.String(), "the session is live again after a logout that completed while a lookup was extending it"})
		}
		total++
		dist["logout-during-extension"]++
		if fired {
			dist["logout-during-extension(yield reached)"]++
		}

		// 3. control: plain logout kills the session; an untouched session stays live
		auth.VerifResetSessions()
		s3 := auth.CreateSession(3)
		s4 := auth.CreateSession(4)
		auth.VerifShiftSessions(sh)
		s3.Destroy()
		if _, alive := auth.GetSession(s3.ID); alive {
			failures = append(failures, failure{"plain-logout", sh.String(), "session live after logout"})
		}
		if _, alive := auth.GetSession(s4.ID); !alive {
			failures = append(failures, failure{"plain-logout", sh.String(), "another user's live session was lost"})
		}
		total++
		dist["plain-logout"]++
	}
	// 4. many users log out at the same moment while others log in: every logout is final, every new session lives
	{
		auth.VerifResetSessions()
		n := 8000
		if *flagTier == "thorough" {
			n = 40000
		}
		sess := make([]*auth.Session, n)
		for i := range sess {
			sess[i] = auth.CreateSession(int64(i + 10))
		}
		var wg sync.WaitGroup
		const G = 16
		fresh := make([][]*auth.Session, G)
		for g := 0; g < G; g++ {
			wg.Add(1)
			go func(g int) {
				defer wg.Done()
				for i := g; i < n; i += G {
					sess[i].Destroy()
					if i%7 == 0 {
						fresh[g] = append(fresh[g], auth.CreateSession(int64(1000000+i)))
					}
				}
			}(g)
		}
		wg.Wait()
		still, lost := 0, 0
		for _, x := range sess {
			if _, alive := auth.GetSession(x.ID); alive {
				still++
			}
		}
		for _, l := range fresh {
			for _, x := range l {
				if _, alive := auth.GetSession(x.ID); !alive {
					lost++
				}
			}
		}
		if still > 0 {
			failures = append(failures, failure{"mass-logout", "0s", fmt.Sprintf("%d of %d sessions are still accepted after their logout completed (16 users logging out at once)", still, n)})
		}
		if lost > 0 {
			failures = append(failures, failure{"mass-logout", "0s", fmt.Sprintf("%d sessions created while others logged out are not accepted", lost)})
		}
		total++
		dist["mass-logout"]++
	}
	out := map[string]any{
		"harness": "sessrace", "seed": *flagSeed, "tier": *flagTier, "total": total, "distinct": total, "distinct_nontrivial": total,
		"rule":         "logout interleaved with lookups of the same session at ages 0-59 min (outside and inside the 10-minute extension window): logout holding the record from before a concurrent extension; logout landing inside a lookup between its read and the publication of the extension (yield point session.beforeExtend); plain logout as control; mass logout (8000 sessions destroyed by 16 goroutines while new sessions are created): every logout final, every new session live",
		"distribution": map[string]any{"scenario": dist},
		"samples":      []any{map[string]any{"scenario": "stale-handle-logout", "age_at_lookup": "55m"}},
		"files":        []string{}, "readable": []any{},
		"direct": map[string]any{"total": total, "failures": failures, "mismatches": []any{}},
	}
	b, _ := json.MarshalIndent(out, "", " ")
	if err := os.WriteFile(filepath.Join(*flagOut, "meta.json"), b, 0644); err != nil {
		panic(err)
	}
	fmt.Printf("sessrace: %d scenarios, %d failures\n", total, len(failures))
}
