// evict: correspondence harness for C13 (size limit enforced by LRU eviction;
// cleanup removes exactly the expired).  It drives the REAL MemoryCache and
// FileCache of reservoir/cache through histories of stores, accesses, direct
// evictions, janitor cycles (with operations landing at the scan/removal yield
// point), held shard locks, limit changes through config.UpdatePartialFromConfig
// and clock advances (ageing hook), and records after every operation the
// surviving key set, byteSize and the store path's limit.
//
// Usage: evict -stage hist|interval -seed N -tier quick|thorough -out DIR
package main

import (
	"bytes"
	"context"
	"flag"
	"fmt"
	"io"
	"log/slog"
	"os"
	"path/filepath"
	"runtime/pprof"
	"sort"
	"strings"
	"sync"
	"time"

	"reservoir/cache"
	"reservoir/config"
	"reservoir/metrics"
	"reservoir/utils/bytesize"
	"verifharness/emit"
)

var (
	flagStage = flag.String("stage", "hist", "hist|interval")
	flagSeed  = flag.Int64("seed", 1, "PRNG seed")
	flagTier  = flag.String("tier", "quick", "quick|thorough")
	flagOut   = flag.String("out", ".", "output directory for case files and meta.json")
)

const MiB = 1 << 20

type meta struct{ Tag int }

// store is what the harness needs from either backend.
type store interface {
	Cache(key cache.CacheKey, data io.Reader, expires time.Time, metadata meta) (*cache.Entry[meta], error)
	Get(key cache.CacheKey) (*cache.Entry[meta], error)
	Delete(key cache.CacheKey) error
	UpdateMetadata(key cache.CacheKey, modifier func(*cache.EntryMetadata[meta])) error
	Destroy()
	cache.VerifHooks
	VerifMaxCacheSize() int64
}

var zeros = make([]byte, 4*MiB+16)

func thorough() bool { return *flagTier == "thorough" }

// ---------------------------------------------------------------------------
// one entry as the model sees it

type ent struct {
	key   int64 // model identity
	shard int   // as reported by the implementation
	size  int64
	age   int64 // ms since last access, relative to the base instant
	exp   int64 // expiry minus base instant, ms
}

func (e ent) coq() string {
	return fmt.Sprintf("(mkE %s %s %s %s %s)", emit.Z(e.key), emit.Z(int64(e.shard)), emit.Z(e.size), emit.Z(e.age), emit.Z(e.exp))
}

func zlist(xs []int64) string {
	s := make([]string, len(xs))
	for i, x := range xs {
		s[i] = emit.Z(x)
	}
	return "[" + strings.Join(s, "; ") + "]"
}

func ilist(xs []int) string {
	s := make([]string, len(xs))
	for i, x := range xs {
		s[i] = emit.Z(int64(x))
	}
	return "[" + strings.Join(s, "; ") + "]"
}

// yield-point operation
type yop struct {
	kind string // store | refresh | delete
	e    ent    // store
	key  int64
	exp  int64
}

func (y yop) coq() string {
	switch y.kind {
	case "store":
		return "YStore " + y.e.coq()
	case "refresh":
		return fmt.Sprintf("YRefresh %s %s", emit.Z(y.key), emit.Z(y.exp))
	}
	return "YDelete " + emit.Z(y.key)
}

func ylist(ys []yop) string {
	s := make([]string, len(ys))
	for i, y := range ys {
		s[i] = y.coq()
	}
	return "[" + strings.Join(s, "; ") + "]"
}

// ---------------------------------------------------------------------------
// a running history on a real cache

type hist struct {
	overwrites int
	backend    string
	shards     int
	maxb       int64
	memcap     int64
	gen        string

	c      store
	cfg    *config.Config
	cancel context.CancelFunc
	dir    string
	base   time.Time
	hexOf  map[int64]string
	idOf   map[string]int64
	live   map[int64]ent // harness view of the population (attributes as last set)

	steps    []string
	readable []string
	lostAny  bool
	trigAny  bool
}

var caseSeq int

func hexKey(sel uint32, id int64) string { return fmt.Sprintf("%08x%056x", sel, id) }

func newHist(backend string, shards int, maxb, memcap int64, gen string) *hist {
	h := &hist{backend: backend, shards: shards, maxb: maxb, memcap: memcap, gen: gen,
		hexOf: map[int64]string{}, idOf: map[string]int64{}, live: map[int64]ent{}}
	h.cfg = config.NewDefault()
	// the configured value itself (Overwrite would install a command-line override that masks later updates)
	h.cfg.Cache.MaxCacheSize = config.NewConfigProp(bytesize.ByteSize(maxb))
	ctx, cancel := context.WithCancel(context.Background())
	h.cancel = cancel
	caseSeq++
	if backend == "Mem" {
		c := cache.NewMemoryCache[meta](h.cfg, 75, maxb, time.Hour, shards, ctx)
		c.VerifSetMemoryCap(memcap)
		h.c = c
	} else {
		h.dir = filepath.Join("fc", fmt.Sprintf("c%d", caseSeq))
		if err := os.MkdirAll(h.dir, 0755); err != nil {
			panic(err)
		}
		h.c = cache.NewFileCache[meta](h.cfg, h.dir, maxb, time.Hour, shards, ctx)
	}
	h.base = time.Now()
	return h
}

func (h *hist) close() {
	cache.VerifSetYield(nil)
	h.c.Destroy()
	h.cancel()
	if h.dir != "" {
		os.RemoveAll(h.dir)
	}
}

// key with identity id that the implementation maps to lock shard `shard` (mod shards)
func (h *hist) mkKey(id int64, shard int, r *emit.Rand) string {
	if hx, ok := h.hexOf[id]; ok {
		return hx
	}
	sel := uint32(shard%h.shards) + uint32(h.shards)*uint32(r.Intn(1000))
	hx := hexKey(sel, id)
	h.hexOf[id] = hx
	h.idOf[hx] = id
	return hx
}

func (h *hist) shardHex(shard int) string { return hexKey(uint32(shard), 0) }

func (h *hist) lock(held []int) {
	for _, s := range held {
		h.c.VerifLockShard(h.shardHex(s))
	}
}
func (h *hist) unlock(held []int) {
	for _, s := range held {
		h.c.VerifUnlockShard(h.shardHex(s))
	}
}

func (h *hist) keys() []int64 {
	out := []int64{}
	for _, hx := range h.c.VerifKeys() {
		id, ok := h.idOf[hx]
		if !ok {
			id = -1
		}
		out = append(out, id)
	}
	sort.Slice(out, func(i, j int) bool { return out[i] < out[j] })
	return out
}

// guarded runs f with a watchdog: a hang of the implementation is a harness failure, not a wait.
func guarded(what string, f func()) {
	done := make(chan struct{})
	go func() { f(); close(done) }()
	select {
	case <-done:
	case <-time.After(30 * time.Second):
		fmt.Fprintf(os.Stderr, "evict harness: operation hung: %s\n", what)
		pprof.Lookup("goroutine").WriteTo(os.Stderr, 1)
		os.Exit(3)
	}
}

func (h *hist) record(opCoq, opText string, ok bool) {
	keys := h.keys()
	present := map[int64]bool{}
	for _, k := range keys {
		present[k] = true
	}
	for k := range h.live {
		if !present[k] {
			delete(h.live, k)
			h.lostAny = true
		}
	}
	obs := fmt.Sprintf("Obs %s %s %s %s", zlist(keys), emit.Z(h.c.VerifByteSize()), emit.Z(h.c.VerifMaxCacheSize()), emit.Bool(ok))
	h.steps = append(h.steps, fmt.Sprintf("(%s, %s)", opCoq, obs))
	h.readable = append(h.readable, fmt.Sprintf("%s -> keys=%v bytes=%d ok=%v", opText, keys, h.c.VerifByteSize(), ok))
}

func (h *hist) rawStore(e ent, hx string) bool {
	entry, err := h.c.Cache(cache.CacheKey{Hex: hx}, bytes.NewReader(zeros[:e.size]), h.base.Add(time.Duration(e.exp)*time.Millisecond), meta{})
	if err != nil {
		return false
	}
	if entry != nil && entry.Data != nil {
		entry.Data.Close()
	}
	h.c.VerifSetLastAccess(hx, h.base.Add(-time.Duration(e.age)*time.Millisecond))
	return true
}

func (h *hist) opStore(id int64, shard int, size, age, exp int64, held []int, r *emit.Rand) bool {
	hx := h.mkKey(id, shard, r)
	e := ent{key: id, shard: h.c.VerifShardOf(hx), size: size, age: age, exp: exp}
	if h.c.VerifByteSize() >= h.limitNow() {
		h.trigAny = true
	}
	var ok bool
	guarded("store", func() {
		h.lock(held)
		ok = h.rawStore(e, hx)
		h.unlock(held)
	})
	if ok {
		h.live[id] = e
	}
	h.record(fmt.Sprintf("OStore %s %s", e.coq(), ilist(held)), fmt.Sprintf("store k%d shard=%d size=%d age=%d exp=%d held=%v", id, e.shard, size, age, exp, held), ok)
	return ok
}

func (h *hist) limitNow() int64 {
	if h.backend == "Mem" {
		return h.c.VerifLimit()
	}
	return h.c.VerifMaxCacheSize()
}

func (h *hist) opTouch(id, age int64) {
	hx := h.hexOf[id]
	ok := false
	guarded("get", func() {
		before := time.Now()
		entry, err := h.c.Get(cache.CacheKey{Hex: hx})
		if err == nil {
			entry.Data.Close()
			_, _, la, _, found := h.c.VerifMeta(hx)
			ok = found && !la.Before(before) // the access was recorded
			h.c.VerifSetLastAccess(hx, h.base.Add(-time.Duration(age)*time.Millisecond))
		}
	})
	if e, in := h.live[id]; in && ok {
		e.age = age
		h.live[id] = e
	}
	h.record(fmt.Sprintf("OTouch %s %s", emit.Z(id), emit.Z(age)), fmt.Sprintf("get k%d then age=%d", id, age), ok)
}

func (h *hist) opDelete(id int64) {
	hx, known := h.hexOf[id]
	if !known {
		hx = hexKey(0, id)
	}
	var err error
	guarded("delete", func() { err = h.c.Delete(cache.CacheKey{Hex: hx}) })
	delete(h.live, id)
	h.record("ODelete "+emit.Z(id), fmt.Sprintf("delete k%d", id), err == nil)
}

func (h *hist) opEvict(limit int64, held []int) {
	h.trigAny = true
	guarded("evict", func() {
		h.lock(held)
		h.c.VerifEvict(limit)
		h.unlock(held)
	})
	h.record(fmt.Sprintf("OEvict %s %s", emit.Z(limit), ilist(held)), fmt.Sprintf("evict limit=%d held=%v", limit, held), true)
}

func (h *hist) doYops(ys []yop) {
	for _, y := range ys {
		switch y.kind {
		case "store":
			if h.rawStore(y.e, h.hexOf[y.e.key]) {
				h.live[y.e.key] = y.e
			}
		case "refresh":
			hx := h.hexOf[y.key]
			exp := y.exp
			if h.c.UpdateMetadata(cache.CacheKey{Hex: hx}, func(m *cache.EntryMetadata[meta]) {
				m.Expires = h.base.Add(time.Duration(exp) * time.Millisecond)
			}) == nil {
				h.c.VerifSetLastAccess(hx, h.base)
				if e, in := h.live[y.key]; in {
					e.exp, e.age = exp, 0
					h.live[y.key] = e
				}
			}
		case "delete":
			h.c.Delete(cache.CacheKey{Hex: h.hexOf[y.key]})
			delete(h.live, y.key)
		}
	}
}

// cycle=true: cleanExpiredEntries + ensureCacheSize; false: cleanExpiredEntries only.
func (h *hist) opCycle(cycle bool, held []int, ys []yop) {
	fired := false
	if len(ys) > 0 {
		cache.VerifSetYield(func(point string) {
			if point == "janitor.afterScan" && !fired {
				fired = true
				h.doYops(ys)
			}
		})
	}
	if cycle && h.c.VerifByteSize() >= h.cfg.Cache.MaxCacheSize.Read().Bytes() {
		h.trigAny = true
	}
	guarded("cycle", func() {
		h.lock(held)
		if cycle {
			h.c.VerifCleanupCycle()
		} else {
			h.c.VerifCleanExpired()
		}
		h.unlock(held)
	})
	cache.VerifSetYield(nil)
	if len(ys) > 0 && !fired {
		fmt.Fprintln(os.Stderr, "evict harness: the janitor.afterScan yield point was not reached")
		os.Exit(4)
	}
	name, txt := "OClean", "clean"
	if cycle {
		name, txt = "OCycle", "cycle"
	}
	yt := []string{}
	for _, y := range ys {
		yt = append(yt, y.coq())
	}
	h.record(fmt.Sprintf("%s %s %s", name, ilist(held), ylist(ys)), fmt.Sprintf("%s held=%v yield=%v", txt, held, yt), true)
}

// limit change through the real configuration path, then wait for the listener.
func (h *hist) opSetLimit(n int64) {
	var err error
	var st config.UpdateStatus
	guarded("setlimit", func() {
		st, err = config.UpdatePartialFromConfig(h.cfg, map[string]any{"cache": map[string]any{"max_cache_size": fmt.Sprintf("%dB", n)}})
	})
	ok := err == nil && st != config.UpdateStatusFailed
	h.record("OSetLimit "+emit.Z(n), fmt.Sprintf("config max_cache_size=%dB", n), ok)
	deadline := time.Now().Add(10 * time.Second)
	for h.c.VerifMaxCacheSize() != n && time.Now().Before(deadline) {
		time.Sleep(200 * time.Microsecond)
	}
	h.record("ODeliver 0", "listener delivered", true)
}

func (h *hist) opSetMemCap(n int64) {
	h.c.VerifSetMemoryCap(n)
	h.record("OSetMemCap "+emit.Z(n), fmt.Sprintf("memcap=%d", n), true)
}

func (h *hist) opAdvance(d int64) {
	h.c.VerifAge(time.Duration(d) * time.Millisecond)
	for k, e := range h.live {
		e.age += d
		e.exp -= d
		h.live[k] = e
	}
	h.record("OAdvance "+emit.Z(d), fmt.Sprintf("advance %dms", d), true)
}

func (h *hist) coq() string {
	return fmt.Sprintf("HC %s %s %s\n   [ %s ]", h.backend, emit.Z(h.maxb), emit.Z(h.memcap), strings.Join(h.steps, "\n   ; "))
}

// ---------------------------------------------------------------------------
// generators

const huge = int64(1) << 40

var smallAges = []int64{0, 1, 2, 5, 5, 5, 7, 100, 100, 250, 1000, 60000}
var fineAges = []int64{0, 50, 99, 100, 101, 150, 199, 200, 201, 300}
var bigSizes = []int64{MiB - 1, MiB, MiB + 1, 2*MiB - 1, 2 * MiB, 2*MiB + 5, 3 * MiB}
var expChoices = []int64{-3600000, -60000, -5000, 5000, 60000, 3600000}
var shardCounts = []int{1, 2, 3, 64}

type genCtx struct {
	r    *emit.Rand
	w    *emit.Writer
	m    *emit.Meta
	next int64
}

func (g *genCtx) finish(h *hist) {
	h.close()
	c := h.coq()
	g.w.Add(c)
	g.m.Count("gen", h.gen)
	g.m.Count("backend", h.backend)
	g.m.Count("shards", fmt.Sprint(h.shards))
	g.m.Count("steps", fmt.Sprint(len(h.steps)))
	g.m.Record(c, h.lostAny || h.trigAny, map[string]any{"gen": h.gen, "backend": h.backend, "shards": h.shards,
		"max": h.maxb, "memcap": h.memcap, "ops": h.readable})
}

func (g *genCtx) heldSubset(h *hist, avoid map[int]bool, p int) []int {
	out := []int{}
	if !g.r.Chance(p) {
		return out
	}
	// shards actually used by live entries first, so that holding matters
	used := map[int]bool{}
	for _, e := range h.live {
		used[e.shard] = true
	}
	cand := []int{}
	for s := range used {
		cand = append(cand, s)
	}
	sort.Ints(cand)
	for _, s := range cand {
		if !avoid[s] && g.r.Chance(50) {
			out = append(out, s)
		}
	}
	return out
}

func (g *genCtx) size(big bool) int64 {
	if big {
		return emit.Pick(g.r, bigSizes)
	}
	switch g.r.Intn(10) {
	case 0:
		return 0
	case 1:
		return 1
	}
	return int64(1 + g.r.Intn(400))
}

func (g *genCtx) age(big bool) int64 {
	if big {
		return emit.Pick(g.r, fineAges)
	}
	if g.r.Chance(70) {
		return emit.Pick(g.r, smallAges)
	}
	return int64(g.r.Intn(2000))
}

func (g *genCtx) populate(h *hist, n int, big bool, withExpired bool) int64 {
	total := int64(0)
	for i := 0; i < n; i++ {
		g.next++
		sz := g.size(big)
		if h.backend == "File" && sz == 0 {
			sz = 1
		}
		exp := int64(3600000)
		if withExpired {
			exp = emit.Pick(g.r, expChoices)
		}
		if h.opStore(g.next, g.r.Intn(64), sz, g.age(big), exp, nil, g.r) {
			total += sz
		}
	}
	return total
}

func (g *genCtx) limitAround(total int64) int64 {
	if total <= 0 {
		return int64(1 + g.r.Intn(10))
	}
	switch g.r.Intn(8) {
	case 0:
		return total // exactly at the limit
	case 1:
		return total + 1
	case 2:
		return total * 5 / 4 // target = total
	case 3:
		return total*5/4 + 1
	case 4:
		return 1
	}
	return 1 + int64(g.r.U64()%uint64(total*3/2+1))
}

// G1/G2: population, then janitor.evict(limit) with held shards
func (g *genCtx) genEvict(backend string, big bool) {
	shards := emit.Pick(g.r, shardCounts)
	name := "evict-small"
	n := g.r.Intn(9)
	if big {
		name = "evict-MiB"
		n = 2 + g.r.Intn(3)
	}
	h := newHist(backend, shards, huge, huge, name)
	total := g.populate(h, n, big, false)
	held := g.heldSubset(h, nil, 35)
	h.opEvict(g.limitAround(total), held)
	g.finish(h)
}

// target probe: entries of one byte each, so the byte counter after evict(L) is exactly
// int64(float64(L)*0.8) whenever that is below the population size
func (g *genCtx) genTargetProbe(backend string) {
	h := newHist(backend, 64, huge, huge, "target-probe")
	n := 8 + g.r.Intn(8)
	for i := 0; i < n; i++ {
		g.next++
		h.opStore(g.next, g.r.Intn(64), 1, int64(g.r.Intn(50)), 3600000, nil, g.r)
	}
	h.opEvict(int64(g.r.Intn(22))-2, nil)
	g.finish(h)
}

// G3: stores into a cache with a small limit: every store decides whether to evict
func (g *genCtx) genStoreTrigger(backend string) {
	shards := emit.Pick(g.r, shardCounts)
	limit := int64(300 + g.r.Intn(1200))
	memcap := huge
	if backend == "Mem" && g.r.Chance(30) {
		memcap = limit - int64(g.r.Intn(200)) // the cap is the effective limit
	}
	h := newHist(backend, shards, limit, memcap, "store-trigger")
	n := 4 + g.r.Intn(8)
	for i := 0; i < n; i++ {
		g.next++
		sz := g.size(false)
		if backend == "File" && sz == 0 && g.r.Chance(70) {
			sz = 1
		}
		sh := g.r.Intn(64)
		id := g.next
		if len(h.live) > 0 && g.r.Chance(25) { // a refresh: the store overwrites a key that is already stored
			id = g.pickLive(h)
			sh = h.live[id].shard
			h.overwrites++
		}
		held := g.heldSubset(h, map[int]bool{sh % shards: true}, 20)
		h.opStore(id, sh, sz, g.age(false), 3600000, held, g.r)
		if g.r.Chance(15) && len(h.live) > 0 {
			h.opTouch(g.pickLive(h), emit.Pick(g.r, []int64{0, 0, 1, 3}))
		}
	}
	g.finish(h)
}

func (g *genCtx) pickLive(h *hist) int64 {
	ks := []int64{}
	for k := range h.live {
		ks = append(ks, k)
	}
	sort.Slice(ks, func(i, j int) bool { return ks[i] < ks[j] })
	return emit.Pick(g.r, ks)
}

// G4: population with expired and fresh entries, limit around the total, one cycle
func (g *genCtx) genCycle(backend string) {
	shards := emit.Pick(g.r, shardCounts)
	h := newHist(backend, shards, huge, huge, "cycle")
	total := g.populate(h, 1+g.r.Intn(8), false, true)
	if g.r.Chance(70) {
		h.opSetLimit(g.limitAround(total))
	}
	held := g.heldSubset(h, nil, 35)
	h.opCycle(g.r.Chance(80), held, nil)
	g.finish(h)
}

// G5: operations landing between the expiry scan and the removal loop
func (g *genCtx) genYield(backend string) {
	shards := emit.Pick(g.r, []int{2, 3, 64, 64})
	h := newHist(backend, shards, huge, huge, "cleanup-yield")
	g.populate(h, 2+g.r.Intn(6), false, true)
	held := g.heldSubset(h, nil, 25)
	heldSet := map[int]bool{}
	for _, s := range held {
		heldSet[s] = true
	}
	ys := []yop{}
	ids := []int64{}
	for k := range h.live {
		ids = append(ids, k)
	}
	sort.Slice(ids, func(i, j int) bool { return ids[i] < ids[j] })
	used := map[int64]bool{}
	ny := 1 + g.r.Intn(3)
	for i := 0; i < ny; i++ {
		kind := g.r.Intn(10)
		if kind < 8 && len(ids) > 0 {
			k := emit.Pick(g.r, ids)
			e := h.live[k]
			if heldSet[e.shard] || used[k] {
				continue // its shard lock is held by the harness: the operation would block
			}
			used[k] = true
			switch {
			case kind < 4: // overwrite (fresh mostly)
				ne := ent{key: k, shard: e.shard, size: g.size(false), age: 0, exp: emit.Pick(g.r, []int64{3600000, 60000, 5000, -5000})}
				if backend == "File" && ne.size == 0 {
					ne.size = 3
				}
				ys = append(ys, yop{kind: "store", e: ne})
			case kind < 7:
				ys = append(ys, yop{kind: "refresh", key: k, exp: emit.Pick(g.r, []int64{3600000, 5000, -5000})})
			default:
				ys = append(ys, yop{kind: "delete", key: k})
			}
		} else { // a new key
			g.next++
			sh := g.r.Intn(64)
			hx := h.mkKey(g.next, sh, g.r)
			rs := h.c.VerifShardOf(hx)
			if heldSet[rs] {
				continue
			}
			ys = append(ys, yop{kind: "store", e: ent{key: g.next, shard: rs, size: int64(1 + g.r.Intn(50)), age: 0, exp: emit.Pick(g.r, []int64{3600000, -5000})}})
		}
	}
	h.opCycle(g.r.Chance(50), held, ys)
	g.finish(h)
}

// G6: mixed histories with run-time limit changes
func (g *genCtx) genMixed(backend string) {
	shards := emit.Pick(g.r, shardCounts)
	limit := int64(400 + g.r.Intn(1500))
	h := newHist(backend, shards, limit, huge, "mixed")
	n := 6 + g.r.Intn(10)
	for i := 0; i < n; i++ {
		switch k := g.r.Intn(20); {
		case k < 8:
			g.next++
			sz := g.size(false)
			if backend == "File" && sz == 0 {
				sz = 2
			}
			sh := g.r.Intn(64)
			id := g.next
			if len(h.live) > 0 && g.r.Chance(25) { // an overwrite of a stored key
				id = g.pickLive(h)
				sh = h.live[id].shard
			}
			held := g.heldSubset(h, map[int]bool{sh % shards: true}, 10)
			h.opStore(id, sh, sz, g.age(false), emit.Pick(g.r, expChoices), held, g.r)
		case k < 10:
			if len(h.live) > 0 {
				h.opTouch(g.pickLive(h), emit.Pick(g.r, []int64{0, 0, 1, 3}))
			}
		case k < 11:
			if len(h.live) > 0 {
				h.opDelete(g.pickLive(h))
			}
		case k < 14:
			h.opCycle(true, g.heldSubset(h, nil, 15), nil)
		case k < 17:
			cur := h.c.VerifByteSize()
			h.opSetLimit(g.limitAround(cur + int64(g.r.Intn(300))))
		case k < 18:
			if backend == "Mem" {
				h.opSetMemCap(emit.Pick(g.r, []int64{huge, limit / 2, limit, limit * 2}))
			}
		case k < 19:
			h.opAdvance(emit.Pick(g.r, []int64{1, 100, 3000, 58000, 3590000}))
		default:
			h.opEvict(g.limitAround(h.c.VerifByteSize()), g.heldSubset(h, nil, 20))
		}
	}
	g.finish(h)
}

// directed boundary histories, always present
func (g *genCtx) genDirected(backend string) {
	// an overwrite between two scans (no insert / delete in between): the second scan must see the NEW entry's
	// lifetime, last access and size
	for _, viaEvict := range []bool{false, true} {
		for _, shards := range []int{1, 64} {
			h := newHist(backend, shards, huge, huge, "overwrite-between-scans")
			h.opStore(1, 1, 100, 5000, 3600000, nil, g.r)
			h.opStore(2, 2, 100, 3000, 3600000, nil, g.r)
			h.opStore(3, 3, 100, 1000, 3600000, nil, g.r)
			h.opCycle(true, nil, nil) // scan 1: nothing to do
			if viaEvict {
				h.opEvict(1000, nil)                       // a second scan that removes nothing either
				h.opStore(1, 1, 150, 0, 3600000, nil, g.r) // the least recently used entry is rewritten: now the most recent
				h.opEvict(375, nil)                        // target 300: the victim is entry 2, then 3 — never the one just written
			} else {
				h.opStore(1, 1, 150, 0, 2000, nil, g.r) // rewritten with a 2 s lifetime
				h.opAdvance(5000)
				h.opCycle(true, nil, nil) // its lifetime has elapsed: removed
			}
			g.finish(h)
		}
	}
	// exactly at the limit evicts, one byte below does not (store and cycle)
	for _, delta := range []int64{-1, 0, 1} {
		for _, viaCycle := range []bool{false, true} {
			h := newHist(backend, 64, huge, huge, "boundary")
			h.opStore(1, 1, 300, 100, 3600000, nil, g.r)
			h.opStore(2, 2, 300, 50, 3600000, nil, g.r)
			h.opStore(3, 3, 400, 10, 3600000, nil, g.r)
			h.opSetLimit(1000 - delta)
			if viaCycle {
				h.opCycle(true, nil, nil)
			} else {
				h.opStore(4, 4, 10, 0, 3600000, nil, g.r)
			}
			g.finish(h)
		}
	}
	// a tie in priority between entries of different sizes; zero-sized entry first in line
	h := newHist(backend, 64, huge, huge, "tie")
	h.opStore(1, 1, 100, 500, 3600000, nil, g.r)
	h.opStore(2, 2, 300, 500, 3600000, nil, g.r)
	h.opStore(3, 3, 200, 500, 3600000, nil, g.r)
	if backend == "Mem" {
		h.opStore(4, 4, 0, 900, 3600000, nil, g.r)
	}
	h.opEvict(625, nil) // target 500
	g.finish(h)
	// size weight beats a younger age: 2 MiB accessed 150 ms later than 1 MiB-1 entry
	h = newHist(backend, 64, huge, huge, "weight")
	h.opStore(1, 1, 2*MiB, 0, 3600000, nil, g.r)
	h.opStore(2, 2, MiB-1, 150, 3600000, nil, g.r)
	h.opStore(3, 3, MiB, 101, 3600000, nil, g.r)
	h.opEvict(4*MiB, nil)
	g.finish(h)
	// single shard: the memory store holds the only lock, nothing is evictable
	h = newHist(backend, 1, 500, huge, "one-shard")
	h.opStore(1, 0, 300, 100, 3600000, nil, g.r)
	h.opStore(2, 0, 300, 50, 3600000, nil, g.r)
	h.opStore(3, 0, 100, 10, 3600000, nil, g.r)
	h.opCycle(true, nil, nil)
	h.opStore(4, 0, 100, 10, 3600000, nil, g.r)
	g.finish(h)
	// the scan/removal window: fresh overwrite, refresh, and an expired overwrite
	h = newHist(backend, 64, huge, huge, "window")
	h.opStore(1, 1, 10, 100, -5000, nil, g.r)
	h.opStore(2, 2, 20, 100, -5000, nil, g.r)
	h.opStore(3, 3, 30, 100, -5000, nil, g.r)
	h.opStore(4, 4, 40, 100, 60000, nil, g.r)
	h.opCycle(false, nil, []yop{
		{kind: "store", e: ent{key: 1, shard: h.live[1].shard, size: 11, age: 0, exp: 3600000}},
		{kind: "refresh", key: 2, exp: 3600000},
	})
	g.finish(h)
}

func runHist() {
	r := emit.NewRand(*flagSeed)
	m := emit.NewMeta("evict/hist", *flagSeed, *flagTier)
	w := &emit.Writer{Dir: *flagOut, Prefix: "hist", ShardSize: 120,
		Imports:  "From Reservoir Require Import Base.Prelude Model.Evict Check.Evict.",
		CaseType: "hcase", CheckFn: "check_evict"}
	m.Rule = "histories on the real MemoryCache/FileCache: populations of 0-8 entries (sizes 0-400 B with ties, or around MiB multiples), hook-set whole-ms access ages with deliberate ties, expiry offsets >= 5 s from now, shard counts 1/2/3/64, held shard locks, limits around the stored total (== total, total+1, 5/4 total, 1, random); generators evict-small, evict-MiB, store-trigger, cycle, cleanup-yield (store/refresh/delete at janitor.afterScan), target-probe (1-byte entries: the counter after evict(L) is the binary64 target itself), mixed (limit changes through config.UpdatePartialFromConfig, memcap, advance), directed boundary cases. distinct by the full case term; non-trivial = some entry was evicted/cleaned or a store/cycle/evict ran at or over its limit"
	g := &genCtx{r: r, w: w, m: m}

	mult := 1
	if thorough() {
		mult = 8
	}
	for _, be := range []string{"Mem", "File"} {
		g.genDirected(be)
	}
	plan := []struct {
		f    func(string)
		mem  int
		file int
	}{
		{func(b string) { g.genEvict(b, false) }, 600, 200},
		{func(b string) { g.genEvict(b, true) }, 40, 12},
		{g.genTargetProbe, 40, 20},
		{g.genStoreTrigger, 150, 60},
		{g.genCycle, 220, 90},
		{g.genYield, 260, 110},
		{g.genMixed, 130, 50},
	}
	for _, p := range plan {
		for i := 0; i < p.mem*mult; i++ {
			p.f("Mem")
		}
		for i := 0; i < p.file*mult; i++ {
			p.f("File")
		}
	}
	w.Flush()
	m.Write(*flagOut, w.Files)
	fmt.Printf("evict/hist: %d histories (%d distinct, %d non-trivial)\n", m.Total, m.Distinct, m.Nontrivial)
}

// ---------------------------------------------------------------------------
// the real ticker: interval changes through the configuration path

// waitRun reports whether at least n cycles complete within the window (returns early when they do).
func waitRun(window time.Duration, n int64) bool {
	start := metrics.Global.Cache.CleanupRuns.Get()
	deadline := time.Now().Add(window)
	for time.Now().Before(deadline) {
		if metrics.Global.Cache.CleanupRuns.Get() >= start+n {
			return true
		}
		time.Sleep(time.Millisecond)
	}
	return metrics.Global.Cache.CleanupRuns.Get() >= start+n
}

// quiet waits until no cycle has completed for `span` (the previous fast ticker has been reset).
func quiet(span time.Duration) {
	deadline := time.Now().Add(10 * time.Second)
	for time.Now().Before(deadline) {
		if !waitRun(span, 1) {
			return
		}
	}
}

func runInterval() {
	r := emit.NewRand(*flagSeed)
	m := emit.NewMeta("evict/interval", *flagSeed, *flagTier)
	w := &emit.Writer{Dir: *flagOut, Prefix: "intv", ShardSize: 100,
		Imports:  "From Reservoir Require Import Base.Prelude Model.Evict Check.Evict.",
		CaseType: "icase", CheckFn: "check_interval"}
	m.Rule = "real janitor goroutine and ticker: constructor interval, then cleanup_interval changed through config.UpdatePartialFromConfig between slow (>= 1 h) and fast (5-40 ms) values; after each change the cleanup_runs metric is watched for a window at least 50x longer (fast) or 1000x shorter (slow) than the interval; an expired entry stored before a fast phase must be gone after the observed run; plus (direct) a change arriving part-way through a 2 s period (to 1.5 s after 1.2 s): between 1 and 4 cycles in the following 3.2 s. distinct by phase list; every case is non-trivial"
	n := 3
	if thorough() {
		n = 12
	}
	for _, be := range []string{"Mem", "File"} {
		for i := 0; i < n; i++ {
			cfg := config.NewDefault()
			ctx, cancel := context.WithCancel(context.Background())
			firstFast := r.Bool()
			first := time.Hour
			if firstFast {
				first = time.Duration(5+r.Intn(20)) * time.Millisecond
			}
			var c store
			dir := ""
			if be == "Mem" {
				c = cache.NewMemoryCache[meta](cfg, 75, huge, first, 64, ctx)
			} else {
				caseSeq++
				dir = filepath.Join("fc", fmt.Sprintf("i%d", caseSeq))
				os.MkdirAll(dir, 0755)
				c = cache.NewFileCache[meta](cfg, dir, huge, first, 64, ctx)
			}
			phases := []string{}
			txt := []string{}
			observe := func(d time.Duration) {
				fast := d < time.Second
				window := 150 * time.Millisecond
				if fast {
					window = 5 * time.Second
					// something for the cycle to do
					e, err := c.Cache(cache.CacheKey{Hex: hexKey(7, 7)}, bytes.NewReader(zeros[:9]), time.Now().Add(-5*time.Second), meta{})
					if err == nil {
						e.Data.Close()
					}
				}
				need := int64(1)
				if fast {
					need = 2 // the second run certainly started after the entry was stored
				}
				ran := waitRun(window, need)
				if fast && ran {
					// a counted cycle has finished its cleanup before incrementing the counter
					if len(c.VerifKeys()) != 0 {
						ran = false // a "cycle" that cleaned nothing is not a cycle
					}
				}
				phases = append(phases, fmt.Sprintf("(%s, %s, %s)", emit.Z(d.Milliseconds()), emit.Z(window.Milliseconds()), emit.Bool(ran)))
				txt = append(txt, fmt.Sprintf("interval=%v window=%v ran=%v", d, window, ran))
			}
			observe(first)
			cur := first
			for j := 0; j < 2+r.Intn(2); j++ {
				var next time.Duration
				if cur < time.Second {
					next = time.Duration(1+r.Intn(3)) * time.Hour
				} else {
					next = time.Duration(5+r.Intn(36)) * time.Millisecond
				}
				st, err := config.UpdatePartialFromConfig(cfg, map[string]any{"cache": map[string]any{"cleanup_interval": next.String()}})
				if err != nil || st == config.UpdateStatusFailed {
					fmt.Fprintln(os.Stderr, "evict harness: interval update refused:", err)
					os.Exit(5)
				}
				if next >= time.Second {
					quiet(120 * time.Millisecond) // let the listener goroutine and the reset happen
				}
				observe(next)
				cur = next
			}
			if i%2 == 0 {
				// two interval changes arriving WHILE a cycle is running (the janitor drains its 1-buffered
				// change channel only between cycles): the later one must govern the following cycles.
				if cur >= time.Second {
					fastNow := time.Duration(5+r.Intn(20)) * time.Millisecond
					config.UpdatePartialFromConfig(cfg, map[string]any{"cache": map[string]any{"cleanup_interval": fastNow.String()}})
					observe(fastNow)
				}
				entered := make(chan struct{})
				release := make(chan struct{})
				var once sync.Once
				cache.VerifSetYield(func(point string) {
					if point == "janitor.afterScan" {
						fire := false
						once.Do(func() { fire = true })
						if fire {
							close(entered)
							<-release
						}
					}
				})
				select {
				case <-entered:
					slow := time.Duration(1+r.Intn(3)) * time.Hour
					last := time.Duration(5+r.Intn(36)) * time.Millisecond
					config.UpdatePartialFromConfig(cfg, map[string]any{"cache": map[string]any{"cleanup_interval": slow.String()}})
					time.Sleep(20 * time.Millisecond)
					config.UpdatePartialFromConfig(cfg, map[string]any{"cache": map[string]any{"cleanup_interval": last.String()}})
					time.Sleep(20 * time.Millisecond)
					close(release)
					cache.VerifSetYield(nil)
					time.Sleep(50 * time.Millisecond) // both changes are drained between cycles
					observe(last)
					txt[len(txt)-1] += " (second of two changes made while a cycle was running)"
				case <-time.After(5 * time.Second):
					cache.VerifSetYield(nil)
					close(release)
				}
			}
			c.Destroy()
			cancel()
			if dir != "" {
				os.RemoveAll(dir)
			}
			cs := fmt.Sprintf("IC %s [%s]", be, strings.Join(phases, "; "))
			w.Add(cs)
			m.Count("backend", be)
			m.Count("phases", fmt.Sprint(len(phases)))
			m.Record(cs, true, map[string]any{"backend": be, "phases": txt})
		}
	}
	// a change that arrives PART-WAY through a period, and what the ticker does afterwards: interval 2 s, set to 1.5 s
	// after 1.2 s; in the next 3.2 s two cycles are due (1.5 s and 3.0 s after the change); then the period is 1.5 s, not a remainder
	for _, be := range []string{"Mem", "File"} {
		cfg := config.NewDefault()
		ctx, cancel := context.WithCancel(context.Background())
		var c store
		dir := ""
		if be == "Mem" {
			c = cache.NewMemoryCache[meta](cfg, 75, huge, 2*time.Second, 64, ctx)
		} else {
			caseSeq++
			dir = filepath.Join("fc", fmt.Sprintf("m%d", caseSeq))
			os.MkdirAll(dir, 0755)
			c = cache.NewFileCache[meta](cfg, dir, huge, 2*time.Second, 64, ctx)
		}
		time.Sleep(1200 * time.Millisecond)
		before := metrics.Global.Cache.CleanupRuns.Get()
		st, err := config.UpdatePartialFromConfig(cfg, map[string]any{"cache": map[string]any{"cleanup_interval": "1.5s"}})
		if err == nil && st != config.UpdateStatusFailed {
			time.Sleep(3200 * time.Millisecond)
			runs := metrics.Global.Cache.CleanupRuns.Get() - before
			m.Count("mid_period_change_runs", fmt.Sprint(runs))
			if runs < 1 || runs > 4 {
				m.DirectFail(map[string]any{"kind": "interval-not-followed", "backend": be, "interval_before": "2s", "changed_after": "1.2s", "interval_after": "1.5s",
					"observed_for": "3.2s", "cleanup_cycles": runs, "what": "after a change of the cleanup interval part-way through a period the janitor does not run at the new interval (one cycle was due in the window)"})
			}
		}
		c.Destroy()
		cancel()
		if dir != "" {
			os.RemoveAll(dir)
		}
	}
	w.Flush()
	m.Write(*flagOut, w.Files)
	fmt.Printf("evict/interval: %d cases\n", m.Total)
}

func main() {
	flag.Parse()
	slog.SetDefault(slog.New(slog.NewTextHandler(io.Discard, nil)))
	if err := os.MkdirAll(*flagOut, 0755); err != nil {
		panic(err)
	}
	os.MkdirAll("fc", 0755)
	switch *flagStage {
	case "hist":
		runHist()
	case "interval":
		runInterval()
	default:
		fmt.Fprintf(os.Stderr, "evict: unknown stage %q\n", *flagStage)
		os.Exit(2)
	}
	os.RemoveAll("fc")
}
