// e2e01: C01 end to end. Versioned self-describing resources behind the REAL proxy; clients read
// full bodies and ranges while entries go stale, are revalidated, replaced, deleted and evicted.
// Every 200/206 the proxy builds from its store must be one complete origin version (or exactly the
// announced slice of one) delivered with THAT version's length, ETag and Content-Type; a request that
// starts after a replacement has been observed by some client never gets the replaced version.
// Decided by the harness itself ("direct" stage).
// Usage: e2e01 -seed N -tier quick|thorough -out DIR
package main

import (
	"bytes"
	"compress/gzip"
	"encoding/json"
	"flag"
	"fmt"
	"hash/crc32"
	"os"
	"path/filepath"
	"strconv"
	"strings"
	"sync"
	"sync/atomic"
	"time"

	"reservoir/config"
	"reservoir/proxy"
	"reservoir/utils/bytesize"
	"verifharness/e2elib"
	"verifharness/emit"
)

var (
	flagSeed = flag.Int64("seed", 1, "PRNG seed")
	flagTier = flag.String("tier", "quick", "quick|thorough")
	flagOut  = flag.String("out", ".", "output directory")
)

// body of (resource, version): header "res:ver:len;" then filler, last 8 bytes crc32 of the rest
func mkBody(res, ver, n int) []byte {
	head := fmt.Sprintf("%d:%d:%d;", res, ver, n)
	b := []byte(head)
	for len(b) < n-8 {
		b = append(b, byte('a'+(len(b)*7+ver)%26))
	}
	return append(b, []byte(fmt.Sprintf("%08x", crc32.ChecksumIEEE(b)))...)
}

func sizeOf(res, ver int) int { return 200 + (res*37+ver*101)%3000 }

type failure struct {
	Kind      string `json:"kind"`
	Backend   string `json:"backend"`
	Transport string `json:"transport"`
	What      string `json:"what"`
	Detail    any    `json:"detail,omitempty"`
}

// lateStore forces the history: a non-coalesced fetch (Range request; the origin ignores Range) is answered
// with version 1 but its answer is held back; the resource changes to version 2, a plain GET fetches, stores
// and serves version 2; then the held answer arrives and is stored. A request starting after that must not
// receive version 1 again.
func lateStore(env *e2elib.Env, tlsOn bool, backend, transport string, fail func(failure)) {
	gate := make(chan struct{})
	arrived := make(chan struct{}, 4)
	ver := 1
	var mu sync.Mutex
	prev := func(req e2elib.OriginRequest, n int) e2elib.Answer { return e2elib.NewAnswer(404, nil) }
	_ = prev
	env.Origin.SetHandler(func(req e2elib.OriginRequest, n int) e2elib.Answer {
		mu.Lock()
		v := ver
		mu.Unlock()
		a := e2elib.NewAnswer(200, mkBody(99, v, 400), "Cache-Control: max-age=60", fmt.Sprintf("ETag: \"r99v%d\"", v), fmt.Sprintf("Content-Type: application/x-r99v%d", v))
		if req.Header.Get("Range") != "" {
			arrived <- struct{}{}
			<-gate // the answer (already decided: version v) is delayed on its way
		}
		return a
	})
	do := func(hs []string) (*e2elib.Response, error) {
		if tlsOn {
			c, _, err := env.DialTunnel(env.Origin.Addr, "127.0.0.1", 8*time.Second)
			if err != nil {
				return nil, err
			}
			defer c.Close()
			c.Send(env.TunnelRequest("GET", "/late", hs, nil), 5*time.Second)
			return c.Read("GET", 10*time.Second)
		}
		return env.DoPlain(env.PlainRequest("GET", "/late", hs, nil), "GET", 10*time.Second)
	}
	done := make(chan struct{})
	go func() { do([]string{"Range: bytes=0-9"}); close(done) }()
	select {
	case <-arrived:
	case <-time.After(5 * time.Second):
		close(gate)
		return
	}
	mu.Lock()
	ver = 2
	mu.Unlock()
	r2, err := do(nil) // fetches, stores and serves version 2
	close(gate)
	<-done
	if err != nil || !strings.Contains(r2.Header.Get("ETag"), "v2") {
		return // the schedule could not be forced
	}
	r3, err := do(nil)
	if err == nil && strings.Contains(r3.Header.Get("ETag"), "v1") {
		fail(failure{"replaced-version-served-again", backend, transport, "forced history: version 2 was stored and served, then the delayed answer of an older non-coalesced fetch (version 1) was stored over it; the next request received version 1",
			map[string]any{"second_request_etag": r2.Header.Get("ETag"), "third_request_etag": r3.Header.Get("ETag"), "third_request_x_cache": r3.Header.Get("X-Cache")}})
	}
}

// reval304Entity: store, expiry, a revalidation answered by a 304 that carries body-describing header fields of its own
// (Content-Length: 0, another Content-Type). The revalidated answer and the following hit are still the stored version:
// complete body, its length, its type.
func reval304Entity(env *e2elib.Env, tlsOn bool, backend, transport string, fail func(failure)) {
	body := mkBody(98, 1, 700)
	env.Origin.SetHandler(func(req e2elib.OriginRequest, n int) e2elib.Answer {
		if req.Header.Get("If-None-Match") != "" || req.Header.Get("If-Modified-Since") != "" {
			return e2elib.NewAnswer(304, nil, `ETag: "r98v1"`, "Content-Length: 0", "Content-Type: text/html", "Cache-Control: max-age=60")
		}
		return e2elib.NewAnswer(200, body, "Cache-Control: max-age=60", `ETag: "r98v1"`, "Content-Type: application/x-r98v1")
	})
	do := func() (*e2elib.Response, error) {
		if tlsOn {
			c, _, err := env.DialTunnel(env.Origin.Addr, "127.0.0.1", 8*time.Second)
			if err != nil {
				return nil, err
			}
			defer c.Close()
			c.Send(env.TunnelRequest("GET", "/reval304", nil, nil), 5*time.Second)
			return c.Read("GET", 10*time.Second)
		}
		return env.DoPlain(env.PlainRequest("GET", "/reval304", nil, nil), "GET", 10*time.Second)
	}
	if r1, err := do(); err != nil || r1.Status != 200 {
		return
	}
	env.Proxy.VerifCache().VerifAge(2 * time.Hour)
	for i, what := range []string{"the revalidated answer", "the hit after the revalidation"} {
		r, err := do()
		det := map[string]any{"step": i + 2}
		if err != nil {
			fail(failure{"revalidated-entry-damaged", backend, transport, what + ": no response: " + err.Error(), det})
			return
		}
		det["status"], det["content_type"], det["content_length"], det["body_bytes"], det["body_error"], det["x_cache"] =
			r.Status, r.Header.Get("Content-Type"), r.Header.Get("Content-Length"), len(r.Body), r.BodyErr, r.Header.Get("X-Cache")
		if r.Status != 200 || r.BodyErr != "" || string(r.Body) != string(body) || r.Header.Get("Content-Type") != "application/x-r98v1" ||
			(r.Header.Get("Content-Length") != "" && r.Header.Get("Content-Length") != fmt.Sprint(len(body))) {
			fail(failure{"revalidated-entry-damaged", backend, transport, what + " is not the stored version (complete body, its own length and type) after a 304 that described its own empty body", det})
			return
		}
	}
}

// abortedTransfer: the origin announces a length and drops the connection part-way on its FIRST transfer only. No
// client may be handed the truncated prefix as a complete answer, now or later from the store.
func abortedTransfer(env *e2elib.Env, tlsOn bool, backend, transport string, fail func(failure)) {
	body := mkBody(97, 1, 1000)
	env.Origin.SetHandler(func(req e2elib.OriginRequest, n int) e2elib.Answer {
		a := e2elib.NewAnswer(200, body, "Cache-Control: max-age=60", `ETag: "r97v1"`, "Content-Type: application/x-r97v1")
		if n == 1 {
			a.AbortAfter = 400
		}
		return a
	})
	env.Origin.ResetLog()
	for i := 1; i <= 3; i++ {
		var r *e2elib.Response
		var err error
		if tlsOn {
			c, _, derr := env.DialTunnel(env.Origin.Addr, "127.0.0.1", 8*time.Second)
			if derr != nil {
				return
			}
			c.Send(env.TunnelRequest("GET", "/aborted", nil, nil), 5*time.Second)
			r, err = c.Read("GET", 10*time.Second)
			c.Close()
		} else {
			r, err = env.DoPlain(env.PlainRequest("GET", "/aborted", nil, nil), "GET", 10*time.Second)
		}
		if err != nil {
			continue // an error or a dropped connection is C09's business, not a wrong pairing
		}
		if r.Status == 200 && (r.BodyErr != "" || string(r.Body) != string(body)) {
			fail(failure{"truncated-transfer-served", backend, transport, fmt.Sprintf("request %d: a 200 answer delivers %d of the origin's 1000 bytes (read error %q) after the origin's first transfer was cut at 400 bytes", i, len(r.Body), r.BodyErr),
				map[string]any{"request_no": i, "content_length": r.Header.Get("Content-Length"), "x_cache": r.Header.Get("X-Cache"), "body_bytes": len(r.Body)}})
			return
		}
	}
}

// gzipEntry: the origin sends a pre-compressed representation (Content-Encoding: gzip with a Content-Length) to a client
// that accepts gzip; it is stored. A client that does not accept gzip then asks for the URL. Whatever the proxy hands it
// — the stored coding or a decoded body — coding label, length and bytes describe ONE body.
func gzipEntry(env *e2elib.Env, tlsOn bool, backend, transport string, fail func(failure)) {
	plain := mkBody(95, 1, 6000)
	var zb bytes.Buffer
	zw := gzip.NewWriter(&zb)
	zw.Write(plain)
	zw.Close()
	gz := zb.Bytes()
	env.Origin.SetHandler(func(req e2elib.OriginRequest, n int) e2elib.Answer {
		return e2elib.NewAnswer(200, gz, "Cache-Control: max-age=60", `ETag: "r95v1-gzip"`, "Content-Type: application/x-r95v1", "Content-Encoding: gzip", "Vary: Accept-Encoding")
	})
	do := func(hs []string) (*e2elib.Response, error) {
		if tlsOn {
			c, _, err := env.DialTunnel(env.Origin.Addr, "127.0.0.1", 8*time.Second)
			if err != nil {
				return nil, err
			}
			defer c.Close()
			c.Send(env.TunnelRequest("GET", "/gzip", hs, nil), 5*time.Second)
			return c.Read("GET", 10*time.Second)
		}
		return env.DoPlain(env.PlainRequest("GET", "/gzip", hs, nil), "GET", 10*time.Second)
	}
	if r1, err := do([]string{"Accept-Encoding: gzip"}); err != nil || r1.Status != 200 {
		return
	}
	for _, hs := range [][]string{nil, {"Accept-Encoding: identity"}, {"Accept-Encoding: gzip;q=0"}} {
		r, err := do(hs)
		if err != nil || r.Status != 200 {
			continue
		}
		want := plain
		if strings.Contains(strings.ToLower(r.Header.Get("Content-Encoding")), "gzip") {
			want = gz
		}
		cl := r.Header.Get("Content-Length")
		if r.BodyErr != "" || !bytes.Equal(r.Body, want) || (cl != "" && cl != fmt.Sprint(len(want))) {
			fail(failure{"coding-length-body-mismatch", backend, transport, fmt.Sprintf("a stored gzip representation handed to a client sending %v: Content-Encoding %q, Content-Length %q, %d body bytes (read error %q) — they do not describe one body (compressed %d bytes, decoded %d bytes)", hs, r.Header.Get("Content-Encoding"), cl, len(r.Body), r.BodyErr, len(gz), len(plain)),
				map[string]any{"x_cache": r.Header.Get("X-Cache"), "etag": r.Header.Get("ETag")}})
			return
		}
	}
}

// replaceAtHandover: two clients share one fetch of an uncached resource (version 1). When the shared fetch has returned
// and before either of them has picked up its own handle (yield point fetch.afterDo), the resource changes and a
// non-coalesced request stores version 2 over the entry. Whatever version a client is then given, its validators,
// content type, length and body belong to ONE version.
func replaceAtHandover(env *e2elib.Env, tlsOn bool, backend, transport string, fail func(failure)) {
	var ver atomic.Int64
	ver.Store(1)
	gate := make(chan struct{})
	var gated atomic.Bool
	gated.Store(true)
	env.Origin.SetHandler(func(req e2elib.OriginRequest, n int) e2elib.Answer {
		v := int(ver.Load())
		if gated.Load() {
			<-gate // the first answer waits until the second client has joined the flight
		}
		return e2elib.NewAnswer(200, mkBody(96, v, 600+100*v), "Cache-Control: max-age=60", fmt.Sprintf("ETag: \"r96v%d\"", v), fmt.Sprintf("Content-Type: application/x-r96v%d", v))
	})
	do := func(hs []string) (*e2elib.Response, error) {
		if tlsOn {
			c, _, err := env.DialTunnel(env.Origin.Addr, "127.0.0.1", 8*time.Second)
			if err != nil {
				return nil, err
			}
			defer c.Close()
			c.Send(env.TunnelRequest("GET", "/handover", hs, nil), 5*time.Second)
			return c.Read("GET", 12*time.Second)
		}
		return env.DoPlain(env.PlainRequest("GET", "/handover", hs, nil), "GET", 12*time.Second)
	}
	var parked atomic.Int64
	release := make(chan struct{})
	proxy.VerifSetYield(func(point string) {
		if point != "fetch.afterDo" || parked.Add(1) > 2 {
			return // the replacing request (and anything later) passes
		}
		select {
		case <-release:
		case <-time.After(8 * time.Second):
		}
	})
	defer proxy.VerifSetYield(nil)
	type res struct {
		r   *e2elib.Response
		err error
	}
	out := make(chan res, 2)
	go func() { r, err := do(nil); out <- res{r, err} }()
	time.Sleep(60 * time.Millisecond)
	go func() { r, err := do(nil); out <- res{r, err} }()
	time.Sleep(80 * time.Millisecond)
	gated.Store(false)
	close(gate)
	for dl := time.Now().Add(4 * time.Second); parked.Load() < 2 && time.Now().Before(dl); {
		time.Sleep(2 * time.Millisecond)
	}
	ver.Store(2)
	do([]string{"Range: bytes=0-9"}) // never coalesced; the origin ignores Range: version 2 is stored over version 1
	close(release)
	for i := 0; i < 2; i++ {
		x := <-out
		if x.err != nil || x.r.Status != 200 {
			continue
		}
		r := x.r
		et := r.Header.Get("ETag")
		var bv, bl int
		if n, _ := fmt.Sscanf(string(r.Body), "96:%d:%d;", &bv, &bl); n != 2 {
			fail(failure{"mixed-versions", backend, transport, "a 200 answer whose body is no complete version of the resource", map[string]any{"etag": et, "body_bytes": len(r.Body), "body_error": r.BodyErr}})
			return
		}
		wantET, wantCT := fmt.Sprintf("\"r96v%d\"", bv), fmt.Sprintf("application/x-r96v%d", bv)
		if et != wantET || r.Header.Get("Content-Type") != wantCT || r.BodyErr != "" || len(r.Body) != bl ||
			(r.Header.Get("Content-Length") != "" && r.Header.Get("Content-Length") != fmt.Sprint(bl)) {
			fail(failure{"mixed-versions", backend, transport, fmt.Sprintf("forced history: the entry was replaced between the shared fetch's return and a participant's own lookup; the participant got the body of version %d (%d bytes) with ETag %s, Content-Type %s, Content-Length %s", bv, len(r.Body), et, r.Header.Get("Content-Type"), r.Header.Get("Content-Length")),
				map[string]any{"participants_parked_at_handover": parked.Load()}})
			return
		}
	}
}

func main() {
	flag.Parse()
	e2elib.Quiet()
	if err := os.MkdirAll(*flagOut, 0755); err != nil {
		panic(err)
	}
	r := emit.NewRand(*flagSeed)
	dur := 900 * time.Millisecond
	if *flagTier == "thorough" {
		dur = 8 * time.Second
	}
	failures := []failure{}
	var mu sync.Mutex
	fail := func(f failure) {
		mu.Lock()
		if len(failures) < 20 {
			failures = append(failures, f)
		}
		mu.Unlock()
	}
	total := 0
	var responses, fromStore, partials int64
	dist := map[string]int{}
	for _, backend := range []string{"memory", "file"} {
		for _, tlsOn := range []bool{false, true} {
			transport := "plain"
			if tlsOn {
				transport = "connect"
			}
			dir := filepath.Join(*flagOut, "env-"+backend+"-"+transport)
			env, err := e2elib.Start(e2elib.Options{Backend: backend, Dir: dir, TLS: tlsOn, Shards: 3, Tune: func(cfg *config.Config) {
				cfg.Cache.MaxCacheSize.Overwrite(bytesize.ByteSize(9000)) // a few entries only: evictions happen
			}})
			if err != nil {
				panic(err)
			}
			const nres = 4
			var version [nres]atomic.Int64 // current origin version per resource
			var floor [nres]atomic.Int64   // highest version any client has completely received (per resource)
			mainHandler := func(req e2elib.OriginRequest, n int) e2elib.Answer {
				p := strings.TrimPrefix(req.Target, "/res")
				res, _ := strconv.Atoi(p)
				if res < 0 || res >= nres {
					return e2elib.NewAnswer(404, []byte("no"))
				}
				v := int(version[res].Load())
				etag := fmt.Sprintf("\"r%dv%d\"", res, v)
				if inm := req.Header.Get("If-None-Match"); inm == etag {
					if (res+v)%2 == 0 {
						// a 304 that describes ITS OWN (empty) body: none of that is about the stored representation
						return e2elib.NewAnswer(304, nil, "ETag: "+etag, "Content-Length: 0", "Content-Type: text/html")
					}
					return e2elib.NewAnswer(304, nil, "ETag: "+etag)
				}
				if rg := req.Header.Get("Range"); res == nres-1 && rg != "" {
					// the last resource lives on an origin that HONOURS Range: a satisfiable bytes=a-b is answered 206
					// with that slice of the current version (a part is a part: nothing of it may ever be served as the whole)
					full := mkBody(res, v, sizeOf(res, v))
					var ra, rb int
					if n, _ := fmt.Sscanf(rg, "bytes=%d-%d", &ra, &rb); n == 2 && ra >= 0 && ra <= rb && ra < len(full) {
						if rb >= len(full) {
							rb = len(full) - 1
						}
						return e2elib.NewAnswer(206, full[ra:rb+1], "Cache-Control: max-age=60", "ETag: "+etag,
							fmt.Sprintf("Content-Type: application/x-r%dv%d", res, v), fmt.Sprintf("Content-Range: bytes %d-%d/%d", ra, rb, len(full)))
					}
				}
				a := e2elib.NewAnswer(200, mkBody(res, v, sizeOf(res, v)), "Cache-Control: max-age=60", "ETag: "+etag,
					fmt.Sprintf("Content-Type: application/x-r%dv%d", res, v))
				if (res+v)%3 == 0 {
					a.Chunked = true
				}
				return a
			}
			lateStore(env, tlsOn, backend, transport, fail)
			reval304Entity(env, tlsOn, backend, transport, fail)
			abortedTransfer(env, tlsOn, backend, transport, fail)
			replaceAtHandover(env, tlsOn, backend, transport, fail)
			gzipEntry(env, tlsOn, backend, transport, fail)
			env.Origin.SetHandler(mainHandler)
			stop := time.Now().Add(dur)
			var wg sync.WaitGroup
			wg.Add(1)
			go func() { // the world changes: new versions, staleness, deletions through the janitor
				defer wg.Done()
				rr := emit.NewRand(int64(r.U64() >> 1))
				for time.Now().Before(stop) {
					switch rr.Intn(4) {
					case 0:
						version[rr.Intn(nres)].Add(1)
					case 1, 2:
						env.Proxy.VerifCache().VerifAge(2 * time.Hour)
					case 3:
						env.Proxy.VerifCache().VerifCleanupCycle()
					}
					time.Sleep(time.Duration(1+rr.Intn(4)) * time.Millisecond)
				}
			}()
			for w := 0; w < 6; w++ {
				wg.Add(1)
				rr := emit.NewRand(int64(r.U64() >> 1))
				go func() {
					defer wg.Done()
					for time.Now().Before(stop) {
						res := rr.Intn(nres)
						startFloor := floor[res].Load()
						var hs []string
						a, b := -1, -1
						if res >= nres/2 && rr.Chance(45) { // the lower half of the resources never sees a Range request (see below)
							a = rr.Intn(150)
							if rr.Chance(30) {
								a = 0 // a prefix probe
							}
							b = a + rr.Intn(150)
							hs = append(hs, fmt.Sprintf("Range: bytes=%d-%d", a, b))
						}
						path := fmt.Sprintf("/res%d", res)
						var resp *e2elib.Response
						var err error
						if tlsOn {
							c, _, derr := env.DialTunnel(env.Origin.Addr, "127.0.0.1", 5*time.Second)
							if derr != nil {
								continue
							}
							c.Send(env.TunnelRequest("GET", path, hs, nil), 5*time.Second)
							resp, err = c.Read("GET", 8*time.Second)
							c.Close()
						} else {
							resp, err = env.DoPlain(env.PlainRequest("GET", path, hs, nil), "GET", 8*time.Second)
						}
						if err != nil {
							continue // transport trouble is C09/C16's subject
						}
						atomic.AddInt64(&responses, 1)
						if resp.Status != 200 && resp.Status != 206 {
							continue
						}
						det := map[string]any{"resource": res, "range": hs, "status": resp.Status, "x_cache": resp.Header.Get("X-Cache"), "etag": resp.Header.Get("ETag"),
							"content_type": resp.Header.Get("Content-Type"), "content_length": resp.Header.Get("Content-Length"), "content_range": resp.Header.Get("Content-Range"), "body_bytes": len(resp.Body)}
						if resp.BodyErr != "" {
							fail(failure{"framing", backend, transport, "body does not match its framing (truncated or extended): " + resp.BodyErr, det})
							continue
						}
						// which version do the validators claim?
						et := resp.Header.Get("ETag")
						var eres, ever int
						if n, _ := fmt.Sscanf(et, "\"r%dv%d\"", &eres, &ever); n != 2 {
							continue // relayed without validators (e.g. an origin 206): not built from the store
						}
						atomic.AddInt64(&fromStore, 1)
						if eres != res {
							fail(failure{"other-resource", backend, transport, "validators of another resource", det})
							continue
						}
						if ct := resp.Header.Get("Content-Type"); ct != fmt.Sprintf("application/x-r%dv%d", res, ever) {
							fail(failure{"mispaired", backend, transport, "Content-Type of one version delivered with the ETag of another", det})
						}
						full := mkBody(res, ever, sizeOf(res, ever))
						if resp.Status == 200 {
							if string(resp.Body) != string(full) {
								fail(failure{"body-not-that-version", backend, transport, fmt.Sprintf("200 with the validators of version %d carries a body that is not that version (%d bytes, expected %d)", ever, len(resp.Body), len(full)), det})
							}
							if cl := resp.Header.Get("Content-Length"); cl != "" && cl != strconv.Itoa(len(full)) {
								fail(failure{"mispaired", backend, transport, "Content-Length is not the length of the version delivered", det})
							}
						} else {
							atomic.AddInt64(&partials, 1)
							var ca, cb, cs int
							if n, _ := fmt.Sscanf(resp.Header.Get("Content-Range"), "bytes %d-%d/%d", &ca, &cb, &cs); n != 3 || cs != len(full) || ca < 0 || cb >= len(full) || ca > cb {
								fail(failure{"bad-slice", backend, transport, "206 whose Content-Range does not lie inside the version its validators name", det})
							} else if string(resp.Body) != string(full[ca:cb+1]) {
								fail(failure{"bad-slice", backend, transport, "206 body is not the announced slice of the version its validators name", det})
							}
						}
						// no resurrection: the version served must not be older than one some client had already fully received
						// before this request started
						if int64(ever) < startFloor {
							kind := "replaced-version-served-again"
							if res < nres/2 {
								// every fetch of this resource went through the per-key coalescing: no older fetch can have
								// been in flight next to a newer one, the known late-store history does not explain this
								kind = "replaced-version-served-again-without-uncoalesced-fetch"
							}
							fail(failure{kind, backend, transport, fmt.Sprintf("request started after version %d had been served, but received the replaced version %d", startFloor, ever), det})
						}
						for {
							cur := floor[res].Load()
							if int64(ever) <= cur || floor[res].CompareAndSwap(cur, int64(ever)) {
								break
							}
						}
					}
				}()
			}
			wg.Wait()
			env.Close()
			os.RemoveAll(dir)
			total++
			dist[backend+"/"+transport]++
		}
	}
	out := map[string]any{
		"harness": "e2e01", "seed": *flagSeed, "tier": *flagTier, "total": total, "distinct": total, "distinct_nontrivial": total,
		"rule":         "4 versioned self-describing resources (checksummed bodies, per-version ETag and Content-Type, sized or chunked) behind the real proxy with a 9 kB cache limit; 6 concurrent clients issuing GETs and (on resources 2-3 only) Range requests, 30 % of them prefix probes bytes=0-b (resource 3 lives on an origin that honours Range and answers 206 with the slice) while versions change, entries are aged stale (revalidation 304/200), cleanup cycles and evictions run; x backends {memory,file} x transports {plain,CONNECT}. Each 200/206 with validators must be one complete version (or the announced slice) with that version's length and Content-Type; no client receives a version older than one fully received before its request started",
		"distribution": map[string]any{"env": dist, "responses": map[string]int64{"all": responses, "with_validators_checked": fromStore, "partial": partials}},
		"samples":      []any{map[string]any{"backend": "file", "transport": "connect"}},
		"files":        []string{}, "readable": []any{},
		"direct": map[string]any{"total": total, "failures": failures, "mismatches": []any{}},
	}
	b, _ := json.MarshalIndent(out, "", " ")
	if err := os.WriteFile(filepath.Join(*flagOut, "meta.json"), b, 0644); err != nil {
		panic(err)
	}
	fmt.Printf("e2e01: %d environments, %d responses (%d checked against their version, %d partial), %d failures\n", total, responses, fromStore, partials, len(failures))
}
