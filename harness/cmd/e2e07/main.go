// e2e07: C07 end to end. Range requests through the REAL proxy (plain and CONNECT/TLS, both
// backends, both retry_on_invalid_range settings) against an origin that ignores Range and
// returns the whole cacheable representation, so that every 206/416 is built by the proxy
// from its stored entry.  Emits Check.Range.e2e_case terms.
// Usage: e2e07 -seed N -tier quick|thorough -out DIR
package main

import (
	"bytes"
	"flag"
	"fmt"
	"net/http"
	"os"
	"path/filepath"
	"strconv"
	"strings"
	"sync/atomic"
	"time"

	"verifharness/e2elib"
	"verifharness/emit"
)

var (
	flagSeed = flag.Int64("seed", 1, "PRNG seed")
	flagTier = flag.String("tier", "quick", "quick|thorough")
	flagOut  = flag.String("out", ".", "output directory")
)

var specs = []string{"bytes=0-4", "bytes=0-0", "bytes=1-", "bytes=-1", "bytes=-3", "bytes=2-5", "bytes=0-", "bytes=-0", "bytes=5-2", "bytes=0-9", "bytes=0-10", "bytes=9-9", "bytes=10-",
	"bytes=0-999999", "bytes=-999999", "bytes=0-1,3-4", "bytes=", "bytes=5", "bytes=-", "bytes= 1 - 2 ", "bytes=1-2x", "items=0-1", "bytes=18446744073709551617-18446744073709551618",
	"bytes=9223372036854775807-", "bytes=-9223372036854775807", "bytes=-9223372036854775808", "bytes=00000000000000000000001-2", "BYTES=0-1", "bytes=49-49", "bytes=999-999", "bytes=1000-", "bytes=998-"}

func content(i, size int) []byte {
	b := make([]byte, size)
	for j := range b {
		b[j] = byte('a' + (i*7+j*13)%26)
	}
	return b
}

func main() {
	flag.Parse()
	e2elib.Quiet()
	if err := os.MkdirAll(*flagOut, 0755); err != nil {
		panic(err)
	}
	r := emit.NewRand(*flagSeed)
	meta := emit.NewMeta("e2e07", *flagSeed, *flagTier)
	meta.Rule = "Range requests through the real proxy on a stored entry: spec catalogue + structured random specs x sizes {1,2,10,50,1000} x stored ETag {strong, weak} x If-Range {none, matching/other ETag, stored tag with the weakness marker toggled, date >=/< Last-Modified} x retry_on_invalid_range x backend {memory,file} x transport {plain, CONNECT}; distinct by (spec,size,if-range kind,retry,backend,transport); non-trivial = spec contains a digit or dash after '='"
	w := &emit.Writer{Dir: *flagOut, Prefix: "e2e", ShardSize: 150,
		Imports:  "From Reservoir Require Import Base.Prelude Model.Range Check.Range.",
		CaseType: "e2e_case", CheckFn: "check_e2e"}
	per := 60
	if *flagTier == "thorough" {
		per = 500
	}
	lastMod := time.Date(2020, 5, 17, 10, 0, 0, 0, time.UTC)
	caseNo := 0
	for _, backend := range []string{"memory", "file"} {
		for _, tlsOn := range []bool{false, true} {
			for _, retry := range []bool{false, true} {
				dir := filepath.Join(*flagOut, fmt.Sprintf("env-%s-%v-%v", backend, tlsOn, retry))
				env, err := e2elib.Start(e2elib.Options{Backend: backend, Dir: dir, TLS: tlsOn})
				if err != nil {
					panic(err)
				}
				env.Cfg.Proxy.RetryOnInvalidRange.Overwrite(retry)
				bodies := map[string][]byte{}
				etags := map[string]string{}
				chunked := map[string]bool{}
				env.Origin.SetHandler(func(req e2elib.OriginRequest, n int) e2elib.Answer {
					p := req.Target
					if i := strings.Index(p, "://"); i >= 0 { // absolute-form never reaches the origin, but be safe
						p = p[strings.Index(p[i+3:], "/")+i+3:]
					}
					a := e2elib.NewAnswer(200, bodies[p], "Cache-Control: max-age=3600", "ETag: "+etags[p],
						"Last-Modified: "+lastMod.Format(http.TimeFormat), "Content-Type: application/octet-stream")
					a.Chunked = chunked[p] // origin streams without a Content-Length: the stored header set has none either
					return a
				})
				for k := 0; k < per; k++ {
					caseNo++
					size := emit.Pick(r, []int{1, 2, 10, 10, 10, 50, 50, 1000})
					path := fmt.Sprintf("/r%d", caseNo)
					body := content(caseNo, size)
					etag := fmt.Sprintf("\"e%d\"", caseNo)
					if r.Chance(25) {
						etag = "W/" + etag // a weak stored validator
					}
					bodies[path], etags[path] = body, etag
					chunked[path] = r.Chance(35)
					var spec string
					hasRange := true
					switch r.Intn(10) {
					case 0, 1, 2, 3:
						spec = emit.Pick(r, specs)
					case 4, 5:
						a := r.Intn(size + 2)
						spec = fmt.Sprintf("bytes=%d-%d", a, a+r.Intn(size+2))
					case 6:
						spec = fmt.Sprintf("bytes=%d-", r.Intn(size+2))
					case 7:
						spec = fmt.Sprintf("bytes=-%d", r.Intn(size+3))
					case 8:
						spec = fmt.Sprintf("bytes=%d-%d", size-1, size-1+r.Intn(2))
					default:
						hasRange = false
					}
					irKind := r.Intn(7)
					var hs []string
					irTerm := "IRNone"
					if hasRange {
						hs = append(hs, "Range: "+spec)
					}
					switch irKind {
					case 1:
						hs = append(hs, "If-Range: "+etag)
						irTerm = "(IRTag " + emit.Str(etag) + ")"
					case 6: // the stored tag with the weakness marker toggled: a different validator
						other := "W/" + etag
						if strings.HasPrefix(etag, "W/") {
							other = etag[2:]
						}
						hs = append(hs, "If-Range: "+other)
						irTerm = "(IRTag " + emit.Str(other) + ")"
					case 2:
						hs = append(hs, `If-Range: "other"`)
						irTerm = "(IRTag " + emit.Str(`"other"`) + ")"
					case 3:
						t := lastMod.Add(time.Duration(r.Intn(3)) * time.Hour)
						hs = append(hs, "If-Range: "+t.Format(http.TimeFormat))
						irTerm = "(IRTime " + emit.Z(t.Unix()) + ")"
					case 4:
						t := lastMod.Add(-time.Duration(1+r.Intn(3)) * time.Second)
						hs = append(hs, "If-Range: "+t.Format(http.TimeFormat))
						irTerm = "(IRTime " + emit.Z(t.Unix()) + ")"
					}
					// a fifth of the resources had an earlier version of ANOTHER length in the store: it is refilled
					// (the entry is aged, the origin answers the revalidation with the new 200) by the request under
					// test or just before it; the range answer must describe the object stored now
					refilled := "no"
					if r.Chance(20) {
						old := content(caseNo+7777, emit.Pick(r, []int{3, 36, 200}))
						bodies[path], etags[path] = old, "\"old"+etag[strings.IndexByte(etag, '"')+1:]
						if _, err := env.DoPlain(env.PlainRequest("GET", path, nil, nil), "GET", 8*time.Second); err == nil {
							env.Proxy.VerifCache().VerifAge(2 * time.Hour)
							bodies[path], etags[path] = body, etag
							refilled = "by-the-request"
							if r.Bool() {
								env.DoPlain(env.PlainRequest("GET", path, nil, nil), "GET", 8*time.Second)
								refilled = "before-the-request"
							}
						} else {
							bodies[path], etags[path] = body, etag
						}
					}
					meta.Count("earlier_version_of_other_length", refilled)
					var resp *e2elib.Response
					var rerr error
					originBefore := env.Origin.Count()
					if tlsOn {
						var c *e2elib.Conn
						c, _, rerr = env.DialTunnel(env.Origin.Addr, "127.0.0.1", 8*time.Second)
						if rerr == nil {
							rerr = c.Send(env.TunnelRequest("GET", path, hs, nil), 5*time.Second)
							if rerr == nil {
								resp, rerr = c.Read("GET", 8*time.Second)
							}
							c.Close()
						}
					} else {
						resp, rerr = env.DoPlain(env.PlainRequest("GET", path, hs, nil), "GET", 8*time.Second)
					}
					// a label saying "answered from the store" on an answer for which the origin was contacted
					if rerr == nil && env.Origin.Count() > originBefore && (resp.Header.Get("X-Cache") == "HIT" || strings.Contains(resp.Header.Get("Cache-Status"), "; hit")) &&
						!strings.Contains(resp.Header.Get("Cache-Status"), "fwd") {
						meta.DirectFail(map[string]any{"kind": "contacted-origin-labelled-hit", "range": spec, "has_range": hasRange, "status": resp.Status, "backend": backend,
							"x_cache": resp.Header.Get("X-Cache"), "cache_status": resp.Header.Get("Cache-Status"), "origin_requests_for_this_request": env.Origin.Count() - originBefore,
							"what": "the origin was contacted for this request, yet the answer is labelled as a plain hit"})
					}
					obs := "ONoResponse"
					if rerr == nil && resp.BodyErr == "" {
						cr := resp.Header.Get("Content-Range")
						switch resp.Status {
						case 206:
							var a, b, sz int64
							if n, _ := fmt.Sscanf(cr, "bytes %d-%d/%d", &a, &b, &sz); n == 3 {
								cl, err := strconv.ParseInt(resp.Header.Get("Content-Length"), 10, 64)
								if err != nil {
									cl = -1
								}
								obs = fmt.Sprintf("(OPartial %s %s %s %s %s)", emit.Z(a), emit.Z(b), emit.Z(sz), emit.Z(cl), emit.Bytes(resp.Body))
							} else {
								obs = "(OOther 206)"
							}
						case 416:
							var sz int64
							if n, _ := fmt.Sscanf(cr, "bytes */%d", &sz); n == 1 {
								obs = fmt.Sprintf("(O416 %s)", emit.Z(sz))
							} else {
								obs = "(OOther 416)"
							}
						default:
							if resp.Status >= 200 && resp.Status < 300 {
								obs = fmt.Sprintf("(OFull %d %s %s %s)", resp.Status, emit.Z(int64(len(resp.Body))), emit.Bytes(resp.Body), emit.Bool(cr != ""))
							} else {
								obs = fmt.Sprintf("(OOther %d)", resp.Status)
							}
						}
					}
					hdrTerm := "None"
					if hasRange {
						hdrTerm = "(Some " + emit.Str(spec) + ")"
					}
					st := fmt.Sprintf("{| st_size := %d; st_etag := %s; st_lastmod := %s |}", size, emit.Str(etag), emit.Z(lastMod.Unix()))
					w.Add(fmt.Sprintf("EC %s %s %s %s %s %s", emit.Bool(retry), hdrTerm, irTerm, st, emit.Bytes(body), obs))
					transport := "plain"
					if tlsOn {
						transport = "connect"
					}
					meta.Count("backend", backend)
					meta.Count("transport", transport)
					meta.Count("retry", emit.Bool(retry))
					meta.Count("if_range", strconv.Itoa(irKind))
					meta.Count("size", strconv.Itoa(size))
					meta.Count("origin_chunked", emit.Bool(chunked[path]))
					nontriv := hasRange && strings.ContainsAny(spec[strings.IndexByte(spec, '=')+1:], "0123456789-")
					meta.Record(fmt.Sprintf("%s|%d|%d|%v|%s|%s", spec, size, irKind, retry, backend, transport), nontriv,
						map[string]any{"range": spec, "has_range": hasRange, "size": size, "if_range_kind": irKind, "retry": retry, "backend": backend, "transport": transport, "origin_chunked": chunked[path], "observed": obsShort(obs)})
				}
				for _, originDrops := range []bool{false, true} {
					if !retry {
						break
					}
					// the retry without Range meets an entry that is ALREADY STALE when it is stored (lifetime 1 s, the
					// body takes longer): the retry is revalidated (304); the client still gets the full 200
					caseNo++
					path := fmt.Sprintf("/r%d", caseNo)
					body := content(caseNo, 10)
					etag := fmt.Sprintf("\"e%d\"", caseNo)
					env.Cfg.Proxy.CachePolicy.ForceDefaultMaxAge.Overwrite(false) // the origin's own (short) lifetime counts
					env.Cfg.Proxy.CachePolicy.IgnoreCacheControl.Overwrite(false)
					var hits atomic.Int32
					env.Origin.SetHandler(func(req e2elib.OriginRequest, n int) e2elib.Answer {
						if hits.Add(1) > 1 && originDrops {
							// every later request (the revalidation of the retry included): the connection is closed without an answer
							return e2elib.Answer{Raw: []byte{}}
						}
						if req.Header.Get("If-None-Match") != "" || req.Header.Get("If-Modified-Since") != "" {
							return e2elib.NewAnswer(304, nil, "ETag: "+etag, "Cache-Control: max-age=1")
						}
						a := e2elib.NewAnswer(200, body, "Cache-Control: max-age=1", "ETag: "+etag, "Last-Modified: "+lastMod.Format(http.TimeFormat), "Content-Type: application/octet-stream")
						a.Pieces, a.PieceDelay = 2, 1300*time.Millisecond // the second half leaves 1.3 s after the header
						return a
					})
					spec := "bytes=50-60"
					hs := []string{"Range: " + spec}
					var resp *e2elib.Response
					var rerr error
					if tlsOn {
						var c *e2elib.Conn
						c, _, rerr = env.DialTunnel(env.Origin.Addr, "127.0.0.1", 8*time.Second)
						if rerr == nil {
							rerr = c.Send(env.TunnelRequest("GET", path, hs, nil), 5*time.Second)
							if rerr == nil {
								resp, rerr = c.Read("GET", 12*time.Second)
							}
							c.Close()
						}
					} else {
						resp, rerr = env.DoPlain(env.PlainRequest("GET", path, hs, nil), "GET", 12*time.Second)
					}
					obs := "ONoResponse"
					if rerr == nil && resp.BodyErr == "" {
						cr := resp.Header.Get("Content-Range")
						var sz int64
						switch {
						case resp.Status == 416:
							if n, _ := fmt.Sscanf(cr, "bytes */%d", &sz); n == 1 {
								obs = fmt.Sprintf("(O416 %s)", emit.Z(sz))
							} else {
								obs = "(OOther 416)"
							}
						case resp.Status >= 200 && resp.Status < 300 && resp.Status != 206:
							obs = fmt.Sprintf("(OFull %d %s %s %s)", resp.Status, emit.Z(int64(len(resp.Body))), emit.Bytes(resp.Body), emit.Bool(cr != ""))
						default:
							obs = fmt.Sprintf("(OOther %d)", resp.Status)
						}
					}
					if originDrops {
						// the re-fetch fails: an explicit error status, a 416 with the size or the complete 200 are honest
						// answers; an empty 200, a part or no answer at all are not
						ok := rerr == nil && resp.BodyErr == "" && (resp.Status >= 500 ||
							(resp.Status == 416 && resp.Header.Get("Content-Range") == "bytes */10") ||
							(resp.Status == 200 && bytes.Equal(resp.Body, body)))
						if !ok {
							what := fmt.Sprint(rerr)
							if rerr == nil {
								what = fmt.Sprintf("%d with %d body bytes, Content-Range %q, body error %q", resp.Status, len(resp.Body), resp.Header.Get("Content-Range"), resp.BodyErr)
							}
							meta.DirectFail(fmt.Sprintf("range outside the stored 10 bytes, retry_on_invalid_range on, the origin drops the connection on the re-fetch (backend %s, tls %v): the client got %s — neither an error status, a 416 with the size, nor the complete 200", backend, tlsOn, what))
						}
						meta.Count("retry_refetch_fails", backend)
						meta.Record(fmt.Sprintf("stale-retry-origin-drops|%s|%v", backend, tlsOn), true,
							map[string]any{"range": spec, "size": 10, "retry": true, "backend": backend, "origin_drops_on_refetch": true, "observed": obsShort(obs)})
						continue
					}
					st := fmt.Sprintf("{| st_size := 10; st_etag := %s; st_lastmod := %s |}", emit.Str(etag), emit.Z(lastMod.Unix()))
					w.Add(fmt.Sprintf("EC true (Some %s) IRNone %s %s %s", emit.Str(spec), st, emit.Bytes(body), obs))
					meta.Count("retry_meets_stale_entry", backend)
					meta.Record(fmt.Sprintf("stale-retry|%s|%v", backend, tlsOn), true,
						map[string]any{"range": spec, "size": 10, "retry": true, "backend": backend, "origin_body_slower_than_lifetime": true, "observed": obsShort(obs)})
				}
				env.Close()
				os.RemoveAll(dir)
			}
		}
	}
	w.Flush()
	meta.Write(*flagOut, w.Files)
	fmt.Printf("e2e07: %d cases in %d files\n", w.Total, len(w.Files))
}

func obsShort(o string) string {
	if len(o) > 60 {
		return o[:60] + "..."
	}
	return o
}
