// cachesched — forced schedules at the cache API that the sequential models assume away, decided by the harness ("direct").
//
//	-prop C03  lock-wait: a lookup that has to WAIT for the entry's lock (a slow store on the same shard holds it) and whose
//	           entry expires during the wait must report the entry stale (the clock is read when the entry is examined).
//	-prop C06  update-during-store: a metadata update (what a 304 does) issued while a full store of the same key is
//	           downloading must apply to the entry that store puts in place — afterwards the key holds the NEW body
//	           with the NEW object metadata.
package main

import (
	"bytes"
	"context"
	"encoding/json"
	"flag"
	"fmt"
	"io"
	"log/slog"
	"os"
	"path/filepath"
	"time"

	"reservoir/cache"
	"reservoir/config"
)

var (
	flagProp = flag.String("prop", "C03", "C03|C06")
	flagOut  = flag.String("out", ".", "output directory")
	flagSeed = flag.Int64("seed", 1, "seed")
	flagTier = flag.String("tier", "quick", "tier")
)

type meta struct {
	Version int
	ETag    string
}

type hooks interface {
	cache.Cache[meta]
	cache.VerifHooks
}

type failure struct {
	Scenario string `json:"scenario"`
	Backend  string `json:"backend"`
	Shards   int    `json:"shards"`
	What     string `json:"what"`
}

func newCache(backend string, cfg *config.Config, shards int, ctx context.Context, dir string) hooks {
	if backend == "memory" {
		c := cache.NewMemoryCache[meta](cfg, 50, 1<<30, time.Hour, shards, ctx)
		c.VerifSetMemoryCap(1 << 40)
		return c
	}
	return cache.NewFileCache[meta](cfg, dir, 1<<30, time.Hour, shards, ctx)
}

// slow: a reader that signals its first Read and then delivers its data over `total`
type slow struct {
	data    []byte
	started chan struct{}
	total   time.Duration
	sent    bool
}

func (s *slow) Read(p []byte) (int, error) {
	if !s.sent {
		s.sent = true
		close(s.started)
		time.Sleep(s.total)
	}
	if len(s.data) == 0 {
		return 0, io.EOF
	}
	n := copy(p, s.data)
	s.data = s.data[n:]
	return n, nil
}

func body(v int) []byte { return bytes.Repeat([]byte(fmt.Sprintf("version-%d;", v)), 40) }

func lockWait(backend string, shards int, dir string) []failure {
	var fs []failure
	cfg := config.NewDefault()
	ctx, cancel := context.WithCancel(context.Background())
	defer cancel()
	c := newCache(backend, cfg, shards, ctx, dir)
	defer c.Destroy()
	k := cache.FromString("lock-wait-key")
	e, err := c.Cache(k, bytes.NewReader(body(1)), time.Now().Add(150*time.Millisecond), meta{1, "v1"})
	if err != nil {
		return []failure{{"lock-wait", backend, shards, "store failed: " + err.Error()}}
	}
	if e.Data != nil {
		e.Data.Close()
	}
	for _, via := range []string{"Get", "GetMetadata"} {
		c.VerifLockShard(k.Hex) // what a slow store of a key on this shard does for the duration of its download
		res := make(chan string, 1)
		go func() {
			switch via {
			case "Get":
				en, err := c.Get(k)
				if err != nil {
					res <- "error: " + err.Error()
					return
				}
				if en.Data != nil {
					en.Data.Close()
				}
				res <- fmt.Sprint(en.Stale)
			default:
				_, stale, err := c.GetMetadata(k)
				if err != nil {
					res <- "error: " + err.Error()
					return
				}
				res <- fmt.Sprint(stale)
			}
		}()
		time.Sleep(400 * time.Millisecond) // the entry's 150 ms lifetime ends while the lookup waits
		c.VerifUnlockShard(k.Hex)
		if got := <-res; got != "true" {
			fs = append(fs, failure{"lock-wait", backend, shards, fmt.Sprintf("%s started while the entry was fresh, waited for the entry's lock until 250 ms after its expiry and reported stale=%s: the entry is reused past its lifetime", via, got)})
		}
	}
	return fs
}

func updateDuringStore(backend string, shards int, dir string) []failure {
	var fs []failure
	cfg := config.NewDefault()
	ctx, cancel := context.WithCancel(context.Background())
	defer cancel()
	c := newCache(backend, cfg, shards, ctx, dir)
	defer c.Destroy()
	k := cache.FromString("update-during-store-key")
	e, err := c.Cache(k, bytes.NewReader(body(1)), time.Now().Add(time.Hour), meta{1, "v1"})
	if err != nil {
		return []failure{{"update-during-store", backend, shards, "store failed: " + err.Error()}}
	}
	if e.Data != nil {
		e.Data.Close()
	}
	src := &slow{data: body(2), started: make(chan struct{}), total: 400 * time.Millisecond}
	stored := make(chan error, 1)
	go func() {
		en, err := c.Cache(k, src, time.Now().Add(time.Hour), meta{2, "v2"})
		if err == nil && en.Data != nil {
			en.Data.Close()
		}
		stored <- err
	}()
	<-src.started // the store holds the entry's lock and is downloading version 2
	updated := make(chan error, 1)
	go func() {
		updated <- c.UpdateMetadata(k, func(m *cache.EntryMetadata[meta]) { m.Expires = m.Expires.Add(30 * time.Minute) })
	}()
	if err := <-stored; err != nil {
		return []failure{{"update-during-store", backend, shards, "store of version 2 failed: " + err.Error()}}
	}
	<-updated
	en, err := c.Get(k)
	if err != nil {
		return []failure{{"update-during-store", backend, shards, "the key is gone after a store and a metadata update: " + err.Error()}}
	}
	b, rerr := io.ReadAll(en.Data)
	en.Data.Close()
	switch {
	case rerr != nil || !bytes.Equal(b, body(2)):
		fs = append(fs, failure{"update-during-store", backend, shards, fmt.Sprintf("after version 2 was stored and a metadata update (issued during that store) completed, the key serves %d bytes starting %q (read error %v), not version 2", len(b), string(b[:min(len(b), 12)]), rerr)})
	case en.Metadata.Object.Version != 2 || en.Metadata.Object.ETag != "v2" || en.Metadata.Size != int64(len(body(2))):
		fs = append(fs, failure{"update-during-store", backend, shards, fmt.Sprintf("version 2's body is stored with object metadata %+v and size %d: the validators of the replaced version", en.Metadata.Object, en.Metadata.Size)})
	}
	return fs
}

func main() {
	flag.Parse()
	slog.SetDefault(slog.New(slog.NewTextHandler(io.Discard, nil)))
	if err := os.MkdirAll(*flagOut, 0755); err != nil {
		panic(err)
	}
	failures := []failure{}
	dist := map[string]int{}
	total := 0
	for _, backend := range []string{"memory", "file"} {
		for _, shards := range []int{1, 8} {
			dir := filepath.Join(*flagOut, fmt.Sprintf("c-%s-%d", backend, shards))
			switch *flagProp {
			case "C03":
				failures = append(failures, lockWait(backend, shards, dir)...)
				dist["lock-wait/"+backend] += 2
				total += 2
			default:
				failures = append(failures, updateDuringStore(backend, shards, dir)...)
				dist["update-during-store/"+backend]++
				total++
			}
			os.RemoveAll(dir)
		}
	}
	out := map[string]any{
		"harness": "cachesched/" + *flagProp, "seed": *flagSeed, "tier": *flagTier, "total": total, "distinct": total, "distinct_nontrivial": total,
		"rule":         "forced schedules at the cache API, both backends, 1 and 8 lock shards: C03 lock-wait (Get / GetMetadata wait 400 ms for the entry's lock while the entry's 150 ms lifetime ends: must report stale); C06 update-during-store (UpdateMetadata issued while a full store of the same key is downloading: afterwards the key holds the new body with the new object metadata)",
		"distribution": map[string]any{"scenario": dist},
		"samples":      []any{map[string]any{"backend": "file", "shards": 1}},
		"files":        []string{}, "readable": []any{},
		"direct": map[string]any{"total": total, "failures": failures, "mismatches": []any{}},
	}
	b, _ := json.MarshalIndent(out, "", " ")
	if err := os.WriteFile(filepath.Join(*flagOut, "meta.json"), b, 0644); err != nil {
		panic(err)
	}
	fmt.Printf("cachesched %s: %d scenarios, %d failures\n", *flagProp, total, len(failures))
}
