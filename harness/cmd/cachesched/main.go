// cachesched — forced schedules at the cache API that the sequential models assume away, decided by the harness ("direct").
//
//	-prop C03  lock-wait: a lookup that has to WAIT for the entry's lock (a slow store on the same shard holds it) and whose
//	           entry expires during the wait must report the entry stale (the clock is read when the entry is examined).
//	-prop C13  overwrite-window: while a store OVERWRITES a key (cache below its limit before and after), a store of
//	           another key lands between the two counter updates: nothing may be evicted.
//	-prop C12  evict-during-overwrite: an eviction candidate is overwritten with another length between the eviction's
//	           scan and its removal loop: afterwards the byte counter and the bytes metric equal what is stored.
//	-prop C06  update-during-store: a metadata update (what a 304 does) issued while a full store of the same key is
//	           downloading must apply to the entry that store puts in place — afterwards the key holds the NEW body
//	           with the NEW object metadata.
package main

import (
	"bytes"
	"context"
	"encoding/json"
	"flag"
	"fmt"
	"io"
	"log/slog"
	"os"
	"path/filepath"
	"strings"
	"time"

	"reservoir/cache"
	"reservoir/config"
	"reservoir/metrics"
	"reservoir/utils/bytesize"
)

var (
	flagProp = flag.String("prop", "C03", "C03|C06")
	flagOut  = flag.String("out", ".", "output directory")
	flagSeed = flag.Int64("seed", 1, "seed")
	flagTier = flag.String("tier", "quick", "tier")
)

type meta struct {
	Version int
	ETag    string
}

type hooks interface {
	cache.Cache[meta]
	cache.VerifHooks
}

type failure struct {
	Scenario string `json:"scenario"`
	Backend  string `json:"backend"`
	Shards   int    `json:"shards"`
	What     string `json:"what"`
}

func newCache(backend string, cfg *config.Config, shards int, ctx context.Context, dir string) hooks {
	return newCacheLimit(backend, cfg, shards, ctx, dir, 1<<30)
}

func newCacheLimit(backend string, cfg *config.Config, shards int, ctx context.Context, dir string, limit int64) hooks {
	cfg.Cache.MaxCacheSize.Overwrite(bytesize.ByteSize(limit))
	if backend == "memory" {
		c := cache.NewMemoryCache[meta](cfg, 50, limit, time.Hour, shards, ctx)
		c.VerifSetMemoryCap(1 << 40)
		return c
	}
	return cache.NewFileCache[meta](cfg, dir, limit, time.Hour, shards, ctx)
}

func put(c hooks, k cache.CacheKey, n int, v int) error {
	e, err := c.Cache(k, bytes.NewReader(bytes.Repeat([]byte{byte('a' + v%26)}, n)), time.Now().Add(time.Hour), meta{v, fmt.Sprintf("v%d", v)})
	if err == nil && e.Data != nil {
		e.Data.Close()
	}
	return err
}

func has(c hooks, k cache.CacheKey) bool {
	for _, h := range c.VerifKeys() {
		if h == k.Hex {
			return true
		}
	}
	return false
}

// otherShard: a key that lives on another lock shard than k
func otherShard(c hooks, k cache.CacheKey, name string) (cache.CacheKey, bool) {
	for i := 0; i < 500; i++ {
		o := cache.FromString(fmt.Sprintf("%s-%d", name, i))
		if c.VerifShardOf(o.Hex) != c.VerifShardOf(k.Hex) {
			return o, true
		}
	}
	return cache.CacheKey{}, false
}

func overwriteWindow(backend string, shards int, dir string) []failure {
	var fs []failure
	if shards == 1 {
		return fs // the second store would need the shard lock the interrupted one holds
	}
	cfg := config.NewDefault()
	ctx, cancel := context.WithCancel(context.Background())
	defer cancel()
	c := newCacheLimit(backend, cfg, shards, ctx, dir, 1000)
	defer c.Destroy()
	kx := cache.FromString("overwritten-key")
	old1, ok1 := otherShard(c, kx, "old-one")
	old2, ok2 := otherShard(c, kx, "old-two")
	ky, ok3 := otherShard(c, kx, "other-key")
	if !ok1 || !ok2 || !ok3 {
		return fs
	}
	put(c, old1, 300, 1)
	put(c, old2, 300, 2)
	put(c, kx, 200, 3)
	base := time.Now()
	c.VerifSetLastAccess(old1.Hex, base.Add(-3*time.Second))
	c.VerifSetLastAccess(old2.Hex, base.Add(-2*time.Second))
	fired := false
	cache.VerifSetYield(func(point string) {
		if point == "counter.betweenHalves" && !fired {
			fired = true
			cache.VerifSetYield(nil)
			put(c, ky, 50, 4) // a store of another key while kx is being overwritten (800 -> 850 bytes held)
		}
	})
	put(c, kx, 250, 5)
	cache.VerifSetYield(nil)
	if !fired {
		return []failure{{"overwrite-window", backend, shards, "yield point counter.betweenHalves was never reached (hook removed?)"}}
	}
	if !has(c, old1) || !has(c, old2) {
		fs = append(fs, failure{"overwrite-window", backend, shards, fmt.Sprintf("limit 1000, 800 bytes held, one key overwritten (200 -> 250 bytes) while another 50-byte key was stored: the cache was below its limit throughout, yet least-recently-used entries were evicted (old1 present=%v, old2 present=%v, size now %d)", has(c, old1), has(c, old2), c.VerifByteSize())})
	}
	return fs
}

// vanishing: a reader that delivers its data and, just before reporting EOF, runs f (the cache directory's content
// disappears while the body streams in)
type vanishing struct {
	data []byte
	f    func()
}

func (v *vanishing) Read(p []byte) (int, error) {
	if len(v.data) == 0 {
		if v.f != nil {
			v.f()
			v.f = nil
		}
		return 0, io.EOF
	}
	n := copy(p, v.data)
	v.data = v.data[n:]
	return n, nil
}

func counters(c hooks) (stored int64, entries int, bs, metricBytes, metricEntries int64) {
	for _, hx := range c.VerifKeys() {
		if sz, _, _, _, ok := c.VerifMeta(hx); ok {
			stored += sz
			entries++
		}
	}
	return stored, entries, c.VerifByteSize(), metrics.Global.Cache.BytesCached.Get(), metrics.Global.Cache.CacheEntries.Get()
}

// renameFails (file backend): the body is copied completely, then the final rename fails because the temp file has
// vanished. The store reports an error; nothing may stay booked for it.
func renameFails(shards int, dir string) []failure {
	cfg := config.NewDefault()
	ctx, cancel := context.WithCancel(context.Background())
	defer cancel()
	metrics.Global.Cache.BytesCached.Set(0)
	metrics.Global.Cache.CacheEntries.Set(0)
	c := newCacheLimit("file", cfg, shards, ctx, dir, 1<<30)
	defer c.Destroy()
	put(c, cache.FromString("rf-other"), 60, 1)
	k := cache.FromString("rf-key")
	for round, n := range []int{40, 90} { // a new key, then (after a good store) an overwrite
		if round == 1 {
			put(c, k, 25, 2)
		}
		src := &vanishing{data: bytes.Repeat([]byte{'r'}, n), f: func() {
			ents, _ := os.ReadDir(dir)
			for _, e := range ents {
				if strings.HasSuffix(e.Name(), ".tmp") {
					os.Remove(filepath.Join(dir, e.Name()))
				}
			}
		}}
		e, err := c.Cache(k, src, time.Now().Add(time.Hour), meta{9, "v9"})
		if err == nil {
			if e.Data != nil {
				e.Data.Close()
			}
			continue // this code does not fail here (another temp-file scheme): nothing to judge
		}
		stored, entries, bs, mb, me := counters(c)
		var disk int64
		files := 0
		ents, _ := os.ReadDir(dir)
		for _, de := range ents {
			if fi, err := de.Info(); err == nil && !de.IsDir() {
				disk += fi.Size()
				files++
			}
		}
		if bs != disk || mb != bs || me != int64(files) || stored != disk || entries != files {
			return []failure{{"rename-fails", "file", shards, fmt.Sprintf("a store whose final rename failed reported an error; afterwards the directory holds %d bytes in %d files, the index %d bytes in %d entries, the byte counter says %d, the metrics %d bytes / %d entries", disk, files, stored, entries, bs, mb, me)}}
		}
	}
	return nil
}

// blockFile makes the data file of key k unremovable (a non-empty directory takes its place; the file is kept aside);
// the returned function puts the file back.
func blockFile(dir string, k cache.CacheKey) (restore func()) {
	p := filepath.Join(dir, k.Hex)
	aside := p + ".aside"
	os.Rename(p, aside)
	os.MkdirAll(filepath.Join(p, "pin"), 0755)
	return func() {
		os.RemoveAll(p)
		os.Rename(aside, p)
	}
}

// removeFailsThenStore (file backend): the removal of an entry's file fails (anything but "not there"); later the same
// key is stored again. One key, one file: one entry and its bytes are reported.
func removeFailsThenStore(shards int, dir string) []failure {
	cfg := config.NewDefault()
	ctx, cancel := context.WithCancel(context.Background())
	defer cancel()
	metrics.Global.Cache.BytesCached.Set(0)
	metrics.Global.Cache.CacheEntries.Set(0)
	c := newCacheLimit("file", cfg, shards, ctx, dir, 1<<30)
	defer c.Destroy()
	k := cache.FromString("remove-fails-key")
	put(c, k, 10, 1)
	restore := blockFile(dir, k)
	c.Delete(k) // cannot remove the file
	restore()
	put(c, k, 10, 2)
	_, entries, bs, mb, me := counters(c)
	var disk int64
	files := 0
	ents, _ := os.ReadDir(dir)
	for _, de := range ents {
		if fi, err := de.Info(); err == nil && !de.IsDir() {
			disk += fi.Size()
			files++
		}
	}
	if bs != disk || mb != bs || me != int64(files) || entries != files {
		return []failure{{"remove-fails-then-store", "file", shards, fmt.Sprintf("the removal of an entry's file failed, then the key was stored again: the directory holds %d bytes in %d files, the index has %d entries, the byte counter says %d, the metrics %d bytes / %d entries", disk, files, entries, bs, mb, me)}}
	}
	return nil
}

// evictPastUnremovable (file backend): the least recently used victim cannot be removed; the eviction goes on with the
// next ones until the target is reached.
func evictPastUnremovable(shards int, dir string) []failure {
	cfg := config.NewDefault()
	ctx, cancel := context.WithCancel(context.Background())
	defer cancel()
	c := newCacheLimit("file", cfg, shards, ctx, dir, 1<<30)
	defer c.Destroy()
	keys := []cache.CacheKey{cache.FromString("ev-a"), cache.FromString("ev-b"), cache.FromString("ev-c"), cache.FromString("ev-d")}
	base := time.Now()
	for i, k := range keys {
		put(c, k, 300, i)
		c.VerifSetLastAccess(k.Hex, base.Add(-time.Duration(40-10*i)*time.Second)) // ev-a is the least recently used
	}
	restore := blockFile(dir, keys[0])
	defer restore()
	c.VerifEvict(1000) // target 800 bytes; 1200 are held
	if got := c.VerifByteSize(); got > 800 {
		return []failure{{"evict-past-unremovable", "file", shards, fmt.Sprintf("eviction to a limit of 1000 (target 800) with 4 x 300 bytes held and an unremovable least-recently-used victim: %d bytes are still held — the eviction stopped at the victim it could not remove", got)}}
	}
	return nil
}

// evictManySmall: 600 entries of 64 bytes; reaching the target takes several hundred removals in ONE pass.
func evictManySmall(backend string, shards int, dir string) []failure {
	cfg := config.NewDefault()
	ctx, cancel := context.WithCancel(context.Background())
	defer cancel()
	c := newCacheLimit(backend, cfg, shards, ctx, dir, 1<<30)
	defer c.Destroy()
	for i := 0; i < 600; i++ {
		put(c, cache.FromString(fmt.Sprintf("small-%d", i)), 64, i)
	}
	c.VerifEvict(12500) // target 10000 bytes; 38400 are held: 444 removals
	if got := c.VerifByteSize(); got > 10000 {
		return []failure{{"evict-many-small", backend, shards, fmt.Sprintf("600 entries of 64 bytes, eviction to a limit of 12500 (target 10000): %d bytes are still held after the pass (%d entries removed of the 444 needed)", got, 600-int((got+63)/64))}}
	}
	return nil
}

// readThenEvict: real accesses, no hook sets an access time. Four equal entries stored 30 ms apart, the oldest one is
// read, a fifth store pushes exactly one entry out: it is the least recently USED one (the second), not the one just read.
func readThenEvict(backend string, shards int, dir string) []failure {
	cfg := config.NewDefault()
	ctx, cancel := context.WithCancel(context.Background())
	defer cancel()
	c := newCacheLimit(backend, cfg, shards, ctx, dir, 1024)
	defer c.Destroy()
	keys := []cache.CacheKey{cache.FromString("rte-a"), cache.FromString("rte-b"), cache.FromString("rte-c"), cache.FromString("rte-d")}
	for i, k := range keys {
		put(c, k, 256, i)
		time.Sleep(30 * time.Millisecond)
	}
	if e, err := c.Get(keys[0]); err == nil && e.Data != nil {
		e.Data.Close()
	}
	time.Sleep(30 * time.Millisecond)
	put(c, cache.FromString("rte-e"), 256, 4) // 1280 bytes against a limit of 1024: down to 819, two entries... see below
	gone := []string{}
	for i, k := range keys {
		if !has(c, k) {
			gone = append(gone, string(rune('a'+i)))
		}
	}
	// whatever the number of victims, they are taken in order of last use: b, c, d before a
	if !has(c, keys[0]) && has(c, keys[3]) {
		return []failure{{"read-then-evict", backend, shards, fmt.Sprintf("entries a,b,c,d stored 30 ms apart, a read again, then a store that forces an eviction: evicted %v — the entry that was read last went before entries that were used longer ago", gone)}}
	}
	return nil
}

// lateDestroy (file backend): a cache instance is re-created over the same directory (what a reconfiguration does) and the
// OLD instance is destroyed only afterwards. The new instance's counters still describe what its directory holds.
func lateDestroy(shards int, dir string) []failure {
	cfg := config.NewDefault()
	ctx, cancel := context.WithCancel(context.Background())
	defer cancel()
	old := newCacheLimit("file", cfg, shards, ctx, dir, 1<<30)
	k1, k2 := cache.FromString("ld-one"), cache.FromString("ld-two")
	put(old, k1, 30, 1)
	put(old, k2, 40, 2)
	metrics.Global.Cache.BytesCached.Set(0)
	metrics.Global.Cache.CacheEntries.Set(0)
	ctx2, cancel2 := context.WithCancel(context.Background())
	defer cancel2()
	cur := newCacheLimit("file", cfg, shards, ctx2, dir, 1<<30)
	defer cur.Destroy()
	put(cur, k1, 50, 3) // the same URLs again: the same file names
	put(cur, k2, 60, 4)
	old.Destroy()
	stored, entries, bs, _, _ := counters(cur)
	var disk int64
	files := 0
	ents, _ := os.ReadDir(dir)
	for _, de := range ents {
		if fi, err := de.Info(); err == nil && !de.IsDir() {
			disk += fi.Size()
			files++
		}
	}
	readable := 0
	for _, k := range []cache.CacheKey{k1, k2} {
		if e, err := cur.Get(k); err == nil {
			if e.Data != nil {
				e.Data.Close()
			}
			readable++
		}
	}
	if bs != disk || stored != disk || entries != files || readable != entries {
		return []failure{{"late-destroy-of-old-instance", "file", shards, fmt.Sprintf("a new cache instance over the same directory stored 2 entries (110 bytes), then the OLD instance was destroyed: the directory holds %d bytes in %d files, the live instance reports %d bytes in %d entries (byte counter %d) and can return %d of them", disk, files, stored, entries, bs, readable)}}
	}
	return nil
}

// budgetToZero (memory backend): the memory budget is changed to 0 % at run time with entries stored; whatever the cache
// then does with its entries, the counters equal what is stored.
func budgetToZero(shards int) []failure {
	cfg := config.NewDefault()
	ctx, cancel := context.WithCancel(context.Background())
	defer cancel()
	metrics.Global.Cache.BytesCached.Set(0)
	metrics.Global.Cache.CacheEntries.Set(0)
	cfg.Cache.MaxCacheSize.Overwrite(bytesize.ByteSize(1 << 30))
	c := cache.NewMemoryCache[meta](cfg, 60, 1<<30, time.Hour, shards, ctx)
	defer c.Destroy()
	for i := 0; i < 3; i++ {
		put(c, cache.FromString(fmt.Sprintf("bz-%d", i)), 100+i, i)
	}
	p := &cfg.Cache.Memory.MemoryBudgetPercent
	p.Stage(0)
	p.CommitStaged()
	h := p.VerifEvent().VerifLast()
	for dl := time.Now().Add(3 * time.Second); time.Now().Before(dl); time.Sleep(200 * time.Microsecond) {
		if _, running, pending := p.VerifEvent().VerifSubState(h); !running && pending == 0 {
			break
		}
	}
	time.Sleep(2 * time.Millisecond)
	put(c, cache.FromString("bz-after"), 50, 7) // refused or not: the counters must stay true
	stored, entries, bs, mb, me := counters(c)
	if bs != stored || mb != bs || me != int64(entries) {
		return []failure{{"budget-to-zero", "memory", shards, fmt.Sprintf("memory budget changed to 0 %% at run time with 3 entries stored: afterwards %d bytes in %d entries are stored, the byte counter says %d, the metrics %d bytes / %d entries", stored, entries, bs, mb, me)}}
	}
	return nil
}

type onRecord struct {
	msg string
	f   func()
}

func (h *onRecord) Enabled(context.Context, slog.Level) bool { return true }
func (h *onRecord) Handle(_ context.Context, r slog.Record) error {
	if r.Message == h.msg && h.f != nil {
		f := h.f
		h.f = nil
		f()
	}
	return nil
}
func (h *onRecord) WithAttrs([]slog.Attr) slog.Handler { return h }
func (h *onRecord) WithGroup(string) slog.Handler      { return h }

func evictDuringOverwrite(backend string, shards int, dir string) ([]failure, bool) {
	var fs []failure
	cfg := config.NewDefault()
	ctx, cancel := context.WithCancel(context.Background())
	defer cancel()
	metrics.Global.Cache.BytesCached.Set(0)
	metrics.Global.Cache.CacheEntries.Set(0)
	c := newCacheLimit(backend, cfg, shards, ctx, dir, 1<<30)
	defer c.Destroy()
	k1, k2, k3 := cache.FromString("evict-k1"), cache.FromString("evict-k2"), cache.FromString("evict-k3")
	put(c, k1, 100, 1)
	put(c, k2, 100, 2)
	put(c, k3, 100, 3)
	base := time.Now()
	c.VerifSetLastAccess(k1.Hex, base.Add(-30*time.Second))
	c.VerifSetLastAccess(k2.Hex, base.Add(-20*time.Second))
	c.VerifSetLastAccess(k3.Hex, base.Add(-10*time.Second))
	fired := false
	// the janitor reports its target between the scan and the removal loop: the overwrite lands exactly there
	slog.SetDefault(slog.New(&onRecord{msg: "Target size for eviction", f: func() { fired = true; put(c, k1, 300, 9) }}))
	c.VerifEvict(250)
	slog.SetDefault(slog.New(slog.NewTextHandler(io.Discard, nil)))
	if !fired {
		return nil, false // the log record the schedule hangs on is gone: nothing forced, nothing claimed
	}
	var stored int64
	for _, hx := range c.VerifKeys() {
		if sz, _, _, _, ok := c.VerifMeta(hx); ok {
			stored += sz
		}
	}
	bs, metric := c.VerifByteSize(), metrics.Global.Cache.BytesCached.Get()
	if bs != stored || metric != bs {
		fs = append(fs, failure{"evict-during-overwrite", backend, shards, fmt.Sprintf("an eviction candidate (100 bytes) was overwritten with 300 bytes between the eviction's scan and its removal: afterwards %d bytes are stored in %d entries, the byte counter says %d and the bytes metric %d", stored, len(c.VerifKeys()), bs, metric)})
	}
	return fs, true
}

// slow: a reader that signals its first Read and then delivers its data over `total`
type slow struct {
	data    []byte
	started chan struct{}
	total   time.Duration
	sent    bool
}

func (s *slow) Read(p []byte) (int, error) {
	if !s.sent {
		s.sent = true
		close(s.started)
		time.Sleep(s.total)
	}
	if len(s.data) == 0 {
		return 0, io.EOF
	}
	n := copy(p, s.data)
	s.data = s.data[n:]
	return n, nil
}

func body(v int) []byte { return bytes.Repeat([]byte(fmt.Sprintf("version-%d;", v)), 40) }

func lockWait(backend string, shards int, dir string) []failure {
	var fs []failure
	cfg := config.NewDefault()
	ctx, cancel := context.WithCancel(context.Background())
	defer cancel()
	c := newCache(backend, cfg, shards, ctx, dir)
	defer c.Destroy()
	k := cache.FromString("lock-wait-key")
	e, err := c.Cache(k, bytes.NewReader(body(1)), time.Now().Add(150*time.Millisecond), meta{1, "v1"})
	if err != nil {
		return []failure{{"lock-wait", backend, shards, "store failed: " + err.Error()}}
	}
	if e.Data != nil {
		e.Data.Close()
	}
	for _, via := range []string{"Get", "GetMetadata"} {
		c.VerifLockShard(k.Hex) // what a slow store of a key on this shard does for the duration of its download
		res := make(chan string, 1)
		go func() {
			switch via {
			case "Get":
				en, err := c.Get(k)
				if err != nil {
					res <- "error: " + err.Error()
					return
				}
				if en.Data != nil {
					en.Data.Close()
				}
				res <- fmt.Sprint(en.Stale)
			default:
				_, stale, err := c.GetMetadata(k)
				if err != nil {
					res <- "error: " + err.Error()
					return
				}
				res <- fmt.Sprint(stale)
			}
		}()
		time.Sleep(400 * time.Millisecond) // the entry's 150 ms lifetime ends while the lookup waits
		c.VerifUnlockShard(k.Hex)
		if got := <-res; got != "true" {
			fs = append(fs, failure{"lock-wait", backend, shards, fmt.Sprintf("%s started while the entry was fresh, waited for the entry's lock until 250 ms after its expiry and reported stale=%s: the entry is reused past its lifetime", via, got)})
		}
	}
	return fs
}

func updateDuringStore(backend string, shards int, dir string) []failure {
	var fs []failure
	cfg := config.NewDefault()
	ctx, cancel := context.WithCancel(context.Background())
	defer cancel()
	c := newCache(backend, cfg, shards, ctx, dir)
	defer c.Destroy()
	k := cache.FromString("update-during-store-key")
	e, err := c.Cache(k, bytes.NewReader(body(1)), time.Now().Add(time.Hour), meta{1, "v1"})
	if err != nil {
		return []failure{{"update-during-store", backend, shards, "store failed: " + err.Error()}}
	}
	if e.Data != nil {
		e.Data.Close()
	}
	src := &slow{data: body(2), started: make(chan struct{}), total: 400 * time.Millisecond}
	stored := make(chan error, 1)
	go func() {
		en, err := c.Cache(k, src, time.Now().Add(time.Hour), meta{2, "v2"})
		if err == nil && en.Data != nil {
			en.Data.Close()
		}
		stored <- err
	}()
	<-src.started // the store holds the entry's lock and is downloading version 2
	updated := make(chan error, 1)
	go func() {
		updated <- c.UpdateMetadata(k, func(m *cache.EntryMetadata[meta]) { m.Expires = m.Expires.Add(30 * time.Minute) })
	}()
	if err := <-stored; err != nil {
		return []failure{{"update-during-store", backend, shards, "store of version 2 failed: " + err.Error()}}
	}
	<-updated
	en, err := c.Get(k)
	if err != nil {
		return []failure{{"update-during-store", backend, shards, "the key is gone after a store and a metadata update: " + err.Error()}}
	}
	b, rerr := io.ReadAll(en.Data)
	en.Data.Close()
	switch {
	case rerr != nil || !bytes.Equal(b, body(2)):
		fs = append(fs, failure{"update-during-store", backend, shards, fmt.Sprintf("after version 2 was stored and a metadata update (issued during that store) completed, the key serves %d bytes starting %q (read error %v), not version 2", len(b), string(b[:min(len(b), 12)]), rerr)})
	case en.Metadata.Object.Version != 2 || en.Metadata.Object.ETag != "v2" || en.Metadata.Size != int64(len(body(2))):
		fs = append(fs, failure{"update-during-store", backend, shards, fmt.Sprintf("version 2's body is stored with object metadata %+v and size %d: the validators of the replaced version", en.Metadata.Object, en.Metadata.Size)})
	}
	return fs
}

func main() {
	flag.Parse()
	slog.SetDefault(slog.New(slog.NewTextHandler(io.Discard, nil)))
	if err := os.MkdirAll(*flagOut, 0755); err != nil {
		panic(err)
	}
	failures := []failure{}
	dist := map[string]int{}
	total := 0
	for _, backend := range []string{"memory", "file"} {
		for _, shards := range []int{1, 8} {
			dir := filepath.Join(*flagOut, fmt.Sprintf("c-%s-%d", backend, shards))
			switch *flagProp {
			case "C13":
				failures = append(failures, overwriteWindow(backend, shards, dir)...)
				dist["overwrite-window/"+backend]++
				total++
				failures = append(failures, readThenEvict(backend, shards, dir+"-rte")...)
				os.RemoveAll(dir + "-rte")
				dist["read-then-evict/"+backend]++
				total++
				failures = append(failures, evictManySmall(backend, shards, dir+"-ms")...)
				os.RemoveAll(dir + "-ms")
				dist["evict-many-small/"+backend]++
				total++
				if backend == "file" {
					failures = append(failures, evictPastUnremovable(shards, dir+"-eu")...)
					os.RemoveAll(dir + "-eu")
					dist["evict-past-unremovable/file"]++
					total++
				}
			case "C12":
				f, forced := evictDuringOverwrite(backend, shards, dir)
				failures = append(failures, f...)
				dist[fmt.Sprintf("evict-during-overwrite/%s/forced=%v", backend, forced)]++
				total++
				if backend == "file" {
					failures = append(failures, renameFails(shards, dir+"-rf")...)
					os.RemoveAll(dir + "-rf")
					dist["rename-fails/file"]++
					failures = append(failures, removeFailsThenStore(shards, dir+"-rs")...)
					os.RemoveAll(dir + "-rs")
					dist["remove-fails-then-store/file"]++
					total++
					failures = append(failures, lateDestroy(shards, dir+"-ld")...)
					os.RemoveAll(dir + "-ld")
					dist["late-destroy-of-old-instance/file"]++
					total++
				} else {
					failures = append(failures, budgetToZero(shards)...)
					dist["budget-to-zero/memory"]++
				}
				total++
			case "C03":
				failures = append(failures, lockWait(backend, shards, dir)...)
				dist["lock-wait/"+backend] += 2
				total += 2
			default:
				failures = append(failures, updateDuringStore(backend, shards, dir)...)
				dist["update-during-store/"+backend]++
				total++
			}
			os.RemoveAll(dir)
		}
	}
	out := map[string]any{
		"harness": "cachesched/" + *flagProp, "seed": *flagSeed, "tier": *flagTier, "total": total, "distinct": total, "distinct_nontrivial": total,
		"rule":         "forced schedules at the cache API, both backends, 1 and 8 lock shards: C03 lock-wait (Get / GetMetadata wait 400 ms for the entry's lock while the entry's 150 ms lifetime ends: must report stale); C13 overwrite-window (a store of another key between the two counter updates of an overwriting store, cache below its limit throughout: nothing evicted); C13 read-then-evict (real accesses only: the entry read last is not the first victim), evict-many-small (600 x 64 bytes, one pass must remove 444 entries), evict-past-unremovable (file: the least recently used victim cannot be removed, the eviction goes on to the target); C12 remove-fails-then-store (file: a failed removal, then the key stored again), evict-during-overwrite (an eviction candidate overwritten with another length between scan and removal: counters equal what is stored), rename-fails (file: the temp file vanishes before the final rename, for a new key and for an overwrite) late-destroy-of-old-instance (file: a new instance over the same directory, the old one destroyed afterwards) and budget-to-zero (memory: budget changed to 0 % at run time with entries stored); C06 update-during-store (UpdateMetadata issued while a full store of the same key is downloading: afterwards the key holds the new body with the new object metadata)",
		"distribution": map[string]any{"scenario": dist},
		"samples":      []any{map[string]any{"backend": "file", "shards": 1}},
		"files":        []string{}, "readable": []any{},
		"direct": map[string]any{"total": total, "failures": failures, "mismatches": []any{}},
	}
	b, _ := json.MarshalIndent(out, "", " ")
	if err := os.WriteFile(filepath.Join(*flagOut, "meta.json"), b, 0644); err != nil {
		panic(err)
	}
	fmt.Printf("cachesched %s: %d scenarios, %d failures\n", *flagProp, total, len(failures))
}
