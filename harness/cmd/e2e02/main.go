// e2e02: C02 end to end. Pairs of adversarially related GET requests through the REAL proxy
// against an origin that echoes the request-target it received: A is requested (stored), then B;
// B answered with A's body = the two share an entry.  Emits Check.KeyE2E.served_case terms.
// Usage: e2e02 -seed N -tier quick|thorough -out DIR
package main

import (
	"bufio"
	"flag"
	"fmt"
	"net/http"
	"os"
	"path"
	"path/filepath"
	"strings"
	"time"

	"verifharness/e2elib"
	"verifharness/emit"
)

var (
	flagSeed = flag.Int64("seed", 1, "PRNG seed")
	flagTier = flag.String("tier", "quick", "quick|thorough")
	flagOut  = flag.String("out", ".", "output directory")
)

// variants of a base path that are (or look like they might be) the same resource
func variants(r *emit.Rand, base string) []string {
	segs := strings.Split(strings.Trim(base, "/"), "/")
	last := segs[len(segs)-1]
	dir := "/" + strings.Join(segs[:len(segs)-1], "/")
	if dir != "/" {
		dir += "/"
	}
	vs := []string{
		base, base + "/", base + "//", strings.Replace(base, "/", "//", 1), dir + "./" + last, dir + "x/../" + last,
		base + "/.", base + "/..", base + "/x/..", dir + last + "/../" + last,
		strings.Replace(base, "/"+last, "%2F"+last, 1), strings.Replace(base, last, strings.ToUpper(last), 1),
		dir + "%2e/" + last, dir + "%2E%2E/" + last, base + "%2F", base + "%3F", base + "?", base + "?q", base + "?q=1&r=2", base + "?Q",
		base + "|c", base + "?|c", base + "%7Cc", base + "%7cc", strings.Replace(base, last, "%"+fmt.Sprintf("%02X", last[0])+last[1:], 1),
		base + ";p=1", base + "%20", base + "+", base + "#f",
	}
	// a few random splices
	for i := 0; i < 3; i++ {
		vs = append(vs, emit.Pick(r, vs)+emit.Pick(r, []string{"", "/", "?", "?q", "/.", "%2F"}))
	}
	return vs
}

func parse(method, target, host string) *http.Request {
	raw := method + " " + target + " HTTP/1.1\r\nHost: " + host + "\r\n\r\n"
	r, err := http.ReadRequest(bufio.NewReader(strings.NewReader(raw)))
	if err != nil {
		return nil
	}
	return r
}

func gallina(r *http.Request, tlsOn bool) string {
	return fmt.Sprintf("(RQ %s %s %s %s %s)", emit.Bool(tlsOn), emit.Str(r.Method), emit.Str(r.Host), emit.Str(r.URL.EscapedPath()), emit.Str(r.URL.RawQuery))
}

// originAnswer: what the origin answers for an identified target. Targets below /twins/ are files of equal size written
// in the same second: the same strong ETag (derived from mtime and size, as nginx and Apache do) and the same length,
// different content.
func originAnswer(c string) e2elib.Answer {
	if strings.Contains(c, "/twins/") {
		b := []byte("T=" + c)
		for len(b) < 96 {
			b = append(b, '.')
		}
		return e2elib.NewAnswer(200, b, "Cache-Control: max-age=3600", `ETag: "66f7a1c0-60"`)
	}
	return e2elib.NewAnswer(200, []byte("T="+c), "Cache-Control: max-age=3600")
}

// expectedBody: the body the origin sends for a request target (same identification as the handler)
func expectedBody(target string) string {
	t, q, hasQ := strings.Cut(target, "?")
	c := path.Clean(t)
	if c != "/" && (strings.HasSuffix(t, "/") || strings.HasSuffix(t, "/.") || strings.HasSuffix(t, "/..")) {
		c += "/"
	}
	if hasQ {
		c += "?" + q
	}
	return string(originAnswer(c).Body)
}

func main() {
	flag.Parse()
	e2elib.Quiet()
	if err := os.MkdirAll(*flagOut, 0755); err != nil {
		panic(err)
	}
	r := emit.NewRand(*flagSeed)
	meta := emit.NewMeta("e2e02", *flagSeed, *flagTier)
	meta.Rule = "pairs (A,B) of GET requests for variants of one base path (trailing/duplicate slashes, dot segments plain and percent-encoded, %2F, case, separators | ? ; + moved across components, queries) and host letter case, through the real proxy, over plain HTTP and inside CONNECT tunnels (where the host is named by the inner Host field only, the tunnel authority being the origin's address): A stored, then B; the origin echoes the request-target it received; distinct by (A,B); non-trivial = A and B differ"
	w := &emit.Writer{Dir: *flagOut, Prefix: "e2e", ShardSize: 200,
		Imports:  "From Reservoir Require Import Base.Prelude Model.Key Check.Key Check.KeyE2E.",
		CaseType: "served_case", CheckFn: "check_served"}
	for _, tlsOn := range []bool{false, true} {
		func() {
			env, err := e2elib.Start(e2elib.Options{Backend: "memory", Dir: filepath.Join(*flagOut, "env"), TLS: tlsOn})
			if err != nil {
				panic(err)
			}
			defer os.RemoveAll(filepath.Join(*flagOut, "env"))
			env.Origin.SetHandler(func(req e2elib.OriginRequest, n int) e2elib.Answer {
				// a realistic origin: identifies targets up to dot-segments and duplicate slashes, nothing else
				t, q, hasQ := strings.Cut(req.Target, "?")
				c := path.Clean(t)
				if c != "/" && (strings.HasSuffix(t, "/") || strings.HasSuffix(t, "/.") || strings.HasSuffix(t, "/..")) {
					c += "/"
				}
				if hasQ {
					c += "?" + q
				}
				return originAnswer(c)
			})
			get := func(target, host string) (body, xcache string, ok bool) {
				var resp *e2elib.Response
				var err error
				if tlsOn {
					// inside a CONNECT tunnel to the origin's address; the request names its host in the Host field only
					c, _, derr := env.DialTunnel(env.Origin.Addr, "127.0.0.1", 8*time.Second)
					if derr != nil {
						return "", "", false
					}
					c.Send([]byte(fmt.Sprintf("GET %s HTTP/1.1\r\nHost: %s\r\n\r\n", target, host)), 5*time.Second)
					resp, err = c.Read("GET", 8*time.Second)
					c.Close()
				} else {
					raw := fmt.Sprintf("GET http://%s%s HTTP/1.1\r\nHost: %s\r\n\r\n", host, target, host)
					resp, err = env.DoPlain([]byte(raw), "GET", 8*time.Second)
				}
				if err != nil || resp.Status != 200 {
					return "", "", false
				}
				return string(resp.Body), resp.Header.Get("X-Cache"), true
			}
			pairs := 200
			if *flagTier == "thorough" {
				pairs = 3000
			}
			if tlsOn {
				pairs /= 3
			}
			addr := env.Origin.Addr
			hostUpper := strings.ToUpper(addr) // 127.0.0.1:port has no letters; use localhost form for case tests
			port := addr[strings.LastIndex(addr, ":")+1:]
			hosts := []string{"localhost:" + port, "LOCALHOST:" + port, "LocalHost:" + port, addr}
			_ = hostUpper
			bases := []string{"/a", "/dir/file", "/x/y/z", "/dir/sub"}
			n := 0
			for n < pairs {
				n++
				prefix := fmt.Sprintf("/p%v%d", tlsOn, n)
				base := prefix + emit.Pick(r, bases)
				vs := variants(r, base)
				ta, tb := emit.Pick(r, vs), emit.Pick(r, vs)
				if r.Chance(30) {
					ta = base
				}
				if r.Chance(8) { // two different files with the same validator and length
					ta, tb = prefix+"/twins/alpha.sig", prefix+"/twins/bravo.sig"
				}
				ha, hb := hosts[0], hosts[0]
				if r.Chance(25) {
					hb = emit.Pick(r, hosts)
				}
				if tlsOn && r.Chance(50) {
					// the host the TUNNEL was opened to (another name of the same server): a different resource for the cache
					hb = addr
					if r.Bool() {
						tb = ta
					}
				}
				if strings.Contains(ta, "#") || strings.Contains(tb, "#") { // a fragment is not sent on the wire
					continue
				}
				ra, rb := parse("GET", ta, ha), parse("GET", tb, hb)
				if ra == nil || rb == nil {
					continue
				}
				bodyA, _, ok := get(ta, ha)
				if !ok {
					continue
				}
				before := env.Origin.Count()
				bodyB, _, ok := get(tb, hb)
				if !ok {
					continue
				}
				contacted := env.Origin.Count() > before
				shared := !contacted && bodyB == bodyA
				// whenever the origin was asked, the client gets what the origin sends for THAT target
				// (judged for the plainly spelled twin targets only: other spellings are re-encoded on their way upstream)
				if strings.Contains(ta, "/twins/") && (bodyA != expectedBody(ta) || (contacted && bodyB != expectedBody(tb))) {
					meta.DirectFail(map[string]any{"kind": "answered-with-another-resource", "a": ta, "host_a": ha, "b": tb, "host_b": hb,
						"a_body": bodyA, "a_expected": expectedBody(ta), "b_body": bodyB, "b_expected": expectedBody(tb), "origin_contacted_for_b": contacted,
						"what": "the origin was asked for the target, yet the client received the content of another resource"})
				}
				// what the origin answers when asked for B on its own (fresh prefix so nothing is stored)
				distinct := false
				if shared {
					ta2 := strings.Replace(ta, prefix, prefix+"d", 1)
					tb2 := strings.Replace(tb, prefix, prefix+"e", 1)
					b1, _, ok1 := get(ta2, ha)
					b2, _, ok2 := get(tb2, hb)
					if ok1 && ok2 {
						distinct = strings.Replace(b1, prefix+"d", prefix, 1) != strings.Replace(b2, prefix+"e", prefix, 1)
					}
				}
				w.Add(fmt.Sprintf("SV %s %s %s %s", gallina(ra, tlsOn), gallina(rb, tlsOn), emit.Bool(shared), emit.Bool(distinct)))
				meta.Count("shared", emit.Bool(shared))
				meta.Count("transport", map[bool]string{false: "plain", true: "connect"}[tlsOn])
				meta.Count("same_target", emit.Bool(ta == tb && ha == hb))
				meta.Record(ta+"\x00"+ha+"\x00"+tb+"\x00"+hb, ta != tb || ha != hb,
					map[string]any{"a": ta, "host_a": ha, "b": tb, "host_b": hb, "b_served_from_a_entry": shared, "origin_saw_for_a": bodyA, "b_body": bodyB, "origin_distinguishes": distinct})
			}
			env.Close()
		}()
	}
	w.Flush()
	meta.Write(*flagOut, w.Files)
	fmt.Printf("e2e02: %d pairs in %d files\n", w.Total, len(w.Files))
}
