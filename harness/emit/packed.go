package emit

import (
	"strconv"
	"strings"
)

// PStr prints a Go string as the compact Gallina term (bs len [c0%uint63; c1%uint63; ...]) of
// Base/Packed.v: seven bytes per primitive-integer literal, little-endian.  About ten times
// cheaper for coqc to read than Str (a Z numeral costs one term node per bit).
func PStr(s string) string {
	if len(s) == 0 {
		return "(bs 0 [])"
	}
	var sb strings.Builder
	sb.WriteString("(bs ")
	sb.WriteString(strconv.Itoa(len(s)))
	sb.WriteString(" [")
	for i := 0; i < len(s); i += 7 {
		if i > 0 {
			sb.WriteByte(';')
		}
		var v uint64
		for j := 6; j >= 0; j-- {
			v <<= 8
			if i+j < len(s) {
				v |= uint64(s[i+j])
			}
		}
		sb.WriteString(strconv.FormatUint(v, 10))
		sb.WriteString("%uint63")
	}
	sb.WriteString("])")
	return sb.String()
}

func PBytes(b []byte) string { return PStr(string(b)) }
