// Package emit prints harness observations as Gallina terms (case files) and
// provides the single seeded PRNG every harness derives its choices from.
package emit

import (
	"bufio"
	"encoding/json"
	"fmt"
	"os"
	"path/filepath"
	"sort"
	"strconv"
	"strings"
)

// ---------- PRNG (splitmix64): one state, one seed, exactly replayable ----------

type Rand struct{ s uint64 }

func NewRand(seed int64) *Rand { return &Rand{s: uint64(seed)*0x9E3779B97F4A7C15 + 0x1234567} }

func (r *Rand) U64() uint64 {
	r.s += 0x9E3779B97F4A7C15
	z := r.s
	z = (z ^ (z >> 30)) * 0xBF58476D1CE4E5B9
	z = (z ^ (z >> 27)) * 0x94D049BB133111EB
	return z ^ (z >> 31)
}
func (r *Rand) Intn(n int) int {
	if n <= 0 {
		return 0
	}
	return int(r.U64() % uint64(n))
}
func (r *Rand) Bool() bool          { return r.U64()&1 == 1 }
func (r *Rand) Chance(p int) bool   { return r.Intn(100) < p }
func Pick[T any](r *Rand, xs []T) T { return xs[r.Intn(len(xs))] }

// ---------- Gallina printers ----------

func Z(n int64) string {
	if n < 0 {
		return "(" + strconv.FormatInt(n, 10) + ")"
	}
	return strconv.FormatInt(n, 10)
}

func ZU(n uint64) string { return strconv.FormatUint(n, 10) }

func Bool(b bool) string {
	if b {
		return "true"
	}
	return "false"
}

// Str prints a Go string as a list of byte values.
func Str(s string) string {
	var sb strings.Builder
	sb.WriteByte('[')
	for i := 0; i < len(s); i++ {
		if i > 0 {
			sb.WriteByte(';')
		}
		sb.WriteString(strconv.Itoa(int(s[i])))
	}
	sb.WriteByte(']')
	return sb.String()
}

func Bytes(b []byte) string { return Str(string(b)) }

func List(items []string) string { return "[" + strings.Join(items, "; ") + "]" }

func OptStr(s *string) string {
	if s == nil {
		return "None"
	}
	return "(Some " + Str(*s) + ")"
}

func Pair(a, b string) string { return "(" + a + ", " + b + ")" }

// ---------- Case files ----------

// Writer shards cases into files cases_NNN.v of at most ShardSize cases.
type Writer struct {
	Dir       string
	Prefix    string // file prefix, e.g. "unit"
	Imports   string // "From Reservoir Require Import ..."
	CaseType  string // Gallina type of a case
	CheckFn   string // Gallina function list case -> report
	ShardSize int
	cur       []string
	shard     int
	Total     int
	Files     []string
}

func (w *Writer) Add(c string) {
	w.cur = append(w.cur, c)
	w.Total++
	if len(w.cur) >= w.ShardSize {
		w.Flush()
	}
}

func (w *Writer) Flush() {
	if len(w.cur) == 0 {
		return
	}
	name := fmt.Sprintf("%s_%03d.v", w.Prefix, w.shard)
	path := filepath.Join(w.Dir, name)
	f, err := os.Create(path)
	if err != nil {
		panic(err)
	}
	bw := bufio.NewWriter(f)
	fmt.Fprintf(bw, "%s\nOpen Scope Z_scope.\n", w.Imports)
	fmt.Fprintf(bw, "Definition cases : list %s :=\n [ ", w.CaseType)
	for i, c := range w.cur {
		if i > 0 {
			bw.WriteString("\n ; ")
		}
		bw.WriteString(c)
	}
	bw.WriteString(" ].\n")
	fmt.Fprintf(bw, "Definition rep := Eval vm_compute in (%s cases).\n", w.CheckFn)
	bw.WriteString("Eval vm_compute in (rp_total rep).\nEval vm_compute in (rp_mismatch rep).\nEval vm_compute in (rp_propfail rep).\nEval vm_compute in (rp_tags rep).\n")
	bw.Flush()
	f.Close()
	w.Files = append(w.Files, name)
	w.cur = nil
	w.shard++
}

// ---------- Meta (distribution, samples, readable cases) ----------

type Meta struct {
	Harness      string                    `json:"harness"`
	Seed         int64                     `json:"seed"`
	Tier         string                    `json:"tier"`
	Total        int                       `json:"total"`
	Distinct     int                       `json:"distinct"`
	Nontrivial   int                       `json:"distinct_nontrivial"`
	Rule         string                    `json:"rule"`
	Distribution map[string]map[string]int `json:"distribution"`
	Samples      []any                     `json:"samples"`
	Files        []string                  `json:"files"`
	Exhaustive   bool                      `json:"exhaustive"`
	// Readable[i] describes case i of the whole run (shard-major order) for replay files.
	Readable []any `json:"readable"`
	// Direct: observations decided by the harness itself, next to the evaluated case files (see lib/vlib.py)
	Direct *DirectBlock `json:"direct,omitempty"`
	seen   map[string]bool
}

type DirectBlock struct {
	Total      int   `json:"total"`
	Failures   []any `json:"failures"`
	Mismatches []any `json:"mismatches"`
}

// DirectFail records a property failure the harness observed itself (not by evaluating a model).
func (m *Meta) DirectFail(readable any) {
	if m.Direct == nil {
		m.Direct = &DirectBlock{Failures: []any{}, Mismatches: []any{}}
	}
	if len(m.Direct.Failures) < 20 {
		m.Direct.Failures = append(m.Direct.Failures, readable)
	}
}

func NewMeta(harness string, seed int64, tier string) *Meta {
	return &Meta{Harness: harness, Seed: seed, Tier: tier, Distribution: map[string]map[string]int{}, seen: map[string]bool{}}
}

func (m *Meta) Count(dim, bin string) {
	if m.Distribution[dim] == nil {
		m.Distribution[dim] = map[string]int{}
	}
	m.Distribution[dim][bin]++
}

// Record registers a case: key = canonical form for distinctness, nontrivial by the harness rule.
func (m *Meta) Record(key string, nontrivial bool, readable any) {
	m.Total++
	if !m.seen[key] {
		m.seen[key] = true
		m.Distinct++
		if nontrivial {
			m.Nontrivial++
		}
	}
	m.Readable = append(m.Readable, readable)
	if len(m.Samples) < 12 && (m.Total%97 == 1 || len(m.Samples) < 3) {
		m.Samples = append(m.Samples, readable)
	}
}

func (m *Meta) Write(dir string, files []string) {
	m.Files = files
	// stable key order for reproducible output
	for _, d := range m.Distribution {
		keys := make([]string, 0, len(d))
		for k := range d {
			keys = append(keys, k)
		}
		sort.Strings(keys)
	}
	b, err := json.MarshalIndent(m, "", " ")
	if err != nil {
		panic(err)
	}
	if err := os.WriteFile(filepath.Join(dir, "meta.json"), b, 0644); err != nil {
		panic(err)
	}
}
