package emit

import (
	"net/http"
	"sort"
	"strings"
)

// Hdrs prints an http.Header (any keys, any values) as a Gallina association
// list [(key, [v1; v2]); ...] with keys sorted bytewise.
func Hdrs(h http.Header) string {
	keys := make([]string, 0, len(h))
	for k := range h {
		keys = append(keys, k)
	}
	sort.Strings(keys)
	items := make([]string, 0, len(keys))
	for _, k := range keys {
		vs := make([]string, 0, len(h[k]))
		for _, v := range h[k] {
			vs = append(vs, Str(v))
		}
		items = append(items, "("+Str(k)+", "+List(vs)+")")
	}
	return List(items)
}

// HdrsReadable gives a JSON-friendly copy.
func HdrsReadable(h http.Header) map[string][]string {
	out := map[string][]string{}
	for k, v := range h {
		out[Printable(k)] = printableAll(v)
	}
	return out
}

func printableAll(v []string) []string {
	o := make([]string, len(v))
	for i, s := range v {
		o[i] = Printable(s)
	}
	return o
}

// Printable escapes non-printable bytes so the string survives JSON as is.
func Printable(s string) string {
	var sb strings.Builder
	for i := 0; i < len(s); i++ {
		c := s[i]
		if c >= 0x20 && c < 0x7f && c != '\\' {
			sb.WriteByte(c)
		} else {
			sb.WriteString("\\x")
			sb.WriteByte("0123456789abcdef"[c>>4])
			sb.WriteByte("0123456789abcdef"[c&15])
		}
	}
	return sb.String()
}
