// Package e2elib starts the REAL reservoir proxy in-process for end-to-end harnesses:
// a raw scripted origin (full control over status line, header bytes and framing, every
// received request logged), plain and CONNECT/TLS client helpers working on raw sockets.
package e2elib

import (
	"bufio"
	"bytes"
	"context"
	"crypto/ecdsa"
	"crypto/elliptic"
	"crypto/rand"
	"crypto/tls"
	"crypto/x509"
	"crypto/x509/pkix"
	"encoding/pem"
	"errors"
	"fmt"
	"io"
	"log/slog"
	"math/big"
	"net"
	"net/http"
	"net/http/httptest"
	"os"
	"path/filepath"
	"sync"
	"time"

	"reservoir/config"
	"reservoir/proxy"
	"reservoir/proxy/certs"
)

// ---------- origin ----------

// OriginRequest is what the origin saw.
type OriginRequest struct {
	Method  string
	Target  string // request-target as on the wire
	Host    string
	Header  http.Header
	Body    []byte
	Proto   string
	Arrived time.Time
}

// Answer is a scripted origin response. If Raw is set it is written verbatim; otherwise
// the response is assembled from Status / Header lines (written in order, verbatim) / Body
// with a Content-Length unless Chunked (then chunked framing) or NoLength (close-delimited).
type Answer struct {
	Status   int
	Reason   string
	Lines    []string // "Name: value" header lines, verbatim, in order
	Body     []byte
	Chunked  bool
	NoLength bool
	Raw      []byte
	// AbortAfter >= 0: close the connection after that many body bytes (origin transfer fails part-way)
	AbortAfter int
	Delay      time.Duration
	// PieceDelay > 0: the body is sent in Pieces pieces (default 10) with that pause after each (a slow origin)
	Pieces     int
	PieceDelay time.Duration
}

func NewAnswer(status int, body []byte, lines ...string) Answer {
	return Answer{Status: status, Body: body, Lines: lines, AbortAfter: -1}
}

// Origin is a raw TCP (optionally TLS) HTTP/1.1 server driven by a handler function.
type Origin struct {
	ln      net.Listener
	mu      sync.Mutex
	log     []OriginRequest
	handler func(r OriginRequest, n int) Answer
	TLS     bool
	Cert    *x509.Certificate
	Addr    string
	closed  chan struct{}
}

func (o *Origin) SetHandler(h func(r OriginRequest, n int) Answer) {
	o.mu.Lock()
	o.handler = h
	o.mu.Unlock()
}

// Log returns a copy of all requests received so far.
func (o *Origin) Log() []OriginRequest {
	o.mu.Lock()
	defer o.mu.Unlock()
	return append([]OriginRequest(nil), o.log...)
}

func (o *Origin) Count() int {
	o.mu.Lock()
	defer o.mu.Unlock()
	return len(o.log)
}

func (o *Origin) ResetLog() {
	o.mu.Lock()
	o.log = nil
	o.mu.Unlock()
}

func (o *Origin) Close() { close(o.closed); o.ln.Close() }

func (o *Origin) serve() {
	for {
		c, err := o.ln.Accept()
		if err != nil {
			return
		}
		go o.conn(c)
	}
}

func (o *Origin) conn(c net.Conn) {
	defer c.Close()
	br := bufio.NewReader(c)
	for {
		c.SetReadDeadline(time.Now().Add(30 * time.Second))
		req, err := http.ReadRequest(br)
		if err != nil {
			return
		}
		body, _ := io.ReadAll(req.Body)
		or := OriginRequest{Method: req.Method, Target: req.RequestURI, Host: req.Host, Header: req.Header.Clone(), Body: body, Proto: req.Proto, Arrived: time.Now()}
		o.mu.Lock()
		o.log = append(o.log, or)
		n := len(o.log)
		h := o.handler
		o.mu.Unlock()
		var a Answer
		if h != nil {
			a = h(or, n)
		} else {
			a = NewAnswer(200, []byte("ok"))
		}
		if a.Delay > 0 {
			time.Sleep(a.Delay)
		}
		closeAfter := writeAnswer(c, a, req.Method == "HEAD")
		if closeAfter || req.Close {
			return
		}
	}
}

func writeAnswer(w io.Writer, a Answer, head bool) (closeAfter bool) {
	if a.Raw != nil {
		w.Write(a.Raw)
		return true
	}
	var b bytes.Buffer
	reason := a.Reason
	if reason == "" {
		reason = http.StatusText(a.Status)
		if reason == "" {
			reason = "Status"
		}
	}
	fmt.Fprintf(&b, "HTTP/1.1 %d %s\r\n", a.Status, reason)
	for _, l := range a.Lines {
		b.WriteString(l)
		b.WriteString("\r\n")
	}
	noBody := head || a.Status == 304 || a.Status == 204 || (a.Status >= 100 && a.Status < 200)
	switch {
	case noBody:
		if !a.Chunked && !a.NoLength && a.Status != 304 && a.Status != 204 && a.Status >= 200 {
			fmt.Fprintf(&b, "Content-Length: %d\r\n", len(a.Body))
		}
	case a.Chunked:
		b.WriteString("Transfer-Encoding: chunked\r\n")
	case a.NoLength:
		b.WriteString("Connection: close\r\n")
		closeAfter = true
	default:
		fmt.Fprintf(&b, "Content-Length: %d\r\n", len(a.Body))
	}
	b.WriteString("\r\n")
	w.Write(b.Bytes())
	if noBody {
		return closeAfter
	}
	body := a.Body
	if a.AbortAfter >= 0 && a.AbortAfter < len(body) {
		body = body[:a.AbortAfter]
		closeAfter = true
	}
	if a.PieceDelay > 0 {
		k := a.Pieces
		if k <= 0 {
			k = 10
		}
		sz := (len(body) + k - 1) / k
		for len(body) > 0 {
			n := sz
			if n > len(body) {
				n = len(body)
			}
			if a.Chunked {
				fmt.Fprintf(w, "%x\r\n", n)
				w.Write(body[:n])
				io.WriteString(w, "\r\n")
			} else {
				w.Write(body[:n])
			}
			body = body[n:]
			time.Sleep(a.PieceDelay)
		}
		if a.Chunked {
			io.WriteString(w, "0\r\n\r\n")
		}
		return closeAfter
	}
	if a.Chunked {
		for len(body) > 0 {
			n := len(body)
			if n > 1000 {
				n = 1000
			}
			fmt.Fprintf(w, "%x\r\n", n)
			w.Write(body[:n])
			io.WriteString(w, "\r\n")
			body = body[n:]
		}
		if !(a.AbortAfter >= 0 && a.AbortAfter < len(a.Body)) {
			io.WriteString(w, "0\r\n\r\n")
		}
	} else {
		w.Write(body)
	}
	return closeAfter
}

// ---------- environment ----------

type Options struct {
	Backend       string // "memory" | "file"
	Shards        int
	TLS           bool   // origin speaks TLS and clients use CONNECT
	Dir           string // scratch directory (cache dir, CA files)
	MaxSize       int64  // 0 = default
	PlainUpstream bool   // with TLS: clients still use CONNECT + TLS towards the proxy, but the origin speaks plain HTTP
	CAChain       bool   // ca.crt is a chain file (signing CA followed by the root that issued it); clients trust the signing CA
	Tune          func(cfg *config.Config)
}

type Env struct {
	Cfg       *config.Config
	Proxy     *proxy.Proxy
	ProxyAddr string
	Origin    *Origin
	CAPool    *x509.CertPool
	CA        *certs.PrivateCA // the proxy's certificate authority (ageing hooks)
	TLS       bool
	srv       *httptest.Server
	cancel    context.CancelFunc
}

// genCA writes the proxy's CA files. With chain=true ca.crt is a CHAIN file: the signing CA's certificate followed by
// the certificate of the root that issued it (the key file holds the signing CA's key). rootPEM is what clients trust:
// the signing CA, the CA the proxy is configured with.
func genCA(dir string, chain bool) (certFile, keyFile string, rootPEM []byte, err error) {
	priv, err := ecdsa.GenerateKey(elliptic.P256(), rand.Reader)
	if err != nil {
		return "", "", nil, err
	}
	serial, _ := rand.Int(rand.Reader, new(big.Int).Lsh(big.NewInt(1), 120))
	tmpl := x509.Certificate{SerialNumber: serial, Subject: pkix.Name{Organization: []string{"verif-ca"}, CommonName: "verif-ca"},
		NotBefore: time.Now().Add(-time.Hour), NotAfter: time.Now().Add(24 * time.Hour),
		KeyUsage: x509.KeyUsageCertSign | x509.KeyUsageDigitalSignature, ExtKeyUsage: []x509.ExtKeyUsage{x509.ExtKeyUsageServerAuth},
		BasicConstraintsValid: true, IsCA: true}
	parent, parentKey := &tmpl, any(priv)
	var rootDER []byte
	if chain {
		rootPriv, err := ecdsa.GenerateKey(elliptic.P256(), rand.Reader)
		if err != nil {
			return "", "", nil, err
		}
		rserial, _ := rand.Int(rand.Reader, new(big.Int).Lsh(big.NewInt(1), 120))
		rootTmpl := x509.Certificate{SerialNumber: rserial, Subject: pkix.Name{Organization: []string{"verif-root"}, CommonName: "verif-root"},
			NotBefore: time.Now().Add(-2 * time.Hour), NotAfter: time.Now().Add(48 * time.Hour),
			KeyUsage: x509.KeyUsageCertSign, BasicConstraintsValid: true, IsCA: true}
		rootDER, err = x509.CreateCertificate(rand.Reader, &rootTmpl, &rootTmpl, &rootPriv.PublicKey, rootPriv)
		if err != nil {
			return "", "", nil, err
		}
		rootCert, _ := x509.ParseCertificate(rootDER)
		parent, parentKey = rootCert, any(rootPriv)
	}
	der, err := x509.CreateCertificate(rand.Reader, &tmpl, parent, &priv.PublicKey, parentKey)
	if err != nil {
		return "", "", nil, err
	}
	certFile, keyFile = filepath.Join(dir, "ca.crt"), filepath.Join(dir, "ca.key")
	var cb, kb bytes.Buffer
	pem.Encode(&cb, &pem.Block{Type: "CERTIFICATE", Bytes: der})
	rootPEM = append([]byte{}, cb.Bytes()...)
	if chain {
		var rb bytes.Buffer
		pem.Encode(&rb, &pem.Block{Type: "CERTIFICATE", Bytes: rootDER})
		cb.Write(rb.Bytes())
		// clients keep trusting the SIGNING CA (the configured CA): the root is only carried along in the file
	}
	pk, _ := x509.MarshalPKCS8PrivateKey(priv)
	pem.Encode(&kb, &pem.Block{Type: "PRIVATE KEY", Bytes: pk})
	if err = os.WriteFile(certFile, cb.Bytes(), 0600); err != nil {
		return
	}
	err = os.WriteFile(keyFile, kb.Bytes(), 0600)
	return
}

func originCert() (tls.Certificate, *x509.Certificate, error) {
	priv, err := ecdsa.GenerateKey(elliptic.P256(), rand.Reader)
	if err != nil {
		return tls.Certificate{}, nil, err
	}
	serial, _ := rand.Int(rand.Reader, new(big.Int).Lsh(big.NewInt(1), 120))
	tmpl := x509.Certificate{SerialNumber: serial, Subject: pkix.Name{CommonName: "origin"}, NotBefore: time.Now().Add(-time.Hour), NotAfter: time.Now().Add(24 * time.Hour),
		KeyUsage: x509.KeyUsageDigitalSignature | x509.KeyUsageCertSign, ExtKeyUsage: []x509.ExtKeyUsage{x509.ExtKeyUsageServerAuth}, BasicConstraintsValid: true, IsCA: true,
		IPAddresses: []net.IP{net.ParseIP("127.0.0.1")}, DNSNames: []string{"localhost"}}
	der, err := x509.CreateCertificate(rand.Reader, &tmpl, &tmpl, &priv.PublicKey, priv)
	if err != nil {
		return tls.Certificate{}, nil, err
	}
	leaf, _ := x509.ParseCertificate(der)
	return tls.Certificate{Certificate: [][]byte{der}, PrivateKey: priv, Leaf: leaf}, leaf, nil
}

// Quiet silences reservoir's logging (while keeping every level enabled, see DebugDiscard).
func Quiet() { slog.SetDefault(slog.New(DebugDiscard{})) }

// DebugDiscard is a log handler that is enabled at EVERY level and drops the record: code that only runs when
// DEBUG logging is on (and the arguments of every log call) is executed, nothing is written.
type DebugDiscard struct{}

func (DebugDiscard) Enabled(context.Context, slog.Level) bool  { return true }
func (DebugDiscard) Handle(context.Context, slog.Record) error { return nil }
func (d DebugDiscard) WithAttrs([]slog.Attr) slog.Handler      { return d }
func (d DebugDiscard) WithGroup(string) slog.Handler           { return d }

func Start(o Options) (*Env, error) {
	if o.Dir == "" {
		return nil, errors.New("e2elib: Options.Dir required")
	}
	if err := os.MkdirAll(o.Dir, 0755); err != nil {
		return nil, err
	}
	if o.Shards == 0 {
		o.Shards = 32
	}
	env := &Env{TLS: o.TLS}
	// origin
	ln, err := net.Listen("tcp", "127.0.0.1:0")
	if err != nil {
		return nil, err
	}
	originTLS := o.TLS && !o.PlainUpstream
	org := &Origin{closed: make(chan struct{}), TLS: originTLS}
	pool := x509.NewCertPool()
	if originTLS {
		cert, leaf, err := originCert()
		if err != nil {
			return nil, err
		}
		org.Cert = leaf
		pool.AddCert(leaf)
		ln = tls.NewListener(ln, &tls.Config{Certificates: []tls.Certificate{cert}})
	}
	org.ln = ln
	org.Addr = ln.Addr().String()
	go org.serve()
	env.Origin = org

	cfg := config.NewDefault()
	cfg.Proxy.UpstreamDefaultHttps.Overwrite(originTLS)
	cfg.Cache.File.Dir.Overwrite(filepath.Join(o.Dir, "cache"))
	cfg.Proxy.RetryOnRange416.Overwrite(false)
	cfg.Proxy.CachePolicy.IgnoreCacheControl.Overwrite(false)
	cfg.Proxy.CachePolicy.ForceDefaultMaxAge.Overwrite(false)
	if o.Backend == "file" {
		cfg.Cache.Type.Overwrite(config.CacheTypeFile)
	} else {
		cfg.Cache.Type.Overwrite(config.CacheTypeMemory)
	}
	cfg.Cache.LockShards.Overwrite(o.Shards)
	cfg.Logging.ToStdout.Overwrite(false)
	if o.Tune != nil {
		o.Tune(cfg)
	}
	env.Cfg = cfg

	certFile, keyFile, rootPEM, err := genCA(o.Dir, o.CAChain)
	if err != nil {
		return nil, err
	}
	ca, err := certs.NewPrivateCA(certFile, keyFile)
	if err != nil {
		return nil, err
	}
	pool.AppendCertsFromPEM(rootPEM)
	env.CAPool = pool
	env.CA = ca
	// the proxy's upstream client is http.DefaultClient: let it trust the origin
	if tr, ok := http.DefaultTransport.(*http.Transport); ok {
		tr.TLSClientConfig = &tls.Config{RootCAs: pool}
	}

	ctx, cancel := context.WithCancel(context.Background())
	env.cancel = cancel
	p, err := proxy.NewProxy(cfg, ca, ctx)
	if err != nil {
		cancel()
		return nil, err
	}
	env.Proxy = p
	env.srv = httptest.NewServer(p)
	env.ProxyAddr = env.srv.Listener.Addr().String()
	return env, nil
}

func (e *Env) Close() {
	e.srv.CloseClientConnections()
	e.srv.Close()
	e.Origin.Close()
	e.Proxy.Destroy()
	e.cancel()
	if tr, ok := http.DefaultTransport.(*http.Transport); ok {
		tr.CloseIdleConnections()
	}
}

// ---------- clients ----------

// Response is what a client read back.
type Response struct {
	Status int
	Proto  string
	Header http.Header
	Body   []byte
	// Framing: "length", "chunked", "close", "none"
	Framing       string
	ContentLength int64
	BodyErr       string // non-empty if the body could not be read to its announced end
	Close         bool   // the server announced Connection: close
}

// Conn is a client connection to the proxy: plain (absolute-form requests) or a CONNECT tunnel with TLS.
type Conn struct {
	c  net.Conn
	br *bufio.Reader
}

func (e *Env) DialPlain(timeout time.Duration) (*Conn, error) {
	c, err := net.DialTimeout("tcp", e.ProxyAddr, timeout)
	if err != nil {
		return nil, err
	}
	return &Conn{c: c, br: bufio.NewReader(c)}, nil
}

// DialTunnel opens CONNECT <target> and performs the TLS handshake with serverName.
func (e *Env) DialTunnel(target, serverName string, timeout time.Duration) (*Conn, *x509.Certificate, error) {
	c, err := net.DialTimeout("tcp", e.ProxyAddr, timeout)
	if err != nil {
		return nil, nil, err
	}
	c.SetDeadline(time.Now().Add(timeout))
	fmt.Fprintf(c, "CONNECT %s HTTP/1.1\r\nHost: %s\r\n\r\n", target, target)
	br := bufio.NewReader(c)
	resp, err := http.ReadResponse(br, &http.Request{Method: "CONNECT"})
	if err != nil {
		c.Close()
		return nil, nil, fmt.Errorf("CONNECT: %w", err)
	}
	if resp.StatusCode != 200 {
		c.Close()
		return nil, nil, fmt.Errorf("CONNECT status %d", resp.StatusCode)
	}
	tc := tls.Client(c, &tls.Config{RootCAs: e.CAPool, ServerName: serverName})
	if err := tc.Handshake(); err != nil {
		c.Close()
		return nil, nil, fmt.Errorf("handshake: %w", err)
	}
	c.SetDeadline(time.Time{})
	var leaf *x509.Certificate
	if cs := tc.ConnectionState(); len(cs.PeerCertificates) > 0 {
		leaf = cs.PeerCertificates[0]
	}
	return &Conn{c: tc, br: bufio.NewReader(tc)}, leaf, nil
}

func (c *Conn) Close() { c.c.Close() }

// Send writes raw request bytes.
func (c *Conn) Send(raw []byte, timeout time.Duration) error {
	c.c.SetWriteDeadline(time.Now().Add(timeout))
	_, err := c.c.Write(raw)
	return err
}

// Read reads one response. method is the request's method (HEAD has no body).
func (c *Conn) Read(method string, timeout time.Duration) (*Response, error) {
	c.c.SetReadDeadline(time.Now().Add(timeout))
	resp, err := http.ReadResponse(c.br, &http.Request{Method: method})
	if err != nil {
		return nil, err
	}
	r := &Response{Status: resp.StatusCode, Proto: resp.Proto, Header: resp.Header, ContentLength: resp.ContentLength, Close: resp.Close}
	switch {
	case len(resp.TransferEncoding) > 0 && resp.TransferEncoding[0] == "chunked":
		r.Framing = "chunked"
	case resp.ContentLength >= 0:
		r.Framing = "length"
	case resp.Close:
		r.Framing = "close"
	default:
		r.Framing = "none"
	}
	b, err := io.ReadAll(resp.Body)
	r.Body = b
	if err != nil {
		r.BodyErr = err.Error()
	}
	resp.Body.Close()
	return r, nil
}

// Do sends one raw request on a fresh connection and reads the answer.
func (e *Env) DoPlain(raw []byte, method string, timeout time.Duration) (*Response, error) {
	c, err := e.DialPlain(timeout)
	if err != nil {
		return nil, err
	}
	defer c.Close()
	if err := c.Send(raw, timeout); err != nil {
		return nil, err
	}
	return c.Read(method, timeout)
}

// PlainRequest renders an absolute-form proxy request to the env's origin.
func (e *Env) PlainRequest(method, pathAndQuery string, headerLines []string, body []byte) []byte {
	var b bytes.Buffer
	fmt.Fprintf(&b, "%s http://%s%s HTTP/1.1\r\nHost: %s\r\n", method, e.Origin.Addr, pathAndQuery, e.Origin.Addr)
	for _, l := range headerLines {
		b.WriteString(l + "\r\n")
	}
	if body != nil {
		fmt.Fprintf(&b, "Content-Length: %d\r\n", len(body))
	}
	b.WriteString("\r\n")
	b.Write(body)
	return b.Bytes()
}

// TunnelRequest renders an origin-form request as sent inside a tunnel.
func (e *Env) TunnelRequest(method, pathAndQuery string, headerLines []string, body []byte) []byte {
	var b bytes.Buffer
	fmt.Fprintf(&b, "%s %s HTTP/1.1\r\nHost: %s\r\n", method, pathAndQuery, e.Origin.Addr)
	for _, l := range headerLines {
		b.WriteString(l + "\r\n")
	}
	if body != nil {
		fmt.Fprintf(&b, "Content-Length: %d\r\n", len(body))
	}
	b.WriteString("\r\n")
	b.Write(body)
	return b.Bytes()
}
