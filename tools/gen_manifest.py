#!/usr/bin/env python3
"""Regenerates /verif/MANIFEST.json from the table below (kept in one place so it stays valid)."""
import json, os, subprocess
HERE = os.path.dirname(os.path.dirname(os.path.abspath(__file__)))

HOOK_COMMITS = subprocess.run(["git", "-C", "/repo", "log", "--format=%h %s", "--grep=^verif:"],
                              stdout=subprocess.PIPE).stdout.decode().strip().splitlines()

import glob
CLAIMED = {}
for fp in sorted(glob.glob(os.path.join(HERE, "manifest.d", "*.json"))):
    fr = json.load(open(fp))
    CLAIMED[fr["id"]] = (fr["text"], fr["note"], fr["technique"], fr.get("design_ref", "DESIGN.md §5"))

NOT_YET = {}  # id -> reason

def main():
    props = [json.loads(l)["id"] for l in open(os.path.join(HERE, "properties.jsonl"))]
    checks = []
    for pid in props:
        if pid not in CLAIMED:
            continue
        text, note, tech, ref = CLAIMED[pid]
        checks.append({
            "property_id": pid,
            "quick_cmd": "./check %s quick" % pid,
            "thorough_cmd": "./check %s thorough" % pid,
            "evidence_file": "evidence/%s.json" % pid,
            "replay_cmd_template": "./check replay {path}",
            "engine": "coq-model-correspondence",
            "level_claimed": {"category": "proof", "text": text, "design_ref": ref},
            "level_note": note,
            "technique": tech,
        })
    na = [{"property_id": p, "reason": NOT_YET.get(p, "not yet built in this session: model, theorems and correspondence harness are planned in DESIGN.md §5 but not committed; no check is claimed until they are")}
          for p in props if p not in CLAIMED]
    m = {
        "version": 1,
        "setup_cmd": "./check setup",
        "hooks": {
            "guard": "verif",
            "enable": "go build -tags verif (harness module with replace reservoir => /repo)",
            "baseline_off_cmd": "cd /repo && GOFLAGS=-mod=mod GOPROXY=off go test -json -vet=off -count=1 -timeout 25m ./...",
            "source_commits": [l.split()[0] for l in HOOK_COMMITS],
            "add_only": True,
        },
        "engines": [{"name": "coq-model-correspondence", "path": "check",
                     "serves_properties": [c["property_id"] for c in checks],
                     "kind_free_text": "Coq 8.16 theorems about executable Gallina models; models tied to /repo on every run by Go harnesses whose observations are evaluated against the model with vm_compute"}],
        "checks": checks,
        "not_applicable": na,
        "notes": "See DESIGN.md. known_findings.json lists repaired (fixed:) and retained findings.",
    }
    with open(os.path.join(HERE, "MANIFEST.json"), "w") as f:
        json.dump(m, f, indent=1)
        f.write("\n")
    print("MANIFEST.json: %d checks, %d not_applicable" % (len(checks), len(na)))

main()
