#!/usr/bin/env python3
"""Confirm a seeded change in a scratch worktree of /repo and store it under /verif/seeded/<id>/.

usage: confirm_seed.py <id> <property> <patch.diff> <demo-file> <dest-path-in-repo> "<demo command>" "<summary>" "<needs>"
Checks: (1) patch applies to /repo HEAD; (2) `go build ./...`-level compile + the baseline suite has no test that
fails with the patch but passes without (compared by package result lines); (3) demo FAILS with the patch and
(4) PASSES without it. Only then writes seeded/<id>/{patch.diff, demo file, meta.json}."""
import json
import os
import shutil
import subprocess
import sys

HERE = os.path.dirname(os.path.dirname(os.path.abspath(__file__)))


def sh(cmd, cwd, timeout=1500):
    env = dict(os.environ, GOFLAGS="-mod=mod", GOPROXY="off")
    p = subprocess.run(cmd, cwd=cwd, shell=True, stdout=subprocess.PIPE, stderr=subprocess.STDOUT, env=env, timeout=timeout)
    return p.returncode, p.stdout.decode("utf-8", "replace")


def suite(wt):
    rc, out = sh("go test -vet=off -count=1 ./... 2>&1", wt)
    res = {}
    for l in out.splitlines():
        parts = l.split()
        if len(parts) >= 2 and parts[0] in ("ok", "FAIL", "---") and parts[1].startswith("reservoir"):
            res[parts[1]] = parts[0]
        elif l.startswith("?"):
            pass
    fails = sorted(set(l.strip() for l in out.splitlines() if l.startswith("--- FAIL")))
    return res, fails, out


def main():
    sid, prop, patch, demo, dest, cmd, summary, needs = sys.argv[1:9]
    wt = "/tmp/seedconfirm/%s" % sid
    shutil.rmtree("/tmp/seedconfirm/%s" % sid, ignore_errors=True)
    os.makedirs("/tmp/seedconfirm", exist_ok=True)
    subprocess.run(["git", "-C", "/repo", "worktree", "prune"])
    subprocess.check_call(["git", "-C", "/repo", "worktree", "add", "--detach", "-f", wt, "HEAD"], stdout=subprocess.DEVNULL, stderr=subprocess.DEVNULL)
    ok = False
    try:
        base_res, base_fails, _ = suite(wt)
        rc, out = sh("git apply --whitespace=nowarn %s" % patch, wt)
        if rc != 0:
            rc, out = sh("git apply --3way --whitespace=nowarn %s" % patch, wt)
        if rc != 0:
            print("PATCH DOES NOT APPLY:", out[-500:])
            return 1
        rc, diff = sh("git diff", wt)
        mut_res, mut_fails, mout = suite(wt)
        if mut_res != base_res or mut_fails != base_fails:
            print("SUITE DIFFERS with the patch:", {k: (base_res.get(k), mut_res.get(k)) for k in set(base_res) | set(mut_res) if base_res.get(k) != mut_res.get(k)}, mut_fails)
            return 1
        destp = os.path.join(wt, dest)
        os.makedirs(os.path.dirname(destp), exist_ok=True)
        shutil.copy(demo, destp)
        rc_with, out_with = sh(cmd, wt)
        # remove the patch, keep the demo
        sh("git checkout -- $(git diff --name-only)", wt)  # never git stash: the stash is shared by all worktrees
        rc_without, out_without = sh(cmd, wt)
        print("demo with patch: exit %d | without: exit %d" % (rc_with, rc_without))
        if rc_with == 0 or rc_without != 0:
            print("DEMO DOES NOT DISCRIMINATE\n--- with:\n%s\n--- without:\n%s" % (out_with[-1500:], out_without[-1500:]))
            return 1
        d = os.path.join(HERE, "seeded", sid)
        os.makedirs(d, exist_ok=True)
        with open(os.path.join(d, "patch.diff"), "w") as f:
            f.write(diff)
        shutil.copy(demo, os.path.join(d, os.path.basename(dest)))
        meta = {"id": sid, "property": prop, "summary": summary, "needs": needs,
                "demo": {"file": os.path.basename(dest), "place_at": dest, "command": cmd,
                         "with_patch_tail": out_with.strip().splitlines()[-6:], "without_patch_tail": out_without.strip().splitlines()[-3:]},
                "confirmed": {"repo_head": subprocess.run(["git", "-C", "/repo", "rev-parse", "--short", "HEAD"], stdout=subprocess.PIPE).stdout.decode().strip(),
                              "suite_with_patch": mut_res, "suite_same_as_unchanged": True,
                              "ran": ["git apply patch.diff", "GOFLAGS=-mod=mod GOPROXY=off go test -vet=off -count=1 ./... (same package results and no failing test, with and without)",
                                      cmd + " (fails with the patch, passes without)"]},
                "origin": "independent sub-agent given only the property text and a scratch worktree"}
        with open(os.path.join(d, "meta.json"), "w") as f:
            json.dump(meta, f, indent=1)
            f.write("\n")
        ok = True
        print("CONFIRMED and stored:", d)
    finally:
        subprocess.run(["git", "-C", "/repo", "worktree", "remove", "--force", wt], stdout=subprocess.DEVNULL, stderr=subprocess.DEVNULL)
        shutil.rmtree(wt, ignore_errors=True)
    return 0 if ok else 1


sys.exit(main())
