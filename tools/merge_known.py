#!/usr/bin/env python3
"""Merges known_findings.d/*.json (one fragment per property) into the single committed known_findings.json."""
import glob, json, os
HERE = os.path.dirname(os.path.dirname(os.path.abspath(__file__)))
out = []
for fp in sorted(glob.glob(os.path.join(HERE, "known_findings.d", "*.json"))):
    out.extend(json.load(open(fp)).get("findings", []))
with open(os.path.join(HERE, "known_findings.json"), "w") as f:
    json.dump({"findings": out}, f, indent=1)
    f.write("\n")
print("known_findings.json: %d entries (%d retained findings)" % (len(out), sum(1 for e in out if e.get("kind") == "finding")))
