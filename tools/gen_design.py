#!/usr/bin/env python3
"""Regenerates the tail of DESIGN.md (everything after the marker line) from design.d/*.md,
seeded/*/meta.json + seeded/RESULTS.json and design.d/_alarm_log.md / _status.md."""
import glob
import json
import os

HERE = os.path.dirname(os.path.dirname(os.path.abspath(__file__)))
MARK = "<!-- GENERATED BELOW: build status, per-property build notes, seeded changes (tools/gen_design.py) -->"



def status_tables():
    """Build status (from evidence/*.json as committed) and the disposition of every defect (known_findings.json)."""
    rows = []
    man = json.load(open(os.path.join(HERE, "MANIFEST.json")))
    claimed = {c["property_id"] for c in man.get("checks", [])}
    props = [json.loads(l)["id"] for l in open(os.path.join(HERE, "properties.jsonl"))]
    for pid in props:
        ep = os.path.join(HERE, "evidence", pid + ".json")
        if pid not in claimed or not os.path.exists(ep):
            na = next((n["reason"] for n in man.get("not_applicable", []) if n["property_id"] == pid), "")
            rows.append("| %s | not claimed | | | | %s |" % (pid, na[:90]))
            continue
        ev = json.load(open(ep))
        cov = ev.get("coverage", {})
        stages = "; ".join("%s %s" % (s.get("stage"), s.get("cases", "")) for s in cov.get("stages", []))
        ax = sorted({v.split("\n")[0] for v in cov.get("theorems", {}).values()})
        rows.append("| %s | %d/%d | %s | %s | %.0f s | %s |" % (pid, cov.get("discharged", 0), cov.get("obligations", 0), cov.get("evaluations", 0), stages, ev.get("wall_s", 0), "; ".join(a[:60] for a in ax)))
    out = ["## 10a. Build status (generated from the committed evidence of clean quick runs)\n\n",
           "| id | obligations discharged | cases evaluated | stages (cases) | wall | assumptions of the theorems |\n|---|---|---|---|---|---|\n",
           "\n".join(rows), "\n\n"]
    kf = json.load(open(os.path.join(HERE, "known_findings.json")))
    out.append("## 10b. Genuine defects of reservoir found by the checks, and their disposition\n\n"
               "Every entry was first exhibited against the real code by a check (failing input / history / schedule), then repaired by one minimal `fix:` commit in /repo\n"
               "(existing suite unedited and passing); `fixed` entries suppress nothing. Retained findings (none at present) would be listed with kind `finding`.\n\n"
               "| property | id | kind | commit | what failed |\n|---|---|---|---|---|\n")
    for e in kf.get("findings", []):
        out.append("| %s | %s | %s | %s | %s |\n" % (e.get("property"), e.get("id"), e.get("kind"), e.get("commit", ""), e.get("what", "").replace("|", "\\|")))
    out.append("\n")
    return "".join(out)

def main():
    path = os.path.join(HERE, "DESIGN.md")
    txt = open(path).read()
    head = txt.split(MARK)[0].rstrip() + "\n\n" + MARK + "\n\n"
    out = [head]
    st = os.path.join(HERE, "design.d", "_status.md")
    if os.path.exists(st):
        out.append(open(st).read().rstrip() + "\n\n")
    out.append(status_tables())
    out.append("## 11. Build notes per property (what was actually built)\n\n")
    for fp in sorted(glob.glob(os.path.join(HERE, "design.d", "C*.md"))):
        body = open(fp).read().strip()
        # demote headings by two levels
        lines = []
        for l in body.splitlines():
            if l.startswith("#"):
                l = "##" + l
            lines.append(l)
        out.append("\n".join(lines) + "\n\n")
    al = os.path.join(HERE, "design.d", "_alarm_log.md")
    if os.path.exists(al):
        out.append(open(al).read().rstrip() + "\n\n")
    # seeded changes
    res = {}
    rp = os.path.join(HERE, "seeded", "RESULTS.json")
    if os.path.exists(rp):
        res = json.load(open(rp))
    rows = []
    for mp in sorted(glob.glob(os.path.join(HERE, "seeded", "*", "meta.json"))):
        sid = os.path.basename(os.path.dirname(mp))
        m = json.load(open(mp))
        r = res.get(sid, {})
        caught = "not run"
        if "error" in r:
            caught = "ERROR: " + r["error"][:60]
        elif r:
            parts = []
            for p, v in r.get("results", {}).items():
                parts.append("%s: %s" % (p, ("VIOLATION" + (" (no-failing-input-found)" if v.get("no_failing_input") else "")) if v.get("caught") else "missed"))
            caught = "; ".join(parts)
        rows.append("| %s | %s | %s | %s | %s |" % (sid, m.get("property"), m.get("summary", "").replace("|", "\\|"), m.get("needs", "").replace("|", "\\|"), caught))
    if rows:
        out.append("## 12. Seeded changes (independent sub-agents, given only the property text) and which checks catch them\n\n"
                   "Each change compiles, passes the unedited test suite and comes with a demonstration that fails with it and passes without it\n"
                   "(confirmed in a scratch worktree before it was kept under `seeded/<id>/`). `tools/seeded.py` re-runs the checks against all of them.\n\n"
                   "| id | property | change | needs, to manifest | result of the registered quick check(s) |\n|---|---|---|---|---|\n" + "\n".join(rows) + "\n")
    with open(path, "w") as f:
        f.write("".join(out))
    print("DESIGN.md regenerated: %d build notes, %d seeded rows" % (len(glob.glob(os.path.join(HERE, "design.d", "C*.md"))), len(rows)))


main()
