#!/usr/bin/env python3
"""Regenerates the tail of DESIGN.md (everything after the marker line) from design.d/*.md,
seeded/*/meta.json + seeded/RESULTS.json and design.d/_alarm_log.md / _status.md."""
import glob
import json
import os

HERE = os.path.dirname(os.path.dirname(os.path.abspath(__file__)))
MARK = "<!-- GENERATED BELOW: build status, per-property build notes, seeded changes (tools/gen_design.py) -->"


def main():
    path = os.path.join(HERE, "DESIGN.md")
    txt = open(path).read()
    head = txt.split(MARK)[0].rstrip() + "\n\n" + MARK + "\n\n"
    out = [head]
    st = os.path.join(HERE, "design.d", "_status.md")
    if os.path.exists(st):
        out.append(open(st).read().rstrip() + "\n\n")
    out.append("## 11. Build notes per property (what was actually built)\n\n")
    for fp in sorted(glob.glob(os.path.join(HERE, "design.d", "C*.md"))):
        body = open(fp).read().strip()
        # demote headings by two levels
        lines = []
        for l in body.splitlines():
            if l.startswith("#"):
                l = "##" + l
            lines.append(l)
        out.append("\n".join(lines) + "\n\n")
    al = os.path.join(HERE, "design.d", "_alarm_log.md")
    if os.path.exists(al):
        out.append(open(al).read().rstrip() + "\n\n")
    # seeded changes
    res = {}
    rp = os.path.join(HERE, "seeded", "RESULTS.json")
    if os.path.exists(rp):
        res = json.load(open(rp))
    rows = []
    for mp in sorted(glob.glob(os.path.join(HERE, "seeded", "*", "meta.json"))):
        sid = os.path.basename(os.path.dirname(mp))
        m = json.load(open(mp))
        r = res.get(sid, {})
        caught = "not run"
        if "error" in r:
            caught = "ERROR: " + r["error"][:60]
        elif r:
            parts = []
            for p, v in r.get("results", {}).items():
                parts.append("%s: %s" % (p, ("VIOLATION" + (" (no-failing-input-found)" if v.get("no_failing_input") else "")) if v.get("caught") else "missed"))
            caught = "; ".join(parts)
        rows.append("| %s | %s | %s | %s | %s |" % (sid, m.get("property"), m.get("summary", "").replace("|", "\\|"), m.get("needs", "").replace("|", "\\|"), caught))
    if rows:
        out.append("## 12. Seeded changes (independent sub-agents, given only the property text) and which checks catch them\n\n"
                   "Each change compiles, passes the unedited test suite and comes with a demonstration that fails with it and passes without it\n"
                   "(confirmed in a scratch worktree before it was kept under `seeded/<id>/`). `tools/seeded.py` re-runs the checks against all of them.\n\n"
                   "| id | property | change | needs, to manifest | result of the registered quick check(s) |\n|---|---|---|---|---|\n" + "\n".join(rows) + "\n")
    with open(path, "w") as f:
        f.write("".join(out))
    print("DESIGN.md regenerated: %d build notes, %d seeded rows" % (len(glob.glob(os.path.join(HERE, "design.d", "C*.md"))), len(rows)))


main()
