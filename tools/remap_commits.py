#!/usr/bin/env python3
"""After cherry-picking builders' commits onto /repo main: rewrite commit ids in known_findings.d/*.json and
design.d/*.md from the builders' branch hashes to the hashes of the commits with the same subject on main."""
import glob, json, os, re, subprocess
HERE = os.path.dirname(os.path.dirname(os.path.abspath(__file__)))
def git(*a):
    return subprocess.run(["git", "-C", "/repo"] + list(a), stdout=subprocess.PIPE, stderr=subprocess.DEVNULL).stdout.decode()
main = {}
for l in git("log", "--format=%h\t%s", "main").splitlines():
    h, s = l.split("\t", 1)
    main.setdefault(s, h)
mapping = {}
for l in git("log", "--all", "--format=%h\t%s").splitlines():
    h, s = l.split("\t", 1)
    if s in main and main[s] != h:
        mapping[h] = main[s]
n = 0
for fp in glob.glob(os.path.join(HERE, "known_findings.d", "*.json")) + glob.glob(os.path.join(HERE, "design.d", "*.md")) + glob.glob(os.path.join(HERE, "manifest.d", "*.json")):
    txt = open(fp).read()
    new = txt
    for old, nw in mapping.items():
        new = re.sub(r"\b%s[0-9a-f]*\b" % old, nw, new)
    if new != txt:
        open(fp, "w").write(new)
        n += 1
print("remapped commit ids in %d files (%d mappings)" % (n, len(mapping)))
