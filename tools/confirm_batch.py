#!/usr/bin/env python3
"""Run tools/confirm_seed.py for every entry of a batch spec (JSON list of
{id, prop, dir, which, dest, cmd, summary, needs, also?}) with the agents' deliverables under /tmp/m/<dir>/out/,
N at a time; afterwards record `also_check` in the stored meta.json.  usage: confirm_batch.py <spec.json> [jobs]"""
import json
import os
import subprocess
import sys
from concurrent.futures import ThreadPoolExecutor

HERE = os.path.dirname(os.path.dirname(os.path.abspath(__file__)))


def one(e):
    out = "/tmp/m/%s/out" % e["dir"]
    demo = e.get("demo") or os.path.join(out, "%s_demo_test.go" % e["which"])
    patch = e.get("patch") or os.path.join(out, "%s.diff" % e["which"])
    p = subprocess.run([sys.executable, os.path.join(HERE, "tools", "confirm_seed.py"), e["id"], e["prop"], patch, demo, e["dest"], e["cmd"], e["summary"], e["needs"]],
                       stdout=subprocess.PIPE, stderr=subprocess.STDOUT)
    txt = p.stdout.decode("utf-8", "replace")
    if p.returncode == 0 and e.get("also"):
        mp = os.path.join(HERE, "seeded", e["id"], "meta.json")
        m = json.load(open(mp))
        m["also_check"] = e["also"]
        json.dump(m, open(mp, "w"), indent=1)
    return e["id"], p.returncode, txt


def main():
    spec = json.load(open(sys.argv[1]))
    jobs = int(sys.argv[2]) if len(sys.argv) > 2 else 4
    with ThreadPoolExecutor(jobs) as ex:
        for sid, rc, txt in ex.map(one, spec):
            print("== %s: %s" % (sid, "CONFIRMED" if rc == 0 else "REJECTED"))
            if rc != 0:
                print(txt[-1800:])


main()
