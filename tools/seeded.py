#!/usr/bin/env python3
"""Run the registered checks against every seeded change under /verif/seeded/<id>/.

For each seeded/<id>/ (patch.diff + meta.json {"property": "Cxx", ...}) a scratch worktree of
/repo's HEAD is created under /tmp/seedrun, the patch applied, and `./check <property> quick`
(or the tier given) run with VERIF_REPO pointing at it and VERIF_WORK/VERIF_EVID redirected, so that
neither /repo nor the committed evidence is touched.  Prints one line per seeded change and writes
seeded/RESULTS.json.  Usage: tools/seeded.py [-t quick|thorough] [-j N] [id ...]"""
import concurrent.futures as cf
import json
import os
import shutil
import subprocess
import sys
import time

HERE = os.path.dirname(os.path.dirname(os.path.abspath(__file__)))
ROOT = "/tmp/seedrun"


def run_one(sid, tier):
    d = os.path.join(HERE, "seeded", sid)
    meta = json.load(open(os.path.join(d, "meta.json")))
    props = meta["property"] if isinstance(meta["property"], list) else [meta["property"]]
    props = props + [p for p in meta.get("also_check", []) if p not in props]
    wt = os.path.join(ROOT, sid, "repo")
    shutil.rmtree(os.path.join(ROOT, sid), ignore_errors=True)
    os.makedirs(os.path.join(ROOT, sid), exist_ok=True)
    subprocess.run(["git", "-C", "/repo", "worktree", "prune"], check=False)
    r = subprocess.run(["git", "-C", "/repo", "worktree", "add", "--detach", "-f", wt, "HEAD"], stdout=subprocess.PIPE, stderr=subprocess.STDOUT)
    if r.returncode != 0:
        return sid, {"error": "worktree: " + r.stdout.decode()[-300:]}
    res = {"property": props, "results": {}}
    try:
        r = subprocess.run(["git", "-C", wt, "apply", "--whitespace=nowarn", os.path.join(d, "patch.diff")], stdout=subprocess.PIPE, stderr=subprocess.STDOUT)
        if r.returncode != 0:
            r = subprocess.run(["git", "-C", wt, "apply", "--3way", "--whitespace=nowarn", os.path.join(d, "patch.diff")], stdout=subprocess.PIPE, stderr=subprocess.STDOUT)
        if r.returncode != 0:
            return sid, {"error": "patch does not apply: " + r.stdout.decode()[-300:]}
        for p in props:
            env = dict(os.environ, VERIF_REPO=wt, VERIF_WORK=os.path.join(ROOT, sid, "work"), VERIF_EVID=os.path.join(ROOT, sid, "evidence"),
                       VERIF_JOBS=os.environ.get("VERIF_JOBS", "8"))
            t0 = time.time()
            r = subprocess.run([os.path.join(HERE, "check"), p, tier], cwd=HERE, env=env, stdout=subprocess.PIPE, stderr=subprocess.STDOUT)
            out = r.stdout.decode("utf-8", "replace")
            viol = [l for l in out.splitlines() if l.startswith("VIOLATION")]
            res["results"][p] = {"exit": r.returncode, "caught": r.returncode == 1 and bool(viol),
                                 "no_failing_input": bool(viol) and all("no-failing-input-found" in l for l in viol),
                                 "violation_lines": viol[:3], "secs": round(time.time() - t0, 1),
                                 "tail": out.splitlines()[-6:]}
        res["caught"] = any(v["caught"] for v in res["results"].values())
        res["caught_by_target"] = res["results"][props[0]]["caught"]
    finally:
        subprocess.run(["git", "-C", "/repo", "worktree", "remove", "--force", wt], check=False, stdout=subprocess.DEVNULL, stderr=subprocess.DEVNULL)
        shutil.rmtree(os.path.join(ROOT, sid), ignore_errors=True)
    return sid, res


def main():
    args = sys.argv[1:]
    tier, jobs = "quick", 3
    ids = []
    while args:
        a = args.pop(0)
        if a == "-t":
            tier = args.pop(0)
        elif a == "-j":
            jobs = int(args.pop(0))
        else:
            ids.append(a)
    sd = os.path.join(HERE, "seeded")
    if not ids:
        ids = sorted(x for x in os.listdir(sd) if os.path.exists(os.path.join(sd, x, "patch.diff")))
    results = {}
    respath = os.path.join(sd, "RESULTS.json")
    if os.path.exists(respath):
        results = json.load(open(respath))
    with cf.ThreadPoolExecutor(max_workers=jobs) as ex:
        for sid, res in ex.map(lambda s: run_one(s, tier), ids):
            results[sid] = res
            if "error" in res:
                print("%-28s ERROR %s" % (sid, res["error"]))
            else:
                print("%-28s %s  %s" % (sid, "CAUGHT" if res["caught"] else "MISSED",
                                         " ".join("%s:%s%s(%ss)" % (p, "V" if v["caught"] else "-", "*" if v["no_failing_input"] else "", v["secs"]) for p, v in res["results"].items())))
    with open(respath, "w") as f:
        json.dump(results, f, indent=1, sort_keys=True)
        f.write("\n")


main()
