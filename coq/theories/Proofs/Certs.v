(* C11 — proofs about the leaf-certificate cache (Model/Certs.v). *)
From Reservoir Require Import Base.Prelude Model.Certs.

(* ------------------------------------------------------------------ *)
(* A. net.SplitHostPort: the host IS the text of the target            *)

Lemma contains_false c s : contains c s = false <-> ~ In c s.
Proof.
  unfold contains. induction s as [|x s IH]; simpl.
  - split; [intros _ []|reflexivity].
  - rewrite orb_false_iff, IH, Z.eqb_neq. split.
    + intros [H1 H2] [H|H]; [congruence|contradiction].
    + intros H. split; [intros E; apply H; left; exact E|intros E; apply H; right; exact E].
Qed.

Lemma span_not_app c a r : ~ In c a -> span_not c (a ++ c :: r) = (a, Some r).
Proof.
  induction a as [|x a IH]; intros H; simpl.
  - rewrite Z.eqb_refl. reflexivity.
  - assert (x <> c) by (intros ->; apply H; left; reflexivity).
    apply Z.eqb_neq in H0. rewrite H0. rewrite IH; [reflexivity|].
    intros Hin. apply H. right. exact Hin.
Qed.

Lemma span_not_spec c s a r : span_not c s = (a, Some r) -> s = a ++ c :: r /\ ~ In c a.
Proof.
  revert a r. induction s as [|x s IH]; intros a r H; simpl in H; [discriminate|].
  destruct (x =? c) eqn:E.
  - inversion H; subst. apply Z.eqb_eq in E. subst. split; [reflexivity|intros []].
  - destruct (span_not c s) as [a' b'] eqn:Es. inversion H; subst.
    destruct (IH a' r eq_refl) as [-> Hn]. split; [reflexivity|].
    apply Z.eqb_neq in E. intros [Hin|Hin]; [congruence|contradiction].
Qed.

Definition plain (s : str) : Prop := ~ In COLON s /\ ~ In LBRACK s /\ ~ In RBRACK s.

(* name:port *)
Theorem split_name_port name port :
  plain name -> plain port -> split_host_port (name ++ COLON :: port) = Some (name, port).
Proof.
  intros (Nc & Nl & Nr) (Pc & Pl & Pr). unfold split_host_port.
  rewrite rev_app_distr. simpl rev. rewrite <- app_assoc. simpl.
  rewrite span_not_app by (rewrite <- in_rev; assumption).
  rewrite !rev_involutive.
  assert (Hl : contains LBRACK (name ++ COLON :: port) = false).
  { apply contains_false. intros H. apply in_app_or in H. destruct H as [H|[H|H]]; auto; discriminate. }
  assert (Hr : contains RBRACK (name ++ COLON :: port) = false).
  { apply contains_false. intros H. apply in_app_or in H. destruct H as [H|[H|H]]; auto; discriminate. }
  assert (Hc : contains COLON name = false) by (apply contains_false; assumption).
  destruct name as [|c name'].
  - simpl app in *. cbv beta iota. change (COLON =? LBRACK) with false. cbv iota.
    rewrite Hc, Hl, Hr. reflexivity.
  - simpl app in *.
    assert (c <> LBRACK) by (intros ->; apply Nl; left; reflexivity).
    apply Z.eqb_neq in H. cbv beta iota. rewrite H. rewrite Hc, Hl, Hr. reflexivity.
Qed.

(* [literal]:port *)
Theorem split_bracket inner port :
  ~ In LBRACK inner -> ~ In RBRACK inner -> plain port ->
  split_host_port (LBRACK :: inner ++ RBRACK :: COLON :: port) = Some (inner, port).
Proof.
  intros Il Ir (Pc & Pl & Pr). unfold split_host_port.
  replace (LBRACK :: inner ++ RBRACK :: COLON :: port)
    with ((LBRACK :: inner ++ [RBRACK]) ++ COLON :: port)
    by (simpl; rewrite <- app_assoc; reflexivity).
  rewrite rev_app_distr. simpl rev at 1. rewrite <- app_assoc. simpl app at 1.
  rewrite span_not_app by (rewrite <- in_rev; assumption).
  rewrite !rev_involutive.
  simpl app. rewrite <- app_assoc. simpl app. rewrite Z.eqb_refl.
  rewrite span_not_app by assumption.
  rewrite str_eqb_refl.
  assert (Hl : contains LBRACK (inner ++ RBRACK :: COLON :: port) = false).
  { apply contains_false. intros H. apply in_app_or in H.
    destruct H as [H|[H|[H|H]]]; auto; discriminate. }
  assert (Hr : contains RBRACK (COLON :: port) = false).
  { apply contains_false. intros [H|H]; auto; discriminate. }
  rewrite Hl, Hr. reflexivity.
Qed.

(* conversely: whatever SplitHostPort accepts has one of the two shapes, with exactly that host *)
Theorem split_host_port_shape hp h p :
  split_host_port hp = Some (h, p) ->
  hp = h ++ COLON :: p \/ hp = LBRACK :: h ++ RBRACK :: COLON :: p.
Proof.
  unfold split_host_port. intros H.
  destruct (span_not COLON (rev hp)) as [rport [rbefore|]] eqn:Es; [|discriminate].
  apply span_not_spec in Es. destruct Es as [Erev _].
  assert (Ehp : hp = rev rbefore ++ COLON :: rev rport).
  { rewrite <- (rev_involutive hp), Erev, rev_app_distr. simpl. rewrite <- app_assoc. reflexivity. }
  destruct hp as [|c rest] eqn:Eh; [discriminate|].
  destruct (c =? LBRACK) eqn:Ec.
  - apply Z.eqb_eq in Ec. subst c.
    destruct (span_not RBRACK rest) as [inner [after|]] eqn:Er; [|discriminate].
    apply span_not_spec in Er. destruct Er as [-> _].
    destruct (str_eqb after (COLON :: rev rport)) eqn:Ea; [|discriminate].
    apply str_eqb_eq in Ea. subst after.
    destruct (contains LBRACK (inner ++ RBRACK :: COLON :: rev rport)); [discriminate|].
    destruct (contains RBRACK (COLON :: rev rport)); [discriminate|].
    inversion H; subst. right. reflexivity.
  - destruct (contains COLON (rev rbefore)); [discriminate|].
    destruct (contains LBRACK (c :: rest)); [discriminate|].
    destruct (contains RBRACK (c :: rest)); [discriminate|].
    inversion H; subst. left. exact Ehp.
Qed.

(* ------------------------------------------------------------------ *)
(* B. the per-host cache                                                *)

Lemma lookup_set_same h c m : lookup h (set h c m) = Some c.
Proof. unfold set. simpl. rewrite str_eqb_refl. reflexivity. Qed.

Lemma lookup_remove_same h m : lookup h (remove h m) = None.
Proof.
  induction m as [|[k v] m IH]; simpl; [reflexivity|].
  destruct (str_eqb k h) eqn:E; [exact IH|]. simpl. rewrite E. exact IH.
Qed.

Lemma lookup_remove_other h h' m : h <> h' -> lookup h' (remove h m) = lookup h' m.
Proof.
  intros Hn. induction m as [|[k v] m IH]; simpl; [reflexivity|].
  destruct (str_eqb k h) eqn:E.
  - apply str_eqb_eq in E. subst k.
    assert (E' : str_eqb h h' = false) by (apply str_eqb_neq; assumption).
    rewrite E'. exact IH.
  - simpl. destruct (str_eqb k h'); [reflexivity|exact IH].
Qed.

Lemma lookup_set_other h h' c m : h <> h' -> lookup h' (set h c m) = lookup h' m.
Proof.
  intros Hn. unfold set. simpl.
  assert (E' : str_eqb h h' = false) by (apply str_eqb_neq; assumption).
  rewrite E'. apply lookup_remove_other. assumption.
Qed.

Section WithParseIP.
  Variable parse_ip : str -> option str.

  Notation san_of := (san_of parse_ip).
  Notation creatable := (creatable parse_ip).
  Notation mk_cert := (mk_cert parse_ip).
  Notation get_cert := (get_cert parse_ip).
  Notation step := (step parse_ip).
  Notation run := (run parse_ip).
  Notation pc_step := (pc_step parse_ip).
  Notation lstep := (lstep parse_ip).
  Notation lrun := (lrun parse_ip).

  (* what is true of every cached certificate, at clock [now] with [next] identities used *)
  Definition entry_ok (now next : Z) (h : str) (c : cert) : Prop :=
    c_san c = san_of h /\ c_id c < next /\ c_nb c <= now /\ c_na c = c_nb c + LIFETIME /\
    creatable h = true.

  Definition cache_ok (now next : Z) (m : cache) : Prop :=
    forall h c, lookup h m = Some c -> entry_ok now next h c.

  Definition state_ok (s : state) : Prop := cache_ok (s_now s) (s_next s) (s_cache s).

  Lemma entry_ok_mono now next now' next' h c :
    now <= now' -> next <= next' -> entry_ok now next h c -> entry_ok now' next' h c.
  Proof. unfold entry_ok. intros. intuition lia. Qed.

  Lemma cache_ok_mono now next now' next' m :
    now <= now' -> next <= next' -> cache_ok now next m -> cache_ok now' next' m.
  Proof. intros H1 H2 H h c Hl. eapply entry_ok_mono; eauto. Qed.

  Lemma cache_ok_remove now next h m : cache_ok now next m -> cache_ok now next (remove h m).
  Proof.
    intros H h' c Hl. destruct (list_eq_dec Z.eq_dec h h') as [->|Hn].
    - rewrite lookup_remove_same in Hl. discriminate.
    - rewrite lookup_remove_other in Hl by assumption. apply H. assumption.
  Qed.

  Lemma cache_ok_set now next h c m :
    cache_ok now next m -> entry_ok now next h c -> cache_ok now next (set h c m).
  Proof.
    intros H Hc h' c' Hl. destruct (list_eq_dec Z.eq_dec h h') as [->|Hn].
    - rewrite lookup_set_same in Hl. inversion Hl; subst. assumption.
    - rewrite lookup_set_other in Hl by assumption. apply H. assumption.
  Qed.

  Lemma mk_cert_entry_ok now next h :
    creatable h = true -> entry_ok now (next + 1) h (mk_cert next h now).
  Proof. intros Hc. unfold entry_ok, mk_cert. simpl. repeat split; auto; lia. Qed.

  Lemma mk_cert_valid id h now : valid_at now (mk_cert id h now).
  Proof. unfold valid_at, mk_cert, LIFETIME. simpl. lia. Qed.

  Lemma not_expired_valid now next h c :
    entry_ok now next h c -> expired now c = false -> valid_at now c.
  Proof.
    unfold entry_ok, expired, valid_at. intros (_ & _ & Hnb & _) He.
    apply Z.ltb_ge in He. lia.
  Qed.

  Lemma init_ok : state_ok (init).
  Proof. intros h c H. discriminate. Qed.

  Lemma fresh_spec s h m s' r :
    cache_ok (s_now s) (s_next s) m -> fresh parse_ip s h m = (s', r) ->
    state_ok s' /\ s_now s' = s_now s /\ s_next s <= s_next s' /\
    match r with
    | Ok c => c_san c = san_of h /\ valid_at (s_now s) c /\ c_na c = c_nb c + LIFETIME /\
              lookup h (s_cache s') = Some c /\ c_id c = s_next s
    | Err => creatable h = false
    | Panic => False
    end.
  Proof.
    intros Hm Hf. unfold fresh in Hf. destruct (creatable h) eqn:Ec; inversion Hf; subst; simpl.
    - split.
      + unfold state_ok. simpl. apply cache_ok_set.
        * eapply cache_ok_mono; [| |exact Hm]; lia.
        * apply mk_cert_entry_ok. assumption.
      + split; [reflexivity|]. split; [lia|]. split; [reflexivity|].
        split; [apply mk_cert_valid|]. split; [reflexivity|].
        split; [apply lookup_set_same|reflexivity].
    - split; [exact Hm|]. split; [reflexivity|]. split; [lia|reflexivity].
  Qed.

  (* everything one sequential call guarantees *)
  Lemma get_cert_spec hp s s' r :
    state_ok s -> get_cert hp s = (s', r) ->
    state_ok s' /\ s_now s' = s_now s /\ s_next s <= s_next s' /\
    match r with
    | Ok c => exists h p, split_host_port hp = Some (h, p) /\ c_san c = san_of h /\
                          valid_at (s_now s) c /\ c_na c = c_nb c + LIFETIME /\
                          lookup h (s_cache s') = Some c
    | Err => split_host_port hp = None \/
             exists h p, split_host_port hp = Some (h, p) /\ creatable h = false
    | Panic => False
    end.
  Proof.
    intros Hok H. unfold get_cert in H.
    destruct (split_host_port hp) as [[h p]|] eqn:Es.
    2:{ inversion H; subst. split; [assumption|]. split; [reflexivity|]. split; [lia|]. left. reflexivity. }
    rewrite <- Es.
    assert (Hfresh : forall m, cache_ok (s_now s) (s_next s) m -> fresh parse_ip s h m = (s', r) ->
      state_ok s' /\ s_now s' = s_now s /\ s_next s <= s_next s' /\
      match r with
      | Ok c => exists h p, split_host_port hp = Some (h, p) /\ c_san c = san_of h /\
                            valid_at (s_now s) c /\ c_na c = c_nb c + LIFETIME /\
                            lookup h (s_cache s') = Some c
      | Err => split_host_port hp = None \/
               exists h p, split_host_port hp = Some (h, p) /\ creatable h = false
      | Panic => False
      end).
    { intros m Hm Hf. destruct (fresh_spec s h m s' r Hm Hf) as (A & B & C & D).
      split; [assumption|]. split; [assumption|]. split; [assumption|].
      destruct r as [c| |]; [| |contradiction].
      - destruct D as (D1 & D2 & D3 & D4 & _). exists h, p. auto.
      - right. exists h, p. auto. }
    destruct (lookup h (s_cache s)) as [c|] eqn:El.
    - destruct (expired (s_now s) c) eqn:Ee.
      + apply (Hfresh (remove h (s_cache s))); [apply cache_ok_remove; exact Hok|exact H].
      + inversion H; subst. split; [assumption|]. split; [reflexivity|]. split; [lia|].
        exists h, p. pose proof (Hok h c El) as He.
        split; [assumption|]. split; [apply He|].
        split; [eapply not_expired_valid; eauto|]. split; [apply He|assumption].
    - apply (Hfresh (s_cache s)); [exact Hok|exact H].
  Qed.

  Lemma advance_ok d s : state_ok s -> state_ok (advance d s).
  Proof.
    unfold state_ok, advance. simpl. intros H.
    eapply cache_ok_mono; [| |exact H]; lia.
  Qed.

  Lemma step_ok s o : state_ok s -> state_ok (step s o) /\ s_now s <= s_now (step s o) /\ s_next s <= s_next (step s o).
  Proof.
    intros H. destruct o as [hp|d]; simpl.
    - destruct (get_cert hp s) as [s' r] eqn:E. simpl.
      destruct (get_cert_spec hp s s' r H E) as (A & B & C & _). split; [assumption|]. split; lia.
    - split; [apply advance_ok; assumption|]. unfold advance. simpl. lia.
  Qed.

  Lemma run_ok ops s : state_ok s -> state_ok (run ops s) /\ s_now s <= s_now (run ops s) /\ s_next s <= s_next (run ops s).
  Proof.
    revert s. induction ops as [|o ops IH]; intros s H; simpl.
    - split; [assumption|]. split; lia.
    - destruct (step_ok s o H) as (A & B & C).
      destruct (IH _ A) as (A' & B' & C'). split; [assumption|]. split; lia.
  Qed.

  (* ---- the property, for every history ---- *)

  Theorem names_exactly_host ops hp s' c :
    get_cert hp (run ops init) = (s', Ok c) ->
    exists h p, split_host_port hp = Some (h, p) /\
                (hp = h ++ COLON :: p \/ hp = LBRACK :: h ++ RBRACK :: COLON :: p) /\
                c_san c = san_of h.
  Proof.
    intros H. destruct (run_ok ops init init_ok) as (Hok & _).
    destruct (get_cert_spec _ _ _ _ Hok H) as (_ & _ & _ & h & p & Hs & Hn & _).
    exists h, p. repeat split; auto. apply split_host_port_shape. assumption.
  Qed.

  Theorem valid_when_returned ops hp s' c :
    get_cert hp (run ops init) = (s', Ok c) ->
    valid_at (s_now (run ops init)) c /\ c_na c = c_nb c + LIFETIME.
  Proof.
    intros H. destruct (run_ok ops init init_ok) as (Hok & _).
    destruct (get_cert_spec _ _ _ _ Hok H) as (_ & _ & _ & h & p & _ & _ & Hv & Hl & _). auto.
  Qed.

  (* every well-formed target whose name can be put in a certificate gets one; nothing panics *)
  Theorem every_target_served ops hp h p :
    split_host_port hp = Some (h, p) -> creatable h = true ->
    exists c, snd (get_cert hp (run ops init)) = Ok c.
  Proof.
    intros Hs Hc. destruct (run_ok ops init init_ok) as (Hok & _).
    destruct (get_cert hp (run ops init)) as [s' r] eqn:E.
    destruct (get_cert_spec _ _ _ _ Hok E) as (_ & _ & _ & D).
    destruct r as [c| |]; simpl.
    - exists c. reflexivity.
    - destruct D as [D|(h0 & p0 & D1 & D2)]; [congruence|].
      rewrite Hs in D1. inversion D1; subst. congruence.
    - contradiction.
  Qed.

  (* ---- reuse while valid ---- *)

  Lemma get_cert_other hp s h :
    (forall p, split_host_port hp <> Some (h, p)) ->
    lookup h (s_cache (fst (get_cert hp s))) = lookup h (s_cache s).
  Proof.
    intros Hn. unfold get_cert.
    destruct (split_host_port hp) as [[h' p']|] eqn:Es; [|reflexivity].
    assert (h' <> h) by (intros ->; apply (Hn p'); reflexivity).
    assert (Hf : forall m, lookup h (s_cache (fst (fresh parse_ip s h' m))) = lookup h m).
    { intros m. unfold fresh. destruct (creatable h'); simpl; [|reflexivity].
      apply lookup_set_other. assumption. }
    destruct (lookup h' (s_cache s)) as [c|].
    - destruct (expired (s_now s) c); [|reflexivity].
      rewrite Hf. apply lookup_remove_other. assumption.
    - apply Hf.
  Qed.

  Lemma split_dec hp h : (exists p, split_host_port hp = Some (h, p)) \/ (forall p, split_host_port hp <> Some (h, p)).
  Proof.
    destruct (split_host_port hp) as [[h' p']|]; [|right; intros p; discriminate].
    destruct (list_eq_dec Z.eq_dec h' h) as [->|Hn].
    - left. exists p'. reflexivity.
    - right. intros p E. inversion E. contradiction.
  Qed.

  Lemma run_keeps ops s h c :
    state_ok s -> lookup h (s_cache s) = Some c -> s_now (run ops s) <= c_na c ->
    lookup h (s_cache (run ops s)) = Some c.
  Proof.
    revert s. induction ops as [|o ops IH]; intros s Hok Hl Hna; simpl in *; [assumption|].
    destruct (step_ok s o Hok) as (Hok' & Hnow & _).
    destruct (run_ok ops (step s o) Hok') as (_ & Hnow' & _).
    apply IH; auto.
    destruct o as [hp|d]; simpl; [|assumption].
    destruct (split_dec hp h) as [[p Hs]|Hn].
    - unfold get_cert. rewrite Hs, Hl.
      assert (He : expired (s_now s) c = false).
      { unfold expired. apply Z.ltb_ge. lia. }
      rewrite He. simpl. assumption.
    - rewrite get_cert_other by assumption. assumption.
  Qed.

  Theorem reuse_until_expiry ops0 hp s1 c ops :
    get_cert hp (run ops0 init) = (s1, Ok c) ->
    s_now (run ops s1) <= c_na c ->
    get_cert hp (run ops s1) = (run ops s1, Ok c).
  Proof.
    intros H Hna. destruct (run_ok ops0 init init_ok) as (Hok & _).
    destruct (get_cert_spec _ _ _ _ Hok H) as (Hok1 & _ & _ & h & p & Hs & _ & _ & _ & Hl).
    pose proof (run_keeps ops s1 h c Hok1 Hl Hna) as Hl2.
    unfold get_cert. rewrite Hs, Hl2.
    assert (He : expired (s_now (run ops s1)) c = false).
    { unfold expired. apply Z.ltb_ge. lia. }
    rewrite He. reflexivity.
  Qed.

  (* ---- replacement once expired ---- *)

  Definition evolved (n0 : Z) (c : cert) (o : option cert) : Prop :=
    o = Some c \/ o = None \/ exists c1, o = Some c1 /\ n0 <= c_id c1.

  Lemma get_cert_evolved hp s h n0 c :
    n0 <= s_next s -> evolved n0 c (lookup h (s_cache s)) ->
    evolved n0 c (lookup h (s_cache (fst (get_cert hp s)))).
  Proof.
    intros Hn He. destruct (split_dec hp h) as [[p Hs]|Hno].
    2:{ rewrite get_cert_other by assumption. assumption. }
    unfold get_cert. rewrite Hs.
    assert (Hfresh : forall m, lookup h m = None ->
      evolved n0 c (lookup h (s_cache (fst (fresh parse_ip s h m))))).
    { intros m Hm. unfold fresh. destruct (creatable h); cbn [fst s_cache].
      - rewrite lookup_set_same. right. right. eexists. split; [reflexivity|]. simpl. lia.
      - rewrite Hm. right. left. reflexivity. }
    destruct (lookup h (s_cache s)) as [c0|] eqn:El.
    - destruct (expired (s_now s) c0).
      + apply Hfresh. apply lookup_remove_same.
      + simpl. rewrite El. assumption.
    - apply Hfresh. assumption.
  Qed.

  Lemma run_evolved ops s h n0 c :
    state_ok s -> n0 <= s_next s -> evolved n0 c (lookup h (s_cache s)) ->
    evolved n0 c (lookup h (s_cache (run ops s))).
  Proof.
    revert s. induction ops as [|o ops IH]; intros s Hok Hn He; simpl; [assumption|].
    destruct (step_ok s o Hok) as (Hok' & _ & Hnext).
    apply IH; auto; [lia|].
    destruct o as [hp|d]; simpl; [|assumption].
    apply get_cert_evolved; assumption.
  Qed.

  Theorem replaced_after_expiry ops0 hp s1 c ops s3 c' :
    get_cert hp (run ops0 init) = (s1, Ok c) ->
    c_na c < s_now (run ops s1) ->
    get_cert hp (run ops s1) = (s3, Ok c') ->
    c_id c' <> c_id c /\ valid_at (s_now (run ops s1)) c'.
  Proof.
    intros H Hna H2. destruct (run_ok ops0 init init_ok) as (Hok & _).
    destruct (get_cert_spec _ _ _ _ Hok H) as (Hok1 & _ & _ & h & p & Hs & _ & _ & _ & Hl).
    destruct (run_ok ops s1 Hok1) as (Hok2 & _ & Hnext2).
    destruct (get_cert_spec _ _ _ _ Hok2 H2) as (_ & _ & _ & h2 & p2 & Hs2 & _ & Hv & _ & _).
    split; [|assumption].
    pose proof (Hok1 h c Hl) as (_ & Hid & _).
    assert (Hev : evolved (s_next s1) c (lookup h (s_cache (run ops s1)))).
    { apply run_evolved; auto; [lia|]. left. assumption. }
    unfold get_cert in H2. rewrite Hs in H2.
    assert (Hfresh : forall m, fresh parse_ip (run ops s1) h m = (s3, Ok c') -> c_id c' <> c_id c).
    { intros m Hf. unfold fresh in Hf. destruct (creatable h); inversion Hf; subst. simpl. lia. }
    destruct Hev as [Hev|[Hev|(c1 & Hev & Hc1)]]; rewrite Hev in H2.
    - assert (He : expired (s_now (run ops s1)) c = true) by (unfold expired; apply Z.ltb_lt; lia).
      rewrite He in H2. eapply Hfresh; eauto.
    - eapply Hfresh; eauto.
    - destruct (expired (s_now (run ops s1)) c1).
      + eapply Hfresh; eauto.
      + inversion H2; subst. lia.
  Qed.

  (* ------------------------------------------------------------------ *)
  (* C. concurrent callers: every interleaving of the atomic actions      *)

  Lemma nth_error_upd_same {A} i (x : A) l : (i < length l)%nat -> nth_error (upd i x l) i = Some x.
  Proof.
    revert i. induction l as [|y l IH]; intros [|i] H; simpl in *; try lia; [reflexivity|].
    apply IH. lia.
  Qed.

  Lemma nth_error_upd_other {A} i j (x : A) l : i <> j -> nth_error (upd i x l) j = nth_error l j.
  Proof.
    revert i j. induction l as [|y l IH]; intros [|i] [|j] H; simpl; try reflexivity; try congruence.
    apply IH. congruence.
  Qed.

  Lemma nth_error_upd {A} i j (x : A) l p :
    nth_error (upd i x l) j = Some p ->
    (i = j /\ p = x) \/ (i <> j /\ nth_error l j = Some p).
  Proof.
    intros H. destruct (Nat.eq_dec i j) as [->|Hn].
    - left. split; [reflexivity|].
      assert (Hl : (j < length l)%nat).
      { destruct (Nat.lt_ge_cases j (length l)) as [Hl|Hl]; [assumption|].
        exfalso. clear -H Hl. revert j H Hl. induction l as [|y l IH]; intros [|j] H Hl; simpl in *; try discriminate; try lia.
        apply (IH j); [assumption|lia]. }
      rewrite nth_error_upd_same in H by assumption. congruence.
    - right. split; [assumption|]. rewrite nth_error_upd_other in H by assumption. assumption.
  Qed.

  Lemma Forall2_upd {A B} (R : A -> B -> Prop) l1 l2 i a x :
    Forall2 R l1 l2 -> nth_error l1 i = Some a -> R a x -> Forall2 R l1 (upd i x l2).
  Proof.
    intros H. revert i. induction H as [|a0 b0 l1 l2 Hab H IH]; intros [|i] Hn Hr; simpl in *; try discriminate.
    - inversion Hn; subst. constructor; assumption.
    - constructor; [assumption|]. apply IH; assumption.
  Qed.

  Lemma Forall2_nth_r {A B} (R : A -> B -> Prop) l1 l2 i b :
    Forall2 R l1 l2 -> nth_error l2 i = Some b -> exists a, nth_error l1 i = Some a /\ R a b.
  Proof.
    intros H. revert i. induction H as [|a0 b0 l1 l2 Hab H IH]; intros [|i] Hn; simpl in *; try discriminate.
    - inversion Hn; subst. exists a0. auto.
    - apply IH. assumption.
  Qed.

  Lemma Forall2_nth_l {A B} (R : A -> B -> Prop) l1 l2 i a :
    Forall2 R l1 l2 -> nth_error l1 i = Some a -> exists b, nth_error l2 i = Some b /\ R a b.
  Proof.
    intros H. revert i. induction H as [|a0 b0 l1 l2 Hab H IH]; intros [|i] Hn; simpl in *; try discriminate.
    - inversion Hn; subst. exists b0. auto.
    - apply IH. assumption.
  Qed.

  Lemma Forall2_impl {A B} (R R' : A -> B -> Prop) l1 l2 :
    (forall a b, R a b -> R' a b) -> Forall2 R l1 l2 -> Forall2 R' l1 l2.
  Proof. intros Hi H. induction H; constructor; auto. Qed.

  (* what a caller for target [hp] may hold at each program point *)
  Definition thread_ok (now next : Z) (hp : str) (p : pc) : Prop :=
    match p with
    | PStart hp' => hp' = hp
    | PDelete h => exists port, split_host_port hp = Some (h, port)
    | PCreate h => exists port, split_host_port hp = Some (h, port)
    | PSet h c => (exists port, split_host_port hp = Some (h, port)) /\ entry_ok now next h c
    | PDone (Ok c) t =>
        (exists h port, split_host_port hp = Some (h, port) /\ c_san c = san_of h) /\
        valid_at t c /\ t <= now /\ c_na c = c_nb c + LIFETIME
    | PDone Err t =>
        split_host_port hp = None \/ exists h port, split_host_port hp = Some (h, port) /\ creatable h = false
    | PDone Panic _ => False
    end.

  Lemma thread_ok_mono now next now' next' hp p :
    now <= now' -> next <= next' -> thread_ok now next hp p -> thread_ok now' next' hp p.
  Proof.
    intros H1 H2. destruct p as [hp'|h|h|h c|[c| |] t]; simpl; auto.
    - intros [A B]. split; [assumption|]. eapply entry_ok_mono; eauto.
    - intros (A & B & C & D). repeat split; auto; try apply B; lia.
  Qed.

  Lemma pc_step_ok now0 now n m hp p p' m' n' :
    cache_ok now0 n m -> now0 <= now -> thread_ok now0 n hp p ->
    pc_step now p m n = (p', m', n') ->
    cache_ok now n' m' /\ n <= n' /\ thread_ok now n' hp p'.
  Proof.
    intros Hm Hnow Ht Hs.
    assert (Hm' : cache_ok now n m) by (eapply cache_ok_mono; [| |exact Hm]; lia).
    destruct p as [hp'|h|h|h c|r t]; simpl in Hs, Ht.
    - subst hp'. destruct (split_host_port hp) as [[h port]|] eqn:Es.
      + destruct (lookup h m) as [c|] eqn:El.
        * destruct (expired now c) eqn:Ee; inversion Hs; subst.
          -- split; [assumption|]. split; [lia|]. simpl. rewrite Es. exists port. reflexivity.
          -- split; [assumption|]. split; [lia|]. simpl.
             pose proof (Hm' h c El) as He. rewrite Es.
             split; [exists h, port; split; [reflexivity|apply He]|].
             split; [eapply not_expired_valid; eauto|]. split; [lia|apply He].
        * inversion Hs; subst. split; [assumption|]. split; [lia|]. simpl. rewrite Es. exists port. reflexivity.
      + inversion Hs; subst. split; [assumption|]. split; [lia|]. simpl. left. assumption.
    - inversion Hs; subst. split; [apply cache_ok_remove; assumption|]. split; [lia|]. exact Ht.
    - destruct (creatable h) eqn:Ec; inversion Hs; subst.
      + split; [eapply cache_ok_mono; [| |exact Hm']; lia|]. split; [lia|]. simpl.
        split; [assumption|]. apply mk_cert_entry_ok. assumption.
      + split; [assumption|]. split; [lia|]. simpl. right.
        destruct Ht as [port Hp]. exists h, port. auto.
    - inversion Hs; subst. destruct Ht as [Hp He].
      assert (He' : entry_ok now n' h c) by (eapply entry_ok_mono; [| |exact He]; lia).
      split; [apply cache_ok_set; assumption|]. split; [lia|]. simpl.
      destruct Hp as [port Hp]. destruct He as (E1 & E2 & E3 & E4 & E5).
      split; [exists h, port; auto|]. unfold valid_at, LIFETIME in *. repeat split; lia.
    - inversion Hs; subst. split; [assumption|]. split; [lia|].
      apply (thread_ok_mono now0 n' now n'); [lia|lia|exact Ht].
  Qed.

  Definition linv (hps : list str) (st : lstate) : Prop :=
    cache_ok (l_now st) (l_next st) (l_cache st) /\
    Forall2 (thread_ok (l_now st) (l_next st)) hps (l_threads st).

  Lemma lstep_inv hps st a :
    linv hps st -> linv hps (lstep st a) /\ l_now st <= l_now (lstep st a) /\ l_next st <= l_next (lstep st a).
  Proof.
    intros [Hc Ht]. destruct a as [i dt]. unfold lstep.
    set (now := l_now st + Z.max 0 dt).
    assert (Hnow : l_now st <= now) by (unfold now; lia).
    destruct (nth_error (l_threads st) i) as [p|] eqn:En.
    - destruct (pc_step now p (l_cache st) (l_next st)) as [[p' m'] n'] eqn:Es.
      unfold linv. cbn [l_now l_next l_cache l_threads].
      destruct (Forall2_nth_r _ _ _ _ _ Ht En) as (hp & Hhp & Hp).
      destruct (pc_step_ok _ _ _ _ _ _ _ _ _ Hc Hnow Hp Es) as (A & B & C).
      split; [|split; [assumption|lia]].
      split; [assumption|].
      apply Forall2_upd with (a := hp); [|assumption|assumption].
      eapply Forall2_impl; [|exact Ht]. intros a0 b0 H0.
      apply (thread_ok_mono (l_now st) (l_next st)); [lia|lia|exact H0].
    - unfold linv. cbn [l_now l_next l_cache l_threads]. split; [|split; [assumption|lia]].
      split; [eapply cache_ok_mono; [| |exact Hc]; lia|].
      eapply Forall2_impl; [|exact Ht]. intros a0 b0 H0.
      apply (thread_ok_mono (l_now st) (l_next st)); [lia|lia|exact H0].
  Qed.

  Lemma lrun_inv hps sched st :
    linv hps st -> linv hps (lrun sched st) /\ l_now st <= l_now (lrun sched st).
  Proof.
    revert st. induction sched as [|a sched IH]; intros st H; simpl.
    - split; [assumption|lia].
    - destruct (lstep_inv hps st a H) as (A & B & _). destruct (IH _ A) as (A' & B'). split; [assumption|lia].
  Qed.

  Lemma linit_inv s hps : state_ok s -> linv hps (linit s hps).
  Proof.
    intros H. split; [exact H|]. simpl. induction hps as [|hp hps IH]; simpl; constructor; auto.
    reflexivity.
  Qed.

  (* Every certificate any caller is handed, under every interleaving, names its own host and
     was valid when it was chosen. *)
  Theorem concurrent_returned ops hps sched i hp c t :
    let st := lrun sched (linit (run ops init) hps) in
    nth_error hps i = Some hp ->
    nth_error (l_threads st) i = Some (PDone (Ok c) t) ->
    (exists h port, split_host_port hp = Some (h, port) /\
                    (hp = h ++ COLON :: port \/ hp = LBRACK :: h ++ RBRACK :: COLON :: port) /\
                    c_san c = san_of h) /\
    valid_at t c /\ s_now (run ops init) <= l_now st /\ t <= l_now st /\ c_na c = c_nb c + LIFETIME.
  Proof.
    intros st Hhp Hp.
    destruct (run_ok ops init init_ok) as (Hok & _).
    destruct (lrun_inv hps sched _ (linit_inv _ hps Hok)) as ([_ Ht] & Hnow). fold st in Ht, Hnow.
    destruct (Forall2_nth_r _ _ _ _ _ Ht Hp) as (hp' & Hhp' & Hok').
    rewrite Hhp in Hhp'. inversion Hhp'; subst hp'. simpl in Hok'.
    destruct Hok' as ((h & port & Hs & Hn) & Hv & Hle & Hl).
    split; [exists h, port; split; [assumption|split; [apply split_host_port_shape; assumption|assumption]]|].
    simpl in Hnow. auto.
  Qed.

  (* no caller ever panics, and a caller is refused only for a target SplitHostPort rejects
     or a name x509 cannot encode *)
  Theorem concurrent_refusals ops hps sched i hp r t :
    let st := lrun sched (linit (run ops init) hps) in
    nth_error hps i = Some hp ->
    nth_error (l_threads st) i = Some (PDone r t) ->
    match r with
    | Ok _ => True
    | Err => split_host_port hp = None \/ exists h port, split_host_port hp = Some (h, port) /\ creatable h = false
    | Panic => False
    end.
  Proof.
    intros st Hhp Hp.
    destruct (run_ok ops init init_ok) as (Hok & _).
    destruct (lrun_inv hps sched _ (linit_inv _ hps Hok)) as ([_ Ht] & _). fold st in Ht.
    destruct (Forall2_nth_r _ _ _ _ _ Ht Hp) as (hp' & Hhp' & Hok').
    rewrite Hhp in Hhp'. inversion Hhp'; subst hp'. destruct r; simpl in *; auto.
  Qed.

  (* ---- the cache ends holding one of the certificates handed out ---- *)

  Definition for_host (hps : list str) (i : nat) (h : str) : Prop :=
    exists hp port, nth_error hps i = Some hp /\ split_host_port hp = Some (h, port).

  Definition pending_pc (h : str) (p : pc) : Prop :=
    p = PDelete h \/ p = PCreate h \/ exists c, p = PSet h c.

  Definition pending (st : lstate) (h : str) : Prop :=
    exists i p, nth_error (l_threads st) i = Some p /\ pending_pc h p.

  (* provenance of every cached certificate *)
  Definition J1 (m0 : cache) (hps : list str) (st : lstate) : Prop :=
    forall h c, lookup h (l_cache st) = Some c ->
      lookup h m0 = Some c \/
      exists i t, for_host hps i h /\ nth_error (l_threads st) i = Some (PDone (Ok c) t).

  (* a host without an entry has a caller that is about to store one, or nobody has started *)
  Definition J2 (hps : list str) (st : lstate) : Prop :=
    forall h, creatable h = true -> lookup h (l_cache st) = None ->
      pending st h \/
      (forall i hp port, nth_error hps i = Some hp -> split_host_port hp = Some (h, port) ->
                         nth_error (l_threads st) i = Some (PStart hp)).

  Lemma pending_pc_not_start h hp : ~ pending_pc h (PStart hp).
  Proof. intros [H|[H|[c H]]]; discriminate. Qed.

  Lemma pending_pc_not_done h r t : ~ pending_pc h (PDone r t).
  Proof. intros [H|[H|[c H]]]; discriminate. Qed.

  Lemma lstep_J m0 hps st a :
    linv hps st -> J1 m0 hps st -> J2 hps st ->
    J1 m0 hps (lstep st a) /\ J2 hps (lstep st a).
  Proof.
    intros [Hc Ht] H1 H2. destruct a as [j dt]. unfold lstep.
    set (now := l_now st + Z.max 0 dt).
    destruct (nth_error (l_threads st) j) as [p|] eqn:En.
    2:{ split; [exact H1|exact H2]. }
    destruct (Forall2_nth_r _ _ _ _ _ Ht En) as (hpj & Hhpj & Hpj).
    assert (Hlen : (j < length (l_threads st))%nat) by (apply nth_error_Some; congruence).
    (* helpers to transport witnesses that are not the acting thread *)
    assert (Keep : forall p' i q, nth_error (l_threads st) i = Some q -> i <> j ->
                   nth_error (upd j p' (l_threads st)) i = Some q).
    { intros p' i q Hq Hij. rewrite nth_error_upd_other by congruence. assumption. }
    destruct p as [hp'|h0|h0|h0 c0|r t]; simpl in Hpj; cbn [pc_step].
    - (* PStart: certs.Get *)
      subst hp'.
      assert (Common : forall p', ~ (exists r t, p' = PDone r t) \/ True ->
        (forall h, split_host_port hpj = None \/ (exists h' port, split_host_port hpj = Some (h', port) /\
             (h' = h -> pending_pc h p' \/ lookup h (l_cache st) <> None))) ->
        J1 m0 hps {| l_now := now; l_cache := l_cache st; l_next := l_next st; l_threads := upd j p' (l_threads st) |} /\
        J2 hps {| l_now := now; l_cache := l_cache st; l_next := l_next st; l_threads := upd j p' (l_threads st) |}).
      { intros p' _ Hp'. split.
        - intros h c Hl. cbn [l_cache l_threads] in *. destruct (H1 h c Hl) as [A|(i & t & Hf & Hi)]; [left; exact A|].
          right. exists i, t. split; [assumption|]. apply Keep; [assumption|]. intros ->. congruence.
        - intros h Hcr Hl. cbn [l_cache l_threads] in *. destruct (H2 h Hcr Hl) as [(i & q & Hi & Hq)|Hall].
          + left. exists i, q. split; [|assumption]. apply Keep; [assumption|].
            intros ->. rewrite En in Hi. inversion Hi; subst. eapply pending_pc_not_start; eauto.
          + destruct (Hp' h) as [Hnone|(h' & port & Hs & Himp)].
            * right. intros i hp port Hhp Hsp. destruct (Nat.eq_dec i j) as [->|Hij].
              -- rewrite Hhpj in Hhp. inversion Hhp; subst. congruence.
              -- apply Keep; [eapply Hall; eauto|assumption].
            * destruct (list_eq_dec Z.eq_dec h' h) as [->|Hne].
              -- destruct (Himp eq_refl) as [Hpend|Hno]; [|congruence].
                 left. exists j, p'. split; [apply nth_error_upd_same; assumption|assumption].
              -- right. intros i hp port' Hhp Hsp. destruct (Nat.eq_dec i j) as [->|Hij].
                 ++ rewrite Hhpj in Hhp. inversion Hhp; subst. rewrite Hs in Hsp. inversion Hsp. congruence.
                 ++ apply Keep; [eapply Hall; eauto|assumption]. }
      destruct (split_host_port hpj) as [[h port]|] eqn:Es.
      + destruct (lookup h (l_cache st)) as [c|] eqn:El.
        * destruct (expired now c); apply Common; auto; intros h1; right; exists h, port;
            (split; [reflexivity|]); intros ->; right; congruence.
        * apply Common; auto. intros h1. right. exists h, port. split; [reflexivity|].
          intros ->. left. right. left. reflexivity.
      + apply Common; auto.
    - (* PDelete: certs.Delete *)
      destruct Hpj as [portj Hsj]. split.
      + intros h c Hl. cbn [l_cache l_threads] in *.
        destruct (list_eq_dec Z.eq_dec h0 h) as [->|Hne]; [rewrite lookup_remove_same in Hl; discriminate|].
        rewrite lookup_remove_other in Hl by assumption.
        destruct (H1 h c Hl) as [A|(i & t & Hf & Hi)]; [left; exact A|].
        right. exists i, t. split; [assumption|]. apply Keep; [assumption|]. intros ->. congruence.
      + intros h Hcr Hl. cbn [l_cache l_threads] in *.
        destruct (list_eq_dec Z.eq_dec h0 h) as [->|Hne].
        * left. exists j, (PCreate h). split; [apply nth_error_upd_same; assumption|]. right. left. reflexivity.
        * rewrite lookup_remove_other in Hl by assumption.
          destruct (H2 h Hcr Hl) as [(i & q & Hi & Hq)|Hall].
          -- left. exists i, q. split; [|assumption]. apply Keep; [assumption|].
             intros ->. rewrite En in Hi. inversion Hi; subst.
             destruct Hq as [Hq|[Hq|[c Hq]]]; inversion Hq; congruence.
          -- right. intros i hp port Hhp Hsp. destruct (Nat.eq_dec i j) as [->|Hij].
             ++ rewrite Hhpj in Hhp. inversion Hhp; subst. rewrite Hsj in Hsp. inversion Hsp. congruence.
             ++ apply Keep; [eapply Hall; eauto|assumption].
    - (* PCreate: createCert *)
      destruct Hpj as [portj Hsj].
      assert (Common : forall p' n', (creatable h0 = true -> pending_pc h0 p') ->
        J1 m0 hps {| l_now := now; l_cache := l_cache st; l_next := n'; l_threads := upd j p' (l_threads st) |} /\
        J2 hps {| l_now := now; l_cache := l_cache st; l_next := n'; l_threads := upd j p' (l_threads st) |}).
      { intros p' n' Hp'. split.
        - intros h c Hl. cbn [l_cache l_threads] in *. destruct (H1 h c Hl) as [A|(i & t & Hf & Hi)]; [left; exact A|].
          right. exists i, t. split; [assumption|]. apply Keep; [assumption|]. intros ->. congruence.
        - intros h Hcr Hl. cbn [l_cache l_threads] in *.
          destruct (list_eq_dec Z.eq_dec h0 h) as [->|Hne].
          + left. exists j, p'. split; [apply nth_error_upd_same; assumption|auto].
          + destruct (H2 h Hcr Hl) as [(i & q & Hi & Hq)|Hall].
            * left. exists i, q. split; [|assumption]. apply Keep; [assumption|].
              intros ->. rewrite En in Hi. inversion Hi; subst.
              destruct Hq as [Hq|[Hq|[c Hq]]]; inversion Hq; congruence.
            * right. intros i hp port Hhp Hsp. destruct (Nat.eq_dec i j) as [->|Hij].
              -- rewrite Hhpj in Hhp. inversion Hhp; subst. rewrite Hsj in Hsp. inversion Hsp. congruence.
              -- apply Keep; [eapply Hall; eauto|assumption]. }
      destruct (creatable h0) eqn:Ecr; apply Common.
      * intros _. right. right. eexists. reflexivity.
      * intros; discriminate.
    - (* PSet: certs.Set, return *)
      destruct Hpj as [[portj Hsj] Hej]. split.
      + intros h c Hl. cbn [l_cache l_threads] in *.
        destruct (list_eq_dec Z.eq_dec h0 h) as [->|Hne].
        * rewrite lookup_set_same in Hl. inversion Hl; subst c0. right. exists j, (c_nb c).
          split; [exists hpj, portj; auto|apply nth_error_upd_same; assumption].
        * rewrite lookup_set_other in Hl by assumption.
          destruct (H1 h c Hl) as [A|(i & t & Hf & Hi)]; [left; exact A|].
          right. exists i, t. split; [assumption|]. apply Keep; [assumption|]. intros ->. congruence.
      + intros h Hcr Hl. cbn [l_cache l_threads] in *.
        destruct (list_eq_dec Z.eq_dec h0 h) as [->|Hne]; [rewrite lookup_set_same in Hl; discriminate|].
        rewrite lookup_set_other in Hl by assumption.
        destruct (H2 h Hcr Hl) as [(i & q & Hi & Hq)|Hall].
        * left. exists i, q. split; [|assumption]. apply Keep; [assumption|].
          intros ->. rewrite En in Hi. inversion Hi; subst.
          destruct Hq as [Hq|[Hq|[c Hq]]]; inversion Hq; congruence.
        * right. intros i hp port Hhp Hsp. destruct (Nat.eq_dec i j) as [->|Hij].
          -- rewrite Hhpj in Hhp. inversion Hhp; subst. rewrite Hsj in Hsp. inversion Hsp. congruence.
          -- apply Keep; [eapply Hall; eauto|assumption].
    - (* PDone: nothing left to do *)
      assert (Eu : upd j (PDone r t) (l_threads st) = l_threads st).
      { clear -En. revert j En. induction (l_threads st) as [|y l IH]; intros [|j] En; simpl in *; try discriminate.
        - inversion En. reflexivity.
        - f_equal. apply IH. assumption. }
      rewrite Eu. split; [exact H1|exact H2].
  Qed.

  Lemma lrun_J m0 hps sched st :
    linv hps st -> J1 m0 hps st -> J2 hps st ->
    J1 m0 hps (lrun sched st) /\ J2 hps (lrun sched st).
  Proof.
    revert st. induction sched as [|a sched IH]; intros st Hi H1 H2; simpl; [auto|].
    destruct (lstep_J m0 hps st a Hi H1 H2) as [A B].
    destruct (lstep_inv hps st a Hi) as (Hi' & _).
    apply IH; assumption.
  Qed.

  Lemma linit_J s hps : J1 (s_cache s) hps (linit s hps) /\ J2 hps (linit s hps).
  Proof.
    split.
    - intros h c Hl. left. exact Hl.
    - intros h _ _. right. intros i hp port Hhp _. simpl.
      rewrite nth_error_map, Hhp. reflexivity.
  Qed.

  (* Whatever the interleaving: once every caller has returned, every host that was asked for
     (and can be named in a certificate) has a cached certificate, and that certificate was
     handed to one of the callers for this host, or is the one cached before they started. *)
  Theorem concurrent_cache_holds_one ops hps sched i hp h port :
    let s0 := run ops init in
    let st := lrun sched (linit s0 hps) in
    all_done st = true ->
    nth_error hps i = Some hp -> split_host_port hp = Some (h, port) -> creatable h = true ->
    exists c, lookup h (l_cache st) = Some c /\
      (lookup h (s_cache s0) = Some c \/
       exists i' t, for_host hps i' h /\ nth_error (l_threads st) i' = Some (PDone (Ok c) t)).
  Proof.
    intros s0 st Hdone Hhp Hs Hcr.
    destruct (run_ok ops init init_ok) as (Hok & _). fold s0 in Hok.
    pose proof (linit_inv s0 hps Hok) as Hi.
    destruct (linit_J s0 hps) as [A B].
    destruct (lrun_J (s_cache s0) hps sched _ Hi A B) as [H1 H2]. fold st in H1, H2.
    destruct (lrun_inv hps sched _ Hi) as ([_ Ht] & _). fold st in Ht.
    unfold all_done in Hdone. rewrite forallb_forall in Hdone.
    destruct (lookup h (l_cache st)) as [c|] eqn:El.
    - exists c. split; [reflexivity|]. apply H1. assumption.
    - exfalso. destruct (H2 h Hcr El) as [(i' & q & Hq & Hp)|Hall].
      + apply nth_error_In in Hq. apply Hdone in Hq.
        destruct Hp as [->|[->|[c ->]]]; discriminate.
      + pose proof (Hall i hp port Hhp Hs) as Hq.
        apply nth_error_In in Hq. apply Hdone in Hq. discriminate.
  Qed.

  (* first requests: the host had no certificate before; the cache ends with one the callers got *)
  Theorem concurrent_first_requests ops hps sched i hp h port :
    let s0 := run ops init in
    let st := lrun sched (linit s0 hps) in
    all_done st = true ->
    nth_error hps i = Some hp -> split_host_port hp = Some (h, port) -> creatable h = true ->
    lookup h (s_cache s0) = None ->
    exists c i' t, lookup h (l_cache st) = Some c /\ for_host hps i' h /\
                   nth_error (l_threads st) i' = Some (PDone (Ok c) t).
  Proof.
    intros s0 st Hdone Hhp Hs Hcr Hnone.
    destruct (concurrent_cache_holds_one ops hps sched i hp h port Hdone Hhp Hs Hcr) as (c & Hl & [Hm|(i' & t & Hf & Hp)]).
    - fold s0 in Hm. congruence.
    - exists c, i', t. auto.
  Qed.

  (* a caller running alone is exactly the sequential function *)
  Theorem solo_refines_get_cert hp s :
    let st := lrun [(O, 0); (O, 0); (O, 0); (O, 0)] (linit s [hp]) in
    exists t, l_threads st = [PDone (snd (get_cert hp s)) t] /\
              l_cache st = s_cache (fst (get_cert hp s)) /\ l_next st = s_next (fst (get_cert hp s)).
  Proof.
    unfold get_cert, fresh. simpl. rewrite !Z.add_0_r.
    destruct (split_host_port hp) as [[h port]|]; simpl.
    - destruct (lookup h (s_cache s)) as [c|]; simpl.
      + destruct (expired (s_now s) c); simpl.
        * destruct (creatable h); simpl; eexists; repeat split.
        * eexists; repeat split.
      + destruct (creatable h); simpl; eexists; repeat split.
    - eexists; repeat split.
  Qed.

End WithParseIP.
