From Reservoir Require Import Base.Prelude Model.Range.
From Coq Require Import ZifyBool.
Ltac Zify.zify_post_hook ::= Z.div_mod_to_equations.

(* ---------------------------------------------------------------------- *)
(* parseRangeNumber: the returned index stays inside the string            *)

Lemma pn_loop_bounds s : forall i num index n idx,
  pn_loop s i num index = Some (n, idx) -> index <= idx <= index + zlen s.
Proof.
  induction s as [|ch rest IH]; intros i num index n idx H; cbn [pn_loop] in H.
  - inversion H; subst. unfold zlen; simpl. lia.
  - unfold zlen in *. cbn [length]. rewrite Nat2Z.inj_succ.
    destruct ((ch =? 32) || (ch =? 9)) eqn:Esp.
    + apply IH in H. lia.
    + destruct ((ch <? 48) || (57 <? ch)) eqn:End.
      * destruct (i =? 0); [discriminate|]. inversion H; subst. lia.
      * destruct ((max_int64 - (ch - 48)) / 10 <? num); [discriminate|].
        apply IH in H. lia.
Qed.

Lemma parse_number_bounds s n idx :
  parse_number s = Some (n, idx) -> 0 <= idx <= zlen s.
Proof.
  unfold parse_number. destruct s as [|c r]; [discriminate|].
  destruct (c =? 45); [discriminate|]. intros H. apply pn_loop_bounds in H. lia.
Qed.

(* ---------------------------------------------------------------------- *)
(* No index expression of parseRangeHeader can go out of bounds            *)

Lemma index_at_ok s i : 0 <= i < zlen s -> exists c, index_at s i = Ok c.
Proof.
  unfold index_at, zlen. intros H.
  destruct (i <? 0) eqn:E; [lia|].
  destruct (nth_error s (Z.to_nat i)) eqn:N; [eauto|].
  apply nth_error_None in N. lia.
Qed.

Lemma slice_from_ok s i : 0 <= i <= zlen s -> slice_from s i = Ok (zskipn i s).
Proof.
  unfold slice_from. intros H.
  destruct ((i <? 0) || (zlen s <? i)) eqn:E; [lia|reflexivity].
Qed.

Lemma zlen_skipn {A} (l : list A) i : 0 <= i <= zlen l -> zlen (zskipn i l) = zlen l - i.
Proof.
  unfold zlen, zskipn. intros H. rewrite skipn_length. lia.
Qed.

Lemma zlen_nonneg {A} (l : list A) : 0 <= zlen l.
Proof. unfold zlen. lia. Qed.

Lemma zlen_nil_iff (l : str) : str_eqb l [] = false -> 1 <= zlen l.
Proof. destruct l; simpl; [discriminate|]. unfold zlen. simpl. lia. Qed.

Theorem parse_range_no_panic s : parse_range s <> Panic.
Proof.
  unfold parse_range.
  destruct (split_eq s) as [[unit values]|]; [|discriminate].
  destruct (negb (str_eqb unit bytes_lit)); [discriminate|].
  destruct (str_eqb values []) eqn:Ev; [discriminate|].
  apply zlen_nil_iff in Ev.
  destruct (index_at_ok values 0 ltac:(lia)) as [c0 ->]. cbn [res_bind].
  destruct (c0 =? 45).
  - rewrite slice_from_ok by lia. cbn [res_bind].
    destruct (parse_number (zskipn 1 values)) as [[n t]|] eqn:P; [|discriminate].
    apply parse_number_bounds in P. rewrite zlen_skipn in P by lia.
    destruct (t + 1 <? zlen values) eqn:Sm.
    + destruct (index_at_ok values (t + 1) ltac:(lia)) as [c ->]. cbn [res_bind].
      destruct (c =? 44); [discriminate|]. destruct (c =? 45); discriminate.
    + discriminate.
  - destruct (parse_number values) as [[st t]|] eqn:P; [|discriminate].
    apply parse_number_bounds in P.
    destruct (zlen values <=? t) eqn:G1; [discriminate|].
    destruct (index_at_ok values t ltac:(lia)) as [c ->]. cbn [res_bind].
    destruct (negb (c =? 45)); [discriminate|].
    destruct (zlen values <=? t + 1) eqn:G2; [discriminate|].
    rewrite slice_from_ok by lia. cbn [res_bind].
    destruct (parse_number (zskipn (t + 1) values)) as [[e t2]|] eqn:P2; [|discriminate].
    apply parse_number_bounds in P2. rewrite zlen_skipn in P2 by lia.
    destruct (t2 + t + 1 <? zlen values) eqn:G3.
    + destruct (index_at_ok values (t2 + t + 1) ltac:(lia)) as [c2 ->]. cbn [res_bind].
      destruct (c2 =? 44); discriminate.
    + discriminate.
Qed.

Theorem serve_range_no_panic retry hdr ir st : serve_range retry hdr ir st <> APanic.
Proof.
  unfold serve_range, header_range.
  pose proof (parse_range_no_panic hdr) as NP.
  destruct (parse_range hdr) as [r| |]; [| |contradiction].
  - unfold range_answer. destruct (slice_size r (st_size st)) as [[a b]|].
    + destruct ir; try discriminate.
      * destruct (negb (str_eqb t (st_etag st))); discriminate.
      * destruct (negb (t =? st_lastmod st)); discriminate.
    + destruct retry; discriminate.
  - unfold range_answer. discriminate.
Qed.

(* ---------------------------------------------------------------------- *)
(* A 206 lies inside the representation and has the announced length        *)

Lemma slice_size_inside r size a b :
  slice_size r size = Some (a, b) -> 0 <= a /\ a <= b /\ b < size.
Proof.
  unfold slice_size. destruct r as [s e].
  destruct ((e =? -1) && (s =? -1)); [discriminate|].
  destruct (if s =? -1 then _ else _) as [a' b'].
  unfold validate_range.
  destruct (negb _) eqn:V; [|discriminate]. intros H; inversion H; subst. lia.
Qed.

Theorem range_answer_inside retry rng ir st a b len :
  range_answer retry rng ir st = Partial a b len ->
  0 <= a /\ a <= b /\ b < st_size st /\ len = b - a + 1.
Proof.
  unfold range_answer. destruct rng as [r|]; [|discriminate].
  destruct (slice_size r (st_size st)) as [[a' b']|] eqn:S.
  - destruct (match ir with IRNone => _ | _ => _ end); [discriminate|].
    intros H; inversion H; subst. apply slice_size_inside in S. lia.
  - destruct retry; discriminate.
Qed.

(* Every non-206 answer is a 416 announcing the stored size or the full 200. *)
Theorem range_answer_refusals retry rng ir st :
  match range_answer retry rng ir st with
  | Partial _ _ _ => True
  | Refuse416 sz => sz = st_size st /\ retry = false
  | Full s => s = 200
  | APanic => False
  end.
Proof.
  unfold range_answer. destruct rng as [r|]; [|reflexivity].
  destruct (slice_size r (st_size st)) as [[a b]|].
  - destruct (match ir with IRNone => _ | _ => _ end); [reflexivity|exact I].
  - destruct retry; [reflexivity|split; reflexivity].
Qed.

(* An If-Range that does not match the stored validator yields the full 200. *)
Theorem if_range_mismatch_full retry rng st t :
  t <> st_etag st -> range_answer retry (Some rng) (IRTag t) st <> Full 200 ->
  exists sz, range_answer retry (Some rng) (IRTag t) st = Refuse416 sz.
Proof.
  intros Hne. unfold range_answer.
  destruct (slice_size rng (st_size st)) as [[a b]|].
  - apply str_eqb_neq in Hne. rewrite Hne. simpl. congruence.
  - destruct retry; [congruence|eauto].
Qed.

Theorem if_range_time_mismatch_full retry rng st t :
  t <> st_lastmod st -> range_answer retry (Some rng) (IRTime t) st <> Full 200 ->
  exists sz, range_answer retry (Some rng) (IRTime t) st = Refuse416 sz.
Proof.
  intros Hne. unfold range_answer.
  destruct (slice_size rng (st_size st)) as [[a b]|].
  - destruct (t =? st_lastmod st) eqn:E; cbn [negb]; [apply Z.eqb_eq in E; contradiction|congruence].
  - destruct retry; [congruence|eauto].
Qed.

(* The section reader delivers exactly len bytes starting at a. *)
Lemma section_length body a len :
  0 <= a -> 0 <= len -> a + len <= zlen body -> zlen (section body a len) = len.
Proof.
  unfold section, zfirstn, zskipn, zlen. intros Ha Hl Hb.
  rewrite firstn_length, skipn_length. lia.
Qed.

Lemma nth_firstn_lt {A} (l : list A) : forall n i d, (i < n)%nat -> nth i (firstn n l) d = nth i l d.
Proof.
  induction l as [|x l IH]; intros n i d H.
  - rewrite firstn_nil. reflexivity.
  - destruct n; [lia|]. destruct i; [reflexivity|]. cbn [firstn nth]. apply IH. lia.
Qed.

Lemma nth_skipn_add {A} (l : list A) : forall n i d, nth i (skipn n l) d = nth (n + i) l d.
Proof.
  induction l as [|x l IH]; intros n i d.
  - rewrite skipn_nil. destruct i, n; reflexivity.
  - destruct n; [reflexivity|]. cbn [skipn plus nth]. apply IH.
Qed.

Lemma section_nth body a len i d :
  0 <= a -> (i < Z.to_nat len)%nat ->
  nth i (section body a len) d = nth (Z.to_nat a + i) body d.
Proof.
  unfold section, zfirstn, zskipn. intros Ha Hi.
  rewrite nth_firstn_lt by assumption. apply nth_skipn_add.
Qed.

(* ---------------------------------------------------------------------- *)
(* Exactness on well-formed specs                                          *)

Lemma is_digit_range c : is_digit c = true -> 48 <= c <= 57.
Proof. unfold is_digit. lia. Qed.

Lemma dec_acc_mono d : forall acc, all_digits d = true -> 0 <= acc -> acc <= dec_acc acc d.
Proof.
  induction d as [|c d IH]; intros acc Hd Hacc; cbn [dec_acc]; [lia|].
  cbn [all_digits forallb] in Hd. apply andb_true_iff in Hd as [Hc Hd].
  apply is_digit_range in Hc.
  specialize (IH (acc * 10 + (c - 48)) Hd ltac:(lia)). lia.
Qed.

(* On a digit string followed by a terminator the loop returns the exact
   value and length, or refuses when the value does not fit an int64. *)
Lemma pn_loop_digits d : forall t i num index,
  all_digits d = true ->
  (t = [] \/ exists r, t = 45 :: r) ->
  0 <= num <= max_int64 -> 0 <= i -> (d = [] -> 0 < i) ->
  pn_loop (d ++ t) i num index =
    if dec_acc num d <=? max_int64 then Some (dec_acc num d, index + zlen d) else None.
Proof.
  induction d as [|c d IH]; intros t i num index Hd Ht Hnum Hi Hne.
  - cbn [app dec_acc]. unfold zlen; cbn [length]. rewrite Z.add_0_r.
    destruct (num <=? max_int64) eqn:E; [|lia].
    destruct Ht as [->|(r & ->)]; cbn [pn_loop]; [reflexivity|].
    change ((45 =? 32) || (45 =? 9)) with false. cbn match.
    change ((45 <? 48) || (57 <? 45)) with true. cbn match.
    destruct (i =? 0) eqn:E0; [specialize (Hne eq_refl); lia|reflexivity].
  - cbn [app pn_loop dec_acc].
    cbn [all_digits forallb] in Hd. apply andb_true_iff in Hd as [Hc Hd].
    pose proof (is_digit_range _ Hc) as Hr.
    destruct ((c =? 32) || (c =? 9)) eqn:Esp; [lia|].
    destruct ((c <? 48) || (57 <? c)) eqn:End; [lia|].
    destruct ((max_int64 - (c - 48)) / 10 <? num) eqn:Eov.
    + pose proof (dec_acc_mono d (num * 10 + (c - 48)) Hd ltac:(lia)) as Hm.
      destruct (dec_acc (num * 10 + (c - 48)) d <=? max_int64) eqn:E; [|reflexivity].
      exfalso. unfold max_int64 in *. lia.
    + rewrite IH; try assumption; try (unfold max_int64 in *; lia).
      unfold zlen. cbn [length]. rewrite Nat2Z.inj_succ.
      destruct (dec_acc (num * 10 + (c - 48)) d <=? max_int64); [|reflexivity].
      f_equal. f_equal. lia.
Qed.

Lemma span_digits_spec s : forall d t, span_digits s = (d, t) ->
  s = d ++ t /\ all_digits d = true /\ (t = [] \/ exists c r, t = c :: r /\ is_digit c = false).
Proof.
  induction s as [|c r IH]; intros d t H; cbn [span_digits] in H.
  - inversion H; subst. repeat split; auto.
  - destruct (is_digit c) eqn:Ec.
    + destruct (span_digits r) as [d' t'] eqn:Er. inversion H; subst.
      destruct (IH d' t eq_refl) as (-> & Hd & Ht).
      repeat split; auto. cbn [all_digits forallb]. rewrite Ec. exact Hd.
    + inversion H; subst. repeat split; auto. right. eauto.
Qed.

Lemma parse_number_digits d t :
  d <> [] -> all_digits d = true -> (t = [] \/ exists r, t = 45 :: r) ->
  parse_number (d ++ t) =
    if dec_value d <=? max_int64 then Some (dec_value d, zlen d) else None.
Proof.
  intros Hne Hd Ht. destruct d as [|c d]; [contradiction|].
  unfold parse_number. cbn [app].
  pose proof Hd as Hd'. cbn [all_digits forallb] in Hd'. apply andb_true_iff in Hd' as [Hc _].
  apply is_digit_range in Hc. destruct (c =? 45) eqn:E; [lia|].
  change (c :: d ++ t) with ((c :: d) ++ t).
  rewrite pn_loop_digits; try assumption; try (unfold max_int64; lia).
  - unfold dec_value. rewrite Z.add_0_l. reflexivity.
  - intros; discriminate.
Qed.

Definition fits (z : Z) : bool := z <=? max_int64.

(* What the parser returns on each well-formed spec. *)
Definition parse_of_spec (sp : spec) : res (Z * Z) :=
  match sp with
  | SSuffix n => if fits n then Ok (-1, n) else Err
  | SFrom a => if fits a then Ok (a, -1) else Err
  | SFromTo a b => if fits a then (if fits b then Ok (a, b) else Err) else Err
  end.

Lemma dec_value_nonneg d : all_digits d = true -> 0 <= dec_value d.
Proof. intros H. unfold dec_value. apply (dec_acc_mono d 0 H). lia. Qed.

Lemma zlen_app {A} (a b : list A) : zlen (a ++ b) = zlen a + zlen b.
Proof. unfold zlen. rewrite app_length. lia. Qed.

Lemma zlen_cons {A} (x : A) l : zlen (x :: l) = 1 + zlen l.
Proof. unfold zlen. cbn [length]. lia. Qed.

Lemma index_at_app_mid (d : str) c r : index_at (d ++ c :: r) (zlen d) = Ok c.
Proof.
  unfold index_at, zlen. destruct (Z.of_nat (length d) <? 0) eqn:E; [lia|].
  rewrite Nat2Z.id. rewrite nth_error_app2 by lia. rewrite Nat.sub_diag. reflexivity.
Qed.

Lemma zskipn_app_exact {A} (d : list A) t : zskipn (zlen d) (d ++ t) = t.
Proof.
  unfold zskipn, zlen. rewrite Nat2Z.id. rewrite skipn_app, skipn_all, Nat.sub_diag. reflexivity.
Qed.

Lemma nonempty_zlen {A} (l : list A) : l <> [] -> 1 <= zlen l.
Proof. destruct l; [contradiction|]. rewrite zlen_cons. pose proof (zlen_nonneg l). lia. Qed.

Theorem parse_range_wellformed s sp :
  wellformed_spec s = Some sp -> parse_range s = parse_of_spec sp.
Proof.
  unfold wellformed_spec, parse_range.
  destruct (split_eq s) as [[unit values]|]; [|discriminate].
  destruct (negb (str_eqb unit bytes_lit)); [discriminate|].
  destruct values as [|c r]; [discriminate|].
  change (str_eqb (c :: r) []) with false. cbn match.
  change (index_at (c :: r) 0) with (Ok (A:=Z) c). cbn [res_bind].
  destruct (c =? 45) eqn:Ec.
  - (* suffix *)
    destruct (span_digits r) as [d t] eqn:Sp.
    destruct d as [|d0 d]; [discriminate|]. destruct t; [|discriminate].
    intros H; inversion H; subst; clear H.
    apply span_digits_spec in Sp as (-> & Hd & _).
    rewrite slice_from_ok by (rewrite zlen_cons; pose proof (zlen_nonneg ((d0 :: d) ++ [])); lia).
    change (zskipn 1 (c :: (d0 :: d) ++ [])) with ((d0 :: d) ++ []). cbn [res_bind].
    rewrite parse_number_digits by (auto; discriminate).
    cbn [parse_of_spec]. unfold fits.
    destruct (dec_value (d0 :: d) <=? max_int64); [|reflexivity].
    rewrite app_nil_r, (zlen_cons c).
    destruct (zlen (d0 :: d) + 1 <? 1 + zlen (d0 :: d)) eqn:E; [lia|reflexivity].
  - destruct (span_digits (c :: r)) as [D t1] eqn:Sp.
    destruct D as [|d0 d1] eqn:HD; [discriminate|]. rewrite <- HD in *.
    assert (HDne : D <> []) by (rewrite HD; discriminate). clear HD d0 d1.
    destruct t1 as [|dash r2]; [discriminate|].
    destruct (dash =? 45) eqn:Ed; [|discriminate].
    apply Z.eqb_eq in Ed; subst dash.
    apply span_digits_spec in Sp as (Heq & Hd1 & _). rewrite Heq. clear Heq.
    pose proof (nonempty_zlen D HDne) as L1.
    rewrite parse_number_digits by eauto.
    destruct r2 as [|x r2'].
    + intros H; inversion H; subst; clear H. cbn [parse_of_spec]. unfold fits.
      destruct (dec_value D <=? max_int64); [|reflexivity].
      rewrite zlen_app. change (zlen [45]) with 1.
      destruct (zlen D + 1 <=? zlen D) eqn:E1; [lia|].
      rewrite index_at_app_mid. cbn [res_bind]. change (negb (45 =? 45)) with false. cbn match.
      rewrite Z.leb_refl. reflexivity.
    + destruct (span_digits (x :: r2')) as [E t2] eqn:Sp2.
      destruct E as [|e0 e1] eqn:HE; [discriminate|]. rewrite <- HE in *.
      assert (HEne : E <> []) by (rewrite HE; discriminate). clear HE e0 e1.
      destruct t2; [|discriminate].
      intros H; inversion H; subst; clear H.
      apply span_digits_spec in Sp2 as (Heq2 & Hd2 & _). rewrite Heq2. clear Heq2.
      rewrite app_nil_r.
      cbn [parse_of_spec]. unfold fits.
      destruct (dec_value D <=? max_int64); [|reflexivity].
      pose proof (nonempty_zlen E HEne) as L2.
      assert (HL : zlen (D ++ 45 :: E) = zlen D + 1 + zlen E)
        by (rewrite zlen_app, zlen_cons; lia).
      rewrite HL.
      destruct (_ <=? zlen D) eqn:E1; [lia|].
      rewrite index_at_app_mid. cbn [res_bind]. change (negb (45 =? 45)) with false. cbn match.
      destruct (_ <=? zlen D + 1) eqn:E2; [lia|].
      rewrite slice_from_ok by lia.
      cbn [res_bind].
      replace (D ++ 45 :: E) with ((D ++ [45]) ++ E)
        by (rewrite <- app_assoc; reflexivity).
      replace (zlen D + 1) with (zlen (D ++ [45]))
        by (rewrite zlen_app; reflexivity).
      rewrite zskipn_app_exact.
      rewrite <- (app_nil_r E) at 1.
      rewrite parse_number_digits by auto.
      destruct (dec_value E <=? max_int64); [|reflexivity].
      rewrite !zlen_app. change (zlen [45]) with 1.
      destruct (_ <? _) eqn:E3; [lia|reflexivity].
Qed.

(* When the client sent a well-formed single byte range and a 206 is built,
   it is exactly that range. *)
Theorem wellformed_exact retry hdr ir st sp a b len :
  0 <= st_size st <= max_int64 ->
  wellformed_spec hdr = Some sp ->
  serve_range retry hdr ir st = Partial a b len ->
  (a, b) = spec_slice sp (st_size st).
Proof.
  intros Hsz Hwf. unfold serve_range, header_range.
  rewrite (parse_range_wellformed _ _ Hwf).
  assert (Hnn : match sp with SSuffix n => 0 <= n | SFrom a => 0 <= a | SFromTo a b => 0 <= a /\ 0 <= b end).
  { revert Hwf. unfold wellformed_spec.
    destruct (split_eq hdr) as [[unit values]|]; [|discriminate].
    destruct (negb _); [discriminate|]. destruct values as [|c r]; [discriminate|].
    destruct (c =? 45).
    - destruct (span_digits r) as [d t] eqn:Sp. destruct d; [discriminate|]. destruct t; [|discriminate].
      intros H; inversion H; subst. apply span_digits_spec in Sp as (_ & Hd & _).
      apply dec_value_nonneg; assumption.
    - destruct (span_digits (c :: r)) as [d1 t1] eqn:Sp. destruct d1; [discriminate|].
      destruct t1 as [|dash r2]; [discriminate|]. destruct (dash =? 45); [|discriminate].
      apply span_digits_spec in Sp as (_ & Hd1 & _).
      destruct r2.
      + intros H; inversion H; subst. apply dec_value_nonneg; assumption.
      + destruct (span_digits (z0 :: r2)) as [d2 t2] eqn:Sp2. destruct d2; [discriminate|].
        destruct t2; [|discriminate]. intros H; inversion H; subst.
        apply span_digits_spec in Sp2 as (_ & Hd2 & _).
        split; apply dec_value_nonneg; assumption. }
  unfold max_int64 in *.
  destruct sp as [x y|x|n]; cbn [parse_of_spec spec_slice]; unfold fits, max_int64.
  - destruct (x <=? _) eqn:Ex; [|cbn; discriminate].
    destruct (y <=? _) eqn:Ey; [|cbn; discriminate].
    unfold range_answer, slice_size.
    destruct ((y =? -1) && (x =? -1)) eqn:E1; [lia|].
    destruct (x =? -1) eqn:E2; [lia|]. destruct (negb (y =? -1)) eqn:E3; [|lia].
    destruct (validate_range x y (st_size st)); [|destruct retry; discriminate].
    destruct (match ir with IRNone => _ | _ => _ end); [discriminate|].
    intros H; inversion H; subst. reflexivity.
  - destruct (x <=? _) eqn:Ex; [|cbn; discriminate].
    unfold range_answer, slice_size.
    change ((-1 =? -1)) with true. cbn [andb].
    destruct (x =? -1) eqn:E2; [lia|]. cbn [negb].
    rewrite wrap64_id by (unfold min_int64, max_int64; lia).
    destruct (validate_range _ _ _); [|destruct retry; discriminate].
    destruct (match ir with IRNone => _ | _ => _ end); [discriminate|].
    intros H; inversion H; subst. reflexivity.
  - destruct (n <=? _) eqn:En; [|cbn; discriminate].
    unfold range_answer, slice_size.
    destruct ((n =? -1) && (-1 =? -1)) eqn:E1; [lia|].
    change (-1 =? -1) with true. cbn match.
    rewrite !wrap64_id by (unfold min_int64, max_int64; lia).
    destruct (validate_range _ _ _); [|destruct retry; discriminate].
    destruct (match ir with IRNone => _ | _ => _ end); [discriminate|].
    intros H; inversion H; subst. reflexivity.
Qed.

Lemma validate_range_true a b size : 0 <= a -> a <= b -> b < size -> validate_range a b size = true.
Proof. unfold validate_range. lia. Qed.

(* Conversely: a well-formed spec that lies inside the representation and
   whose numbers fit is served (no If-Range), so "refuse everything" does not
   satisfy the model. *)
Theorem wellformed_inside_served retry hdr st sp :
  0 <= st_size st <= max_int64 ->
  wellformed_spec hdr = Some sp ->
  let '(a, b) := spec_slice sp (st_size st) in
  0 <= a -> a <= b -> b < st_size st ->
  match sp with SSuffix n => 0 <= n <= max_int64 | SFrom x => x <= max_int64 | SFromTo x y => x <= max_int64 /\ y <= max_int64 end ->
  serve_range retry hdr IRNone st = Partial a b (b - a + 1).
Proof.
  intros Hsz Hwf. unfold serve_range, header_range.
  rewrite (parse_range_wellformed _ _ Hwf).
  unfold max_int64 in *.
  destruct sp as [x y|x|n]; cbn [parse_of_spec spec_slice]; unfold fits, max_int64; intros Ha Hab Hb Hfit.
  - destruct (x <=? _) eqn:Ex; [|lia]. destruct (y <=? _) eqn:Ey; [|lia].
    unfold range_answer, slice_size.
    destruct ((y =? -1) && (x =? -1)) eqn:E1; [lia|].
    destruct (x =? -1) eqn:E2; [lia|]. destruct (negb (y =? -1)) eqn:E3; [|lia].
    rewrite validate_range_true by lia. reflexivity.
  - destruct (x <=? _) eqn:Ex; [|lia].
    unfold range_answer, slice_size. change (-1 =? -1) with true. cbn [andb].
    destruct (x =? -1) eqn:E2; [lia|]. cbn [negb].
    rewrite wrap64_id by (unfold min_int64, max_int64; lia).
    rewrite validate_range_true by lia. reflexivity.
  - destruct (n <=? _) eqn:En; [|lia].
    unfold range_answer, slice_size.
    destruct ((n =? -1) && (-1 =? -1)) eqn:E1; [lia|].
    change (-1 =? -1) with true. cbn match.
    rewrite !wrap64_id by (unfold min_int64, max_int64; lia).
    rewrite validate_range_true by lia. reflexivity.
Qed.
