(* Proofs over ALL request histories of Model/FreshHistory.v (induction over the step
   list): a response is served without contacting the origin only from an entry that an
   earlier GET stored from a storable 200 answer and that is still inside its lifetime
   (or inside the default lifetime after a 304 revalidation); HIT labels exactly those
   responses; and, conversely, a must-store answer is reused for its whole lifetime. *)
From Reservoir Require Import Base.Prelude Base.Strings Model.Freshness Model.FreshnessSpec
  Model.FreshHistory Proofs.Freshness.

(* ---- provenance of the stored entry -------------------------------------------- *)

Definition stored_by (ev0 : event) (e : entry) : Prop :=
  ev_meth ev0 = GET /\ ev_effect ev0 = EStored /\ r_contacted (ev_resp ev0) = true /\
  oa_status (ev_oa ev0) = 200 /\
  storable (ev_pol ev0) GET 200 (oa_hv (ev_oa ev0)) (ev_now ev0) = true /\
  e_version e = oa_version (ev_oa ev0) /\ e_stored_at e = ev_now ev0 /\ e_age e = oa_age (ev_oa ev0).

Definition renewed_by (ev1 : event) (e : entry) : Prop :=
  ev_meth ev1 = GET /\ ev_effect ev1 = ERenewed /\ r_contacted (ev_resp ev1) = true /\
  r_version (ev_resp ev1) = e_version e /\
  e_expires e = ev_now ev1 + default_age (ev_pol ev1).

Definition expiry_just (past : list event) (e : entry) : Prop :=
  (exists ev0, In ev0 past /\ stored_by ev0 e /\
               e_expires e = store_expiry (ev_pol ev0) (oa_hv (ev_oa ev0)) (ev_now ev0))
  \/ (exists ev1, In ev1 past /\ renewed_by ev1 e).

Definition entry_just (past : list event) (e : entry) : Prop :=
  (exists ev0, In ev0 past /\ stored_by ev0 e) /\ expiry_just past e.

Definition inv (s : hstate) (past : list event) : Prop :=
  match hs_entry s with
  | None => True
  | Some e => entry_just past e
  end.

Lemma entry_just_mono past more e : entry_just past e -> entry_just (past ++ more) e.
Proof.
  intros [(ev0 & Hin & Hs) Hx]. split.
  - exists ev0. split; [apply in_or_app; left; exact Hin|exact Hs].
  - destruct Hx as [(a & Hina & Ha)|(b & Hinb & Hb)].
    + left. exists a. split; [apply in_or_app; left; exact Hina|exact Ha].
    + right. exists b. split; [apply in_or_app; left; exact Hinb|exact Hb].
Qed.

(* ---- what a single request guarantees ------------------------------------------- *)

Definition reuse_ok (past : list event) (ev : event) : Prop :=
  r_contacted (ev_resp ev) = false ->
  exists e, entry_just past e /\ ev_meth ev = GET /\ ev_now ev <= e_expires e /\
            ev_resp ev = serve_entry HsHit 0 e (ev_now ev) false.

Definition label_ok (ev : event) : Prop :=
  r_label (ev_resp ev) = Some HsHit <-> r_contacted (ev_resp ev) = false.

Lemma is_get_GET m : is_get m = true -> m = GET.
Proof. destruct m; simpl; congruence. Qed.

Lemma storable_status pol m status hv now :
  storable pol m status hv now = true -> status = 200 /\ m = GET.
Proof.
  unfold storable. intros H. apply andb_true_iff in H as [H Hg]. apply andb_true_iff in H as [_ Hs].
  split; [lia|apply is_get_GET; exact Hg].
Qed.

Lemma relay_label_not_hit oa : r_label (relay oa) <> Some HsHit.
Proof. unfold relay. simpl. destruct (is_2xx (oa_status oa)); congruence. Qed.

(* the three outcomes of receiving the origin's full answer *)
Lemma full_answer_ok pol now st hs oa past st' resp eff ev m r304 :
  hs <> HsHit ->
  (match st with Some e => entry_just past e | None => True end) ->
  full_answer pol now st hs oa = (st', resp, eff) ->
  ev = {| ev_pol := pol; ev_now := now; ev_meth := GET; ev_oa := oa; ev_r304 := r304; ev_resp := resp; ev_effect := eff |} ->
  m = GET ->
  reuse_ok past ev /\ label_ok ev /\
  match st' with Some e => entry_just (past ++ [ev]) e | None => True end.
Proof.
  intros Hhs Hinv Hfa Hev _. unfold full_answer in Hfa.
  destruct (storable pol GET (oa_status oa) (oa_hv oa) now) eqn:Est.
  - inversion Hfa; subst st' resp eff; clear Hfa.
    destruct (storable_status _ _ _ _ _ Est) as [H200 _].
    split; [|split].
    + intros Hc. subst ev. simpl in Hc. discriminate.
    + subst ev. unfold label_ok. simpl. split; [intros H; inversion H; congruence|discriminate].
    + assert (Hsb : stored_by ev (new_entry pol now oa)).
      { subst ev. unfold stored_by. simpl. rewrite H200 in *. repeat split; auto. }
      split.
      * exists ev. split; [apply in_or_app; right; left; reflexivity|exact Hsb].
      * left. exists ev. split; [apply in_or_app; right; left; reflexivity|]. split; [exact Hsb|].
        subst ev. reflexivity.
  - inversion Hfa; subst st' resp eff; clear Hfa. split; [|split].
    + intros Hc. subst ev. simpl in Hc. discriminate.
    + subst ev. unfold label_ok. simpl. split; [intros H; exfalso; eapply relay_label_not_hit; exact H|discriminate].
    + destruct st as [e|]; [apply entry_just_mono; exact Hinv|exact I].
Qed.

Lemma step_inv s x s' oev past :
  inv s past -> step s x = (s', oev) ->
  match oev with
  | None => inv s' past
  | Some ev => reuse_ok past ev /\ label_ok ev /\ inv s' (past ++ [ev])
  end.
Proof.
  intros Hinv Hstep. destruct x as [d|p|m oa r304]; simpl in Hstep.
  - inversion Hstep; subst. exact Hinv.
  - inversion Hstep; subst. exact Hinv.
  - destruct (is_get m) eqn:Eg.
    + apply is_get_GET in Eg. subst m.
      destruct (get_step (hs_pol s) (hs_now s) (hs_entry s) oa r304) as [[st' resp] eff] eqn:Egs.
      inversion Hstep; subst s' oev; clear Hstep. unfold inv in *. cbn [hs_entry].
      unfold get_step in Egs. destruct (hs_entry s) as [e|] eqn:Ee.
      * destruct (fresh e (hs_now s)) eqn:Ef.
        -- (* hit *)
           inversion Egs; subst st' resp eff; clear Egs. split; [|split].
           ++ intros _. exists e. cbn [ev_meth ev_now ev_resp]. repeat split; try apply Hinv.
              unfold fresh in Ef. apply negb_true_iff in Ef. lia.
           ++ unfold label_ok. simpl. tauto.
           ++ apply entry_just_mono. exact Hinv.
        -- destruct (r304 || (oa_status oa =? 304)) eqn:E304.
           ++ (* 304: renewed by the default lifetime *)
              inversion Egs; subst st' resp eff; clear Egs. split; [|split].
              ** intros Hc. simpl in Hc. discriminate.
              ** unfold label_ok. simpl. split; [intros H; inversion H|discriminate].
              ** destruct Hinv as [(ev0 & Hin & Hs) _]. split.
                 --- exists ev0. split; [apply in_or_app; left; exact Hin|exact Hs].
                 --- right. eexists. split; [apply in_or_app; right; left; reflexivity|].
                     unfold renewed_by. simpl. repeat split; reflexivity.
           ++ eapply full_answer_ok with (st := Some e) (hs := HsRevalidated) (m := GET) (r304 := r304);
                [discriminate|exact Hinv|exact Egs|reflexivity|reflexivity].
      * eapply full_answer_ok with (st := None) (hs := HsMiss) (m := GET) (r304 := r304);
          [discriminate|exact I|exact Egs|reflexivity|reflexivity].
    + unfold other_step in Hstep.
      assert (Hmono : forall ev, match hs_entry s with Some e => entry_just (past ++ [ev]) e | None => True end).
      { intros ev. unfold inv in Hinv. destruct (hs_entry s); [apply entry_just_mono; exact Hinv|exact I]. }
      inversion Hstep; subst s' oev; clear Hstep; unfold inv; cbn [hs_entry].
      split; [|split].
      * intros Hc. simpl in Hc. discriminate.
      * unfold label_ok. cbn [ev_resp]. split; [intros H; exfalso; eapply relay_label_not_hit; exact H|discriminate].
      * apply Hmono.
Qed.

(* ---- every event of every history ------------------------------------------------ *)

Lemma run_cons s x h :
  run s (x :: h) =
  let '(s1, oev) := step s x in
  let '(evs, s2) := run s1 h in
  (match oev with Some ev => ev :: evs | None => evs end, s2).
Proof. reflexivity. Qed.

Lemma run_ok h : forall s past,
  inv s past ->
  forall evs1 ev evs2, fst (run s h) = evs1 ++ ev :: evs2 ->
  reuse_ok (past ++ evs1) ev /\ label_ok ev.
Proof.
  induction h as [|x h IH]; intros s past Hinv evs1 ev evs2 Hrun.
  - simpl in Hrun. destruct evs1; discriminate.
  - rewrite run_cons in Hrun.
    destruct (step s x) as [s1 oev] eqn:Es. destruct (run s1 h) as [evs s2] eqn:Er.
    pose proof (step_inv s x s1 oev past Hinv Es) as Hst.
    simpl in Hrun. destruct oev as [ev0|].
    + destruct Hst as (Hr & Hl & Hinv1).
      destruct evs1 as [|a evs1'].
      * simpl in Hrun. inversion Hrun; subst. rewrite app_nil_r. split; assumption.
      * simpl in Hrun. inversion Hrun; subst a.
        specialize (IH s1 (past ++ [ev0]) Hinv1 evs1' ev evs2).
        rewrite Er in IH. specialize (IH H1).
        rewrite <- app_assoc in IH. exact IH.
    + specialize (IH s1 past Hst evs1 ev evs2). rewrite Er in IH. exact (IH Hrun).
Qed.

(* ---- the history-level statements --------------------------------------------------- *)

(* Everything C03 and C04 say about a response that did not reach the origin. *)
Theorem hist_reuse pol0 now0 h evs1 ev evs2 :
  events (init_state pol0 now0) h = evs1 ++ ev :: evs2 ->
  r_contacted (ev_resp ev) = false ->
  exists ev0 exp,
    In ev0 evs1 /\ ev_meth ev0 = GET /\ oa_status (ev_oa ev0) = 200 /\
    r_contacted (ev_resp ev0) = true /\ ev_effect ev0 = EStored /\
    storable (ev_pol ev0) GET 200 (oa_hv (ev_oa ev0)) (ev_now ev0) = true /\
    ev_meth ev = GET /\
    ev_resp ev = {| r_status := 200; r_version := oa_version (ev_oa ev0); r_label := Some HsHit;
                    r_cs := Some (make_cache_status HsHit 0 true exp (ev_now ev));
                    r_age := Some (current_age (Some (ev_now ev0)) (oa_age (ev_oa ev0)) (ev_now ev0) (ev_now ev));
                    r_contacted := false |} /\
    ev_now ev <= exp /\
    (exp = store_expiry (ev_pol ev0) (oa_hv (ev_oa ev0)) (ev_now ev0)
     \/ exists ev1, In ev1 evs1 /\ ev_meth ev1 = GET /\ ev_effect ev1 = ERenewed /\
                    r_contacted (ev_resp ev1) = true /\
                    r_version (ev_resp ev1) = oa_version (ev_oa ev0) /\
                    exp = ev_now ev1 + default_age (ev_pol ev1)).
Proof.
  intros Hrun Hc. unfold events in Hrun.
  destruct (run_ok h (init_state pol0 now0) [] I evs1 ev evs2 Hrun) as [Hr _].
  simpl in Hr. destruct (Hr Hc) as (e & [(ev0 & Hin0 & Hs0) Hx] & Hm & Hle & Hresp).
  assert (Hshape : forall eva, stored_by eva e ->
     ev_resp ev = {| r_status := 200; r_version := oa_version (ev_oa eva); r_label := Some HsHit;
                     r_cs := Some (make_cache_status HsHit 0 true (e_expires e) (ev_now ev));
                     r_age := Some (current_age (Some (ev_now eva)) (oa_age (ev_oa eva)) (ev_now eva) (ev_now ev));
                     r_contacted := false |}).
  { intros eva (_ & _ & _ & _ & _ & Hv & Hat & Hag). rewrite Hresp. unfold serve_entry, entry_age.
    rewrite Hv, Hat, Hag. reflexivity. }
  destruct Hx as [(a & Hina & Ha & Hexp)|(b & Hinb & Hb)].
  - exists a, (e_expires e). pose proof Ha as (Ha1 & Ha2 & Ha3 & Ha4 & Ha5 & _).
    repeat (split; [solve [auto]|]). left. exact Hexp.
  - exists ev0, (e_expires e). pose proof Hs0 as (Ha1 & Ha2 & Ha3 & Ha4 & Ha5 & Hv & _).
    repeat (split; [solve [auto]|]). right. destruct Hb as (Hb1 & Hb2 & Hb3 & Hb4 & Hb5).
    exists b. repeat (split; [solve [auto|congruence]|]). exact Hb5.
Qed.

Theorem hist_label pol0 now0 h evs1 ev evs2 :
  events (init_state pol0 now0) h = evs1 ++ ev :: evs2 ->
  (r_label (ev_resp ev) = Some HsHit <-> r_contacted (ev_resp ev) = false).
Proof.
  intros Hrun. unfold events in Hrun.
  destruct (run_ok h (init_state pol0 now0) [] I evs1 ev evs2 Hrun) as [_ Hl]. exact Hl.
Qed.

(* in reference terms: the reuse happens inside the lifetime the property prescribes *)
Theorem hist_reuse_spec pol0 now0 h evs1 ev evs2 :
  events (init_state pol0 now0) h = evs1 ++ ev :: evs2 ->
  r_contacted (ev_resp ev) = false ->
  exists ev0,
    In ev0 evs1 /\ ev_meth ev0 = GET /\ oa_status (ev_oa ev0) = 200 /\ r_contacted (ev_resp ev0) = true /\
    ev_meth ev = GET /\ r_status (ev_resp ev) = 200 /\ r_version (ev_resp ev) = oa_version (ev_oa ev0) /\
    (zero_time < ev_now ev0 -> may_store (ev_pol ev0) GET 200 (oa_hv (ev_oa ev0)) (ev_now ev0) = true) /\
    ((zero_time < ev_now ev0 ->
      force_default (ev_pol ev0) = true \/ ascii_header (oa_hv (ev_oa ev0)) = true ->
      ev_now ev - ev_now ev0 <= lifetime_upper (ev_pol ev0) (oa_hv (ev_oa ev0)) (ev_now ev0))
     \/ exists ev1, In ev1 evs1 /\ ev_meth ev1 = GET /\ r_contacted (ev_resp ev1) = true /\
                    r_version (ev_resp ev1) = r_version (ev_resp ev) /\
                    ev_now ev - ev_now ev1 <= default_age (ev_pol ev1)).
Proof.
  intros Hrun Hc.
  destruct (hist_reuse pol0 now0 h evs1 ev evs2 Hrun Hc)
    as (ev0 & exp & Hin & Hm0 & H200 & Hc0 & _ & Hst & Hm & Hresp & Hle & Hexp).
  exists ev0. rewrite Hresp. cbn [r_status r_version].
  repeat (split; [solve [auto]|]). split.
  - intros Hz. apply storable_only_if; assumption.
  - destruct Hexp as [->|(ev1 & Hin1 & Hm1 & _ & Hc1 & Hv1 & ->)].
    + left. intros Hz Hj. pose proof (lifetime_upper_bound (ev_pol ev0) (oa_hv (ev_oa ev0)) (ev_now ev0) Hz Hj). lia.
    + right. exists ev1. repeat (split; [solve [auto]|]). lia.
Qed.

(* ---- converse: a must-store answer is stored and reused while fresh ----------------- *)

Fixpoint total_advance (h : list hstep) : Z :=
  match h with
  | [] => 0
  | Advance d :: r => d + total_advance r
  | _ :: r => total_advance r
  end.

Definition forward (x : hstep) : Prop := match x with Advance d => 0 <= d | _ => True end.

Definition is_hit_of (v : Z) (ev : event) : Prop :=
  is_get (ev_meth ev) = true ->
  r_contacted (ev_resp ev) = false /\ r_version (ev_resp ev) = v /\
  r_status (ev_resp ev) = 200 /\ r_label (ev_resp ev) = Some HsHit.

Lemma quiet_hits cont : forall s e,
  hs_entry s = Some e -> Forall forward cont ->
  hs_now s + total_advance cont <= e_expires e ->
  Forall (is_hit_of (e_version e)) (events s cont).
Proof.
  induction cont as [|x cont IH]; intros s e He Hf Hle; [constructor|].
  inversion Hf as [|? ? Hx Hf']; subst. unfold events. rewrite run_cons.
  destruct (step s x) as [s1 oev] eqn:Es. destruct (run s1 cont) as [evs s2] eqn:Er.
  assert (Hevs : evs = events s1 cont) by (unfold events; rewrite Er; reflexivity).
  assert (Htot : 0 <= total_advance cont).
  { clear -Hf'. induction Hf' as [|y l Hy _ IHl]; simpl; [lia|]. destruct y; simpl in *; lia. }
  destruct x as [d|p|m oa r304]; simpl in Es.
  - inversion Es; subst s1 oev; clear Es. simpl. rewrite Hevs. apply (IH _ e); auto.
    simpl in *. lia.
  - inversion Es; subst s1 oev; clear Es. simpl. rewrite Hevs. apply (IH _ e); auto.
  - simpl in Hle. destruct (is_get m) eqn:Eg.
    + unfold get_step in Es. rewrite He in Es.
      assert (Hfr : fresh e (hs_now s) = true) by (unfold fresh; apply negb_true_iff; lia).
      rewrite Hfr in Es. inversion Es; subst s1 oev; clear Es. simpl. constructor.
      * intros _. simpl. auto.
      * rewrite Hevs. apply (IH _ e); auto.
    + unfold other_step in Es. rewrite He in Es.
      destruct (oa_status oa =? 304); inversion Es; subst s1 oev; clear Es; simpl; constructor;
        try (intros Hg; simpl in Hg; congruence); rewrite Hevs; apply (IH _ e); auto.
Qed.

Definition answer_arrives (s : hstate) (r304 : bool) : Prop :=
  hs_entry s = None \/
  exists e, hs_entry s = Some e /\ fresh e (hs_now s) = false /\ r304 = false.

Theorem hist_converse s oa r304 s' oev :
  answer_arrives s r304 ->
  must_store (hs_pol s) GET (oa_status oa) (oa_hv oa) (hs_now s) = true ->
  step s (Request GET oa r304) = (s', oev) ->
  exists ev, oev = Some ev /\
    r_contacted (ev_resp ev) = true /\ r_status (ev_resp ev) = 200 /\
    r_version (ev_resp ev) = oa_version oa /\ ev_effect ev = EStored /\
    forall cont, Forall forward cont ->
      hs_now s + total_advance cont <= store_expiry (hs_pol s) (oa_hv oa) (hs_now s) ->
      Forall (is_hit_of (oa_version oa)) (events s' cont).
Proof.
  intros Harr Hms Hstep.
  pose proof (storable_converse _ _ _ _ _ Hms) as Hst.
  destruct (storable_status _ _ _ _ _ Hst) as [H200 _].
  assert (Hfull : get_step (hs_pol s) (hs_now s) (hs_entry s) oa r304 =
                  (Some (new_entry (hs_pol s) (hs_now s) oa),
                   serve_entry (match hs_entry s with None => HsMiss | Some _ => HsRevalidated end) 200
                               (new_entry (hs_pol s) (hs_now s) oa) (hs_now s) true, EStored)).
  { unfold get_step, full_answer. rewrite Hst. rewrite H200. simpl (200 =? 304).
    destruct Harr as [->|(e & -> & -> & ->)]; reflexivity. }
  simpl in Hstep. rewrite Hfull in Hstep. inversion Hstep; subst s' oev; clear Hstep.
  eexists. split; [reflexivity|]. cbn [ev_resp ev_effect]. repeat (split; [reflexivity|]).
  intros cont Hf Hle.
  apply (quiet_hits cont _ (new_entry (hs_pol s) (hs_now s) oa)); [reflexivity|exact Hf|exact Hle].
Qed.

(* the same in reference terms: reuse for the whole prescribed lifetime *)
Theorem hist_converse_spec s oa r304 s' oev cont :
  answer_arrives s r304 ->
  must_store (hs_pol s) GET (oa_status oa) (oa_hv oa) (hs_now s) = true ->
  step s (Request GET oa r304) = (s', oev) ->
  force_default (hs_pol s) = true \/ ascii_header (oa_hv oa) = true ->
  Forall forward cont ->
  total_advance cont < lifetime_lower (hs_pol s) (oa_hv oa) (hs_now s) ->
  Forall (is_hit_of (oa_version oa)) (events s' cont).
Proof.
  intros Harr Hms Hstep Hj Hf Hlt.
  destruct (hist_converse s oa r304 s' oev Harr Hms Hstep) as (ev & _ & _ & _ & _ & _ & Hall).
  apply Hall; [exact Hf|].
  assert (Htot : 0 <= total_advance cont).
  { clear -Hf. induction Hf as [|y l Hy _ IHl]; simpl; [lia|]. destruct y; simpl in *; lia. }
  pose proof (lifetime_lower_bound (hs_pol s) (oa_hv oa) (hs_now s) Hj ltac:(lia)). lia.
Qed.

(* ---- a single request: no contact only with a fresh entry ---------------------------- *)

Theorem expiry_forces_contact s m oa r304 s' ev :
  step s (Request m oa r304) = (s', Some ev) ->
  r_contacted (ev_resp ev) = false ->
  exists e, hs_entry s = Some e /\ hs_now s <= e_expires e /\ m = GET /\ s' = s.
Proof.
  intros Hstep Hc. simpl in Hstep. destruct (is_get m) eqn:Eg.
  - apply is_get_GET in Eg. subst m. unfold get_step, full_answer in Hstep.
    destruct (hs_entry s) as [e|] eqn:Ee.
    + destruct (fresh e (hs_now s)) eqn:Ef.
      * inversion Hstep; subst. exists e. unfold fresh in Ef. apply negb_true_iff in Ef.
        repeat split; try lia. destruct s; simpl in *. rewrite Ee. reflexivity.
      * destruct (r304 || (oa_status oa =? 304)); [inversion Hstep; subst; simpl in Hc; discriminate|].
        destruct (storable (hs_pol s) GET (oa_status oa) (oa_hv oa) (hs_now s));
          inversion Hstep; subst; simpl in Hc; discriminate.
    + destruct (storable (hs_pol s) GET (oa_status oa) (oa_hv oa) (hs_now s));
        inversion Hstep; subst; simpl in Hc; discriminate.
  - unfold other_step in Hstep.
    inversion Hstep; subst; simpl in Hc; discriminate.
Qed.
