(* Lockset discipline => no reachable state of any schedule of any number of
   threads contains a data race (Model/Race.v). *)
From Reservoir Require Import Base.Prelude Model.Sync Model.Race Proofs.Sync.
From Coq Require Import Arith PeanoNat Lia.

Local Open Scope nat_scope.

Lemma mode_eqb_eq a b : mode_eqb a b = true <-> a = b.
Proof. destruct a, b; simpl; split; intros H; try discriminate; reflexivity. Qed.

Lemma hl_eqb_eq a b : hl_eqb a b = true <-> a = b.
Proof.
  destruct a as [l m], b as [l' m']. unfold hl_eqb. simpl.
  rewrite andb_true_iff, lock_eqb_eq, mode_eqb_eq. split; [intros [-> ->]; reflexivity|intros H; inversion H; auto].
Qed.

Lemma hmem_In x h : hmem x h = true <-> In x h.
Proof.
  induction h as [|y r IH]; simpl.
  - split; [discriminate|tauto].
  - rewrite orb_true_iff, IH, hl_eqb_eq. split; intros [H|H]; auto.
Qed.

Lemma hremove1_In a x h : In x (hremove1 a h) -> In x h.
Proof.
  induction h as [|y r IH]; simpl; [tauto|].
  destruct (hl_eqb a y); simpl; intros H; [right; exact H|].
  destruct H as [H|H]; [left; exact H|right; apply IH; exact H].
Qed.

Lemma can_acq_W s l : can_acq s l MW = true -> forall t m, In t s -> ~ In (l, m) (rheld t).
Proof.
  simpl. rewrite forallb_forall. intros H t m Ht Hin. specialize (H t Ht).
  apply negb_true_iff in H. unfold holds_any, holds_mode in H. apply orb_false_iff in H as [H1 H2].
  apply hmem_In in Hin. destruct m; congruence.
Qed.

Lemma can_acq_R s l : can_acq s l MR = true -> forall t, In t s -> ~ In (l, MW) (rheld t).
Proof.
  simpl. rewrite forallb_forall. intros H t Ht Hin. specialize (H t Ht).
  apply negb_true_iff in H. unfold holds_mode in H. apply hmem_In in Hin. congruence.
Qed.

(* a writer excludes every other holder *)
Definition lock_inv (s : rsys) : Prop :=
  forall i j ti tj l m, nth_error s i = Some ti -> nth_error s j = Some tj ->
    In (l, MW) (rheld ti) -> In (l, m) (rheld tj) -> i = j.

Definition rwf (G : loc -> option lock) (s : rsys) : Prop :=
  lock_inv s /\ forall t, In t s -> guarded G (rheld t) (rcode t) = true.

Lemma lock_inv_upd s i t t' :
  lock_inv s -> nth_error s i = Some t ->
  (forall l m, In (l, m) (rheld t') -> In (l, m) (rheld t) \/ can_acq s l m = true) ->
  lock_inv (upd_nth i t' s).
Proof.
  intros Hinv Hi Hsub a b ta tb l m Ha Hb Hla Hlb.
  destruct (Nat.eq_dec i a) as [<-|Hia]; destruct (Nat.eq_dec i b) as [<-|Hib]; try reflexivity.
  - rewrite (nth_error_upd_same _ _ _ _ Hi) in Ha. inversion Ha; subst ta.
    rewrite nth_error_upd_other in Hb by exact Hib.
    destruct (Hsub _ _ Hla) as [Hold|Hacq].
    + eapply Hinv; eauto.
    + exfalso. eapply can_acq_W; [exact Hacq|eapply nth_error_In; exact Hb|exact Hlb].
  - rewrite (nth_error_upd_same _ _ _ _ Hi) in Hb. inversion Hb; subst tb.
    rewrite nth_error_upd_other in Ha by exact Hia.
    destruct (Hsub _ _ Hlb) as [Hold|Hacq].
    + eapply Hinv; eauto.
    + exfalso. destruct m.
      * eapply can_acq_R; [exact Hacq|eapply nth_error_In; exact Ha|exact Hla].
      * eapply can_acq_W; [exact Hacq|eapply nth_error_In; exact Ha|exact Hla].
  - rewrite nth_error_upd_other in Ha by exact Hia.
    rewrite nth_error_upd_other in Hb by exact Hib.
    eapply Hinv; eauto.
Qed.

Lemma rthread_step_rwf G s i t c t' :
  rwf G s -> nth_error s i = Some t -> rthread_step s t c = Some t' -> rwf G (upd_nth i t' s).
Proof.
  intros [Hinv Hg] Hi Hst.
  assert (Hin : In t s) by (eapply nth_error_In; exact Hi).
  pose proof (Hg t Hin) as Hgt.
  assert (Hgoal : (forall l m, In (l, m) (rheld t') -> In (l, m) (rheld t) \/ can_acq s l m = true) /\
                  guarded G (rheld t') (rcode t') = true).
  { unfold rthread_step in Hst.
    destruct (rcode t) as [|l m k|l m k|l m kok kfail|a b|x w k|k] eqn:Ec; cbn [guarded] in Hgt.
    - discriminate.
    - destruct (can_acq s l m) eqn:Ea; [|discriminate]. inversion Hst; subst t'; simpl.
      split; [|exact Hgt]. intros l' m' [H|H]; [inversion H; subst; right; exact Ea|left; exact H].
    - destruct (hmem (l, m) (rheld t)) eqn:Em; [|discriminate]. inversion Hst; subst t'; simpl.
      apply andb_true_iff in Hgt as [_ Hk].
      split; [|exact Hk]. intros l' m' H. left. eapply hremove1_In; exact H.
    - apply andb_true_iff in Hgt as [Hok Hfail].
      destruct (can_acq s l m) eqn:Ea; inversion Hst; subst t'; simpl.
      + split; [|exact Hok]. intros l' m' [H|H]; [inversion H; subst; right; exact Ea|left; exact H].
      + split; [auto|exact Hfail].
    - apply andb_true_iff in Hgt as [Ha Hb]. inversion Hst; subst t'; simpl.
      split; [auto|]. destruct c; assumption.
    - inversion Hst; subst t'; simpl. split; [auto|].
      destruct (G x); [|discriminate]. apply andb_true_iff in Hgt as [_ Hk]. exact Hk.
    - inversion Hst; subst t'; simpl. split; [auto|exact Hgt]. }
  destruct Hgoal as [H1 H2]. split.
  - eapply lock_inv_upd; eauto.
  - intros u Hu. apply In_upd_nth in Hu as [->|Hu]; auto.
Qed.

Lemma rrun_rwf G sched : forall s s', rwf G s -> rrun s sched = Some s' -> rwf G s'.
Proof.
  induction sched as [|[i c] r IH]; simpl; intros s s' Hwf H.
  - inversion H; subst; exact Hwf.
  - unfold rsys_step in H.
    destruct (nth_error s i) as [t|] eqn:Hi; [|discriminate].
    destruct (rthread_step s t c) as [t'|] eqn:Hst; [|discriminate].
    eapply IH; [eapply rthread_step_rwf; eauto|exact H].
Qed.

Lemma rspawn_rwf G ps : forallb (guarded G []) ps = true -> rwf G (rspawn ps).
Proof.
  intros H. split.
  - intros i j ti tj l m Hi _ Hl _. exfalso.
    apply nth_error_In in Hi. unfold rspawn in Hi. apply in_map_iff in Hi as [p [<- _]]. exact Hl.
  - intros t Ht. unfold rspawn in Ht. apply in_map_iff in Ht as [p [<- Hp]]. simpl.
    rewrite forallb_forall in H. apply H; exact Hp.
Qed.

Lemma race_with_spec t r : race_with t r = true -> exists j u, nth_error r j = Some u /\ conflict (pending t) (pending u) = true.
Proof.
  induction r as [|u r IH]; simpl; [discriminate|].
  intros H. apply orb_true_iff in H as [H|H].
  - exists 0, u. split; [reflexivity|exact H].
  - destruct (IH H) as [j [v [Hj Hc]]]. exists (S j), v. split; [exact Hj|exact Hc].
Qed.

Lemma has_race_spec s : has_race s = true ->
  exists i j ti tj, i <> j /\ nth_error s i = Some ti /\ nth_error s j = Some tj /\
                    conflict (pending ti) (pending tj) = true.
Proof.
  induction s as [|t r IH]; simpl; [discriminate|].
  intros H. apply orb_true_iff in H as [H|H].
  - destruct (race_with_spec t r H) as [j [u [Hj Hc]]].
    exists 0, (S j), t, u. repeat split; auto.
  - destruct (IH H) as [i [j [ti [tj [Hne [Hi [Hj Hc]]]]]]].
    exists (S i), (S j), ti, tj. repeat split; auto.
Qed.

Lemma guarded_pending G t x w :
  guarded G (rheld t) (rcode t) = true -> pending t = Some (x, w) ->
  exists g, G x = Some g /\
            (w = true -> In (g, MW) (rheld t)) /\
            (In (g, MR) (rheld t) \/ In (g, MW) (rheld t)).
Proof.
  unfold pending. destruct (rcode t) as [| | | | |y w' k|]; try discriminate.
  intros Hg Hp. inversion Hp; subst y w'. cbn [guarded] in Hg.
  destruct (G x) as [g|]; [|discriminate]. exists g. split; [reflexivity|].
  apply andb_true_iff in Hg as [Hh _]. destruct w.
  - apply hmem_In in Hh. split; auto.
  - apply orb_true_iff in Hh as [Hh|Hh]; apply hmem_In in Hh; split; auto; discriminate.
Qed.

Theorem rwf_no_race G s : rwf G s -> has_race s = false.
Proof.
  intros [Hinv Hg]. destruct (has_race s) eqn:E; [|reflexivity]. exfalso.
  destruct (has_race_spec s E) as [i [j [ti [tj [Hne [Hi [Hj Hc]]]]]]].
  unfold conflict in Hc.
  destruct (pending ti) as [[x w1]|] eqn:Pi; [|discriminate].
  destruct (pending tj) as [[y w2]|] eqn:Pj; [|discriminate].
  apply andb_true_iff in Hc as [Hxy Hw]. apply Nat.eqb_eq in Hxy. subst y.
  destruct (guarded_pending G ti x w1 (Hg ti (nth_error_In _ _ Hi)) Pi) as [g [Hgx [Hw1 Hh1]]].
  destruct (guarded_pending G tj x w2 (Hg tj (nth_error_In _ _ Hj)) Pj) as [g' [Hgx' [Hw2 Hh2]]].
  rewrite Hgx in Hgx'. inversion Hgx'; subst g'.
  apply orb_true_iff in Hw as [Hw|Hw]; subst.
  - specialize (Hw1 eq_refl). destruct Hh2 as [H|H]; apply Hne; eapply Hinv; eauto.
  - specialize (Hw2 eq_refl). destruct Hh1 as [H|H]; apply Hne; symmetry; eapply Hinv; eauto.
Qed.

Theorem lockset_sound G ps sched s' :
  forallb (guarded G []) ps = true -> rrun (rspawn ps) sched = Some s' -> has_race s' = false.
Proof.
  intros Hg Hrun. apply (rwf_no_race G). eapply rrun_rwf; [apply rspawn_rwf; exact Hg|exact Hrun].
Qed.

